(* Proofs/C01Coo.v — the scipy views and from_array (Model/C01Coo.v): a coo matrix with distinct positions reads like the
   coordinate list it was built from; from_array of a dense matrix / of a coo matrix yields a sptenmat denoting that matrix. *)
From Coq Require Import List Arith Lia Bool Permutation Ring.
From PV Require Import Base.Index Base.Perm Base.Sum Np.Array Model.Sparse Model.Repr Model.C07Ops Model.C01Conv
  Model.C01Unique Model.C01Coo Proofs.C07Index Proofs.C07Proofs Proofs.C01Proofs Proofs.C01Unique Proofs.C01Converse.
Import ListNotations.

Section CooProofs.
Variable V : Type.
Variables (v0 v1 : V) (vadd vmul vsub : V -> V -> V) (vopp : V -> V) (isz : V -> bool).
Hypothesis Vring : ring_theory v0 v1 vadd vmul vsub vopp (@eq V).
Hypothesis isz_spec : forall v, isz v = true <-> v = v0.
Add Ring Vr01o : Vring.
Notation vsum := (vsum_at v0 vadd).
Notation lmv := (last_match_vsum V v0 v1 vadd vmul vsub vopp Vring).

(* a coo matrix whose positions are distinct and in bounds is the scatter of its triples *)
Lemma coo_toarray_distinct s subs (vals : list V) : length subs = length vals -> NoDup subs ->
  Forall (fun rc => inb s rc = true) subs ->
  coo_toarray v0 vadd (mkCoo s subs vals) = full v0 (mkSp s subs vals).
Proof.
  intros HL Hn Hb. apply (dense_ext v0); [apply wf_tabulate|apply wf_full|reflexivity|].
  intros rc Hrc. cbn [coo_toarray coo_shape dshape tabulate] in Hrc. unfold coo_toarray. rewrite den_tabulate by exact Hrc.
  rewrite den_full by exact Hb. unfold den_sp, entries, coo_entries. cbn [coo_subs coo_data ssubs svals].
  symmetry. apply lmv. now rewrite keys_combine.
Qed.

Theorem spmatrix_correct (S : sparse V) : length (sshape S) = 2 -> length (ssubs S) = length (svals S) -> NoDup (ssubs S) ->
  Forall (fun rc => inb (sshape S) rc = true) (ssubs S) ->
  exists C, spmatrix S = Some C /\ coo_shape C = sshape S /\ coo_toarray v0 vadd C = full v0 S /\
    forall rc, den_coo v0 vadd C rc = den_sp v0 S rc.
Proof.
  intros H2 HL Hn Hb. unfold spmatrix. rewrite H2. cbn [Nat.eqb]. eexists; split; [reflexivity|]. split; [reflexivity|].
  assert (E : coo_toarray v0 vadd (mkCoo (sshape S) (ssubs S) (svals S)) = full v0 S).
  { rewrite coo_toarray_distinct by auto. now destruct S. }
  split; [exact E|]. intros rc. unfold den_coo. rewrite E. now apply den_full.
Qed.

Theorem stm_double_correct (M : sptenmat V) : length (stm_subs M) = length (stm_vals M) -> NoDup (stm_subs M) ->
  Forall (fun rc => inb (stm_shape M) rc = true) (stm_subs M) ->
  coo_shape (stm_double M) = stm_shape M /\
  coo_toarray v0 vadd (stm_double M) = tm_data (sptenmat_full v0 M) /\
  forall rc, den_coo v0 vadd (stm_double M) rc = den_sp v0 (stm_sp M) rc.
Proof.
  intros HL Hn Hb. split; [reflexivity|].
  assert (E : coo_toarray v0 vadd (stm_double M) = tm_data (sptenmat_full v0 M)).
  { unfold stm_double. rewrite coo_toarray_distinct by auto. reflexivity. }
  split; [exact E|]. intros rc. unfold den_coo. rewrite E. unfold sptenmat_full. cbn [tm_data]. now apply den_full.
Qed.

Theorem tm_double_correct (M : tenmat V) : tm_double M = tm_data M /\ forall i, den_dense v0 (tm_double M) (tm_pos (tm_tshape M) (tm_r M) (tm_c M) i) = den_tenmat v0 M i.
Proof. split; reflexivity. Qed.

(* ------------------------------------------------------------------ from_array *)
Lemma rowmajor_spec R C rc : In rc (rowmajor_subs R C) <-> inb [R; C] rc = true.
Proof.
  unfold rowmajor_subs. rewrite in_map_iff. split.
  - intros (k & <- & Hk). apply in_seq in Hk. assert (HC : C <> 0) by (intros ->; lia). apply inb2.
    exists (k / C), (k mod C). split; auto. split; [apply Nat.div_lt_upper_bound; lia|now apply Nat.mod_upper_bound].
  - intros H. apply inb2 in H as (a & b & -> & Ha & Hb). exists (b + a * C). split.
    + rewrite Nat.div_add, Nat.mod_add by lia. rewrite Nat.div_small, Nat.mod_small by lia. reflexivity.
    + apply in_seq. nia.
Qed.

Lemma rowmajor_NoDup R C : NoDup (rowmajor_subs R C).
Proof.
  unfold rowmajor_subs. apply NoDup_map_inj; [apply seq_NoDup|]. intros a b Ha Hb E. apply in_seq in Ha.
  assert (HC : C <> 0) by (intros ->; lia). inversion E as [[E1 E2]].
  rewrite (Nat.div_mod a C HC), (Nat.div_mod b C HC). now rewrite E1, E2.
Qed.

Lemma combine_map_self {A B} (f : A -> B) (l : list A) : combine l (map f l) = map (fun a => (a, f a)) l.
Proof. induction l as [|a l IH]; cbn; auto. now rewrite IH. Qed.

Lemma vsum_graph (f : idx -> V) (subs : list idx) rc : NoDup subs ->
  vsum rc (combine subs (map f subs)) = if in_dec (list_eq_dec Nat.eq_dec) rc subs then f rc else v0.
Proof.
  intros Hn. set (l := combine subs (map f subs)).
  assert (Hk : map fst l = subs) by (unfold l; apply keys_combine; now rewrite map_length).
  destruct (in_dec (list_eq_dec Nat.eq_dec) rc subs) as [Hin|Hout].
  - apply (vsum_in V v0 v1 vadd vmul vsub vopp Vring); [now rewrite Hk|]. unfold l. rewrite combine_map_self.
    apply in_map_iff. exists rc. auto.
  - apply (vsum_notin V v0 v1 vadd vmul vsub vopp Vring). now rewrite Hk.
Qed.

Theorem from_array_dense_correct (A : dense V) R C rd cd ts M : wf_dense A -> dshape A = [R; C] ->
  from_array_dense v0 vadd isz A rd cd ts = Some M -> rd <> None \/ cd <> None ->
  (forall rc, den_sp v0 (stm_sp M) rc = den_dense v0 A rc) /\
  exists subs vals, stm_converse_concl V v0 vadd isz subs vals ts M.
Proof.
  intros W Hs E Hrc. unfold from_array_dense in E. rewrite Hs in E.
  set (subs := filter (fun rc => negb (isz (den_dense v0 A rc))) (rowmajor_subs R C)) in *.
  assert (Hn : NoDup subs) by (apply NoDup_filter, rowmajor_NoDup).
  assert (H2 : Forall (fun rc => length rc = 2) subs).
  { rewrite Forall_forall. intros rc Hin. apply filter_In in Hin as [Hin _]. apply rowmajor_spec in Hin.
    apply inb2 in Hin as (a & b & -> & _). reflexivity. }
  pose proof (stm_ctor_converse V v0 v1 vadd vmul vsub vopp isz Vring isz_spec _ _ _ _ _ _ E Hrc) as Cc.
  cbn [olist] in Cc. specialize (Cc ltac:(now rewrite map_length) H2).
  split; [|eauto]. intros rc. destruct Cc as (_ & _ & _ & _ & Hden & _). rewrite Hden, vsum_graph by exact Hn.
  destruct (in_dec (list_eq_dec Nat.eq_dec) rc subs) as [Hin|Hout]; [reflexivity|].
  destruct (inb [R; C] rc) eqn:Hb.
  - assert (Hz : isz (den_dense v0 A rc) = true).
    { destruct (isz (den_dense v0 A rc)) eqn:Z; auto. exfalso. apply Hout. apply filter_In. split; [now apply rowmajor_spec|].
      now rewrite Z. }
    symmetry. now apply isz_spec.
  - symmetry. apply den_dense_out. now rewrite Hs.
Qed.

Theorem from_array_coo_correct (Cm : coo V) rd cd ts M : length (coo_subs Cm) = length (coo_data Cm) ->
  Forall (fun rc => length rc = 2) (coo_subs Cm) ->
  from_array_coo vadd isz Cm rd cd ts = Some M -> rd <> None \/ cd <> None ->
  (forall rc, den_sp v0 (stm_sp M) rc = vsum rc (coo_entries Cm)) /\
  (forall rc, inb (coo_shape Cm) rc = true -> den_sp v0 (stm_sp M) rc = den_coo v0 vadd Cm rc) /\
  exists subs vals, stm_converse_concl V v0 vadd isz subs vals ts M.
Proof.
  intros HL H2 E Hrc. unfold from_array_coo in E.
  set (es := filter (fun e => negb (isz (snd e))) (coo_entries Cm)) in *.
  pose proof (stm_ctor_converse V v0 v1 vadd vmul vsub vopp isz Vring isz_spec _ _ _ _ _ _ E Hrc) as Cc.
  cbn [olist] in Cc.
  assert (H2' : Forall (fun rc => length rc = 2) (map fst es)).
  { rewrite Forall_forall in *. intros rc Hin. apply in_map_iff in Hin as ([a b] & <- & Hin). apply filter_In in Hin as [Hin _].
    unfold coo_entries in Hin. apply in_combine_l in Hin. auto. }
  specialize (Cc ltac:(now rewrite !map_length) H2').
  assert (Hd : forall rc, den_sp v0 (stm_sp M) rc = vsum rc (coo_entries Cm)).
  { intros rc. destruct Cc as (_ & _ & _ & _ & Hden & _). rewrite Hden, combine_fst_snd. unfold es.
    apply (vsum_filter_nz V v0 v1 vadd vmul vsub vopp isz Vring isz_spec). }
  split; [exact Hd|]. split; [|eauto]. intros rc Hb. rewrite Hd. unfold den_coo, coo_toarray. now rewrite den_tabulate.
Qed.

End CooProofs.
