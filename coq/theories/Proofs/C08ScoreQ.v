(* Proofs/C08ScoreQ.v — wave 5: the penalised congruence matrix of ktensor.score (Model/C08Inst2.v: q_score_table, the executable Qc
   model the correspondence stream compares with pyttb's best_perm / best_score) satisfies the hypothesis the greedy-loop theorems of
   Props/C08b.v assume: on operands with non-negative weights every entry is >= 0, hence above the blanking value -10; normalize()
   produces such weights (C08_normal_form_nonneg), so for EVERY pair of Kruskal tensors with at least one mode, every norm oracle
   (the entries need no property of the norm), the matrix score() builds lies above -10 and best_perm is a permutation. *)
From Coq Require Import List Arith Lia Bool QArith Qabs Qcanon.
From PV Require Import Base.Index Base.Perm Model.Repr Model.Harness Model.C08Kruskal Model.C08More Model.C08Inst Model.C08Inst2
  Proofs.C08Proofs Proofs.C08NormalForm Proofs.C08Stmts Proofs.C08Score.
Import ListNotations.
Local Open Scope Qc_scope.

(* ---------------------------------------------------------------- small facts about exact rationals *)
Lemma this_Q2Qc (q : Q) : (this (Q2Qc q) == q)%Q.
Proof. cbn [this Q2Qc]. apply Qred_correct. Qed.

Lemma qabs_nonneg (x : Qc) : 0 <= qabs x.
Proof. unfold Qcle, qabs. rewrite !this_Q2Qc. apply Qabs_nonneg. Qed.

Lemma qc_mul_nonneg (a b : Qc) : 0 <= a -> 0 <= b -> 0 <= a * b.
Proof. intros Ha Hb. rewrite <- (Qcmult_0_l b). now apply Qcmult_le_compat_r. Qed.

Lemma fold_mul_nonneg (l : list Qc) : forall acc, 0 <= acc -> Forall (fun x => 0 <= x) l -> 0 <= fold_left Qcmult l acc.
Proof.
  induction l as [|x l IH]; intros acc Ha Hl; cbn [fold_left]; [exact Ha|].
  inversion Hl as [|? ? Hx Hl']; subst. apply IH; [now apply qc_mul_nonneg|exact Hl'].
Qed.

Lemma q1_nonneg : 0 <= q1.
Proof. unfold Qcle, q1. rewrite !this_Q2Qc. discriminate. Qed.

Lemma qleb_le (x y : Qc) : qleb x y = true <-> x <= y.
Proof. unfold qleb, Qcle. apply Qle_bool_iff. Qed.

(* the penalty 1 - |la - lb| / max(|la|, |lb|) of two NON-NEGATIVE weights is non-negative *)
Lemma penalty_nonneg (la lb : Qc) : 0 <= la -> 0 <= lb ->
  0 <= q1 - qabs (la - lb) / qmax (qabs la) (qabs lb).
Proof.
  intros Ha Hb.
  set (m := qmax (qabs la) (qabs lb)). set (d := qabs (la - lb)).
  assert (Hm0 : 0 <= m) by (unfold m, qmax; destruct (qleb _ _); apply qabs_nonneg).
  assert (Hdm : d <= m).
  { unfold d, m, qmax. destruct (qleb (qabs la) (qabs lb)) eqn:E.
    - unfold Qcle, qabs in *. unfold Qcminus, Qcplus, Qcopp. rewrite !this_Q2Qc in *.
      apply Qabs_Qle_condition. rewrite (Qabs_pos (this lb)) by exact Hb. split.
      + setoid_replace (this la + - this lb)%Q with (- (this lb - this la))%Q by ring.
        apply Qopp_le_compat. setoid_replace (this lb) with (this lb - 0)%Q at 2 by ring.
        apply Qplus_le_compat; [apply Qle_refl|now apply Qopp_le_compat].
      + apply qleb_le in E. unfold Qcle, qabs in E. rewrite !this_Q2Qc in E.
        rewrite (Qabs_pos (this la)), (Qabs_pos (this lb)) in E by assumption.
        setoid_replace (this lb) with (this lb + - 0)%Q at 2 by ring.
        apply Qplus_le_compat; [exact E|now apply Qopp_le_compat].
    - assert (E' : ~ (qabs la <= qabs lb)) by (intros H; apply qleb_le in H; congruence).
      apply Qcnot_le_lt in E'. unfold Qclt, qabs in E'. rewrite !this_Q2Qc in E'.
      unfold Qcle, qabs in *. unfold Qcminus, Qcplus, Qcopp. rewrite !this_Q2Qc in *.
      apply Qabs_Qle_condition. rewrite (Qabs_pos (this la)) by exact Ha. split.
      + idtac.
        rewrite (Qabs_pos (this la)), (Qabs_pos (this lb)) in E' by assumption.
        setoid_replace (- this la)%Q with (0 + - this la)%Q by ring.
        apply Qplus_le_compat; [exact Ha|]. apply Qopp_le_compat. apply Qle_trans with (this la); [now apply Qlt_le_weak|].
        apply Qle_refl.
      + setoid_replace (this la) with (this la + - 0)%Q at 2 by ring.
        apply Qplus_le_compat; [apply Qle_refl|now apply Qopp_le_compat]. }
  fold m d. unfold Qcminus. apply (proj1 (Qcle_minus_iff (d / m) q1)).
  destruct (Qc_eq_dec m 0) as [Em|Em].
  - rewrite Em. unfold Qcdiv. assert (Ei : / 0 = 0) by (apply Qc_is_canon; reflexivity).
    rewrite Ei, Qcmult_0_r. exact q1_nonneg.
  - assert (Hmpos : 0 < m) by (destruct (Qcle_lt_or_eq _ _ Hm0) as [H|H]; [exact H|congruence]).
    apply (Qcmult_lt_0_le_reg_r _ _ m Hmpos). unfold Qcdiv.
    rewrite <- Qcmult_assoc, (Qcmult_inv_l m Em), Qcmult_1_r.
    assert (E1 : q1 * m = m) by (unfold q1; apply Qcmult_1_l). now rewrite E1.
Qed.

(* ---------------------------------------------------------------- the table *)
Definition nonneg_weights (A : ktensor Qc) : Prop := forall r, (r < krank A)%nat -> 0 <= nth r (kweights A) q0.

Lemma nth_map_seq {A} (f : nat -> A) n k d : (k < n)%nat -> nth k (map f (seq 0 n)) d = f k.
Proof.
  intros H. rewrite (nth_indep _ d (f 0%nat)) by (rewrite map_length, seq_length; lia).
  rewrite map_nth. now rewrite seq_nth.
Qed.

(* every entry of the penalised congruence matrix of two operands with non-negative weights is non-negative
   (any factor entries, any shapes: the congruence part is a product of absolute values) *)
Theorem q_score_table_nonneg (A B : ktensor Qc) : nonneg_weights A -> nonneg_weights B ->
  forall ra rb, (ra < krank A)%nat -> (rb < krank B)%nat -> 0 <= nth rb (nth ra (q_score_table A B) []) q0.
Proof.
  intros HA HB ra rb Ha Hb. unfold q_score_table.
  rewrite (nth_map_seq _ (krank A) ra [] Ha), (nth_map_seq _ (krank B) rb q0 Hb). cbv zeta.
  apply qc_mul_nonneg.
  - destruct (Qc_eq_bool _ _ && Qc_eq_bool _ _); [exact q1_nonneg|].
    apply penalty_nonneg; [apply HA; exact Ha|apply HB; exact Hb].
  - apply fold_mul_nonneg; [exact q1_nonneg|]. apply Forall_forall. intros x Hx.
    apply in_map_iff in Hx as (n & <- & _). apply qabs_nonneg.
Qed.

Lemma nonneg_above_sentinel (x : Qc) : 0 <= x -> ltb qleb q_sent x = true.
Proof.
  intros H. unfold ltb. apply negb_true_iff. destruct (qleb x q_sent) eqn:E; [|reflexivity].
  apply qleb_le in E. exfalso. assert (Hs : q_sent < 0) by reflexivity.
  exact (Qcle_not_lt _ _ (Qcle_trans _ _ _ H E) Hs).
Qed.

(* ---------------------------------------------------------------- normalize() leaves non-negative weights (any norm oracle) *)
Lemma q_neg_opp (x : Qc) : q_neg x = true -> q_neg (Qcopp x) = false.
Proof.
  unfold q_neg. intros H. apply negb_true_iff in H. apply negb_false_iff. apply qleb_le.
  assert (Hx : x < 0) by (apply Qcnot_le_lt; intros L; apply qleb_le in L; unfold q0 in *; congruence).
  apply Qclt_le_weak in Hx. apply Qcopp_le_compat in Hx. exact Hx.
Qed.

Lemma qk_normalize_nonneg (t : nat) (K : ktensor Qc) : kfactors K <> [] ->
  krank (qk_normalize t WNone false None K) = krank K /\ nonneg_weights (qk_normalize t WNone false None K).
Proof.
  intros HK. unfold qk_normalize, k_normalize, k_absorb.
  destruct (fnc_rank_len Qc q0 q1 Qcmult Qcopp Qcinv (q_norm t) q_pos q_neg K) as [R1 R2].
  split; [exact R1|]. intros r Hr. rewrite R1 in Hr.
  destruct (ncols_rank_len Qc q0 q1 Qcmult Qcinv (q_norm t) q_pos K) as [N1 N2].
  pose proof (C08_normal_form_nonneg_pf Qc q0 q1 Qcplus Qcmult Qcminus Qcopp Qcrt q_neg
                (k_normalize_cols q0 q1 Qcmult Qcinv (q_norm t) q_pos K) r q_neg_opp) as G.
  assert (G' : q_neg (nth r (kweights (k_fix_neg q1 Qcmult Qcopp q_neg (k_normalize_cols q0 q1 Qcmult Qcinv (q_norm t) q_pos K))) q0) = false).
  { apply G; [|now rewrite N1]. intros E. apply HK. apply length_zero_iff_nil. rewrite <- N2, E. reflexivity. }
  unfold q_neg in G'. apply negb_false_iff in G'. apply qleb_le in G'. exact G'.
Qed.

(* ---------------------------------------------------------------- score(): the matrix lies above the blanking value, best_perm is a permutation *)
Theorem qk_score_C_above_sentinel (K L : ktensor Qc) : kfactors K <> [] -> kfactors L <> [] ->
  forall i j, (i < krank K)%nat -> (j < krank L)%nat -> ltb qleb q_sent (qk_score_C K L i j) = true.
Proof.
  intros HK HL i j Hi Hj. unfold qk_score_C.
  destruct (qk_normalize_nonneg 2 K HK) as [RK NK]. destruct (qk_normalize_nonneg 2 L HL) as [RL NL].
  apply nonneg_above_sentinel. apply q_score_table_nonneg; [exact NK|exact NL|now rewrite RK|now rewrite RL].
Qed.

Theorem qk_score_perm_is_perm (K L : ktensor Qc) : kfactors K <> [] -> kfactors L <> [] -> (krank L <= krank K)%nat ->
  is_perm (qk_score_perm K L) (krank K).
Proof.
  intros HK HL Hle. unfold qk_score_perm. apply score_perm_is_perm_Qc; [exact Hle|].
  apply qk_score_C_above_sentinel; assumption.
Qed.

(* non-vacuity: a 2 x 2 pair with a negative weight on one side (the sign step moves it into factor 0) *)
Example ex_score_perm :
  let K := mkK [Q2Qc 2; Q2Qc (-3)] [[[Q2Qc 3; Q2Qc 0]; [Q2Qc 4; Q2Qc 1]]; [[Q2Qc 1; Q2Qc 0]; [Q2Qc 0; Q2Qc 1]]] in
  let L := mkK [Q2Qc 3; Q2Qc 2] [[[Q2Qc 0; Q2Qc 3]; [Q2Qc 1; Q2Qc 4]]; [[Q2Qc 0; Q2Qc 1]; [Q2Qc 1; Q2Qc 0]]] in
  qk_score_perm K L = [1; 0]%nat.
Proof. vm_compute. reflexivity. Qed.
