(* Model/C01Coo.v — scipy coo_matrix as a list of (row, col) subscripts and values with a shape; `toarray()` SUMS the
   values stored at one position (scipy semantics). Transliterations of sptensor.spmatrix, sptenmat.double, tenmat.double,
   sptenmat.from_array (dense-matrix and sparse-matrix input).  Definitions only; proofs in Proofs/C01Coo.v. *)
From Coq Require Import List Arith Lia Bool.
From PV Require Import Base.Index Base.Perm Base.Sum Np.Array Model.Sparse Model.Repr Model.C07Ops Model.C01Conv Model.C01Unique.
Import ListNotations.

Section Coo.
Context {V : Type} (v0 : V) (vadd : V -> V -> V) (isz : V -> bool).

Record coo := mkCoo { coo_shape : shape; coo_subs : list idx; coo_data : list V }.

Definition coo_entries (C : coo) : list (idx * V) := combine (coo_subs C) (coo_data C).
(* coo_matrix.toarray(): zeros(shape); every stored value is ADDED at its position *)
Definition coo_toarray (C : coo) : dense V := tabulate (coo_shape C) (fun rc => vsum_at v0 vadd rc (coo_entries C)).
Definition den_coo (C : coo) (rc : idx) : V := den_dense v0 (coo_toarray C) rc.

(* sptensor.spmatrix(): 2-way only; coo_matrix((vals, subs.T), shape) *)
Definition spmatrix (S : sparse V) : option coo :=
  if length (sshape S) =? 2 then Some (mkCoo (sshape S) (ssubs S) (svals S)) else None.
(* sptenmat.double(): coo_matrix((vals, subs.T), self.shape) *)
Definition stm_double (M : sptenmat V) : coo := mkCoo (stm_shape M) (stm_subs M) (stm_vals M).
(* tenmat.double(): a copy of the data matrix *)
Definition tm_double (M : tenmat V) : dense V := tm_data M.

(* positions of a matrix in row-major order (what ndarray.nonzero() / np.nonzero scan) *)
Definition rowmajor_subs (R C : nat) : list idx := map (fun k => [k / C; k mod C]) (seq 0 (R * C)).

(* sptenmat.from_array(ndarray): vals = A[A.nonzero()], subs = vstack(A.nonzero()).T, then the constructor *)
Definition from_array_dense (A : dense V) (rd cd : option (list nat)) (ts : shape) : option (sptenmat V) :=
  match dshape A with
  | [R; C] =>
      let subs := filter (fun rc => negb (isz (den_dense v0 A rc))) (rowmajor_subs R C) in
      stm_ctor vadd isz (Some subs) (Some (map (den_dense v0 A) subs)) rd cd ts
  | _ => None
  end.

(* sptenmat.from_array(scipy sparse) as the property demands it: the stored entries that are nonzero, in stored order
   (pyttb takes subs from array.nonzero(), which drops explicitly stored zeros, and must take the values alike) *)
Definition from_array_coo (C : coo) (rd cd : option (list nat)) (ts : shape) : option (sptenmat V) :=
  let es := filter (fun e => negb (isz (snd e))) (coo_entries C) in
  stm_ctor vadd isz (Some (map fst es)) (Some (map snd es)) rd cd ts.

End Coo.

Arguments coo V : clear implicits.
Arguments mkCoo {V} coo_shape coo_subs coo_data.
