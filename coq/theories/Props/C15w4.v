(* Props/C15w4.v — wave 4: property C15 on the STORED CONTAINERS and on the code-level transliteration of the NEW versions
   over the translator-GENERATED tt_ind2sub / tt_sub2ind (Gen/GenUtils.v). Only statements closed by [exact] + Print Assumptions.
   Layers (each proved equal to the next):
     sym_new_lin / issym_new_lin  (Model/C15Lin.v: line-by-line, linear class indices from the generated helpers, accumarray,
                                   size check and overlap check -> Err)
     sym_new_d / sym_old_d        (Model/C15Dense.v: class-filter / explicit-average models, one materialised array per group
                                   or max-fix round — the functions the generated correspondence cases evaluate)
     tabulate s (spec_sym ...)    (the spec average of Model/C15Sym.v). *)
From Coq Require Import List Arith Bool ZArith Permutation Ring.
From PV Require Import Base.Index Base.Perm Base.Sum Np.Array Np.NpZ Model.Repr Model.C15Sym Model.C15Impl Model.C15Dense
  Model.C15Lin Model.C15K Model.C15KSym Proofs.C15Orbit Proofs.C15Dense Proofs.C15Lin Proofs.C15Code Proofs.C15KSym Model.C15Details Proofs.C15Details Model.C15OldTable Proofs.C15OldTable Proofs.C15W4.
Import ListNotations.

Section C15w4.
Variable V : Type.
Variables (v0 v1 : V) (vadd vmul vsub : V -> V -> V) (vopp vinv : V -> V) (veqb : V -> V -> bool).
Hypothesis Vring : ring_theory v0 v1 vadd vmul vsub vopp (@eq V).
Hypothesis char0 : forall n, n <> 0 -> of_nat v0 v1 vadd n <> v0.          (* characteristic 0 *)
Hypothesis vinv_l : forall x, x <> v0 -> vmul (vinv x) x = v1.
Hypothesis veqb_spec : forall a b, veqb a b = true <-> a = b.

(* ---- the den / tabulate round trip (w3c item 2): the container executions lose nothing between the steps ---- *)
(* NEW symmetrize executed group after group through a materialised array IS the tabulated spec average *)
Theorem C15_sym_new_container : forall (T : dense V) G, wf_dense T ->
  (forall g, In g G -> okg (length (dshape T)) g /\ group_cubical (dshape T) g = true) ->
  sym_new_d v0 v1 vadd vmul vinv veqb T G = tabulate (dshape T) (spec_sym v0 v1 vadd vmul vinv (den_dense v0 T) G).
Proof. exact (sym_new_d_tabulate V v0 v1 vadd vmul vsub vopp vinv veqb Vring veqb_spec char0 vinv_l). Qed.

(* OLD symmetrize executed with one materialised array per max-fix round (any max with max a a = a), pairwise disjoint
   cubical groups: the tabulated spec average — also for a container that is not well formed *)
Theorem C15_sym_old_container : forall (vmax : V -> V -> V), (forall a, vmax a a = a) ->
  forall (T : dense V) G, groups_ok (length (dshape T)) G -> (forall g, In g G -> group_cubical (dshape T) g = true) ->
  sym_old_d v0 v1 vadd vmul vinv vmax T G = tabulate (dshape T) (spec_sym v0 v1 vadd vmul vinv (den_dense v0 T) G).
Proof. exact (sym_old_d_correct V v0 v1 vadd vmul vsub vopp vinv Vring char0 vinv_l). Qed.

(* the two versions return the SAME stored container *)
Theorem C15_sym_containers_agree : forall (vmax : V -> V -> V), (forall a, vmax a a = a) ->
  forall (T : dense V) G, wf_dense T -> groups_ok (length (dshape T)) G ->
  (forall g, In g G -> group_cubical (dshape T) g = true) ->
  sym_new_d v0 v1 vadd vmul vinv veqb T G = sym_old_d v0 v1 vadd vmul vinv vmax T G.
Proof. exact (sym_d_versions_agree V v0 v1 vadd vmul vsub vopp vinv veqb Vring veqb_spec char0 vinv_l). Qed.

(* both symmetry tests on the container compute the spec test of the denoted array *)
Theorem C15_issym_containers : forall (T : dense V) G, (forall g, In g G -> okg (length (dshape T)) g) ->
  issym_new_d v0 veqb T G = spec_issym veqb (dshape T) (den_dense v0 T) G /\
  issym_old_d v0 veqb T G = spec_issym veqb (dshape T) (den_dense v0 T) G.
Proof. exact (issym_d_correct V v0 veqb veqb_spec). Qed.

(* ---- the transliteration over the GENERATED helpers = the container model; no hypothesis on the values (the two
   algorithms add the same values in the same order) ---- *)
Theorem C15_sym_new_generated_step : forall (T : dense V) g, wf_dense T -> dshape T <> [] ->
  okg (length (dshape T)) g -> group_cubical (dshape T) g = true ->
  sym_new_lin_step v0 v1 vadd vmul vinv veqb T g = Ok (sym_new_step v0 v1 vadd vmul vinv veqb T g).
Proof. exact (sym_new_lin_step_spec V v0 v1 vadd vmul vinv veqb). Qed.

Theorem C15_sym_new_generated : forall G (T : dense V), wf_dense T -> dshape T <> [] ->
  groups_ok (length (dshape T)) G -> (forall g, In g G -> group_cubical (dshape T) g = true) ->
  sym_new_lin v0 v1 vadd vmul vinv veqb T G = Ok (sym_new_d v0 v1 vadd vmul vinv veqb T G).
Proof. exact (sym_new_lin_spec V v0 v1 vadd vmul vinv veqb). Qed.

(* a group with unequal mode sizes, or a mode shared with a later group, ends in AssertionError whatever the data *)
Theorem C15_sym_new_generated_rejects : forall G (T : dense V),
  (exists g, In g G /\ group_cubical (dshape T) g = false) \/
  (exists G1 g G2, G = G1 ++ g :: G2 /\ overlaps g G2 = true) ->
  sym_new_lin v0 v1 vadd vmul vinv veqb T G = Err.
Proof. exact (sym_new_lin_rejects V v0 v1 vadd vmul vinv veqb). Qed.

(* NEW issymmetric over the generated tt_ind2sub, EVERY list of groups (no condition on the groups at all) *)
Theorem C15_issym_new_generated : forall (T : dense V) G, wf_dense T ->
  issym_new_lin v0 veqb T G = Ok (issym_new_d v0 veqb T G).
Proof. exact (issym_new_lin_spec V v0 veqb). Qed.

(* ---- the sentences of the property on the code-level transliteration ---- *)
(* "returns the average of the tensor over all permutations of the modes within each group" *)
Theorem C15_code_sym_new : forall (T : dense V) G, wf_dense T -> dshape T <> [] -> groups_ok (length (dshape T)) G ->
  (forall g, In g G -> group_cubical (dshape T) g = true) ->
  sym_new_lin v0 v1 vadd vmul vinv veqb T G = Ok (tabulate (dshape T) (spec_sym v0 v1 vadd vmul vinv (den_dense v0 T) G)).
Proof. exact (code_sym_new V v0 v1 vadd vmul vsub vopp vinv veqb Vring veqb_spec char0 vinv_l). Qed.

Theorem C15_code_issym_new : forall (T : dense V) G, wf_dense T -> (forall g, In g G -> okg (length (dshape T)) g) ->
  issym_new_lin v0 veqb T G = Ok (spec_issym veqb (dshape T) (den_dense v0 T) G).
Proof. exact (code_issym_new V v0 veqb veqb_spec). Qed.

(* "the symmetry test answers true exactly when the tensor is invariant under every permutation within the given groups" *)
Theorem C15_code_issym_exact : forall (T : dense V) G, wf_dense T -> (forall g, In g G -> okg (length (dshape T)) g) ->
  (issym_new_lin v0 veqb T G = Ok true <->
   forall g, In g G -> group_cubical (dshape T) g = true /\
     forall i vals, inb (dshape T) i = true -> Permutation (pick 0 g i) vals ->
       den_dense v0 T (put g vals i) = den_dense v0 T i).
Proof. exact (code_issym_exact V v0 veqb veqb_spec). Qed.

(* "an already symmetric tensor keeps its value": the stored container itself is returned — no hypothesis on the values *)
Theorem C15_code_sym_keeps_symmetric : forall (T : dense V) G, wf_dense T -> dshape T <> [] ->
  groups_ok (length (dshape T)) G ->
  issym_new_lin v0 veqb T G = Ok true -> sym_new_lin v0 v1 vadd vmul vinv veqb T G = Ok T.
Proof. exact (code_sym_keeps_symmetric V v0 v1 vadd vmul vinv veqb). Qed.

(* "the result passes the symmetry test" *)
Theorem C15_code_result_passes_test : forall (T S : dense V) G, wf_dense T -> dshape T <> [] ->
  groups_ok (length (dshape T)) G -> (forall g, In g G -> group_cubical (dshape T) g = true) ->
  sym_new_lin v0 v1 vadd vmul vinv veqb T G = Ok S -> issym_new_lin v0 veqb S G = Ok true.
Proof. exact (code_result_passes_test V v0 v1 vadd vmul vsub vopp vinv veqb Vring veqb_spec char0 vinv_l). Qed.

(* "symmetrising again changes nothing" *)
Theorem C15_code_sym_idempotent : forall (T S : dense V) G, wf_dense T -> dshape T <> [] ->
  groups_ok (length (dshape T)) G -> (forall g, In g G -> group_cubical (dshape T) g = true) ->
  sym_new_lin v0 v1 vadd vmul vinv veqb T G = Ok S -> sym_new_lin v0 v1 vadd vmul vinv veqb S G = Ok S.
Proof. exact (code_sym_idempotent V v0 v1 vadd vmul vsub vopp vinv veqb Vring veqb_spec char0 vinv_l). Qed.

(* "the two implementations agree": NEW over the generated helpers returns the container of OLD (average + max-fix rounds) *)
Theorem C15_code_sym_versions_agree : forall (vmax : V -> V -> V), (forall a, vmax a a = a) ->
  forall (T : dense V) G, wf_dense T -> dshape T <> [] -> groups_ok (length (dshape T)) G ->
  (forall g, In g G -> group_cubical (dshape T) g = true) ->
  sym_new_lin v0 v1 vadd vmul vinv veqb T G = Ok (sym_old_d v0 v1 vadd vmul vinv vmax T G).
Proof. exact (code_sym_versions_agree V v0 v1 vadd vmul vsub vopp vinv veqb Vring veqb_spec char0 vinv_l). Qed.

(* ---- OLD symmetrize AT CODE LEVEL (Model/C15OldTable.v): the table is built as the code builds it (itertools.permutations per
   group, np.tile, ntimes / nelems / ncopies loops: row r gets combos[i][(r // ncopies_i) % nelems_i] at the positions of group i),
   Y += X.permute(row) over the rows, Y /= total_perms, then the max-fix rounds ---- *)
(* the code's table holds every combination of within-group rearrangements exactly once (it is a rearrangement of the
   model's table sym_perms) *)
Theorem C15_old_table : forall N G, groups_ok N G -> Permutation (code_table N G) (sym_perms N G).
Proof. exact code_table_perm. Qed.

Theorem C15_sym_old_code : forall (vmax : V -> V -> V), (forall a, vmax a a = a) ->
  forall (T : dense V) G, groups_ok (length (dshape T)) G -> (forall g, In g G -> group_cubical (dshape T) g = true) ->
  sym_old_code v0 v1 vadd vmul vinv vmax T G = tabulate (dshape T) (spec_sym v0 v1 vadd vmul vinv (den_dense v0 T) G).
Proof. exact (sym_old_code_correct V v0 v1 vadd vmul vsub vopp vinv Vring char0 vinv_l). Qed.

(* "the two implementations agree", both at code level *)
Theorem C15_code_versions_agree : forall (vmax : V -> V -> V), (forall a, vmax a a = a) ->
  forall (T : dense V) G, wf_dense T -> dshape T <> [] -> groups_ok (length (dshape T)) G ->
  (forall g, In g G -> group_cubical (dshape T) g = true) ->
  sym_new_lin v0 v1 vadd vmul vinv veqb T G = Ok (sym_old_code v0 v1 vadd vmul vinv vmax T G).
Proof. exact (code_versions_agree V v0 v1 vadd vmul vsub vopp vinv Vring char0 vinv_l veqb veqb_spec). Qed.

(* ---- the Kruskal symmetry test (ktensor.issymmetric, Model/C15KSym.v: every pair of stored factor matrices has the same
   shape and the same entries) ---- *)
(* it answers true exactly when all stored factor matrices are one matrix *)
Theorem C15_ktest_exact : forall K : ktensor V,
  k_issym veqb K = true <-> exists M, kfactors K = repeat M (length (kfactors K)).
Proof. exact (k_issym_identical V veqb veqb_spec). Qed.

(* then the denoted array is invariant under every rearrangement of the subscripts (the converse does not hold: the test looks
   at the stored factors, cf. the sign-scrambled inputs of C15_ksym_keeps) *)
Theorem C15_ktest_sound : forall K : ktensor V, k_issym veqb K = true ->
  forall i i', Permutation i i' -> den_k v0 v1 vadd vmul K i = den_k v0 v1 vadd vmul K i'.
Proof. exact (k_issym_sound V v0 v1 vadd vmul vsub vopp veqb Vring veqb_spec). Qed.

(* "the result passes the symmetry test", Kruskal: for EVERY (normalised) input the body of ktensor.symmetrize returns a tensor
   that passes ktensor.issymmetric; [neg] is the oracle for "x < 0" *)
Theorem C15_ksym_passes_test : forall (neg : V -> bool) (K1 : ktensor V), kfactors K1 <> [] ->
  k_issym veqb (k15_core v0 v1 vadd vmul vopp vinv neg K1) = true.
Proof. exact (k15_core_passes_test V v0 v1 vadd vmul vopp vinv veqb veqb_spec). Qed.

(* ---- OLD issymmetric WITH its detail outputs (Model/C15Details.v): loop over itertools.permutations of every group, one row of
   all_perms and one entry max|X - X.permute(row)| of all_diffs per rearrangement; [vdist a b] = |a - b|, [nn] = "is >= 0" ---- *)
(* itertools.permutations (lexicographic in the positions) lists exactly the rearrangements *)
Theorem C15_itertools_permutations : forall l y, In y (iperms l) <-> Permutation l y.
Proof. exact iperms_spec. Qed.
(* all_perms has sum over the groups of |g|! rows *)
Theorem C15_details_rows_count : forall N G,
  length (old_rows N G) = fold_right (fun g acc => fact (length g) + acc) 0 G.
Proof. exact old_rows_length. Qed.

Section Details.
Variables (vdist vmax : V -> V -> V) (nn : V -> Prop).
Hypothesis nn0 : nn v0.
Hypothesis nn_dist : forall a b, nn (vdist a b).
Hypothesis nn_max : forall a b, nn a -> nn b -> nn (vmax a b).
Hypothesis dist_zero : forall a b, vdist a b = v0 <-> a = b.
Hypothesis max_zero : forall a b, nn a -> nn b -> (vmax a b = v0 <-> a = v0 /\ b = v0).

(* an entry of all_diffs is 0 exactly when the tensor equals its permuted copy at every in-bounds subscript *)
Theorem C15_details_diff_zero : forall s (X : idx -> V) p,
  veqb (old_diff v0 vdist vmax s X p) v0 = same_on veqb s X (permuted X p).
Proof. exact (old_diff_zero V v0 veqb vdist vmax nn veqb_spec nn0 nn_dist nn_max dist_zero max_zero). Qed.

(* "with and without detailed output": the answer returned with the details is the answer of the test without details, i.e.
   the spec test *)
Theorem C15_details_answer : forall s (X : idx -> V) G, (forall g, In g G -> okg (length s) g) ->
  details_answer (impl_issym_old_details v0 veqb vdist vmax s X G) = spec_issym veqb s X G.
Proof. exact (details_answer_spec V v0 veqb vdist vmax nn veqb_spec nn0 nn_dist nn_max dist_zero max_zero). Qed.
End Details.
End C15w4.

(* the hypotheses on |a - b| and max hold over Z (the instance the generated cases evaluate): nothing assumed *)
Theorem C15_details_answer_Z : forall s (X : idx -> Z) G,
  details_answer (z_old_details s X G) = impl_issym_old Z.eqb s X G.
Proof. exact z_details_answer_correct. Qed.

Print Assumptions C15_sym_new_container.
Print Assumptions C15_sym_old_container.
Print Assumptions C15_sym_containers_agree.
Print Assumptions C15_issym_containers.
Print Assumptions C15_sym_new_generated_step.
Print Assumptions C15_sym_new_generated.
Print Assumptions C15_sym_new_generated_rejects.
Print Assumptions C15_issym_new_generated.
Print Assumptions C15_code_sym_new.
Print Assumptions C15_code_issym_new.
Print Assumptions C15_code_issym_exact.
Print Assumptions C15_code_sym_keeps_symmetric.
Print Assumptions C15_code_result_passes_test.
Print Assumptions C15_code_sym_idempotent.
Print Assumptions C15_code_sym_versions_agree.
Print Assumptions C15_old_table.
Print Assumptions C15_sym_old_code.
Print Assumptions C15_code_versions_agree.
Print Assumptions C15_ktest_exact.
Print Assumptions C15_ktest_sound.
Print Assumptions C15_ksym_passes_test.
Print Assumptions C15_itertools_permutations.
Print Assumptions C15_details_rows_count.
Print Assumptions C15_details_diff_zero.
Print Assumptions C15_details_answer.
Print Assumptions C15_details_answer_Z.

(* non-vacuity: the transliteration over the generated helpers executed (vm_compute runs the generated tt_ind2sub /
   tt_sub2ind) on a NON-symmetric 2x3x3 tensor with the proper subgroup [1;2], two groups on 2x2x2x2, a non-cubical
   group and overlapping groups *)
From Coq Require Import QArith Qcanon.
From PV Require Import Model.Harness Model.C15Inst.
Local Open Scope nat_scope.
Example C15_example_code :
  q_res_dense_eqb (q_code_sym exT [[1; 2]]) (tabulate [2; 3; 3] (q_sym exT [[1; 2]])) = true /\
  q_res_dense_eqb (q_code_sym exT [[1; 2]]) (q_sym_old_d exT [[1; 2]]) = true /\
  q_res_dense_eqb (q_code_sym exT [[1; 2]]) exT = false /\
  q_code_issym exT [[1; 2]] = Ok false /\
  q_code_issym (tabulate [2; 3; 3] (q_sym exT [[1; 2]])) [[1; 2]] = Ok true /\
  q_code_sym exT [[0; 1]] = Err /\ q_code_issym exT [[0; 1]] = Ok false /\
  q_code_sym exT4 [[0; 1]; [1; 2]] = Err /\ q_code_rejects exT [[0; 1]] = true /\ q_code_matches exT [[1; 2]] (tabulate [2; 3; 3] (q_sym exT [[1; 2]])) = true /\
  q_res_dense_eqb (q_code_sym exT4 [[0; 1]; [2; 3]]) (q_sym_old_code exT4 [[0; 1]; [2; 3]]) = true /\
  code_table 4 [[0; 1]; [2; 3]] = [[0; 1; 2; 3]; [0; 1; 3; 2]; [1; 0; 2; 3]; [1; 0; 3; 2]].
Proof. exact s15_example_code. Qed.
