(* Props/W7C01c.v — accepted GENERATED tenmat / sptenmat constructors (Gen/GenTenmat7.v, Gen/GenSptenmat7.v): the stored mode split
   is a permutation of the modes in the sense of Base/Perm.v (the notion of C01's guard models), entries within range, the sizes
   of the two sides are picks of tshape.  Only statements, `exact`, Print Assumptions. *)
From Coq Require Import List ZArith Bool.
From PV Require Import Base.Index Base.Perm Np.NpZ Np.NpZ2 Np.NpZ3 Np.NpZ3b Np.NpZ7 Np.NpZ7b Model.C02Modes
  Gen.GenTenmat7 Gen.GenSptenmat7 Proofs.W7Perm.
Import ListNotations.
Local Open Scope Z_scope.

Theorem C01_gen_tenmat_init_accept_perm : forall (mo : ndz -> bool) (d : ndz) (isnum : bool) (rdims cdims : option vec)
    (tshape : option pyshp) (copy : bool) (M : tmz),
  nd7_size d <> 0 ->
  tenmat_init mo (Some d) isnum rdims cdims tshape copy = Ok M ->
  is_perm (nats (tm7_rindices M ++ tm7_cindices M)) (length (tm7_tshape M)) /\
  (forall x, In x (tm7_rindices M ++ tm7_cindices M) -> 0 <= x < zlen (tm7_tshape M)) /\
  np_take 0 (tm7_tshape M) (tm7_rindices M) = pick 0 (nats (tm7_rindices M)) (tm7_tshape M) /\
  np_take 0 (tm7_tshape M) (tm7_cindices M) = pick 0 (nats (tm7_cindices M)) (tm7_tshape M).
Proof. exact gen_tenmat_init_accept_perm. Qed.
Print Assumptions C01_gen_tenmat_init_accept_perm.

Theorem C01_gen_sptenmat_init_accept_perm : forall (subs : option mat) (vals rdims cdims : option vec) (tshape : vec) (copy : bool)
    (M : stmz),
  is_some rdims || is_some cdims = true ->
  sptenmat_init subs vals rdims cdims tshape copy = Ok M ->
  is_perm (nats (stm7_rdims M ++ stm7_cdims M)) (length tshape) /\
  (forall x, In x (stm7_rdims M ++ stm7_cdims M) -> 0 <= x < zlen tshape) /\
  np_take 0 tshape (stm7_rdims M) = pick 0 (nats (stm7_rdims M)) tshape /\
  np_take 0 tshape (stm7_cdims M) = pick 0 (nats (stm7_cdims M)) tshape.
Proof. exact gen_sptenmat_init_accept_perm. Qed.
Print Assumptions C01_gen_sptenmat_init_accept_perm.
