"""C01, fourth wave: ELEMENT-TYPE and constructor-path classes for every conversion.
The earlier streams hand pyttb float64 values and int64 subscripts through the copying constructors (wave 3 added memory layouts
for tensor / tenmat / from_array and post-construction factor assignment). Here every existing op is run again on inputs whose
arrays have another element type (int8 .. int64, uint8 / uint16 with non-negative data, float32, float64), whose subscript /
index arrays have another integer type (int8 .. uint16), in another memory layout, through copy=True AND copy=False of
tensor / sptensor / ktensor / ttensor / sumtensor / tenmat / sptenmat. The cases keep the op names of the base streams
(`decorate` only adds options that the runners of props/c01.py, c01_conv.py, c01_w3.py honour), so the same Coq comparers and the
same brute-force oracles judge them: the model is element-type agnostic, i.e. the claim checked is "the conversion denotes the same
array whatever the element type / layout / copy flag of the arrays it was given".
Imported by props/c01.py."""
import copy as _copy
import math
from vcheck import Case
import tgen
from props.c01_conv import DTYPES, LAYOUTS, gen_cases_conv, rand_k, rand_t, ordered_partitions
from props.c01_w3 import gen_cases_w3

SUBS_DTYPES = ["i1", "i2", "i4", "i8", "u1", "u2"]
MAG = 2 ** 27 + 1
_MOVE_OPS = {"to_tenmat", "chain", "to_sptensor", "tenmat_ctor", "to_sptenmat", "sptenmat_back", "sptenmat_full", "spmatrix", "spz",
             "sp_full", "sp_to_tensor", "sp_double", "sptenmat_ctor", "stm_nocopy", "from_array"}
VLAYS = ["C", "slice", "neg"]


def _pick_dt(rng, values):
    """an element type that can hold `values` exactly; returns (dtype-name, values made non-negative if unsigned)"""
    dt = rng.choice(DTYPES)
    if dt.startswith("u"):
        values = [abs(v) for v in values]
    return dt, values


def _pick_sdt(rng, maxval):
    cands = [d for d in SUBS_DTYPES if maxval <= {"i1": 127, "u1": 255}.get(d, 32767)]
    return rng.choice(cands)


def _t_bound(T):
    b = max([abs(v) for v in T["core"]] + [0])
    for f, j in zip(T["factors"], T["cshape"]):
        b *= j * max([abs(x) for row in f for x in row] + [0])
    return b


def _decorate_t(rng, T, allow_coo=False):
    small = _t_bound(T) <= 100
    pool = [d for d in DTYPES if small or d not in ("i1", "u1")]
    cdt = rng.choice(pool)
    fdt = [rng.choice(pool) for _ in range(rng.randint(1, 3))]
    if cdt.startswith("u"):
        T["core"] = [abs(v) for v in T["core"]]
        if "cvals" in T:
            T["cvals"] = [abs(v) for v in T["cvals"]]
    n = len(T["factors"])
    for k in range(n):
        if fdt[k % len(fdt)].startswith("u"):
            T["factors"][k] = [[abs(x) for x in row] for row in T["factors"][k]]
    T.pop("lay", None)
    T["ctor"] = {"copy": rng.random() < 0.5, "lay": [rng.choice(LAYOUTS + ["F", "F"]) for _ in range(rng.randint(1, 3))], "fdt": fdt,
                 "cdt": cdt, "ccopy": rng.random() < 0.5, "clay": rng.choice(LAYOUTS + ["F"])}
    if T.get("sparse_core"):
        T["ctor"]["sdt"] = _pick_sdt(rng, max(T["cshape"]))
    if allow_coo and rng.random() < 0.5:     # some factor matrices as scipy sparse coo matrices
        T["ctor"]["coo"] = [rng.random() < 0.5 for _ in range(rng.randint(1, 3))]


def _decorate_k(rng, K):
    K.pop("lay", None)
    K.pop("dt", None)
    K["ctor"] = {"copy": rng.random() < 0.4, "lay": [rng.choice(LAYOUTS + ["F", "F"]) for _ in range(rng.randint(1, 3))],
                 "wlay": rng.choice(VLAYS + ["F"])}


def decorate(rng, c):
    """the same request with other element types / index types / memory layouts / copy flags; None = nothing to vary"""
    a = _copy.deepcopy(c.args)
    op = c.op
    if op in ("to_tenmat", "chain"):
        a["dt"], a["data"] = _pick_dt(rng, a["data"])
        if op == "to_tenmat":
            a["lay"], a["copy"] = rng.choice(LAYOUTS + ["F"]), rng.random() < 0.5
    elif op in ("to_sptenmat", "sptenmat_back", "sptenmat_full", "spmatrix", "spz", "sp_full", "sp_to_tensor", "sp_double"):
        a["vdt"], a["vals"] = _pick_dt(rng, a["vals"])
        a["sdt"] = _pick_sdt(rng, max(a["shape"]))
        if op != "spz":
            a["copy"] = rng.random() < 0.5
            a["slay"], a["vlay"] = rng.choice(LAYOUTS + ["F"]), rng.choice(VLAYS + ["F"])
    elif op == "to_sptensor":
        a["dt"], a["data"] = _pick_dt(rng, a["data"])
        a["lay"], a["copy"] = rng.choice(LAYOUTS + ["F"]), rng.random() < 0.5
    elif op == "from_array":
        vals = a["mdata"] + ([t[2] for t in a["trip"]] if a.get("coo") else [])
        a["dt"], _ = _pick_dt(rng, vals)
        if a["dt"].startswith("u"):
            a["mdata"] = [abs(v) for v in a["mdata"]]
            if a.get("coo"):         # the triples are the matrix again (abs of a split position would not add up)
                R = a["mshape"][0]
                a["trip"] = [[k % R, k // R, v] for k, v in enumerate(a["mdata"]) if v != 0]
                rng.shuffle(a["trip"])
        if a.get("coo"):
            a["sdt"] = _pick_sdt(rng, max(a["mshape"]))
    elif op == "tenmat_ctor":
        if a.get("dshape") is None or a.get("data") is None:
            return None
        a["dt"], a["data"] = _pick_dt(rng, a["data"])
    elif op in ("sptenmat_ctor", "stm_nocopy"):
        if a.get("subs") is None or a.get("vals") is None:
            return None
        a["vdt"], a["vals"] = _pick_dt(rng, a["vals"])
        a["sdt"] = _pick_sdt(rng, max([x for rc in a["subs"] for x in rc] + [0]))
        a["slay"], a["vlay"] = rng.choice(LAYOUTS + ["F"]), rng.choice(VLAYS + ["F"])
    elif op == "kfull":
        if not a["K"]["weights"]:
            return None
        _decorate_k(rng, a["K"])
    elif op == "tfull":
        _decorate_t(rng, a["T"], allow_coo=True)
    elif op == "sumfull":
        for p in a["parts"]:
            if p["kind"] == "d":
                p["dt"], p["data"] = _pick_dt(rng, p["data"])
                p["lay"], p["copy"] = rng.choice(LAYOUTS + ["F"]), rng.random() < 0.5
            elif p["kind"] == "s":
                p["dt"], p["vals"] = _pick_dt(rng, p["vals"])
                p["sdt"], p["copy"] = _pick_sdt(rng, max(a["shape"])), rng.random() < 0.5
            elif p["kind"] == "k":
                if p["K"]["weights"]:
                    _decorate_k(rng, p["K"])
            else:
                _decorate_t(rng, p["T"], allow_coo=True)     # fifth wave: coo factor matrices inside sums (N-C01-5 repaired)
    else:
        return None
    # magnitudes: values far beyond float32 / int16 precision (exact in int64 / float64), for the ops that only MOVE values
    if op in _MOVE_OPS and rng.random() < 0.2:
        wide = rng.choice(["i8", "f8"])
        for key in ("data", "vals", "mdata"):
            if isinstance(a.get(key), list):
                a[key] = [v * MAG for v in a[key]]
        if op == "from_array" and a.get("coo"):
            a["trip"] = [[i, j, v * MAG] for i, j, v in a["trip"]]
        for key in ("dt", "vdt"):
            if key in a:
                a[key] = wide
    return Case(op, a, c.nontrivial)


def _rand_grow(rng, shp):
    """a growth history reaching shape shp (>= 2 modes, some mode with more than one cell); None if there is none"""
    if len(shp) < 2 or all(d == 1 for d in shp):
        return None
    kind = rng.choice(["elem", "elem", "subs", "block", "empty", "elem", "subs", "block", "empty",
                       "permute", "slice", "add", "reshape", "setitem"])
    if kind == "slice" and any(d < 2 for d in shp):      # an extraction that keeps every mode
        kind = "permute"
    while True:
        sub = [rng.randint(1, d) for d in shp]
        if any(x < d for x, d in zip(sub, shp)):
            break
    return {"kind": kind, "from": sub, "seed": rng.randrange(10 ** 6), "corner_first": rng.random() < 0.5}


def gen_grown(rng, big):
    """every conversion stream that starts from a dense tensor, on tensors GROWN by assignment (multi-step history: the state an
    earlier __setitem__ left — pyttb re-allocates with a buffer that is not Fortran-contiguous)"""
    cases = []
    shapes = [[2, 3], [3, 2], [3, 4], [4, 1, 3], [2, 3, 2], [3, 2, 4], [1, 3, 2], [2, 2, 3, 2]]
    shapes += [tgen.rand_shape(rng, maxn=4, maxcells=48, minn=2) for _ in range(40 if big else 10)]
    for shp in shapes:
        for _rep in range(3 if big else 2):
            g = _rand_grow(rng, shp)
            if g is None:
                continue
            n = math.prod(shp)
            fill = rng.choice([0.3, 0.5, 0.8, 1.0])
            data = tgen.rand_dense(rng, shp, fill)
            nt = any(data)
            N = len(shp)
            cases.append(Case("to_sptensor", {"shape": shp, "data": data, "grow": g}, nt))
            r, c = rng.choice(ordered_partitions(N))
            cases.append(Case("to_tenmat", {"shape": shp, "data": data, "rd": list(r), "cd": list(c), "cy": None, "grow": g}, nt))
            m = rng.randrange(N)
            cases.append(Case("to_tenmat", {"shape": shp, "data": data, "rd": [m], "cd": None, "cy": rng.choice(["fc", "bc", "t"]),
                                            "grow": g}, nt))
            r, c = rng.choice(ordered_partitions(N))
            r2, c2 = rng.choice(ordered_partitions(N))
            cases.append(Case("chain", {"shape": shp, "data": data, "lay": rng.choice(LAYOUTS + ["F"]), "copy": rng.random() < 0.5,
                                        "via": None, "give_shape": False, "rd": list(r), "cd": list(c), "rd2": list(r2), "cd2": list(c2),
                                        "grow": g}, nt))
            # a grown dense part first / later in a sum; a grown dense Tucker core
            other = tgen.rand_dense(rng, shp, 0.6)
            subs, vals = tgen.dense_to_sparse(shp, tgen.rand_dense(rng, shp, 0.4), rng, "random")
            parts = [{"kind": "d", "data": data, "grow": g}, {"kind": "s", "subs": subs, "vals": vals},
                     {"kind": "d", "data": other, "grow": _rand_grow(rng, shp)}]
            rng.shuffle(parts)
            cases.append(Case("sumfull", {"shape": shp, "parts": parts, "copy": rng.random() < 0.5}, True))
        # sparse tensors grown by assignment: shape = the extents the entries attain
        for _rep in range(2 if big else 1):
            cells = [list(i) for i in tgen.all_subs(shp)]
            subs = rng.sample(cells, rng.randint(1, min(7, len(cells))))
            sshp = [max(x[m] for x in subs) + 1 for m in range(len(shp))]
            vals = [rng.choice([-3, -2, -1, 1, 2, 3, 4]) for _ in subs]
            gs = {"kind": rng.choice(["elem", "subs"]), "keep": rng.randint(0, len(subs) - 1), "empty": rng.choice(["shape", "noshape"])}
            r, c = rng.choice(ordered_partitions(len(shp)))
            a = {"shape": sshp, "subs": subs, "vals": vals, "rd": list(r), "cd": list(c), "cy": None, "grow": gs}
            for op in ("to_sptenmat", "sptenmat_back", "sptenmat_full"):
                cases.append(Case(op, _copy.deepcopy(a), True))
            for op in ("sp_full", "sp_to_tensor", "sp_double"):
                cases.append(Case(op, {"shape": sshp, "subs": subs, "vals": vals, "grow": gs}, True))
            cases.append(Case("sumfull", {"shape": sshp, "copy": rng.random() < 0.5,
                                          "parts": [{"kind": "s", "subs": subs, "vals": vals, "grow": gs},
                                                    {"kind": "d", "data": tgen.rand_dense(rng, sshp, 0.6)}][::rng.choice([1, -1])]}, True))
        T = rand_t(rng, [rng.randint(1, 3) for _ in shp], False)
        T["cshape"], T["core"] = list(shp), tgen.rand_dense(rng, shp, 0.7)
        T["factors"] = [[[rng.randint(-2, 3) for _ in range(d)] for _ in range(rng.randint(1, 3))] for d in shp]
        T["cgrow"] = _rand_grow(rng, shp)
        if math.prod(len(f) for f in T["factors"]) * math.prod(shp) <= 400:
            cases.append(Case("tfull", {"shape": [len(f) for f in T["factors"]], "T": T}, any(T["core"])))
    return cases


def gen_cases_w4(rng, tier, base_extra=()):
    big = tier == "thorough"
    base = [c for c in gen_cases_conv(rng, "quick") + gen_cases_w3(rng, "quick") + list(base_extra) if c.op != "sptenmat_big"]
    byop = {}
    for c in base:
        byop.setdefault(c.op, []).append(c)
    cases = []
    for op in sorted(byop):
        pool = byop[op]
        # the malformed requests stay in: rejection must not depend on the element type either
        want = {"kfull": 25, "tfull": 30, "sumfull": 30, "chain": 20, "spz": 25, "stm_nocopy": 25, "tenmat_ctor": 30,
                "sptenmat_ctor": 30, "from_array": 25, "spmatrix": 10}.get(op, 30)
        want = want * (4 if big else 1)
        for c in (pool if len(pool) <= want else rng.sample(pool, want)):
            d = decorate(rng, c)
            if d is not None:
                cases.append(d)
    cases += gen_grown(rng, big)
    # narrow integer types of the subscript array against unfoldings with more rows / columns than the type can count
    # (int8: 127, uint8: 255): the stored entries sit in the last cells, the split is fully vectorised or random
    narrow = [[12, 11], [6, 5, 5], [16, 16], [4, 8, 9], [130], [2, 127], [128, 2], [3, 100]]
    for shp in (narrow if big else rng.sample(narrow, 5)):
        N = len(shp)
        for _rep in range(3 if big else 2):
            k = rng.randint(1, 5)
            subs = []
            while len(subs) < k:
                sub = [d - 1 - rng.randint(0, 1) if rng.random() < 0.6 else rng.randrange(d) for d in shp]
                if sub not in subs:
                    subs.append(sub)
            vals = [rng.choice([-3, -2, -1, 1, 2, 3, 4]) for _ in subs]
            allm = rng.sample(range(N), N)
            r, c = rng.choice([(allm, []), ([], allm), rng.choice(ordered_partitions(N))])
            fits = [d for d in ("i1", "u1", "i2", "u2") if max(shp) - 1 <= {"i1": 127, "u1": 255}.get(d, 32767)]
            a = {"shape": shp, "subs": subs, "vals": vals, "rd": list(r), "cd": list(c), "cy": None, "sdt": rng.choice(fits[:2]),
                 "copy": rng.random() < 0.5}
            for op in ("to_sptenmat", "sptenmat_back", "sptenmat_full"):
                cases.append(Case(op, _copy.deepcopy(a), True))
            cases.append(Case("sp_full", {"shape": shp, "subs": subs, "vals": vals, "sdt": a["sdt"], "copy": a["copy"]}, True))
    return cases
