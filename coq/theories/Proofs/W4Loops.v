(* Proofs/W4Loops.v — loop lemmas for the shapes of np_for that the translator emits for whole methods (option "m4"):
   collecting loops (append under a test), mapping loops (append of a computed item, Err on a failed guard) and the
   in-place update of every factor matrix of a ktensor record; plus the small list facts they need. *)
From Coq Require Import List ZArith Arith Bool Lia Permutation.
From PV Require Import Np.NpZ Np.NpZ2 Np.NpZ3 Np.NpZ3c Np.NpZ3d Np.NpZ3e Np.NpZ4 Proofs.NpZProofs.
Import ListNotations.
Local Open Scope Z_scope.

Lemma w4_idx_ok_nat {A} (l : list A) (k : nat) : idx_ok l (Z.of_nat k) = (k <? length l)%nat.
Proof.
  unfold idx_ok, zlen. destruct (Nat.ltb_spec k (length l)).
  - apply andb_true_intro. split; [apply Z.leb_le|apply Z.ltb_lt]; lia.
  - apply andb_false_intro2. apply Z.ltb_ge. lia.
Qed.

Lemma w4_idx_ok_range {A} (l : list A) i : 0 <= i < zlen l -> idx_ok l i = true.
Proof. intros H. unfold idx_ok. apply andb_true_intro. split; [apply Z.leb_le|apply Z.ltb_lt]; unfold zlen in *; lia. Qed.

Lemma w4_np_arange_0 n : np_arange 0 (Z.of_nat n) = map Z.of_nat (seq 0 n).
Proof. unfold np_arange. rewrite Z.sub_0_r, Nat2Z.id. apply map_ext. intros. lia. Qed.

Lemma w4_np_set_nat {A} (l : list A) (k : nat) x : np_set l (Z.of_nat k) x = upd l k x.
Proof. unfold np_set. destruct (Z.ltb_spec (Z.of_nat k) 0); [lia|]. now rewrite Nat2Z.id. Qed.

Lemma upd_app_mid {A} (pre : list A) x y l : upd (pre ++ x :: l) (length pre) y = pre ++ y :: l.
Proof. induction pre as [|a pre IH]; cbn; [reflexivity|]. now rewrite IH. Qed.

Lemma nth_app_mid {A} (pre : list A) x l d : nth (length pre) (pre ++ x :: l) d = x.
Proof. induction pre as [|a pre IH]; cbn; auto. Qed.

Lemma zlist_eqb_eq a : forall b, zlist_eqb a b = true <-> a = b.
Proof.
  induction a as [|x a IH]; intros [|y b]; cbn; split; intros H; try reflexivity; try discriminate.
  - apply andb_true_iff in H as [H1 H2]. apply Z.eqb_eq in H1. apply IH in H2. now subst.
  - injection H as -> ->. apply andb_true_intro. split; [apply Z.eqb_refl|now apply IH].
Qed.

(* for x in l: if p x: acc.append(x) *)
Lemma np_for_collect {X} (p : X -> bool) (body : X -> list X -> res (bool * list X)) (l : list X) :
  (forall x acc, body x acc = Ok (false, if p x then list_append acc x else acc)) ->
  forall acc, np_for l body acc = Ok (acc ++ filter p l).
Proof.
  intros Hb. induction l as [|x l IH]; intros acc; cbn [np_for filter].
  - now rewrite app_nil_r.
  - rewrite Hb. cbn [bind fst snd]. rewrite IH. unfold list_append. destruct (p x); [now rewrite <- app_assoc|reflexivity].
Qed.

(* for x in l: acc.append(h x)   (the evaluation of h x raises unless g x) *)
Lemma np_for_map {X Y} (g : X -> bool) (h : X -> Y) (body : X -> list Y -> res (bool * list Y)) (l : list X) :
  (forall x acc, body x acc = if g x then Ok (false, list_append acc (h x)) else Err) ->
  forall acc, np_for l body acc = if forallb g l then Ok (acc ++ map h l) else Err.
Proof.
  intros Hb. induction l as [|x l IH]; intros acc; cbn [np_for forallb map].
  - now rewrite app_nil_r.
  - rewrite Hb. destruct (g x); cbn [bind fst snd andb]; [|reflexivity].
    rewrite IH. unfold list_append. destruct (forallb g l); [now rewrite <- app_assoc|reflexivity].
Qed.

(* for i in range(K.ndims): K.factor_matrices[i] = g(K.factor_matrices[i])   (raises unless ok(K.factor_matrices[i])) *)
Lemma np_for_factors (ok : mat -> bool) (g : mat -> mat) (body : Z -> ktz -> res (bool * ktz)) :
  (forall i s, body i s = if idx_ok (kt_factors s) i && ok (znth [] (kt_factors s) i)
                          then Ok (false, kt_set_factor s i (g (znth [] (kt_factors s) i))) else Err) ->
  forall k, np_for (np_arange 0 (kt_ndims k)) body k =
            if forallb ok (kt_factors k) then Ok (mkkt (kt_weights k) (map g (kt_factors k))) else Err.
Proof.
  intros Hb [w fs]. unfold kt_ndims, zlen. cbn [kt_factors kt_weights]. rewrite w4_np_arange_0.
  assert (L : forall fs' pre, np_for (map Z.of_nat (seq (length pre) (length fs'))) body (mkkt w (pre ++ fs')) =
                              if forallb ok fs' then Ok (mkkt w (pre ++ map g fs')) else Err).
  { induction fs' as [|x fs' IH]; intros pre; cbn [length seq map np_for forallb].
    - reflexivity.
    - rewrite Hb. cbn [kt_factors]. rewrite w4_idx_ok_nat, znth_nat, nth_app_mid.
      replace (length pre <? length (pre ++ x :: fs'))%nat with true
        by (symmetry; apply Nat.ltb_lt; rewrite app_length; cbn; lia).
      cbn [andb]. destruct (ok x); cbn [bind fst snd]; [|reflexivity].
      unfold kt_set_factor. cbn [kt_weights kt_factors]. rewrite w4_np_set_nat, upd_app_mid.
      replace (pre ++ g x :: fs') with ((pre ++ [g x]) ++ fs') by (now rewrite <- app_assoc).
      replace (S (length pre)) with (length (pre ++ [g x])) by (rewrite app_length; cbn; lia).
      rewrite IH. now rewrite <- app_assoc. }
  exact (L fs []).
Qed.

(* a list whose sorted version is range(n) has every entry in [0, n) *)
Lemma sorted_is_range_in (l : vec) n : np_sort l = np_arange 0 n -> forall x, In x l -> 0 <= x < n.
Proof.
  intros E x Hx. apply in_np_arange. rewrite <- E.
  apply (Permutation_in x (Permutation_sym (np_sort_perm l))). exact Hx.
Qed.

Lemma sorted_is_range_length (l : vec) n : np_sort l = np_arange 0 (Z.of_nat n) -> length l = n.
Proof.
  intros E. rewrite <- (Permutation_length (np_sort_perm l)), E. unfold np_arange. rewrite map_length, seq_length. lia.
Qed.
