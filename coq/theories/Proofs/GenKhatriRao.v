(* Proofs/GenKhatriRao.v — bridge from the GENERATED khatrirao (Gen/GenKernels.v, regenerated from
   pyttb/khatrirao.py on every run) to the ring-generic model `khatrirao Z Z.mul` of Proofs/KhatriRao.v, and the
   column-wise-Kronecker theorem restated about the generated function. *)
From Coq Require Import List ZArith Arith Bool Lia Ring.
From PV Require Import Base.Index Model.Repr Np.NpZ Np.NpZ2 Proofs.NpZProofs Gen.GenKernels Proofs.KhatriRao.
Import ListNotations.
Local Open Scope Z_scope.

Notation hand_kr := (KhatriRao.khatrirao Z Z.mul).
Notation gen_kr := GenKernels.khatrirao.

Lemma zmap2_map2 l1 l2 : zmap2 Z.mul l1 l2 = map2 Z Z.mul l1 l2.
Proof. revert l2; induction l1 as [|x l1 IH]; intros [|y l2]; cbn; auto; try (now rewrite IH). Qed.

Lemma np_kr_step_eq P M : np_kr_step P M = kr_step Z Z.mul P M.
Proof. reflexivity. Qed.

(* all rows of B have length R *)
Definition rowsR (R : Z) (B : mat) : bool := forallb (fun row => zlen row =? R) B.

Lemma zlen_eqb_nat {A} (r : list A) n : (zlen r =? Z.of_nat n) = Nat.eqb (length r) n.
Proof.
  unfold zlen. destruct (Nat.eqb_spec (length r) n) as [->|Hne]; [apply Z.eqb_refl|]. apply Z.eqb_neq. lia.
Qed.

Lemma forallb_ext {A} (f g : A -> bool) l : (forall x, f x = g x) -> forallb f l = forallb g l.
Proof. intros H. induction l as [|x l IH]; cbn; [reflexivity|]. now rewrite H, IH. Qed.

Lemma rowsR_nat n B : rowsR (Z.of_nat n) B = forallb (fun r : vec => Nat.eqb (length r) n) B.
Proof. unfold rowsR. apply forallb_ext. intros r. apply zlen_eqb_nat. Qed.

Lemma np_ncols_nat (A : mat) : np_ncols A = Z.of_nat (ncols A).
Proof. destruct A; reflexivity. Qed.

Lemma rowsR_ncols R B : B <> [] -> rowsR R B = true -> (np_ncols B =? R) = true.
Proof. destruct B as [|r B]; [congruence|]. cbn. intros _ H. now apply andb_true_iff in H as [H _]. Qed.

Lemma zmap2_len l1 l2 R : zlen l1 = R -> zlen l2 = R -> zlen (zmap2 Z.mul l1 l2) = R.
Proof.
  unfold zlen. intros H1 H2. assert (E : length l1 = length l2) by lia. rewrite <- H1. f_equal. clear -E.
  revert l2 E; induction l1 as [|x l1 IH]; intros [|y l2] E; cbn in *; try discriminate; auto.
Qed.

Lemma rowsR_kr_step R P M : rowsR R P = true -> rowsR R M = true -> rowsR R (np_kr_step P M) = true.
Proof.
  unfold rowsR. rewrite !forallb_forall. intros HP HM row Hrow. unfold np_kr_step in Hrow.
  apply in_flat_map in Hrow as (prow & Hp & Hrow). apply in_map_iff in Hrow as (mrow & <- & Hm).
  apply Z.eqb_eq. apply zmap2_len; apply Z.eqb_eq; auto.
Qed.

Lemma rowsR_fold R rest : forall A, rowsR R A = true -> forallb (rowsR R) rest = true ->
  rowsR R (fold_left (kr_step Z Z.mul) rest A) = true.
Proof.
  induction rest as [|M rest IH]; intros A HA Hrest; cbn [fold_left]; [exact HA|].
  cbn [forallb] in Hrest. apply andb_true_iff in Hrest as [HM Hrest]. apply IH; auto.
  rewrite <- np_kr_step_eq. now apply rowsR_kr_step.
Qed.

(* the loop of the generated function, written by hand (the bridge checks by conversion that the generated text is it) *)
Definition kr_body (R : Z) : mat -> mat -> res (bool * mat) :=
  fun i P => if np_reshape_ok i R && np_reshape_ok P R then Ok (false, np_kr_step P i) else Err.

Lemma kr_loop R rest : forall P, R <> 0 -> rowsR R P = true ->
  np_for rest (kr_body R) P = if forallb (rowsR R) rest then Ok (fold_left (kr_step Z Z.mul) rest P) else Err.
Proof.
  induction rest as [|M rest IH]; intros P HR HP; cbn [np_for forallb fold_left]; [reflexivity|].
  unfold kr_body at 1. unfold np_reshape_ok. fold (rowsR R M) (rowsR R P). rewrite HP.
  destruct (Z.eqb_spec R 0); [contradiction|]. cbn [negb andb]. rewrite andb_true_r.
  destruct (rowsR R M) eqn:HM; cbn [bind fst snd andb]; [|reflexivity].
  rewrite IH by (auto; now apply rowsR_kr_step). now rewrite np_kr_step_eq.
Qed.

Lemma kr_loop_zero rest P : rest <> [] -> np_for rest (kr_body 0) P = Err.
Proof. destruct rest; [congruence|]. intros _. cbn. unfold kr_body, np_reshape_ok. reflexivity. Qed.

Lemma kr_loop_bad_start R M rest P : rowsR R P = false -> np_for (M :: rest) (kr_body R) P = Err.
Proof.
  intros HP. cbn [np_for]. unfold kr_body, np_reshape_ok. fold (rowsR R M) (rowsR R P). rewrite HP.
  now rewrite !andb_false_r.
Qed.

(* the generated function after the argument-order step *)
Definition H_kr_core (Ms : list mat) : res mat :=
  if negb (forallb (fun _ : mat => 2 =? 2) Ms) then Err else
  if idx_ok Ms 0 then
    let R := np_ncols (znth [] Ms 0) in
    if negb (forallb (fun m => np_ncols m =? R) Ms) then Err else
    if (if zlen Ms =? 1 then idx_ok Ms 0 else idx_ok Ms 0) then
      bind (np_for (tl Ms) (kr_body R) (if zlen Ms =? 1 then znth [] Ms 0 else znth [] Ms 0))
           (fun P => if np_reshape_ok P R then Ok (np_reshape_rows P R) else Err)
    else Err
  else Err.

Definition H_kr (Ms : list mat) (reverse : bool) : res mat :=
  if negb (zlen Ms =? 1) || idx_ok Ms 0 then
    if (zlen Ms =? 1) && false then Err else
    if negb true then Err else
    bind (if reverse then Ok (rev Ms) else Ok Ms) H_kr_core
  else Err.

(* the only statement that depends on the shape of the generated text *)
Lemma gen_kr_shape Ms reverse : gen_kr Ms reverse = H_kr Ms reverse.
Proof. reflexivity. Qed.

Lemma idx_ok_0 {A} (l : list A) : idx_ok l 0 = negb (zlen l =? 0).
Proof.
  unfold idx_ok, zlen. destruct l; cbn [length]; [reflexivity|].
  destruct (Z.eqb_spec (Z.of_nat (S (length l))) 0); [lia|]. cbn [negb].
  apply andb_true_iff. split; [apply Z.leb_le|apply Z.ltb_lt]; lia.
Qed.

Lemma H_kr_prefix Ms reverse : H_kr Ms reverse = H_kr_core (if reverse then rev Ms else Ms).
Proof.
  unfold H_kr. rewrite andb_false_r. cbn [negb].
  assert (G : negb (zlen Ms =? 1) || idx_ok Ms 0 = true).
  { rewrite idx_ok_0. destruct (Z.eqb_spec (zlen Ms) 1) as [E|]; [|reflexivity]. rewrite E. reflexivity. }
  rewrite G. destruct reverse; reflexivity.
Qed.

Lemma forallb_const_true {A} (l : list A) : forallb (fun _ => 2 =? 2) l = true.
Proof. induction l; cbn; auto. Qed.

(* core bridge: matrices are non-empty row lists (a 0 x R array is not representable) *)
Lemma H_kr_core_eq (A : mat) (rest : list mat) : (forall B, In B (A :: rest) -> B <> []) ->
  H_kr_core (A :: rest) =
  if np_ncols A =? 0 then Err
  else if ncols_ok Z (A :: rest) then Ok (fold_left (kr_step Z Z.mul) rest A) else Err.
Proof.
  intros Hne. unfold H_kr_core. rewrite forallb_const_true. cbn [negb].
  rewrite idx_ok_0. assert (Hl : (zlen (A :: rest) =? 0) = false) by (apply Z.eqb_neq; unfold zlen; cbn [length]; lia).
  rewrite Hl. cbn [negb]. change (znth [] (A :: rest) 0) with A. cbv zeta.
  set (R := np_ncols A). cbn [tl].
  assert (Hif : (if zlen (A :: rest) =? 1 then A else A) = A) by (destruct (zlen (A :: rest) =? 1); reflexivity).
  rewrite Hif. clear Hif.
  replace (if zlen (A :: rest) =? 1 then true else true) with true by (destruct (zlen (A :: rest) =? 1); reflexivity).
  (* the hand model's check in terms of rowsR *)
  assert (Hok : ncols_ok Z (A :: rest) = rowsR R A && forallb (rowsR R) rest).
  { unfold ncols_ok. cbn [forallb]. unfold R. rewrite np_ncols_nat, rowsR_nat. f_equal.
    apply forallb_ext. intros B. now rewrite rowsR_nat. }
  rewrite Hok.
  destruct (Z.eqb_spec R 0) as [E0|HR].
  - (* zero columns: numpy cannot infer the -1 of the reshape *)
    destruct (negb (forallb (fun m => np_ncols m =? R) (A :: rest))); [reflexivity|].
    rewrite E0. destruct rest as [|M rest].
    + cbn [np_for bind]. unfold np_reshape_ok. reflexivity.
    + rewrite kr_loop_zero by discriminate. reflexivity.
  - destruct (rowsR R A) eqn:HA; cbn [andb].
    + destruct (forallb (rowsR R) rest) eqn:Hrest.
      * assert (Hc : forallb (fun m => np_ncols m =? R) (A :: rest) = true).
        { apply forallb_forall. intros B HB. apply rowsR_ncols; [now apply Hne|].
          destruct HB as [<-|HB]; [exact HA|]. rewrite forallb_forall in Hrest. auto. }
        rewrite Hc. cbn [negb]. rewrite kr_loop, Hrest by auto. cbn [bind].
        assert (HW : rowsR R (fold_left (kr_step Z Z.mul) rest A) = true) by (now apply rowsR_fold).
        unfold np_reshape_ok. fold (rowsR R (fold_left (kr_step Z Z.mul) rest A)). rewrite HW.
        destruct (Z.eqb_spec R 0); [contradiction|]. reflexivity.
      * destruct (negb (forallb (fun m => np_ncols m =? R) (A :: rest))); [reflexivity|].
        rewrite kr_loop, Hrest by auto. reflexivity.
    + destruct (negb (forallb (fun m => np_ncols m =? R) (A :: rest))); [reflexivity|].
      destruct rest as [|M rest].
      * cbn [np_for bind]. unfold np_reshape_ok. fold (rowsR R A). rewrite HA. now rewrite andb_false_r.
      * rewrite kr_loop_bad_start by auto. reflexivity.
Qed.

Lemma H_kr_core_hand (Ms : list mat) : (forall B, In B Ms -> B <> []) ->
  H_kr_core Ms =
  match Ms with
  | [] => Err
  | A :: _ => if np_ncols A =? 0 then Err
              else match (if ncols_ok Z Ms then match Ms with [] => None | A :: rest => Some (fold_left (kr_step Z Z.mul) rest A) end
                          else None)
                   with Some K => Ok K | None => Err end
  end.
Proof.
  intros Hne. destruct Ms as [|A rest]; [reflexivity|]. rewrite H_kr_core_eq by auto.
  destruct (np_ncols A =? 0); [reflexivity|]. destruct (ncols_ok Z (A :: rest)); reflexivity.
Qed.

(* BRIDGE: on lists of non-empty matrices the generated khatrirao is the hand model, except that a product of
   matrices with zero columns is rejected (numpy cannot infer the -1 of the reshape) *)
Theorem khatrirao_bridge (Ms : list mat) (reverse : bool) : (forall B, In B Ms -> B <> []) ->
  gen_kr Ms reverse =
  match (if reverse then rev Ms else Ms) with
  | [] => Err
  | A :: _ => if np_ncols A =? 0 then Err
              else match hand_kr reverse Ms with Some K => Ok K | None => Err end
  end.
Proof.
  intros Hne. rewrite gen_kr_shape, H_kr_prefix. unfold KhatriRao.khatrirao.
  destruct reverse.
  - apply (H_kr_core_hand (rev Ms)). intros B HB. apply Hne. now apply in_rev.
  - apply (H_kr_core_hand Ms). exact Hne.
Qed.

(* C17_khatrirao about the GENERATED function (V = Z): the Khatri-Rao product is the column-wise Kronecker
   product; row index = F-order linear index over the row indices with the LAST argument fastest, first slowest *)
Theorem khatrirao_gen_spec (A : mat) rest p R ns is b r :
  wfm Z A p R -> length ns = length rest -> length is = length rest ->
  (forall k, (k < length rest)%nat -> wfm Z (nth k rest []) (nth k ns 0%nat) R /\ (nth k is 0 < nth k ns 0)%nat) ->
  (b < p)%nat -> (r < R)%nat ->
  exists K, gen_kr (A :: rest) false = Ok K /\
    wfm Z K (size (p :: ns)) R /\
    mget 0 K (sub2ind (rev (p :: ns)) (rev (b :: is))) r = kr_prod Z 0 1 Z.mul rest is r * mget 0 A b r.
Proof.
  intros HA Hn Hi Hall Hb Hr.
  destruct (khatrirao_spec Z 0 1 Z.add Z.mul Z.sub Z.opp Zth A rest p R ns is b r HA Hn Hi Hall Hb Hr) as (K & EK & HW & HG).
  exists K. split; [|split; assumption].
  rewrite khatrirao_bridge.
  - assert (EK' : hand_kr false (A :: rest) = Some K) by exact EK.
    cbv iota. rewrite EK'.
    assert (HR : np_ncols A = Z.of_nat R).
    { destruct HA as [HAl HAr]. destruct A as [|row A']; [cbn in HAl; lia|]. cbn. unfold zlen. f_equal. apply HAr. cbn; auto. }
    rewrite HR. destruct (Z.eqb_spec (Z.of_nat R) 0); [lia|reflexivity].
  - intros B [<-|HB].
    + destruct HA as [HAl _]. destruct A; [cbn in HAl; lia|discriminate].
    + apply (In_nth _ _ []) in HB as (k & Hk & <-). destruct (Hall k Hk) as [[HBl _] Hlt].
      destruct (nth k rest []); [cbn in HBl; lia|discriminate].
Qed.

Theorem khatrirao_gen_reverse (Ms : list mat) : (forall B, In B Ms -> B <> []) ->
  gen_kr Ms true = gen_kr (rev Ms) false.
Proof.
  intros Hne. rewrite (khatrirao_bridge Ms true Hne).
  assert (Hne' : forall B, In B (rev Ms) -> B <> []) by (intros B HB; apply Hne; now apply in_rev).
  rewrite (khatrirao_bridge (rev Ms) false Hne'). reflexivity.
Qed.

(* rejection: matrices with different column counts *)
Theorem khatrirao_gen_rejects (A : mat) rest (B : mat) row :
  (forall M, In M (A :: rest) -> M <> []) -> In B (A :: rest) -> In row B -> zlen row <> np_ncols A ->
  gen_kr (A :: rest) false = Err.
Proof.
  intros Hne HB Hrow Hlen. rewrite khatrirao_bridge by auto.
  destruct (np_ncols A =? 0); [reflexivity|]. unfold KhatriRao.khatrirao.
  assert (E : ncols_ok Z (A :: rest) = false); [|now rewrite E].
  unfold ncols_ok. apply not_true_is_false. intros H. rewrite forallb_forall in H. specialize (H B HB).
  rewrite forallb_forall in H. specialize (H row Hrow). apply Nat.eqb_eq in H.
  apply Hlen. rewrite np_ncols_nat. unfold zlen. now f_equal.
Qed.

Example khatrirao_gen_example :
  gen_kr [[[1; 2]; [3; 4]]; [[5; 6]; [7; 8]; [9; 10]]] false
  = Ok [[5; 12]; [7; 16]; [9; 20]; [15; 24]; [21; 32]; [27; 40]].
Proof. reflexivity. Qed.
