(* Props/C08.v — Kruskal re-parameterisations preserve the tensor. Only statements, `exact`, Print Assumptions. *)
From Coq Require Import List Arith Bool ZArith Permutation Ring.
From PV Require Import Base.Index Base.Perm Base.Sum Model.Repr Model.C08Kruskal Proofs.C08Proofs.
Import ListNotations.

Section C08.
Variable V : Type.
Variables (v0 v1 : V) (vadd vmul vsub : V -> V -> V) (vopp vinv : V -> V).
Hypothesis Vring : ring_theory v0 v1 vadd vmul vsub vopp (@eq V).
Notation den := (den_k v0 v1 vadd vmul).

(* redistribute(mode): same array, weights all one *)
Theorem C08_invariant_redistribute : forall n K, n < length (kfactors K) ->
  (forall i, den (k_redistribute v1 vmul n K) i = den K i) /\
  kweights (k_redistribute v1 vmul n K) = map (fun _ => v1) (kweights K).
Proof. intros n K H. exact (conj (den_redistribute V v0 v1 vadd vmul vsub vopp Vring n K H) eq_refl). Qed.

(* arrange(permutation=p): same array for every permutation p of the components *)
Theorem C08_invariant_arrange_perm : forall p K, is_perm p (krank K) ->
  forall i, den (k_arrange_perm v0 p K) i = den K i.
Proof. intros; eapply den_gather_perm; eauto. Qed.

(* extract(idx): the sum of the selected components *)
Theorem C08_extract : forall idx K i,
  den (k_extract v0 idx K) i =
  if inb (kshape K) i then sum_over v0 vadd idx (comp V v0 v1 vmul K i) else v0.
Proof. apply den_gather. Qed.

(* K + L, K - L, -K, c * K *)
Theorem C08_add : forall K L i, wf_k K -> kshape K = kshape L -> den (k_add K L) i = vadd (den K i) (den L i).
Proof. intros; eapply den_add; eauto. Qed.
Theorem C08_sub : forall K L i, wf_k K -> kshape K = kshape L -> den (k_sub vopp K L) i = vsub (den K i) (den L i).
Proof. intros; eapply den_sub; eauto. Qed.
Theorem C08_neg : forall K i, den (k_neg vopp K) i = vopp (den K i).
Proof. intros; eapply den_neg; eauto. Qed.
Theorem C08_mul : forall c K i, den (k_scale vmul c K) i = vmul c (den K i).
Proof. intros; eapply den_scale; eauto. Qed.

(* vector round trip, exactly (list equality): from_vector(tovec(K), shape, contains_weights=True) = K *)
Theorem C08_vec_roundtrip : forall K, wf_k K -> k_from_vector v0 v1 (k_tovec v0 true K) (kshape K) true = K.
Proof. intros; eapply from_vector_tovec; eauto. Qed.

(* fixsigns(): same array, and an even number of factors is negated in every component (any sign oracle) *)
Theorem C08_invariant_fixsigns : forall (negcol : list V -> bool) K i,
  den (k_fixsigns v0 v1 vmul vopp negcol K) i = den K i.
Proof. intros; eapply den_fixsigns; eauto. Qed.
Theorem C08_sign_parity : forall (negcol : list V -> bool) K r,
  Nat.even (length (flips_of (fun n r => memb n (fs_modes v0 negcol K r)) (length (kfactors K)) r)) = true.
Proof. intros negcol K r. exact (fixsigns_parity V v0 vinv negcol K r). Qed.
(* fixsigns(other), pairing rule of the MATLAB original (pyttb's off-by-one is finding A-29): even number of flips
   for every score comparison / sign oracle *)
Theorem C08_sign_parity_other : forall (neg : V -> bool) (leb : V -> V -> bool) A B r,
  Nat.even (length (flips_of (fun n r => memb n (fso_modes v0 vadd vmul vopp neg leb A B r)) (length (kfactors A)) r)) = true.
Proof. intros neg leb A B r. exact (fixsigns_other_parity V v0 vadd vmul vopp vinv neg leb A B r). Qed.

(* the insertion argsort used by the executable instances is a permutation for every comparison function *)
Theorem C08_argsort_perm : forall (leb : V -> V -> bool) l, is_perm (argsort_desc leb l) (length l).
Proof. intros. apply argsort_desc_perm. Qed.

(* normalize / arrange / fixsigns(other): for EVERY norm oracle that is positive on non-zero columns, every sort oracle
   that returns a permutation, every sign test; 'all' needs an N-th root on the non-negative values *)
Section Oracles.
Variables (nrm : list V -> V) (pos neg : V -> bool) (root : V -> V) (srt : list V -> list nat).
Hypothesis vinv_r : forall x, x <> v0 -> vmul x (vinv x) = v1.
Hypothesis pos_nz : forall x, pos x = true -> x <> v0.
Hypothesis nrm_pos : forall l, pos (nrm l) = false -> Forall (fun y => y = v0) l.
Hypothesis srt_perm : forall l, is_perm (srt l) (length l).
Notation normalize := (k_normalize v0 v1 vmul vopp vinv nrm pos neg root srt).

Theorem C08_invariant_normalize_mode : forall n K, n < length (kfactors K) ->
  forall i, den (k_normalize_mode v0 v1 vmul vinv nrm pos n K) i = den K i.
Proof. intros; eapply den_normalize_mode; eauto. Qed.

Theorem C08_invariant_normalize : forall wf sort mode K,
  (forall n, mode = Some n -> n < length (kfactors K)) ->
  (mode = None -> wf = WAll -> kfactors K <> [] /\
     (forall x, neg x = false -> vpow v1 vmul (root x) (length (kfactors K)) = x) /\
     (forall x, neg x = true -> neg (vopp x) = false)) ->
  forall i, den (normalize wf sort mode K) i = den K i.
Proof. intros; eapply den_normalize_any; eauto. Qed.

Theorem C08_invariant_arrange : forall wf K, (forall n, wf = Some n -> n < length (kfactors K)) ->
  forall i, den (k_arrange v0 v1 vmul vopp vinv nrm pos neg root srt wf K) i = den K i.
Proof. intros; eapply den_arrange; eauto. Qed.

Theorem C08_invariant_fixsigns_other : forall (leb : V -> V -> bool) A B i,
  den (k_fixsigns_other V v0 v1 vadd vmul vopp vinv nrm pos neg root srt leb A B) i = den A i.
Proof. intros; eapply den_fixsigns_other; eauto. Qed.

(* normal form, sign of the weights: after the sign step no weight is negative *)
Theorem C08_normal_form_nonneg : forall K r, (forall x, neg x = true -> neg (vopp x) = false) ->
  kfactors K <> [] -> r < krank K -> neg (nth r (kweights (k_fix_neg v1 vmul vopp neg K)) v0) = false.
Proof. intros; eapply fix_neg_nonneg; eauto. Qed.
End Oracles.
End C08.

Print Assumptions C08_invariant_redistribute.
Print Assumptions C08_invariant_arrange_perm.
Print Assumptions C08_extract.
Print Assumptions C08_add.
Print Assumptions C08_sub.
Print Assumptions C08_neg.
Print Assumptions C08_mul.
Print Assumptions C08_vec_roundtrip.
Print Assumptions C08_invariant_fixsigns.
Print Assumptions C08_sign_parity.
Print Assumptions C08_sign_parity_other.
Print Assumptions C08_argsort_perm.
Print Assumptions C08_invariant_normalize_mode.
Print Assumptions C08_invariant_normalize.
Print Assumptions C08_invariant_arrange.
Print Assumptions C08_invariant_fixsigns_other.
Print Assumptions C08_normal_form_nonneg.

(* non-vacuity: concrete non-symmetric instances over Z *)
Example C08_example_roundtrip :
  let K := mkK [2; -3]%Z [[[1; 2]; [3; 4]; [5; 6]]; [[7; 8]; [9; 10]]]%Z in
  k_tovec 0%Z true K = [2; -3; 1; 3; 5; 2; 4; 6; 7; 9; 8; 10]%Z /\
  k_from_vector 0%Z 1%Z (k_tovec 0%Z true K) [3; 2] true = K.
Proof. split; reflexivity. Qed.
Example C08_example_redistribute_extract :
  let K := mkK [2; -3]%Z [[[1; 2]; [3; 4]]; [[5; 6]; [7; 8]]]%Z in
  k_redistribute 1%Z Z.mul 1 K = mkK [1; 1]%Z [[[1; 2]; [3; 4]]; [[10; -18]; [14; -24]]]%Z /\
  den_k 0%Z 1%Z Z.add Z.mul K [1; 0] = (-42)%Z /\
  den_k 0%Z 1%Z Z.add Z.mul (k_redistribute 1%Z Z.mul 1 K) [1; 0] = (-42)%Z /\
  k_extract 0%Z [1] K = mkK [-3]%Z [[[2]; [4]]; [[6]; [8]]]%Z.
Proof. repeat split; reflexivity. Qed.
