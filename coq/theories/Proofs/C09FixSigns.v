(* Proofs/C09FixSigns.v — ktensor.fixsigns (executable model k_fixsigns of Model/C08Kruskal.v) inside cp_als:
   every factor column is multiplied by +1 or -1, so its squared 2-norm is unchanged and a zero column stays zero, the rank, the
   shape and the weights are untouched, for EVERY sign oracle and every Kruskal tensor (rows of any length).  Consequence: the normal form
   of the model returned by the cp_als loop machine (C09NormalRun.run_normal_form) holds with sign fixing on as well. *)
From Coq Require Import List Arith Lia Bool Ring.
From PV Require Import Base.Index Base.Perm Base.Sum Np.Array Model.Sparse Model.Repr Model.C08Kruskal Model.C09Loop
  Proofs.C08Proofs Proofs.C09NormalForm Proofs.C09LoopProofs Proofs.C09NormalRun.
Import ListNotations.
Local Open Scope nat_scope.

Section FixSigns.
Variable V : Type.
Variables (v0 v1 : V) (vadd vmul vsub : V -> V -> V) (vopp : V -> V).
Hypothesis Vring : ring_theory v0 v1 vadd vmul vsub vopp (@eq V).
Add Ring Vr9f : Vring.
Local Notation "x + y" := (vadd x y).
Local Notation "x * y" := (vmul x y).
Local Notation mat := (@matrix V).
Local Notation colv := (col v0).
Local Notation dotv := (dot v0 vadd vmul).
Local Notation zm := (zipmul vmul).
Local Notation m1 := (vm1 v1 vopp).

Lemma nth_zipmul : forall (row cs : list V) r, r < length cs -> nth r (zm row cs) v0 = nth r row v0 * nth r cs v0.
Proof.
  induction row as [|x row IH]; intros cs r Hr.
  - cbn [zipmul]. destruct r; cbn [nth]; ring.
  - destruct cs as [|c cs]; cbn in Hr; [lia|]. cbn [zipmul]. destruct r as [|r]; cbn [nth]; [reflexivity|]. apply IH. lia.
Qed.

Lemma col_scale_cols (cs : list V) (A : mat) r : r < length cs ->
  colv (scale_cols vmul cs A) r = map (fun x => x * nth r cs v0) (colv A r).
Proof.
  intros Hr. unfold col, scale_cols. rewrite !map_map. apply map_ext. intros row. now apply nth_zipmul.
Qed.

Lemma dot_scaled (c : V) : forall l : list V,
  dotv (map (fun x => x * c) l) (map (fun x => x * c) l) = (c * c) * dotv l l.
Proof.
  unfold dot. induction l as [|x l IH]; cbn [map zipmul sumv]; [ring|]. rewrite IH. ring.
Qed.

Lemma zero_scaled (c : V) (l : list V) : Forall (fun y => y = v0) l -> Forall (fun y => y = v0) (map (fun x => x * c) l).
Proof. intros H. apply Forall_map. eapply Forall_impl; [|exact H]. cbn. intros a ->. ring. Qed.

Lemma nth_flip_factors (fl : nat -> nat -> bool) (R : nat) : forall (As : list mat) k n, n < length As ->
  nth n (flip_factors v1 vmul vopp fl R k As) [] =
  scale_cols vmul (map (fun r => if fl (Nat.add k n) r then m1 else v1) (seq 0 R)) (nth n As []).
Proof.
  induction As as [|A As IH]; intros k n Hn; cbn in Hn; [lia|].
  destruct n as [|n]; cbn [flip_factors nth].
  - now rewrite Nat.add_0_r.
  - rewrite IH by lia. now rewrite Nat.add_succ_r.
Qed.

Lemma flip_factors_rows (fl : nat -> nat -> bool) (R : nat) : forall (As : list mat) k,
  map (@nrows V) (flip_factors v1 vmul vopp fl R k As) = map (@nrows V) As.
Proof.
  induction As as [|A As IH]; intros k; cbn [flip_factors map]; [reflexivity|].
  rewrite IH. f_equal. unfold nrows, scale_cols. now rewrite map_length.
Qed.

Lemma sign_nth (f : nat -> bool) R r : r < R ->
  nth r (map (fun r => if f r then m1 else v1) (seq 0 R)) v0 = if f r then m1 else v1.
Proof.
  intros Hr. rewrite (nth_indep _ v0 ((fun r => if f r then m1 else v1) 0)) by (now rewrite map_length, seq_length).
  rewrite (map_nth (fun r => if f r then m1 else v1)), seq_nth by auto. reflexivity.
Qed.

(* every flip pattern: squared column norms and zero columns are preserved, rank / shape / weights untouched *)
Theorem flip_columns (fl : nat -> nat -> bool) (K : ktensor V) :
  krank (k_flip v1 vmul vopp fl K) = krank K /\ kshape (k_flip v1 vmul vopp fl K) = kshape K /\
  kweights (k_flip v1 vmul vopp fl K) = kweights K /\
  forall n r, n < length (kfactors K) -> r < krank K ->
    let c := colv (nth n (kfactors K) []) r in
    let c' := colv (nth n (kfactors (k_flip v1 vmul vopp fl K)) []) r in
    dotv c' c' = dotv c c /\ (Forall (fun y => y = v0) c -> Forall (fun y => y = v0) c').
Proof.
  split; [reflexivity|]. split; [unfold kshape, k_flip; cbn [kfactors]; apply flip_factors_rows|]. split; [reflexivity|].
  intros n r Hn Hr c c'. subst c c'. unfold k_flip. cbn [kfactors].
  rewrite nth_flip_factors by auto. rewrite col_scale_cols by (now rewrite map_length, seq_length).
  rewrite sign_nth by auto. cbn [Nat.add]. split.
  - rewrite dot_scaled. destruct (fl n r); unfold vm1; ring.
  - apply zero_scaled.
Qed.

Variable negcol : list V -> bool.
Local Notation fixs := (k_fixsigns v0 v1 vmul vopp negcol).

(* ktensor.fixsigns(): the same for the actual flip pattern (per component the first 2*floor(k/2) modes whose sign test fires) *)
Theorem fixsigns_columns (K : ktensor V) :
  krank (fixs K) = krank K /\ kshape (fixs K) = kshape K /\ kweights (fixs K) = kweights K /\
  forall n r, n < length (kfactors K) -> r < krank K ->
    let c := colv (nth n (kfactors K) []) r in
    let c' := colv (nth n (kfactors (fixs K)) []) r in
    dotv c' c' = dotv c c /\ (Forall (fun y => y = v0) c -> Forall (fun y => y = v0) c').
Proof. unfold k_fixsigns. apply flip_columns. Qed.

(* ---- the model returned by the loop machine, sign fixing on or off ---- *)
Variables (vinv : V -> V) (nrm : list V -> V) (pos neg : V -> bool) (root : V -> V) (srt : list V -> list nat).
Variable vle : V -> V -> Prop.
Hypothesis vinv_r : forall x, x <> v0 -> vmul x (vinv x) = v1.
Hypothesis pos_nz : forall x, pos x = true -> x <> v0.
Hypothesis nrm_pos : forall l, pos (nrm l) = false -> Forall (fun y => y = v0) l.
Hypothesis nrm_spec : forall l, vmul (nrm l) (nrm l) = dotv l l.
Hypothesis neg_opp : forall x, neg x = true -> neg (vopp x) = false.
Hypothesis srt_perm : forall l, is_perm (srt l) (length l).
Hypothesis srt_desc : forall l r, S r < length l -> vle (nth (nth (S r) (srt l) 0) l v0) (nth (nth r (srt l) 0) l v0).
Variables (F : Type) (sweep : nat -> ktensor V -> ktensor V) (fit_mttkrp fit_innerprod : ktensor V -> F * F)
          (fchange_lt : F -> F -> F -> bool) (fit0 : F).
Local Notation arr := (k_arrange v0 v1 vmul vopp vinv nrm pos neg root srt None).
Local Notation RUN := (cpals_run sweep fit_mttkrp fit_innerprod fchange_lt fit0 arr fixs).

Theorem run_normal_form_fix tol p s0 m dofix (r : result (ktensor V) F) :
  RUN tol p s0 m dofix = Some r ->
  let last := iter_sweep sweep (length (r_trace r)) s0 in
  kfactors last <> [] ->
  (krank (r_state r) = krank last /\ kshape (r_state r) = kshape last) /\
  (forall n q, n < length (kfactors last) -> q < krank last ->
     let c := colv (nth n (kfactors (r_state r)) []) q in dotv c c = v1 \/ Forall (fun y => y = v0) c) /\
  (forall q, q < krank last -> neg (nth q (kweights (r_state r)) v0) = false) /\
  (forall q, S q < krank last -> vle (nth (S q) (kweights (r_state r)) v0) (nth q (kweights (r_state r)) v0)).
Proof.
  intros H last Hne.
  destruct (run_normal_form V v0 v1 vadd vmul vsub vopp vinv Vring nrm pos neg root srt negcol vle
              vinv_r pos_nz nrm_pos nrm_spec neg_opp srt_perm srt_desc F sweep fit_mttkrp fit_innerprod fchange_lt fit0
              tol p s0 m dofix r H Hne) as (Hn & Hd & _).
  fold last in Hn, Hd.
  destruct (@cpals_state_all _ _ sweep fit_mttkrp fit_innerprod fchange_lt fit0 arr fixs tol p s0 m dofix r H) as (Hs & _).
  fold last in Hs.
  destruct (normal_form_arrange_nowf V v0 v1 vadd vmul vsub vopp vinv Vring nrm pos neg root srt vle
              vinv_r pos_nz nrm_pos nrm_spec neg_opp srt_perm srt_desc last Hne) as ((Hrk & Hsh) & Hu & _).
  assert (HL : length (kfactors (arr last)) = length (kfactors last)).
  { unfold kshape in Hsh. rewrite <- (map_length (@nrows V)), Hsh. apply map_length. }
  split; [|split; [|split; [exact Hn|exact Hd]]].
  - rewrite Hs. unfold cpals_finish. destruct dofix; [|split; [exact Hrk|exact Hsh]].
    destruct (fixsigns_columns (arr last)) as (F1 & F2 & _). rewrite F1, F2. split; [exact Hrk|exact Hsh].
  - intros n q Hnn Hq. rewrite Hs. unfold cpals_finish. destruct dofix; [|apply Hu; auto].
    destruct (fixsigns_columns (arr last)) as (_ & _ & _ & Fc).
    destruct (Fc n q ltac:(rewrite HL; exact Hnn) ltac:(rewrite Hrk; exact Hq)) as [Fd Fz].
    destruct (Hu n q Hnn Hq) as [U1 | U0].
    + left. cbn zeta. rewrite Fd. exact U1.
    + right. apply Fz. exact U0.
Qed.

End FixSigns.
