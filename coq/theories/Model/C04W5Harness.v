(* Model/C04W5Harness.v — C04, wave 5: comparer of the sparse histories against the TRANSLITERATION of sptensor._set_subscripts
   (Model/C04SpSetImpl.v over the GENERATED tt_ismember_rows; theorems Proofs/C04SpSetImpl.v).  For every step `S[subs] = vals` of a
   history the transliteration is run from the RAW state pyttb showed before the call (any stored order) and must produce EXACTLY the
   raw state pyttb shows after it: shape, subscripts, values and stored order (changed entries in place, deleted entries closed up,
   new entries appended in np.unique's row order).  A call pyttb rejected must be rejected by the transliteration too and leave
   the raw state untouched.  Other operations are not compared here (check_sparse does) — the walk continues from the observed state. *)
From Coq Require Import List Arith ZArith Bool.
From PV Require Import Base.Index Np.Array Model.Sparse Model.Harness Np.NpZ Model.C04Model Model.C04Harness Model.C04SpSetImpl.
Import ListNotations.

Definition zimpl_set_subscripts (S : sparse Z) (rows : list (list Z)) (r : rhs Z) : res (sparse Z) :=
  match impl_set_subscripts 0%Z zisz (of_sparse S) rows r with
  | Ok R => Ok (to_sparse R)
  | Err => Err
  end.

Fixpoint check_sparse_impl (S : sparse Z) (ops : list zop) (obs : list (sparse Z * option xout)) : bool :=
  match ops, obs with
  | [], [] => true
  | o :: ops', (S2, xo) :: obs' =>
      match o with
      | OSet (KSubs rows) r =>
          match zimpl_set_subscripts S rows r, xo with
          | Ok S1, Some _ => sp_raw_eqb S1 S2 && check_sparse_impl S2 ops' obs'
          | Err, None => sp_raw_eqb S S2 && check_sparse_impl S2 ops' obs'
          | _, _ => false
          end
      | _ => check_sparse_impl S2 ops' obs'
      end
  | _, _ => false
  end.

(* the A-13 / C04-N01 / C04-N02 input classes in one call: the tensor stores (1,1)=1, (0,0)=2, (0,2)=3 out of sorted order;
   S[[0,2],[1,1],[0,1],[2,3],[1,1]] = [0, 5, 7, 0, 6]: (0,2) is deleted, (1,1) is changed IN PLACE to the LAST value 6,
   (0,1) is appended, the zero at (2,3) is not stored but grows the shape to 3 x 4 *)
Example set_subscripts_impl_example :
  zimpl_set_subscripts (mkSp [2; 3] [[1; 1]; [0; 0]; [0; 2]] [1; 2; 3]%Z)
      [[0; 2]; [1; 1]; [0; 1]; [2; 3]; [1; 1]]%Z (RValues [0; 5; 7; 0; 6]%Z)
  = Ok (mkSp [3; 4] [[1; 1]; [0; 0]; [0; 1]] [6; 2; 7]%Z).
Proof. vm_compute. reflexivity. Qed.

(* growth of the order: S[[1,0,1]] = 4 on a 2 x 3 tensor: stored subscripts get a zero column, shape 2 x 3 x 2 *)
Example set_subscripts_impl_order_growth :
  zimpl_set_subscripts (mkSp [2; 3] [[1; 2]] [5]%Z) [[1; 0; 1]]%Z (RScalar 4%Z)
  = Ok (mkSp [2; 3; 2] [[1; 2; 0]; [1; 0; 1]] [5; 4]%Z).
Proof. vm_compute. reflexivity. Qed.
