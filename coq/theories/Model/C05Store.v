(* Model/C05Store.v — store model for property C05 (no mutation of operands, no aliasing).

   A store maps locations (numpy buffers) to their contents; an object (tensor, sptensor, ktensor, ...) is the
   list of locations of the buffers reachable from it.  In-place writes update one position of one buffer.
   What is proved here, for all stores / objects / write histories / value types:
     footprint : a write history through r changes no location outside locs r
     frame     : if locs r and locs a are disjoint, writes through one are invisible through the other
     copy      : allocation from a fresh-location counter yields an object disjoint from every existing one,
                 with the same contents, leaving every existing object unchanged
   The hypothesis "locs r ## locs a" is what the harness MEASURES per (operation, parameter class) with
   np.shares_memory; the boolean table checker at the end is evaluated on those measured rows. *)
From Coq Require Import List Arith Bool Lia.
Import ListNotations.

Definition loc := nat.

Section Store.
Context {V : Type}.

Definition store := loc -> list V.
Record obj := mkObj { locs : list loc }.

(* replace position k of a buffer (no-op when k is out of range: numpy would raise, nothing is written) *)
Fixpoint upd (k : nat) (v : V) (b : list V) : list V :=
  match b, k with
  | [], _ => []
  | _ :: t, 0 => v :: t
  | x :: t, S k' => x :: upd k' v t
  end.

Definition write (s : store) (l : loc) (k : nat) (v : V) : store :=
  fun l' => if Nat.eqb l' l then upd k v (s l) else s l'.

Definition wr := (loc * nat * V)%type.
Definition wloc (w : wr) : loc := fst (fst w).
Definition wpos (w : wr) : nat := snd (fst w).
Definition wval (w : wr) : V := snd w.

Fixpoint run (s : store) (h : list wr) : store :=
  match h with
  | [] => s
  | w :: h' => run (write s (wloc w) (wpos w) (wval w)) h'
  end.

Definition observe (s : store) (o : obj) : list (list V) := map s (locs o).

Definition disjoint (l1 l2 : list loc) : Prop := forall x, In x l1 -> ~ In x l2.
Definition through (r : obj) (h : list wr) : Prop := forall w, In w h -> In (wloc w) (locs r).

Lemma upd_length : forall k v b, length (upd k v b) = length b.
Proof.
  intros k v b. revert k. induction b as [|x t IH]; intros [|k]; simpl; auto.
Qed.

Lemma write_other : forall s l k v l', l' <> l -> write s l k v l' = s l'.
Proof.
  intros s l k v l' H. unfold write. destruct (Nat.eqb_spec l' l) as [E|E]; [contradiction|reflexivity].
Qed.

(* ---- footprint ---------------------------------------------------------------------- *)
Lemma inplace_footprint : forall (h : list wr) (s : store) (r : obj),
  through r h -> forall l, ~ In l (locs r) -> run s h l = s l.
Proof.
  induction h as [|w h IH]; intros s r T l Hl; simpl.
  - reflexivity.
  - rewrite (IH _ r).
    + apply write_other. intro E. apply Hl. rewrite E. apply T. left. reflexivity.
    + intros w' Hw'. apply T. right. exact Hw'.
    + exact Hl.
Qed.

(* buffers keep their length under any history (shape of every array is preserved by in-place writes) *)
Lemma run_length : forall (h : list wr) (s : store) l, length (run s h l) = length (s l).
Proof.
  induction h as [|w h IH]; intros s l; simpl; [reflexivity|].
  rewrite IH. unfold write. destruct (Nat.eqb_spec l (wloc w)) as [E|E]; [|reflexivity].
  rewrite upd_length, E. reflexivity.
Qed.

(* ---- frame -------------------------------------------------------------------------- *)
Lemma frame : forall (s : store) (r a : obj) (h : list wr),
  disjoint (locs r) (locs a) -> through r h -> observe (run s h) a = observe s a.
Proof.
  intros s r a h D T. unfold observe. apply map_ext_in. intros l Hl.
  apply (inplace_footprint h s r T). intro Hr. exact (D l Hr Hl).
Qed.

Lemma disjoint_sym : forall l1 l2, disjoint l1 l2 -> disjoint l2 l1.
Proof. intros l1 l2 D x H2 H1. exact (D x H1 H2). Qed.

Lemma frame_sym : forall (s : store) (r a : obj) (h : list wr),
  disjoint (locs r) (locs a) -> through a h -> observe (run s h) r = observe s r.
Proof.
  intros s r a h D T. apply (frame s a r h); [apply disjoint_sym; exact D | exact T].
Qed.

(* both directions, interleaved histories: any history whose writes go through r or through a third object c
   disjoint from a leaves a unchanged *)
Lemma frame_any : forall (s : store) (a : obj) (h : list wr),
  (forall w, In w h -> ~ In (wloc w) (locs a)) -> observe (run s h) a = observe s a.
Proof.
  intros s a h N.
  apply (frame s (mkObj (map wloc h)) a h).
  - intros x Hx Ha. simpl in Hx. apply in_map_iff in Hx. destruct Hx as [w [E Hw]]. subst x. exact (N w Hw Ha).
  - intros w Hw. simpl. apply in_map. exact Hw.
Qed.

(* ---- copy: allocation from a fresh-location counter ----------------------------------- *)
Record heap := mkHeap { hst : store; hnext : nat }.
Definition wf_obj (h : heap) (o : obj) : Prop := forall l, In l (locs o) -> l < hnext h.

Definition copy (h : heap) (o : obj) : heap * obj :=
  let n := length (locs o) in
  let a := hnext h in
  (mkHeap (fun l => if (a <=? l) && (l <? a + n) then hst h (nth (l - a) (locs o) 0) else hst h l) (a + n),
   mkObj (seq a n)).

Lemma copy_fresh : forall h o l, l < hnext h -> ~ In l (locs (snd (copy h o))).
Proof.
  intros h o l Hl Hin. simpl in Hin. apply in_seq in Hin. lia.
Qed.

Lemma copy_disjoint : forall h o a, wf_obj h a -> disjoint (locs (snd (copy h o))) (locs a).
Proof.
  intros h o a W x Hc Ha. exact (copy_fresh h o x (W x Ha) Hc).
Qed.

Lemma copy_old_unchanged : forall h o l, l < hnext h -> hst (fst (copy h o)) l = hst h l.
Proof.
  intros h o l Hl. simpl. destruct (Nat.leb_spec (hnext h) l) as [H|H]; [lia|reflexivity].
Qed.

Lemma copy_preserves : forall h o a, wf_obj h a -> observe (hst (fst (copy h o))) a = observe (hst h) a.
Proof.
  intros h o a W. unfold observe. apply map_ext_in. intros l Hl. apply copy_old_unchanged. exact (W l Hl).
Qed.

Lemma copy_contents : forall h o, observe (hst (fst (copy h o))) (snd (copy h o)) = observe (hst h) o.
Proof.
  intros h o. unfold observe.
  apply (nth_ext _ _ (hst (fst (copy h o)) 0) (hst h 0)).
  - simpl. rewrite !map_length, seq_length. reflexivity.
  - intros n Hn. rewrite map_length in Hn. simpl in Hn. rewrite seq_length in Hn.
    rewrite !map_nth. simpl locs. rewrite seq_nth by exact Hn. simpl.
    destruct (Nat.leb_spec (hnext h) (hnext h + n)) as [H1|H1]; [|lia].
    destruct (Nat.ltb_spec (hnext h + n) (hnext h + length (locs o))) as [H2|H2]; [|lia].
    simpl. replace (hnext h + n - hnext h) with n by lia. reflexivity.
Qed.

Lemma copy_wf : forall h o, wf_obj (fst (copy h o)) (snd (copy h o)) /\ hnext h <= hnext (fst (copy h o)).
Proof.
  intros h o. split.
  - intros l Hl. simpl in *. apply in_seq in Hl. lia.
  - simpl. lia.
Qed.

Lemma copy_wf_mono : forall h o a, wf_obj h a -> wf_obj (fst (copy h o)) a.
Proof. intros h o a W l Hl. simpl. specialize (W l Hl). lia. Qed.

Lemma copy_spec : forall h o,
  (forall l, l < hnext h -> ~ In l (locs (snd (copy h o)))) /\
  (forall a, wf_obj h a -> disjoint (locs (snd (copy h o))) (locs a)) /\
  observe (hst (fst (copy h o))) (snd (copy h o)) = observe (hst h) o /\
  (forall a, wf_obj h a -> observe (hst (fst (copy h o))) a = observe (hst h) a) /\
  wf_obj (fst (copy h o)) (snd (copy h o)).
Proof.
  intros h o. split; [exact (copy_fresh h o)|]. split; [exact (copy_disjoint h o)|].
  split; [exact (copy_contents h o)|]. split; [exact (copy_preserves h o)|]. exact (proj1 (copy_wf h o)).
Qed.

(* copy, then any history of writes through the copy: the original (and every other existing object) still
   shows its old contents; and any history through an existing object leaves the copy's contents alone *)
Lemma copy_independent : forall h o a ws,
  wf_obj h a -> through (snd (copy h o)) ws ->
  observe (run (hst (fst (copy h o))) ws) a = observe (hst h) a.
Proof.
  intros h o a ws W T.
  rewrite (frame _ (snd (copy h o)) a ws (copy_disjoint h o a W) T). apply copy_preserves. exact W.
Qed.

Lemma copy_independent_sym : forall h o a ws,
  wf_obj h a -> through a ws ->
  observe (run (hst (fst (copy h o))) ws) (snd (copy h o)) = observe (hst h) o.
Proof.
  intros h o a ws W T.
  rewrite (frame_sym _ (snd (copy h o)) a ws (copy_disjoint h o a W) T). apply copy_contents.
Qed.
End Store.

(* ---- executable side: boolean disjointness, and the table checker used by generated cases ---- *)
Definition disjointb (l1 l2 : list loc) : bool :=
  forallb (fun x => negb (existsb (Nat.eqb x) l2)) l1.

Lemma disjointb_spec : forall l1 l2, disjointb l1 l2 = true <-> disjoint l1 l2.
Proof.
  intros l1 l2. unfold disjointb, disjoint. rewrite forallb_forall. split.
  - intros H x H1 H2. specialize (H x H1). apply negb_true_iff in H.
    assert (E : existsb (Nat.eqb x) l2 = true) by (apply existsb_exists; exists x; split; [exact H2|apply Nat.eqb_refl]).
    congruence.
  - intros H x H1. apply negb_true_iff. destruct (existsb (Nat.eqb x) l2) eqn:E; [|reflexivity].
    apply existsb_exists in E. destruct E as [y [Hy Exy]]. apply Nat.eqb_eq in Exy. subst y.
    exfalso. exact (H x H1 Hy).
Qed.

(* One measured row: (operation, parameter class) as observed on pyttb.
     KPure    : returns a new object; operands must be unchanged and the result independent of them
     KInplace : documented in-place; only the receiver may change; "operands" below = the non-receiver operands
     KNoCopy  : construction/conversion with copy=False (documented sharing); operands must still be unchanged *)
Inductive kind := KPure | KInplace | KNoCopy.

Record row := mkRow {
  r_kind : kind;
  r_unchanged : bool;      (* every (non-receiver) operand array is bit-for-bit what it was before the call *)
  r_disjoint : bool;       (* no array / container reachable from the result shares storage with a (non-receiver) operand *)
  r_vis_result : bool;     (* after writing through every result array, some (non-receiver) operand changed *)
  r_vis_operand : bool;    (* after writing through every (non-receiver) operand array, some result array changed *)
  r_extra_ok : bool        (* no-copy rows: nothing is shared beyond the pairs the documentation of the construction
                              permits (same-position buffer of the argument); true when the row names no such set *)
}.

(* the property's demand on a row *)
Definition row_ok (r : row) : bool :=
  match r_kind r with
  | KPure | KInplace => r_unchanged r && r_disjoint r && negb (r_vis_result r) && negb (r_vis_operand r)
  | KNoCopy => r_unchanged r && r_extra_ok r
  end.

(* what the store model predicts from the measured disjointness bit: run the two-object scenario in the model.
   r = {0,1}; a = {2,3} when disjoint, {1,2} when not; one write through every location of r. *)
Definition sim_store : @store nat := fun l => [l; l + 10].
Definition sim_r : obj := mkObj [0; 1].
Definition sim_a (dis : bool) : obj := if dis then mkObj [2; 3] else mkObj [1; 2].
Definition sim_hist : list (@wr nat) := map (fun l => (l, 0, 99)) (locs sim_r).
Fixpoint leqb {A} (eqb : A -> A -> bool) (l1 l2 : list A) : bool :=
  match l1, l2 with
  | [], [] => true
  | x :: t1, y :: t2 => eqb x y && leqb eqb t1 t2
  | _, _ => false
  end.
Definition sim_visible (dis : bool) : bool :=
  negb (leqb (leqb Nat.eqb)
          (observe (run sim_store sim_hist) (sim_a dis)) (observe sim_store (sim_a dis))).

(* the frame theorem's hypothesis holds for the row (measured), and the measured cross-writes agree with the
   model's prediction: disjoint -> invisible (frame theorem); overlapping -> the sentinel write is visible *)
Definition frame_hyp_holds (r : row) : bool := r_disjoint r.
Definition frame_pred_ok (r : row) : bool :=
  Bool.eqb (r_vis_result r) (sim_visible (r_disjoint r)) && Bool.eqb (r_vis_operand r) (sim_visible (r_disjoint r)).

(* a correspondence case passes when the row meets the property's demand and the model's prediction *)
Definition row_check (r : row) : bool :=
  row_ok r && match r_kind r with KNoCopy => true | _ => frame_hyp_holds r && frame_pred_ok r end.

Definition rows_ok (rows : list row) : bool := forallb row_check rows.

Lemma sim_visible_spec : forall dis, sim_visible dis = negb dis.
Proof. intros [|]; reflexivity. Qed.

(* soundness of the table checker w.r.t. its reading: a passing pure/in-place row has the four bits the
   property demands; and the frame prediction for a disjoint row is exactly "no cross-write visible" *)
Lemma row_check_sound : forall r, row_check r = true ->
  r_unchanged r = true /\
  (r_kind r <> KNoCopy -> r_disjoint r = true /\ r_vis_result r = false /\ r_vis_operand r = false) /\
  (r_kind r = KNoCopy -> r_extra_ok r = true).
Proof.
  intros [k u d vr vo ex]. unfold row_check, row_ok, frame_hyp_holds, frame_pred_ok. simpl.
  destruct k, u, d, vr, vo, ex; simpl; intro H; try discriminate; split; try reflexivity; split; intro N;
    try discriminate; try (exfalso; apply N; reflexivity); repeat split; reflexivity.
Qed.

(* the simulated scenario is an instance of the frame theorem (disjoint case), not an independent stipulation *)
Lemma sim_instance_of_frame :
  observe (run sim_store sim_hist) (sim_a true) = observe sim_store (sim_a true).
Proof.
  apply (frame sim_store sim_r (sim_a true) sim_hist).
  - apply disjointb_spec. reflexivity.
  - intros w Hw. unfold sim_hist in Hw. apply in_map_iff in Hw. destruct Hw as [l [E Hl]]. subst w. exact Hl.
Qed.

(* ---- concrete instance used by the non-vacuity Examples in Props/C05.v ------------------- *)
(* store with three buffers; r = {0,1}, a = {2}; a history of three writes through r *)
Definition ex_s : @store nat := fun l => match l with 0 => [1; 2; 3] | 1 => [4; 5] | 2 => [6; 7; 8] | _ => [] end.
Definition ex_r := mkObj [0; 1].
Definition ex_a := mkObj [2].
Definition ex_h : list (@wr nat) := [(0, 1, 20); (1, 0, 40); (0, 2, 30)].
