(* Np/NpZ4f.v — primitives of the sixth translator batch (option "m6" of tools/pyx2v.py; first user: sptensor.squeeze,
   Gen/GenSptensor4b.v, once its singleton test reads `shapeArray != 1`).  Trusted base: each definition is what the numpy
   comparison named in its comment computes on a 1-d integer array and a Python int (compared with numpy itself by the
   prim6_* cases of tools/props/w4gen.py). *)
From Coq Require Import List ZArith Bool.
From PV Require Import Np.NpZ.
Import ListNotations.
Local Open Scope Z_scope.

(* a != c element-wise (a 1-d, c an int) *)
Definition np_ne_s (a : vec) (c : Z) : bvec := map (fun x => negb (x =? c)) a.
(* a == c element-wise (a 1-d, c an int) *)
Definition np_eq_s (a : vec) (c : Z) : bvec := map (fun x => x =? c) a.
