(* Proofs/C02PermProofs.v — the defining sums spec_ttv / spec_ttm_list do not depend on the ORDER in which the caller lists the
   (mode, multiplicand) pairs: invariance under a joint permutation of (dims, multiplicands), for all shapes and all values of a
   commutative ring.  With it the request theorems (tensor.ttv / tensor.ttm as called, modes sorted by the generated tt_dimscheck)
   are restated over the caller's own order. *)
From Coq Require Import List Arith Lia Bool Permutation Ring.
From Coq Require Import ZArith.
From PV Require Import Base.Index Base.Perm Base.Sum Np.NpZ Np.Array Model.Sparse Model.Repr Model.C02Spec Model.C02Dense Model.C02Modes Gen.GenUtils Proofs.NpZProofs Proofs.C02DenseProofs Proofs.C02ModesProofs.
Import ListNotations.

(* ---------------------------------------------------------------- list helpers *)
Lemma upd_comm {A} (l : list A) : forall a b x y, a <> b -> upd (upd l a x) b y = upd (upd l b y) a x.
Proof.
  induction l as [|h l IH]; intros [|a] [|b] x y H; cbn [upd]; try reflexivity; try lia.
  f_equal. apply IH. lia.
Qed.

Lemma upd_app_mid {A} (a : list A) x y (b : list A) : upd (a ++ x :: b) (length a) y = a ++ y :: b.
Proof. induction a as [|h a IH]; cbn [app length upd]; [reflexivity|]. now rewrite IH. Qed.

Lemma map_fst_combine {A B} (a : list A) : forall (b : list B), length b = length a -> map fst (combine a b) = a.
Proof. induction a as [|x a IH]; intros [|y b] H; cbn in *; try lia; auto. f_equal. apply IH. lia. Qed.

Lemma nth_upd_ne {A} (l : list A) : forall k v j d, j <> k -> nth j (upd l k v) d = nth j l d.
Proof. induction l as [|x l IH]; intros [|k] v [|j] d H; cbn [upd nth]; try reflexivity; try lia. apply IH. lia. Qed.

Lemma combine_map_self {A B} (g : A -> B) (l : list A) : combine l (map g l) = map (fun x => (x, g x)) l.
Proof. induction l as [|x l IH]; cbn; [reflexivity|]. now rewrite IH. Qed.

Lemma combine_map_perm {A B} (g : A -> B) (l l' : list A) : Permutation l l' ->
  Permutation (combine l (map g l)) (combine l' (map g l')).
Proof. intros H. rewrite !combine_map_self. now apply Permutation_map. Qed.

Lemma index_of_app_in q (a b : list nat) : In q a -> index_of q (a ++ b) = index_of q a.
Proof.
  induction a as [|x a IH]; intros H; [contradiction|]. cbn [app index_of].
  destruct (Nat.eqb_spec x q); [reflexivity|]. f_equal. apply IH. destruct H; [contradiction|assumption].
Qed.

Lemma index_of_app_notin q (a b : list nat) : ~ In q a -> index_of q (a ++ b) = length a + index_of q b.
Proof.
  induction a as [|x a IH]; intros H; [reflexivity|]. cbn [app index_of length].
  destruct (Nat.eqb_spec x q) as [->|Hne]; [exfalso; apply H; cbn; auto|].
  rewrite IH; [lia|]. intros Hin. apply H. cbn; auto.
Qed.

Lemma compl_ext N (d d' : list nat) : (forall x, In x d <-> In x d') -> compl N d = compl N d'.
Proof.
  intros H. unfold compl. apply filter_ext. intros m. f_equal.
  destruct (existsb (Nat.eqb m) d) eqn:E, (existsb (Nat.eqb m) d') eqn:E'; auto.
  - apply existsb_exists in E as (x & Hx & Hm). apply Nat.eqb_eq in Hm; subst x.
    apply H in Hx. assert (existsb (Nat.eqb m) d' = true) by (apply existsb_exists; exists m; split; auto; apply Nat.eqb_refl). congruence.
  - apply existsb_exists in E' as (x & Hx & Hm). apply Nat.eqb_eq in Hm; subst x.
    apply H in Hx. assert (existsb (Nat.eqb m) d = true) by (apply existsb_exists; exists m; split; auto; apply Nat.eqb_refl). congruence.
Qed.

(* unpick p x places x[m] at position p[m]; overwriting x[m] overwrites position p[m] *)
Lemma unpick_upd p n (x : idx) m k : is_perm p n -> length x = n -> m < n ->
  unpick p (upd x m k) = upd (unpick p x) (nth m p 0) k.
Proof.
  intros Hp HL Hm. pose proof (is_perm_length _ _ Hp) as HpL. pose proof (is_perm_NoDup _ _ Hp) as Hnd.
  unfold unpick. apply (nth_ext _ _ 0 0).
  - now rewrite upd_length, !pick_length.
  - intros q Hq. rewrite pick_length, invperm_length in Hq.
    assert (Hin : In q p) by (apply (is_perm_In p n q Hp); lia).
    assert (Hm' : nth m p 0 < n) by (apply (is_perm_In p n _ Hp), nth_In; lia).
    rewrite nth_upd by (rewrite pick_length, invperm_length; lia).
    rewrite !nth_pick by (rewrite invperm_length; lia).
    rewrite !nth_invperm by lia.
    rewrite nth_upd by lia.
    destruct (Nat.eqb_spec (index_of q p) m) as [E|E]; destruct (Nat.eqb_spec q (nth m p 0)) as [E'|E']; auto.
    + exfalso. apply E'. rewrite <- E. symmetry. now apply nth_index_of.
    + exfalso. apply E. rewrite E'. apply index_of_nth; auto. lia.
Qed.

Section P.
Variable V : Type.
Variables (v0 v1 : V) (vadd vmul vsub : V -> V -> V) (vopp : V -> V).
Hypothesis Vring : ring_theory v0 v1 vadd vmul vsub vopp (@eq V).
Add Ring Vr8 : Vring.

Local Notation "x + y" := (vadd x y).
Local Notation "x * y" := (vmul x y).
Local Notation Sn := (sum_n v0 vadd).
Local Notation smodes := (sum_modes v0 vadd vmul).

(* the defining sum of ttv written over (mode, vector) pairs: each pair sums its own mode of the subscript j *)
Fixpoint sum_at (s : shape) (pairs : list (nat * list V)) (j : idx) (h : idx -> V) : V :=
  match pairs with
  | [] => h j
  | (m, v) :: r => Sn (nth m s 0) (fun k => sum_at s r (upd j m k) h * nth k v v0)
  end.

Lemma sum_at_perm s (h : idx -> V) pairs pairs' : Permutation pairs pairs' -> NoDup (map fst pairs) ->
  forall j, sum_at s pairs j h = sum_at s pairs' j h.
Proof.
  induction 1 as [|[m v] l l' HP IH|[a va] [b vb] l|l l' l'' HP1 IH1 HP2 IH2]; intros Hnd j.
  - reflexivity.
  - cbn [sum_at]. apply sum_n_ext. intros k _. f_equal. apply IH. cbn in Hnd. now inversion Hnd.
  - cbn [sum_at]. cbn [map fst] in Hnd.
    assert (Hab : b <> a).
    { inversion Hnd as [|? ? Hn _]; subst. intros ->. apply Hn. cbn; auto. }
    unfold sum_n.
    transitivity (sum_over v0 vadd (seq 0 (nth a s 0)) (fun ka => sum_over v0 vadd (seq 0 (nth b s 0))
                    (fun kb => sum_at s l (upd (upd j a ka) b kb) h * nth kb vb v0 * nth ka va v0))).
    2:{ apply sum_over_ext. intros ka _. now rewrite (sum_over_scale_r _ _ _ _ _ _ _ Vring). }
    rewrite (sum_over_swap _ _ _ _ _ _ _ Vring).
    apply sum_over_ext. intros kb _. rewrite <- (sum_over_scale_r _ _ _ _ _ _ _ Vring).
    apply sum_over_ext. intros ka _. rewrite (upd_comm j b a kb ka Hab). ring.
  - rewrite IH1 by exact Hnd. apply IH2.
    apply (Permutation_NoDup (Permutation_map fst HP1)). exact Hnd.
Qed.

(* spec_ttv in that form *)
Lemma sum_modes_as_sum_at (f : idx -> V) s rem : forall (rest pre_d : list nat) (vs : list (list V)) (i' pre : idx),
  is_perm (rem ++ pre_d ++ rest) (length s) -> length vs = length rest ->
  length i' = length rem -> length pre = length pre_d ->
  smodes (pick 0 rest s) vs (fun ks => f (unpick (rem ++ pre_d ++ rest) (i' ++ pre ++ ks))) =
  sum_at s (combine rest vs) (unpick (rem ++ pre_d ++ rest) (i' ++ pre ++ repeat 0 (length rest))) f.
Proof.
  induction rest as [|d rest IH]; intros pre_d vs i' pre Hp HLv HLi HLp.
  - destruct vs; [|discriminate]. reflexivity.
  - destruct vs as [|v vs]; [discriminate|]. cbn [pick map combine sum_at sum_modes length repeat].
    apply sum_n_ext. intros k Hk. f_equal.
    set (p := rem ++ pre_d ++ d :: rest) in *.
    assert (Ep : p = rem ++ (pre_d ++ [d]) ++ rest) by (unfold p; now rewrite <- app_assoc).
    specialize (IH (pre_d ++ [d]) vs i' (pre ++ [k])). rewrite <- Ep in IH.
    specialize (IH Hp ltac:(cbn in HLv; lia) HLi ltac:(rewrite !app_length; cbn; lia)).
    rewrite <- !app_assoc in IH. cbn [app] in IH.
    fold (pick 0 rest s).
    transitivity (smodes (pick 0 rest s) vs (fun ks => f (unpick p (i' ++ (pre ++ [k]) ++ ks)))).
    { apply sum_modes_ext; [rewrite pick_length; cbn in HLv; lia|]. intros ks _. now rewrite <- app_assoc. }
    rewrite IH. f_equal.
    (* the subscript: position |rem| + |pre_d| of p is d *)
    pose proof (is_perm_length _ _ Hp) as HpL.
    assert (Ht : nth (length (i' ++ pre)) p 0 = d).
    { unfold p. rewrite app_assoc. rewrite app_nth2 by (rewrite !app_length; lia).
      rewrite !app_length. replace (Nat.sub _ _) with 0 by lia. reflexivity. }
    rewrite <- Ht.
    rewrite <- (unpick_upd p (length s)); auto.
    + f_equal. rewrite !app_assoc. now rewrite upd_app_mid.
    + unfold p in HpL. rewrite !app_length in *. cbn [length] in *. rewrite repeat_length. lia.
    + unfold p in HpL. rewrite !app_length in *. cbn [length] in *. lia.
Qed.

Lemma spec_ttv_as_sum_at (f : idx -> V) s dims vs i' :
  is_perm (compl (length s) dims ++ dims) (length s) -> length vs = length dims ->
  length i' = length (compl (length s) dims) ->
  spec_ttv v0 vadd vmul f s dims vs i' =
  sum_at s (combine dims vs) (unpick (compl (length s) dims ++ dims) (i' ++ repeat 0 (length dims))) f.
Proof.
  intros Hp HL HLi. unfold spec_ttv.
  exact (sum_modes_as_sum_at f s (compl (length s) dims) dims [] vs i' [] Hp HL HLi eq_refl).
Qed.

(* the base subscript (i' on the remaining modes, 0 on the selected ones) does not depend on the order of the selected modes *)
Lemma base_idx_perm rem (d d' : list nat) (i' : idx) : Permutation d d' -> length i' = length rem ->
  unpick (rem ++ d) (i' ++ repeat 0 (length d)) = unpick (rem ++ d') (i' ++ repeat 0 (length d')).
Proof.
  intros HP HL. unfold unpick, invperm, pick. rewrite !map_map. rewrite !app_length, (Permutation_length HP).
  apply map_ext. intros q.
  destruct (in_dec Nat.eq_dec q rem) as [Hin|Hin].
  - now rewrite !index_of_app_in.
  - rewrite !index_of_app_notin by exact Hin.
    rewrite !app_nth2 by lia.
    assert (Z : forall t n, nth t (repeat 0 n) 0 = 0).
    { intros t n. destruct (Nat.lt_ge_cases t n); [now rewrite nth_repeat|]. apply nth_overflow. now rewrite repeat_length. }
    now rewrite !Z.
Qed.

(* ---- invariance of the defining sum of ttv under a joint permutation of (modes, vectors) ---- *)
Theorem spec_ttv_perm_pairs (f : idx -> V) s dims vs dims' vs' i' :
  NoDup dims -> (forall x, In x dims -> x < length s) ->
  length vs = length dims -> length vs' = length dims' ->
  Permutation (combine dims vs) (combine dims' vs') ->
  length i' = length (compl (length s) dims) ->
  spec_ttv v0 vadd vmul f s dims vs i' = spec_ttv v0 vadd vmul f s dims' vs' i'.
Proof.
  intros Hnd Hr HL HL' HP HLi.
  assert (HPd : Permutation dims dims').
  { pose proof (Permutation_map fst HP) as Q.
    rewrite (map_fst_combine dims vs HL), (map_fst_combine dims' vs' HL') in Q. exact Q. }
  assert (Ec : compl (length s) dims = compl (length s) dims').
  { apply compl_ext. intros x. split; intros Hx; [now apply (Permutation_in x HPd)|now apply (Permutation_in x (Permutation_sym HPd))]. }
  assert (Hnd' : NoDup dims') by (now apply (Permutation_NoDup HPd)).
  assert (Hr' : forall x, In x dims' -> x < length s).
  { intros x Hx. apply Hr. now apply (Permutation_in x (Permutation_sym HPd)). }
  rewrite spec_ttv_as_sum_at; auto.
  2:{ now apply compl_perm. }
  rewrite spec_ttv_as_sum_at; auto.
  2:{ now apply compl_perm. }
  2:{ now rewrite <- Ec. }
  rewrite <- Ec. rewrite (base_idx_perm _ dims dims' i' HPd HLi).
  apply sum_at_perm; auto.
  now rewrite (map_fst_combine dims vs HL).
Qed.

(* ---- tensor times matrix: single-mode products in distinct modes commute; the list form is invariant under permutation ---- *)
Lemma spec_ttm_comm (f : idx -> V) s a b Ja Jb (Ua Ub : @matrix V) tr i : a <> b ->
  spec_ttm v0 vadd vmul (spec_ttm v0 vadd vmul f s a Ua tr) (upd s a Ja) b Ub tr i =
  spec_ttm v0 vadd vmul (spec_ttm v0 vadd vmul f s b Ub tr) (upd s b Jb) a Ua tr i.
Proof.
  intros Hab. unfold spec_ttm.
  rewrite (nth_upd_ne s a Ja b 0) by auto. rewrite (nth_upd_ne s b Jb a 0) by auto.
  set (ca := fun ka => if tr then mget v0 Ua ka (nth a i 0) else mget v0 Ua (nth a i 0) ka).
  set (cb := fun kb => if tr then mget v0 Ub kb (nth b i 0) else mget v0 Ub (nth b i 0) kb).
  unfold sum_n.
  transitivity (sum_over v0 vadd (seq 0 (nth b s 0)) (fun kb => sum_over v0 vadd (seq 0 (nth a s 0))
                  (fun ka => cb kb * (ca ka * f (upd (upd i b kb) a ka))))).
  { apply sum_over_ext. intros kb _. rewrite (sum_over_scale_l _ _ _ _ _ _ _ Vring). fold (cb kb). f_equal.
    apply sum_over_ext. intros ka _. rewrite (nth_upd_ne i b kb a 0) by auto. reflexivity. }
  rewrite (sum_over_swap _ _ _ _ _ _ _ Vring).
  apply sum_over_ext. intros ka _.
  transitivity (ca ka * sum_over v0 vadd (seq 0 (nth b s 0)) (fun kb => cb kb * f (upd (upd i a ka) b kb))).
  { rewrite <- (sum_over_scale_l _ _ _ _ _ _ _ Vring). apply sum_over_ext. intros kb _.
    rewrite (upd_comm i b a kb ka) by auto. ring. }
  fold (ca ka). f_equal. apply sum_over_ext. intros kb _. rewrite (nth_upd_ne i a ka b 0) by auto. reflexivity.
Qed.

Lemma spec_ttm_list_perm (nUs nUs' : list (nat * (nat * @matrix V))) : Permutation nUs nUs' ->
  forall (f : idx -> V) s tr, NoDup (map fst nUs) -> Forall (fun p => fst p < length s) nUs ->
  ttm_list_shape s nUs = ttm_list_shape s nUs' /\
  forall i, inb (ttm_list_shape s nUs) i = true ->
    spec_ttm_list v0 vadd vmul f s nUs tr i = spec_ttm_list v0 vadd vmul f s nUs' tr i.
Proof.
  induction 1 as [|[n [J U]] l l' HP IH|[b [Jb Ub]] [a [Ja Ua]] l|l l' l'' HP1 IH1 HP2 IH2]; intros f s tr Hnd HF.
  - split; reflexivity.
  - cbn [spec_ttm_list ttm_list_shape]. cbn [map fst] in Hnd. inversion Hnd; subst. inversion HF; subst.
    apply IH; auto. now rewrite upd_length.
  - cbn [spec_ttm_list ttm_list_shape]. cbn [map fst] in Hnd.
    assert (Hab : a <> b).
    { inversion Hnd as [|? ? Hn _]; subst. intros ->. apply Hn. cbn; auto. }
    rewrite (upd_comm s b a Jb Ja) by auto. split; [reflexivity|].
    intros i Hi. apply (spec_ttm_list_ext V v0 vadd vmul); auto.
    + inversion HF as [|? ? _ HF1]; subst. inversion HF1 as [|? ? _ HF2]; subst.
      rewrite !upd_length. exact HF2.
    + intros j _. apply spec_ttm_comm. exact Hab.
  - assert (Hnd' : NoDup (map fst l')) by (apply (Permutation_NoDup (Permutation_map fst HP1)); exact Hnd).
    assert (HF' : Forall (fun p => fst p < length s) l').
    { rewrite Forall_forall in *. intros x Hx. apply HF. now apply (Permutation_in x (Permutation_sym HP1)). }
    destruct (IH1 f s tr Hnd HF) as [S1 E1]. destruct (IH2 f s tr Hnd' HF') as [S2 E2].
    split; [congruence|]. intros i Hi. rewrite E1 by auto. apply E2. now rewrite <- S1.
Qed.

(* ---------------------------------------------------------------- tensor.ttv / tensor.ttm as called, in the CALLER's order *)
Local Notation den := (den_dense v0).

Lemma req_facts N dims excl (ms : Z) : admissible N dims excl ms ->
  let d := req_modes N dims excl in
  (forall x, In x d -> (0 <= x < N)%Z) /\ NoDup d.
Proof.
  intros Hadm. destruct (dimscheck_align tt N dims excl (repeat tt (Z.to_nat ms))) as (vidx & _ & _ & Hr & Hn).
  - destruct Hadm as (H1 & H2 & H3). repeat split; auto. unfold zlen. rewrite repeat_length.
    assert (0 <= ms)%Z.
    { destruct H3 as [->| ->]; [auto|]. unfold zlen. lia. }
    rewrite Z2Nat.id by auto. exact H3.
  - split; assumption.
Qed.

Theorem impl_ttv_req_caller (X : dense V) dims excl (vs : list (list V)) :
  wf_dense X -> admissible (Z.of_nat (length (dshape X))) dims excl (zlen vs) ->
  let d := req_modes (Z.of_nat (length (dshape X))) dims excl in
  let cd := nats d in
  exists Y, impl_ttv_req v0 vadd vmul X dims excl vs = Ok Y /\
    dshape Y = ttv_shape (dshape X) cd /\ wf_dense Y /\
    forall i', inb (ttv_shape (dshape X) cd) i' = true ->
      den Y i' = spec_ttv v0 vadd vmul (den X) (dshape X) cd (map (attach [] d vs) cd) i'.
Proof.
  intros W Hadm. cbn zeta.
  destruct (impl_ttv_req_correct V v0 vadd vmul X dims excl vs W Hadm) as (Y & E & S & WY & D).
  destruct (req_facts _ _ _ _ Hadm) as [Hr Hn]. cbn zeta in Hr, Hn.
  set (d := req_modes (Z.of_nat (length (dshape X))) dims excl) in *.
  assert (HP : Permutation (nats (np_sort d)) (nats d)) by (apply Permutation_map, np_sort_perm).
  assert (Ec : compl (length (dshape X)) (nats (np_sort d)) = compl (length (dshape X)) (nats d)).
  { apply compl_ext. intros x. split; intros Hx; [now apply (Permutation_in x HP)|now apply (Permutation_in x (Permutation_sym HP))]. }
  assert (Hnd : NoDup (nats (np_sort d))).
  { apply (Permutation_NoDup (Permutation_sym HP)). apply nats_NoDup; auto. intros x Hx. apply Hr in Hx. lia. }
  assert (Hrs : forall x, In x (nats (np_sort d)) -> x < length (dshape X)).
  { intros x Hx. apply (Permutation_in x HP) in Hx. now apply (nats_range _ d). }
  exists Y. split; [exact E|]. unfold ttv_shape in *. rewrite <- Ec. split; [exact S|]. split; [exact WY|].
  intros i' Hi. rewrite D by exact Hi.
  apply spec_ttv_perm_pairs; auto.
  - now rewrite map_length.
  - now rewrite map_length.
  - now apply combine_map_perm.
  - apply inb_length in Hi. now rewrite pick_length in Hi.
Qed.

(* with one multiplicand per listed mode the caller's association is the caller's list itself *)
Lemma attach_own_order {A} (dflt : A) (d : vec) (ms : list A) : NoDup (nats d) -> length ms = length d ->
  map (attach dflt d ms) (nats d) = ms.
Proof.
  intros Hn HL. apply (nth_ext _ _ dflt dflt).
  - unfold nats. now rewrite !map_length.
  - intros j Hj. unfold nats in Hj. rewrite !map_length in Hj.
    rewrite (nth_indep _ dflt (attach dflt d ms 0)) by (unfold nats; now rewrite !map_length).
    rewrite (map_nth (attach dflt d ms)). unfold attach. rewrite HL, Nat.eqb_refl.
    rewrite index_of_nth; auto. unfold nats. now rewrite map_length.
Qed.

Theorem impl_ttm_req_caller (X : dense V) dims excl (ms : list (nat * @matrix V)) tr :
  wf_dense X -> admissible (Z.of_nat (length (dshape X))) dims excl (zlen ms) ->
  let d := req_modes (Z.of_nat (length (dshape X))) dims excl in
  let cd := nats d in
  let nUs := combine cd (map (attach (@ttm_dflt V) d ms) cd) in
  d <> [] ->
  exists Y, impl_ttm_req v0 vadd vmul X dims excl ms tr = Ok Y /\
    dshape Y = ttm_list_shape (dshape X) nUs /\ wf_dense Y /\
    forall i, inb (ttm_list_shape (dshape X) nUs) i = true ->
      den Y i = spec_ttm_list v0 vadd vmul (den X) (dshape X) nUs tr i.
Proof.
  intros W Hadm. cbn zeta. intros Hne.
  destruct (impl_ttm_req_correct V v0 vadd vmul X dims excl ms tr W Hadm Hne) as (Y & E & S & WY & D).
  destruct (req_facts _ _ _ _ Hadm) as [Hr Hn]. cbn zeta in Hr, Hn.
  set (d := req_modes (Z.of_nat (length (dshape X))) dims excl) in *.
  assert (HP : Permutation (nats (np_sort d)) (nats d)) by (apply Permutation_map, np_sort_perm).
  assert (Hnd : NoDup (nats (np_sort d))).
  { apply (Permutation_NoDup (Permutation_sym HP)). apply nats_NoDup; auto. intros x Hx. apply Hr in Hx. lia. }
  assert (Hrs : forall x, In x (nats (np_sort d)) -> x < length (dshape X)).
  { intros x Hx. apply (Permutation_in x HP) in Hx. now apply (nats_range _ d). }
  set (g := attach (@ttm_dflt V) d ms) in *.
  destruct (spec_ttm_list_perm _ _ (combine_map_perm g _ _ HP) (den X) (dshape X) tr) as [S2 E2].
  - rewrite map_fst_combine by (now rewrite map_length). exact Hnd.
  - apply Forall_forall. intros [n JU] Hin. apply in_combine_l in Hin. cbn [fst]. now apply Hrs.
  - exists Y. split; [exact E|]. rewrite <- S2. split; [exact S|]. split; [exact WY|].
    intros i Hi. rewrite D by exact Hi. now apply E2.
Qed.

End P.
