(* Props/C02.v — multilinear products equal their definition in every representation.
   Only statements, `exact`, Print Assumptions. Specs: Model/C02Spec.v; models: Model/C02*.v; proofs: Proofs/C02*.v *)
From Coq Require Import List Arith Bool ZArith Ring.
From PV Require Import Base.Index Base.Perm Base.Sum Np.Array Model.Sparse Model.Repr
                       Model.C02Spec Model.C02Dense Proofs.C02DenseProofs.
Import ListNotations.

Section C02.
Variable V : Type.
Variables (v0 v1 : V) (vadd vmul vsub : V -> V -> V) (vopp : V -> V).
Hypothesis Vring : ring_theory v0 v1 vadd vmul vsub vopp (@eq V).

(* dense ttv (permute / reshape / matrix-vector route of tensor.py), any mode list, scalar result included (shape []) *)
Theorem C02_ttv_dense : forall (X : dense V) dims vs,
  wf_dense X -> length vs = length dims ->
  is_perm (compl (length (dshape X)) dims ++ dims) (length (dshape X)) ->
  let Y := impl_ttv_dense v0 vadd vmul X dims vs in
  dshape Y = ttv_shape (dshape X) dims /\ wf_dense Y /\
  forall i', inb (ttv_shape (dshape X) dims) i' = true ->
    den_dense v0 Y i' = spec_ttv v0 vadd vmul (den_dense v0 X) (dshape X) dims vs i'.
Proof. exact (impl_ttv_dense_correct V v0 vadd vmul). Qed.
End C02.

Print Assumptions C02_ttv_dense.
