(* Props/C02.v — multilinear products equal their definition in every representation.
   Only statements, `exact`, Print Assumptions. Specs: Model/C02Spec.v; models: Model/C02*.v; proofs: Proofs/C02*.v *)
From Coq Require Import List Arith Bool ZArith Ring.
From PV Require Import Base.Index Base.Perm Base.Sum Np.NpZ Np.Array Model.Sparse Model.Repr Gen.GenUtils Gen.GenUtils2 Model.C02TenmatReq Proofs.C02TenmatReqProofs Model.C02DimsReq Proofs.C02DimsReqProofs Proofs.C02SpTtmListProofs Proofs.UtilsProofs
                       Model.C02Spec Model.C02Dense Model.C02Sparse Model.C02Modes Model.C02Kruskal Model.C02SpKernels Model.C02Absorb Model.C02Tenmat Model.C02SpMore Model.C02KruskalMore Model.C02Tucker Model.C02TuckerFull
                       Proofs.C02DenseProofs Proofs.C02SparseProofs Proofs.C02ModesProofs Proofs.C02MttkrpProofs
                       Proofs.C02KruskalProofs Proofs.C02SpKernelsProofs Proofs.C02AbsorbProofs Proofs.C02TenmatProofs Proofs.C02PermProofs Proofs.C02IndicatorProofs Proofs.C02SpMoreProofs Proofs.C02KruskalMoreProofs Proofs.C02TuckerProofs Proofs.C02TuckerTtvProofs Proofs.C02TuckerMttkrpProofs Proofs.C02TuckerFullProofs Proofs.C02KruskalAnyProofs.
Import ListNotations.

Section C02.
Variable V : Type.
Variables (v0 v1 : V) (vadd vmul vsub : V -> V -> V) (vopp : V -> V).
Hypothesis Vring : ring_theory v0 v1 vadd vmul vsub vopp (@eq V).

(* dense ttv (permute / reshape / matrix-vector route of tensor.py), any mode list, scalar result included (shape []) *)
Theorem C02_ttv_dense : forall (X : dense V) dims vs,
  wf_dense X -> length vs = length dims ->
  is_perm (compl (length (dshape X)) dims ++ dims) (length (dshape X)) ->
  let Y := impl_ttv_dense v0 vadd vmul X dims vs in
  dshape Y = ttv_shape (dshape X) dims /\ wf_dense Y /\
  forall i', inb (ttv_shape (dshape X) dims) i' = true ->
    den_dense v0 Y i' = spec_ttv v0 vadd vmul (den_dense v0 X) (dshape X) dims vs i'.
Proof. exact (impl_ttv_dense_correct V v0 vadd vmul). Qed.

(* dense innerprod / squared Frobenius norm (x.dot(y) on the F-order ravel) *)
Theorem C02_innerprod_dense : forall X Y : dense V, wf_dense X -> wf_dense Y -> dshape X = dshape Y ->
  impl_innerprod_dense v0 vadd vmul X Y = spec_innerprod v0 vadd vmul (den_dense v0 X) (den_dense v0 Y) (dshape X).
Proof. exact (impl_innerprod_dense_correct V v0 vadd vmul). Qed.

Theorem C02_normsq_dense : forall X : dense V, wf_dense X ->
  impl_normsq_dense v0 vadd vmul X = spec_normsq v0 vadd vmul (den_dense v0 X) (dshape X).
Proof. exact (impl_normsq_dense_correct V v0 vadd vmul). Qed.

(* dense ttm, single mode, plain (U is J x I_n) and transposed (U is I_n x J): permute / reshape / matmul / reshape / permute back *)
Theorem C02_ttm_dense : forall (X : dense V) n U J tr,
  wf_dense X -> n < length (dshape X) ->
  let Y := impl_ttm_dense v0 vadd vmul X n U J tr in
  dshape Y = upd (dshape X) n J /\ wf_dense Y /\
  forall i, inb (upd (dshape X) n J) i = true ->
    den_dense v0 Y i = spec_ttm v0 vadd vmul (den_dense v0 X) (dshape X) n U tr i.
Proof. exact (impl_ttm_dense_correct V v0 vadd vmul). Qed.

(* Khatri-Rao product with reverse=True: row sub2ind(shape, j) (first matrix fastest) holds Π_m U_m[j_m, r] *)
Theorem C02_khatrirao_rev : forall R Us j r, Us <> [] -> Forall (wf_cols V R) Us ->
  inb (map (@length _) Us) j = true -> r < R ->
  mget v0 (kr_rev vmul Us) (sub2ind (map (@length _) Us) j) r = kprod v0 v1 vmul Us j r.
Proof. exact (mget_kr_rev V v0 v1 vadd vmul vsub vopp Vring). Qed.

(* dense mttkrp, factor list, every mode n (the three branches of tensor.mttkrp: n = 0, n = N-1, 0 < n < N-1) *)
Theorem C02_mttkrp_dense : forall (X : dense V) Us R n,
  wf_dense X -> 2 <= length (dshape X) -> n < length (dshape X) ->
  length Us = length (dshape X) -> Forall (wf_cols V R) (remove_at n Us) ->
  map (@length _) (remove_at n Us) = remove_at n (dshape X) ->
  let Y := impl_mttkrp_dense v0 vadd vmul X Us n R in
  dshape Y = [nth n (dshape X) 0; R] /\ wf_dense Y /\
  forall x r, x < nth n (dshape X) 0 -> r < R ->
    den_dense v0 Y [x; r] = spec_mttkrp v0 v1 vadd vmul (den_dense v0 X) (dshape X) n (repeat v1 R) Us x r.
Proof. exact (impl_mttkrp_dense_correct V v0 v1 vadd vmul vsub vopp Vring). Qed.

(* Kruskal operand "with its weights applied": get_mttkrp_factors absorbs the weights into a non-skipped factor; the defining sum
   over that factor list with unit weights is the defining sum with the operand's weights.  A statement about the spec, so it
   applies to the data in every representation (compose with C02_mttkrp_dense / _sparse / _k). *)
Theorem C02_mttkrp_kruskal_operand : forall (f : idx -> V) s n (lam : list V) (Us : list (@matrix V)) R x r,
  2 <= length Us -> n < length Us -> length s = length Us ->
  Forall (wf_cols V R) (remove_at n Us) -> length lam = R -> r < R ->
  spec_mttkrp v0 v1 vadd vmul f s n (repeat v1 R) (get_mttkrp_factors_k vmul lam Us n) x r =
  spec_mttkrp v0 v1 vadd vmul f s n lam Us x r.
Proof. exact (spec_mttkrp_absorb V v0 v1 vadd vmul vsub vopp Vring). Qed.

(* sum of parts: innerprod, mttkrp and ttv of the sum are the sums of the parts' results (what sumtensor computes part by part) *)
Theorem C02_sum_linear_innerprod : forall (parts : list (idx -> V)) (g : idx -> V) s,
  spec_innerprod v0 vadd vmul (den_parts v0 vadd parts) g s =
  sum_over v0 vadd parts (fun p => spec_innerprod v0 vadd vmul p g s).
Proof. exact (spec_innerprod_sum V v0 v1 vadd vmul vsub vopp Vring). Qed.

Theorem C02_sum_linear_mttkrp : forall (parts : list (idx -> V)) s n lam Us x r,
  spec_mttkrp v0 v1 vadd vmul (den_parts v0 vadd parts) s n lam Us x r =
  sum_over v0 vadd parts (fun p => spec_mttkrp v0 v1 vadd vmul p s n lam Us x r).
Proof. exact (spec_mttkrp_sum V v0 v1 vadd vmul vsub vopp Vring). Qed.

Theorem C02_sum_linear_ttv : forall (parts : list (idx -> V)) s dims vs i',
  spec_ttv v0 vadd vmul (den_parts v0 vadd parts) s dims vs i' =
  sum_over v0 vadd parts (fun p => spec_ttv v0 vadd vmul p s dims vs i').
Proof. exact (spec_ttv_sum V v0 v1 vadd vmul vsub vopp Vring). Qed.

(* ---- mode designation, tied to the GENERATED tt_dimscheck (Gen/GenUtils.v, re-translated from pyttb_utils.py on every run) ----
   For every admissible request (dims in any order | exclude_dims | neither; one multiplicand per designated mode or one per
   tensor mode) the helper returns the sorted designated modes and, for the k-th of them, the position of the multiplicand the
   caller attached to that mode (attach: j-th multiplicand <-> j-th designated mode, resp. multiplicand m <-> mode m). *)
Theorem C02_dimscheck_align : forall (A : Type) (dflt : A) N dims excl (ms : list A),
  admissible N dims excl (zlen ms) ->
  let d := req_modes N dims excl in
  exists vidx, tt_dimscheck N (Some (zlen ms)) dims excl = Ok (np_sort d, Some vidx) /\
    map (znth dflt ms) vidx = map (attach dflt d ms) (nats (np_sort d)) /\
    (forall x, In x d -> (0 <= x < N)%Z) /\ NoDup d.
Proof. exact (@dimscheck_align). Qed.

(* tensor.ttv as called (request resolved by the generated helper) = spec_ttv over the caller's mode -> vector association *)
Theorem C02_ttv_dense_req : forall (X : dense V) dims excl (vs : list (list V)),
  wf_dense X -> admissible (Z.of_nat (length (dshape X))) dims excl (zlen vs) ->
  let d := req_modes (Z.of_nat (length (dshape X))) dims excl in
  let sd := nats (np_sort d) in
  exists Y, impl_ttv_req v0 vadd vmul X dims excl vs = Ok Y /\
    dshape Y = ttv_shape (dshape X) sd /\ wf_dense Y /\
    forall i', inb (ttv_shape (dshape X) sd) i' = true ->
      den_dense v0 Y i' = spec_ttv v0 vadd vmul (den_dense v0 X) (dshape X) sd (map (attach [] d vs) sd) i'.
Proof. exact (impl_ttv_req_correct V v0 vadd vmul). Qed.

(* tensor.ttm, list form, as called: the sequence of single-mode products over the sorted designated modes, each with the
   matrix the caller attached to that mode (plain and transposed) *)
Theorem C02_ttm_dense_req : forall (X : dense V) dims excl (ms : list (nat * @matrix V)) tr,
  wf_dense X -> admissible (Z.of_nat (length (dshape X))) dims excl (zlen ms) ->
  let d := req_modes (Z.of_nat (length (dshape X))) dims excl in
  let sd := nats (np_sort d) in
  let nUs := combine sd (map (attach (@ttm_dflt V) d ms) sd) in
  d <> [] ->
  exists Y, impl_ttm_req v0 vadd vmul X dims excl ms tr = Ok Y /\
    dshape Y = ttm_list_shape (dshape X) nUs /\ wf_dense Y /\
    forall i, inb (ttm_list_shape (dshape X) nUs) i = true ->
      den_dense v0 Y i = spec_ttm_list v0 vadd vmul (den_dense v0 X) (dshape X) nUs tr i.
Proof. exact (impl_ttm_req_correct V v0 vadd vmul). Qed.

(* ---- sparse: a sum over all subscripts of den_sp(i) g(i) is the sum over the stored entries ---- *)
Variable isz : V -> bool.

Theorem C02_sparse_sum : forall (S : sparse V) (g : idx -> V), wf_sp isz S ->
  sum_over v0 vadd (allsubs (sshape S)) (fun i => vmul (den_sp v0 S i) (g i)) =
  sum_over v0 vadd (entries S) (fun e => vmul (snd e) (g (fst e))).
Proof. exact (sparse_sum V v0 v1 vadd vmul vsub vopp Vring isz). Qed.

Theorem C02_innerprod_sparse_dense : forall (S : sparse V) (T : dense V), wf_sp isz S ->
  impl_innerprod_sp_dense v0 vadd vmul S T = spec_innerprod v0 vadd vmul (den_sp v0 S) (den_dense v0 T) (sshape S).
Proof. exact (impl_innerprod_sp_dense_correct V v0 v1 vadd vmul vsub vopp Vring isz). Qed.

(* both nnz orderings of sptensor.innerprod(sptensor) *)
Theorem C02_innerprod_sparse_sparse : forall A B : sparse V, wf_sp isz A -> wf_sp isz B -> sshape A = sshape B ->
  impl_innerprod_sp_sp v0 vadd vmul A B = spec_innerprod v0 vadd vmul (den_sp v0 A) (den_sp v0 B) (sshape A).
Proof. exact (impl_innerprod_sp_sp_correct V v0 v1 vadd vmul vsub vopp Vring isz). Qed.

Theorem C02_normsq_sparse : forall S : sparse V, wf_sp isz S ->
  impl_normsq_sp v0 vadd vmul S = spec_normsq v0 vadd vmul (den_sp v0 S) (sshape S).
Proof. exact (impl_normsq_sp_correct V v0 v1 vadd vmul vsub vopp Vring isz). Qed.

(* Kruskal ttv in one mode: weights * (A_n^T v), remaining factors kept *)
Theorem C02_ttv_k1 : forall (K : ktensor V) n v i',
  n < length (kfactors K) -> inb (remove_at n (kshape K)) i' = true ->
  den_k v0 v1 vadd vmul (impl_ttv_k1 v0 vadd vmul K n v) i' =
  spec_ttv1 v0 vadd vmul (den_k v0 v1 vadd vmul K) (kshape K) n v i'.
Proof. exact (impl_ttv_k1_correct V v0 v1 vadd vmul vsub vopp Vring). Qed.

(* sparse ttv in one mode: gather v[subs[:, n]], scale the values, project the subscripts, accumulate equal projections *)
Theorem C02_ttv_sparse1 : forall (S : sparse V) n v i', wf_sp isz S ->
  n < length (sshape S) -> inb (remove_at n (sshape S)) i' = true ->
  impl_ttv_sp1 v0 vadd vmul S n v i' = spec_ttv1 v0 vadd vmul (den_sp v0 S) (sshape S) n v i'.
Proof. exact (impl_ttv_sp1_correct V v0 v1 vadd vmul vsub vopp Vring isz). Qed.

(* both sides of the 50% switch: the result kept sparse and the same result densified (to_tensor) denote the same array *)
Theorem C02_sparse_switch : forall (S : sparse V) i, Forall (fun j => inb (sshape S) j = true) (ssubs S) ->
  den_dense v0 (full v0 S) i = den_sp v0 S i.
Proof. exact (den_full v0). Qed.

(* sparse mttkrp (a ttv with column r of every other factor, accumulated into row subs[:, n]) *)
Theorem C02_mttkrp_sparse : forall (S : sparse V) (Us : list (@matrix V)) n R x r, wf_sp isz S ->
  n < length (sshape S) -> x < nth n (sshape S) 0 -> r < R ->
  impl_mttkrp_sp v0 v1 vadd vmul S Us n x r =
  spec_mttkrp v0 v1 vadd vmul (den_sp v0 S) (sshape S) n (repeat v1 R) Us x r.
Proof. exact (impl_mttkrp_sp_correct V v0 v1 vadd vmul vsub vopp Vring isz). Qed.

(* Kruskal x Kruskal inner product by the Gram / Hadamard formula  sum( (w w'^T) * Π_n A_n^T B_n ) *)
Theorem C02_innerprod_kk : forall K L : ktensor V, kshape K = kshape L ->
  impl_innerprod_kk v0 vadd vmul K L =
  spec_innerprod v0 vadd vmul (den_k v0 v1 vadd vmul K) (den_k v0 v1 vadd vmul L) (kshape K).
Proof. exact (impl_innerprod_kk_correct V v0 v1 vadd vmul vsub vopp Vring). Qed.

(* Kruskal norm()^2 = sum( (w w^T) * Π_n A_n^T A_n )   (the square root of the absolute value is outside the model) *)
Theorem C02_normsq_k : forall K : ktensor V,
  impl_normsq_k v0 vadd vmul K = spec_normsq v0 vadd vmul (den_k v0 v1 vadd vmul K) (kshape K).
Proof. exact (impl_normsq_k_correct V v0 v1 vadd vmul vsub vopp Vring). Qed.

(* Kruskal mttkrp, factor list:  A_n @ ( tile(w) * Π_{i<>n} A_i^T U_i ) *)
Theorem C02_mttkrp_k : forall (K : ktensor V) (Us : list (@matrix V)) n R x c,
  n < length (kfactors K) -> x < nth n (kshape K) 0 -> c < R ->
  map (@length _) (remove_at n Us) = remove_at n (kshape K) ->
  impl_mttkrp_k v0 vadd vmul K Us n x c =
  spec_mttkrp v0 v1 vadd vmul (den_k v0 v1 vadd vmul K) (kshape K) n (repeat v1 R) Us x c.
Proof. exact (impl_mttkrp_k_correct V v0 v1 vadd vmul vsub vopp Vring). Qed.

(* representation independence, instance: the same array held sparse or dense gives the same MTTKRP, entry by entry *)
Theorem C02_repr_indep_mttkrp : forall (S : sparse V) (X : dense V) Us R n x r,
  wf_sp isz S -> wf_dense X -> sshape S = dshape X -> (forall i, den_sp v0 S i = den_dense v0 X i) ->
  2 <= length (dshape X) -> n < length (dshape X) -> length Us = length (dshape X) ->
  Forall (wf_cols V R) (remove_at n Us) -> map (@length _) (remove_at n Us) = remove_at n (dshape X) ->
  x < nth n (dshape X) 0 -> r < R ->
  impl_mttkrp_sp v0 v1 vadd vmul S Us n x r = den_dense v0 (impl_mttkrp_dense v0 vadd vmul X Us n R) [x; r].
Proof. exact (repr_indep_mttkrp V v0 v1 vadd vmul vsub vopp Vring isz). Qed.

(* representation independence, instance: the same array held sparse or dense gives the same inner product *)
Theorem C02_repr_indep_innerprod : forall (S : sparse V) (X T : dense V),
  wf_sp isz S -> wf_dense X -> wf_dense T -> sshape S = dshape X -> dshape X = dshape T ->
  (forall i, den_sp v0 S i = den_dense v0 X i) ->
  impl_innerprod_sp_dense v0 vadd vmul S T = impl_innerprod_dense v0 vadd vmul X T.
Proof. exact (repr_indep_innerprod V v0 v1 vadd vmul vsub vopp Vring isz). Qed.
(* ---- wave 3: the matricisation route of tensor.py (to_tenmat / tenmat product / to_tensor) ---- *)
(* dense ttt: contract modes sd of X with modes od of Y (outer product for sd = od = []; scalar result when nothing remains) *)
Theorem C02_ttt_dense : forall (X Y : dense V) sd od,
  pick 0 sd (dshape X) = pick 0 od (dshape Y) ->
  let Z := impl_ttt_dense v0 vadd vmul X Y sd od in
  dshape Z = ttt_shape (dshape X) (dshape Y) sd od /\ wf_dense Z /\
  forall ij, inb (ttt_shape (dshape X) (dshape Y) sd od) ij = true ->
    den_dense v0 Z ij = spec_ttt v0 vadd vmul (den_dense v0 X) (dshape X) (den_dense v0 Y) (dshape Y) sd od ij.
Proof. exact (impl_ttt_dense_correct V v0 vadd vmul). Qed.

(* dense collapse with an ARBITRARY reducer (fun applied to each slice, collapsed modes in F order); dims ascending as tt_dimscheck
   returns them (only used when every mode is collapsed: the data is then reduced in its own F order) *)
Theorem C02_collapse_dense : forall (red : list V -> V) (X : dense V) dims,
  wf_dense X -> dims <> [] ->
  (compl (length (dshape X)) dims = [] -> dims = seq 0 (length (dshape X))) ->
  let Y := impl_collapse_dense v0 red X dims in
  dshape Y = ttv_shape (dshape X) dims /\ wf_dense Y /\
  forall i', inb (ttv_shape (dshape X) dims) i' = true ->
    den_dense v0 Y i' = spec_collapse_red red (den_dense v0 X) (dshape X) dims i'.
Proof. exact (impl_collapse_dense_correct V v0). Qed.

(* the default reducer (sum): collapse is the sum over the collapsed modes; dims = [] (a copy) included *)
Theorem C02_collapse_sum_dense : forall (X : dense V) dims,
  wf_dense X ->
  (compl (length (dshape X)) dims = [] -> dims = seq 0 (length (dshape X))) ->
  let Y := impl_collapse_dense v0 (sumv v0 vadd) X dims in
  dshape Y = ttv_shape (dshape X) dims /\ wf_dense Y /\
  forall i', inb (ttv_shape (dshape X) dims) i' = true ->
    den_dense v0 Y i' = spec_collapse v0 vadd (den_dense v0 X) (dshape X) dims i'.
Proof. exact (impl_collapse_sum_correct V v0 v1 vadd vmul vsub vopp Vring). Qed.

(* dense contract (trace over two equally sized modes; np.trace for a matrix) *)
Theorem C02_contract_dense : forall (X : dense V) i1 i2,
  wf_dense X -> i1 <> i2 -> i1 < length (dshape X) -> i2 < length (dshape X) ->
  nth i1 (dshape X) 0 = nth i2 (dshape X) 0 ->
  let Y := impl_contract_dense v0 vadd X i1 i2 in
  dshape Y = ttv_shape (dshape X) [i1; i2] /\ wf_dense Y /\
  forall i', inb (ttv_shape (dshape X) [i1; i2]) i' = true ->
    den_dense v0 Y i' = spec_contract v0 vadd (den_dense v0 X) (dshape X) i1 i2 i'.
Proof. exact (impl_contract_dense_correct V v0 vadd). Qed.

(* dense scale along modes dims by a factor tensor of shape shape[dims] *)
Theorem C02_scale_dense : forall (X F : dense V) dims,
  wf_dense X -> is_perm (dims ++ compl (length (dshape X)) dims) (length (dshape X)) ->
  dshape F = pick 0 dims (dshape X) ->
  let Y := impl_scale_dense v0 vmul X dims F in
  dshape Y = dshape X /\ wf_dense Y /\
  forall i, inb (dshape X) i = true -> den_dense v0 Y i = spec_scale vmul (den_dense v0 X) dims (den_dense v0 F) i.
Proof. exact (impl_scale_dense_correct V v0 vmul). Qed.

(* dense mask: the values at the subscripts the mask's find() returns *)
Theorem C02_mask_dense : forall (X : dense V) (wsubs : list idx),
  Forall (fun i => inb (dshape X) i = true) wsubs ->
  impl_mask_dense v0 X wsubs = spec_mask (den_dense v0 X) wsubs.
Proof. exact (impl_mask_dense_correct V v0). Qed.

(* ---- wave 3: the defining sums do not depend on the order in which the caller lists the (mode, multiplicand) pairs ---- *)
Theorem C02_ttv_perm_invariant : forall (f : idx -> V) s dims vs dims' vs' i',
  NoDup dims -> (forall x, In x dims -> x < length s) ->
  length vs = length dims -> length vs' = length dims' ->
  Permutation.Permutation (combine dims vs) (combine dims' vs') ->
  length i' = length (compl (length s) dims) ->
  spec_ttv v0 vadd vmul f s dims vs i' = spec_ttv v0 vadd vmul f s dims' vs' i'.
Proof. exact (spec_ttv_perm_pairs V v0 v1 vadd vmul vsub vopp Vring). Qed.

Theorem C02_ttm_list_perm_invariant : forall (nUs nUs' : list (nat * (nat * @matrix V))),
  Permutation.Permutation nUs nUs' ->
  forall (f : idx -> V) s tr, NoDup (map fst nUs) -> Forall (fun p => fst p < length s) nUs ->
  ttm_list_shape s nUs = ttm_list_shape s nUs' /\
  forall i, inb (ttm_list_shape s nUs) i = true ->
    spec_ttm_list v0 vadd vmul f s nUs tr i = spec_ttm_list v0 vadd vmul f s nUs' tr i.
Proof. exact (spec_ttm_list_perm V v0 v1 vadd vmul vsub vopp Vring). Qed.

(* tensor.ttv / tensor.ttm as called, stated over the CALLER's own order of the designated modes (request resolved by the
   generated tt_dimscheck); with one multiplicand per listed mode the attached list is the caller's list itself *)
Theorem C02_ttv_dense_req_caller : forall (X : dense V) dims excl (vs : list (list V)),
  wf_dense X -> admissible (Z.of_nat (length (dshape X))) dims excl (zlen vs) ->
  let d := req_modes (Z.of_nat (length (dshape X))) dims excl in
  let cd := nats d in
  exists Y, impl_ttv_req v0 vadd vmul X dims excl vs = Ok Y /\
    dshape Y = ttv_shape (dshape X) cd /\ wf_dense Y /\
    forall i', inb (ttv_shape (dshape X) cd) i' = true ->
      den_dense v0 Y i' = spec_ttv v0 vadd vmul (den_dense v0 X) (dshape X) cd (map (attach [] d vs) cd) i'.
Proof. exact (impl_ttv_req_caller V v0 v1 vadd vmul vsub vopp Vring). Qed.

Theorem C02_ttm_dense_req_caller : forall (X : dense V) dims excl (ms : list (nat * @matrix V)) tr,
  wf_dense X -> admissible (Z.of_nat (length (dshape X))) dims excl (zlen ms) ->
  let d := req_modes (Z.of_nat (length (dshape X))) dims excl in
  let cd := nats d in
  let nUs := combine cd (map (attach (@ttm_dflt V) d ms) cd) in
  d <> [] ->
  exists Y, impl_ttm_req v0 vadd vmul X dims excl ms tr = Ok Y /\
    dshape Y = ttm_list_shape (dshape X) nUs /\ wf_dense Y /\
    forall i, inb (ttm_list_shape (dshape X) nUs) i = true ->
      den_dense v0 Y i = spec_ttm_list v0 vadd vmul (den_dense v0 X) (dshape X) nUs tr i.
Proof. exact (impl_ttm_req_caller V v0 v1 vadd vmul vsub vopp Vring). Qed.

Theorem C02_attach_own_order : forall (A : Type) (dflt : A) (d : vec) (ms : list A),
  NoDup (nats d) -> length ms = length d -> map (attach dflt d ms) (nats d) = ms.
Proof. exact (@attach_own_order). Qed.
(* ---- wave 3: the defining sum of ttv as ONE sum over all subscripts with an indicator; sparse kernels over several modes ---- *)
Theorem C02_ttv_indicator_sum : forall (f : idx -> V) s dims vs i',
  NoDup dims -> (forall x, In x dims -> x < length s) -> length vs = length dims ->
  inb (ttv_shape s dims) i' = true ->
  spec_ttv v0 vadd vmul f s dims vs i' =
  sum_over v0 vadd (allsubs s) (fun a => vmul (f a)
     (if idx_eqb (pick 0 (compl (length s) dims) a) i' then pprod v0 v1 vmul (combine dims vs) a else v0)).
Proof. exact (spec_ttv_indicator V v0 v1 vadd vmul vsub vopp Vring isz). Qed.

(* sptensor.ttv over SEVERAL modes at once (gather every vector at the stored subscripts, scale, project, accumulate); with
   C02_sparse_switch both containers of the 50% switch denote this array; no mode left: the scalar np.sum(newvals) (i' = []) *)
Theorem C02_ttv_sparse : forall (S : sparse V) dims vs i', wf_sp isz S ->
  NoDup dims -> (forall x, In x dims -> x < length (sshape S)) -> length vs = length dims ->
  inb (ttv_shape (sshape S) dims) i' = true ->
  impl_ttv_sp v0 v1 vadd vmul S dims vs i' = spec_ttv v0 vadd vmul (den_sp v0 S) (sshape S) dims vs i'.
Proof. exact (impl_ttv_sp_correct V v0 v1 vadd vmul vsub vopp Vring isz). Qed.

(* sptensor.ttm in one mode, plain and transposed *)
Theorem C02_ttm_sparse : forall (S : sparse V) n U tr i, wf_sp isz S ->
  n < length (sshape S) -> length i = length (sshape S) ->
  inb (remove_at n (sshape S)) (remove_at n i) = true ->
  impl_ttm_sp v0 vadd vmul S n U tr i = spec_ttm v0 vadd vmul (den_sp v0 S) (sshape S) n U tr i.
Proof. exact (impl_ttm_sp_correct V v0 v1 vadd vmul vsub vopp Vring isz). Qed.

Theorem C02_collapse_sparse : forall (S : sparse V) dims i', wf_sp isz S ->
  NoDup dims -> (forall x, In x dims -> x < length (sshape S)) ->
  inb (ttv_shape (sshape S) dims) i' = true ->
  impl_collapse_sp v0 vadd S dims i' = spec_collapse v0 vadd (den_sp v0 S) (sshape S) dims i'.
Proof. exact (impl_collapse_sp_correct V v0 v1 vadd vmul vsub vopp Vring isz). Qed.

Theorem C02_contract_sparse : forall (S : sparse V) i1 i2 i', wf_sp isz S ->
  i1 <> i2 -> i1 < length (sshape S) -> i2 < length (sshape S) ->
  nth i1 (sshape S) 0 = nth i2 (sshape S) 0 ->
  inb (ttv_shape (sshape S) [i1; i2]) i' = true ->
  impl_contract_sp v0 vadd S i1 i2 i' = spec_contract v0 vadd (den_sp v0 S) (sshape S) i1 i2 i'.
Proof. exact (impl_contract_sp_correct V v0 v1 vadd vmul vsub vopp Vring isz). Qed.

(* sptensor.scale: stored values times the factor at the projected stored subscripts, annihilated entries dropped: the result is
   well formed (no explicit zero) and denotes the scaled array; g = the array the factor (tensor, sptensor, ndarray) denotes *)
Theorem C02_scale_sparse : (forall v, isz v = true <-> v = v0) ->
  forall (S : sparse V) dims (g : idx -> V), wf_sp isz S ->
  let R := impl_scale_sp vmul isz S dims g in
  sshape R = sshape S /\ wf_sp isz R /\
  forall i, den_sp v0 R i = spec_scale vmul (den_sp v0 S) dims g i.
Proof. exact (impl_scale_sp_correct V v0 v1 vadd vmul vsub vopp Vring isz). Qed.

Theorem C02_mask_sparse : forall (S : sparse V) (wsubs : list idx), wf_sp isz S ->
  impl_mask_sp v0 S wsubs = spec_mask (den_sp v0 S) wsubs.
Proof. exact (impl_mask_sp_correct V v0 isz). Qed.
(* ---- wave 3: Kruskal ttv over several modes; Tucker ttm ---- *)
(* ktensor.ttv over several modes: weights * Π (A_dim^T v_dim), remaining factors kept (no mode left: the 0-way Kruskal tensor,
   whose denotation at [] is sum(new_weights)) *)
Theorem C02_ttv_kruskal : forall (K : ktensor V) dims vs i',
  NoDup dims -> (forall x, In x dims -> x < length (kfactors K)) -> length vs = length dims ->
  inb (ttv_shape (kshape K) dims) i' = true ->
  den_k v0 v1 vadd vmul (impl_ttv_k v0 v1 vadd vmul K dims vs) i' =
  spec_ttv v0 vadd vmul (den_k v0 v1 vadd vmul K) (kshape K) dims vs i'.
Proof. exact (impl_ttv_k_correct V v0 v1 vadd vmul vsub vopp Vring). Qed.

(* ttensor.ttm: factor n replaced by M U_n (plain) / M^T U_n (transposed), core kept; one mode and list form *)
Theorem C02_ttm_tucker1 : forall (T : ttensor V) n M J tr i,
  n < length (tfactors T) -> n < length (dshape (tcore T)) ->
  inb (upd (tshape T) n J) i = true ->
  den_t v0 v1 vadd vmul (impl_ttm_t1 v0 vadd vmul T n M J tr) i =
  spec_ttm v0 vadd vmul (den_t v0 v1 vadd vmul T) (tshape T) n M tr i.
Proof. exact (impl_ttm_t1_correct V v0 v1 vadd vmul vsub vopp Vring). Qed.

Theorem C02_ttm_tucker : forall nUs (T : ttensor V) tr,
  Forall (fun p => fst p < length (tfactors T)) nUs -> length (dshape (tcore T)) = length (tfactors T) ->
  let Y := impl_ttm_t v0 vadd vmul T nUs tr in
  tshape Y = ttm_list_shape (tshape T) nUs /\
  forall i, inb (ttm_list_shape (tshape T) nUs) i = true ->
    den_t v0 v1 vadd vmul Y i = spec_ttm_list v0 vadd vmul (den_t v0 v1 vadd vmul T) (tshape T) nUs tr i.
Proof. exact (impl_ttm_t_correct V v0 v1 vadd vmul vsub vopp Vring). Qed.
(* ttensor.ttv over any set of modes: W_dim = U_dim^T v, newcore = core.ttv(W, dims) (the proved tensor.ttv), remaining factors kept
   (no mode left: the 0-way Tucker tensor, i.e. float(newcore)) *)
Theorem C02_ttv_tucker : forall (T : ttensor V) dims vs i',
  wf_dense (tcore T) -> length (dshape (tcore T)) = length (tfactors T) ->
  NoDup dims -> (forall x, In x dims -> x < length (tfactors T)) -> length vs = length dims ->
  inb (ttv_shape (tshape T) dims) i' = true ->
  den_t v0 v1 vadd vmul (impl_ttv_t v0 vadd vmul T dims vs) i' =
  spec_ttv v0 vadd vmul (den_t v0 v1 vadd vmul T) (tshape T) dims vs i'.
Proof. exact (impl_ttv_t_correct V v0 v1 vadd vmul vsub vopp Vring). Qed.

(* ttensor.mttkrp (factor list; a Kruskal operand goes through C02_mttkrp_kruskal_operand): W_i = U_i^T V_i, Y = core.mttkrp(W, n)
   (the proved tensor.mttkrp, all three branches), U_n Y *)
Theorem C02_mttkrp_tucker : forall (T : ttensor V) (Vs : list (@matrix V)) n R x r,
  wf_dense (tcore T) -> 2 <= length (tfactors T) -> length (dshape (tcore T)) = length (tfactors T) ->
  length Vs = length (tfactors T) -> n < length (tfactors T) -> x < nth n (tshape T) 0 -> r < R ->
  impl_mttkrp_t v0 vadd vmul T Vs n R x r =
  spec_mttkrp v0 v1 vadd vmul (den_t v0 v1 vadd vmul T) (tshape T) n (repeat v1 R) Vs x r.
Proof. exact (impl_mttkrp_t_correct V v0 v1 vadd vmul vsub vopp Vring). Qed.
(* a tensor-times-matrix in EVERY mode is the full contraction with the product of the factor entries (plain: over the column
   subscripts; transposed: over the row subscripts) *)
Theorem C02_ttm_all_modes : forall tr (Us : list (@matrix V)) (Js : list nat) (f : idx -> V) (s : shape) (i : idx),
  length Js = length Us -> length s = length Us -> length i = length Us ->
  spec_ttm_list v0 vadd vmul f s (all_modes Js Us) tr i =
  sum_over v0 vadd (allsubs s) (fun a => vmul (f a) (if tr then tprod v0 v1 vmul Us a i else tprod v0 v1 vmul Us i a)).
Proof. exact (ttm_all V v0 v1 vadd vmul vsub vopp Vring). Qed.

(* ttensor.full() / reconstruct(): core.ttm(factors) (the proved tensor.ttm list form) is the array the Tucker tensor denotes *)
Theorem C02_full_tucker : forall (T : ttensor V),
  wf_dense (tcore T) -> length (dshape (tcore T)) = length (tfactors T) ->
  let Y := impl_full_t v0 vadd vmul T in
  dshape Y = tshape T /\ wf_dense Y /\ forall i, inb (tshape T) i = true -> den_dense v0 Y i = den_t v0 v1 vadd vmul T i.
Proof. exact (impl_full_t_correct V v0 v1 vadd vmul vsub vopp Vring). Qed.

(* ttensor.innerprod(tensor), BOTH sides of the size switch prod(shape) < prod(core.shape) *)
Theorem C02_innerprod_tucker_dense : forall (T : ttensor V) (X : dense V),
  wf_dense (tcore T) -> length (dshape (tcore T)) = length (tfactors T) -> wf_dense X -> dshape X = tshape T ->
  impl_innerprod_t_dense v0 vadd vmul T X = spec_innerprod v0 vadd vmul (den_t v0 v1 vadd vmul T) (den_dense v0 X) (tshape T).
Proof. exact (impl_innerprod_t_dense_correct V v0 v1 vadd vmul vsub vopp Vring). Qed.

(* ttensor.norm()^2, BOTH sides of the size switch prod(shape) > prod(core.shape): <core.ttm(U_n^T U_n), core> resp. full().norm()^2 *)
Theorem C02_normsq_tucker : forall (T : ttensor V),
  wf_dense (tcore T) -> length (dshape (tcore T)) = length (tfactors T) ->
  impl_normsq_t v0 vadd vmul T = spec_normsq v0 vadd vmul (den_t v0 v1 vadd vmul T) (tshape T).
Proof. exact (impl_normsq_t_correct V v0 v1 vadd vmul vsub vopp Vring). Qed.
(* ttensor.innerprod(ttensor): the operand with the smaller core first; <core, core'.ttm(U_n^T U'_n)> *)
Theorem C02_innerprod_tucker_tucker : forall (T T' : ttensor V),
  wf_dense (tcore T) -> wf_dense (tcore T') ->
  length (dshape (tcore T)) = length (tfactors T) -> length (dshape (tcore T')) = length (tfactors T') ->
  tshape T = tshape T' ->
  impl_innerprod_tt v0 vadd vmul T T' =
  spec_innerprod v0 vadd vmul (den_t v0 v1 vadd vmul T) (den_t v0 v1 vadd vmul T') (tshape T).
Proof. exact (impl_innerprod_tt_correct V v0 v1 vadd vmul vsub vopp Vring). Qed.

(* ktensor.innerprod with a dense / sparse / Tucker operand: Σ_r w_r * other.ttv([A_1[:, r], ..., A_N[:, r]]) over ALL modes is the inner
   product with the array g the operand denotes (the operand's own ttv is C02_ttv_dense / C02_ttv_sparse / C02_ttv_tucker) *)
Theorem C02_innerprod_kruskal_any : forall (K : ktensor V) (g : idx -> V),
  sum_n v0 vadd (krank K) (fun r => vmul (nth r (kweights K) v0)
      (spec_ttv v0 vadd vmul g (kshape K) (seq 0 (length (kfactors K))) (kcols V v0 (kfactors K) r) [])) =
  spec_innerprod v0 vadd vmul g (den_k v0 v1 vadd vmul K) (kshape K).
Proof. exact (innerprod_k_any V v0 v1 vadd vmul vsub vopp Vring). Qed.
(* ---- tensor.ttt / to_tenmat tied to the GENERATED gather_wrap_dims (Gen/GenUtils2.v, re-translated from pyttb_utils.py on every run) ----
   ttt as called (amatrix = self.to_tenmat(cdims=selfdims), bmatrix = other.to_tenmat(rdims=otherdims), product, to_tensor) IS the
   transliteration of C02_ttt_dense: the generated helper's complement convention is compl *)
Theorem C02_ttt_dense_req : forall (X Y : dense V) (sd od : vec),
  (forall x, In x sd -> (0 <= x)%Z) -> (forall x, In x od -> (0 <= x)%Z) ->
  impl_ttt_req v0 vadd vmul X Y sd od = Ok (impl_ttt_dense v0 vadd vmul X Y (nats sd) (nats od)).
Proof. exact (impl_ttt_req_eq V v0 vadd vmul). Qed.

(* to_tenmat with both mode lists (collapse: (remdims, dims); scale: (dims, remdims)) and with all modes as rows (scale's factor) *)
Theorem C02_to_tenmat_req_both : forall (X : dense V) (r c : vec),
  impl_to_tenmat_req v0 X (Some r) (Some c) = Ok (impl_to_tenmat v0 X (nats r) (nats c), (nats r, nats c)).
Proof. exact (impl_to_tenmat_req_both V v0). Qed.

Theorem C02_to_tenmat_req_rows_all : forall (X : dense V),
  impl_to_tenmat_req v0 X (Some (np_arange 0 (Z.of_nat (length (dshape X))))) None =
  Ok (impl_to_tenmat v0 X (seq 0 (length (dshape X))) (compl (length (dshape X)) (seq 0 (length (dshape X)))),
      (seq 0 (length (dshape X)), compl (length (dshape X)) (seq 0 (length (dshape X))))).
Proof. exact (impl_to_tenmat_req_rows_all V v0). Qed.
(* tensor.collapse / tensor.scale as called: the GENERATED tt_dimscheck sorts the listed modes (all modes, ascending, when dims is None) *)
Theorem C02_collapse_dense_req : forall (red : list V -> V) (X : dense V) (d : vec),
  dims_ok (Z.of_nat (length (dshape X))) None d ->
  impl_collapse_req v0 red X (Some d) = Ok (impl_collapse_dense v0 red X (nats (np_sort d))).
Proof. exact (impl_collapse_req_dims V v0). Qed.

Theorem C02_collapse_dense_req_all : forall (red : list V -> V) (X : dense V),
  impl_collapse_req v0 red X None = Ok (impl_collapse_dense v0 red X (seq 0 (length (dshape X)))).
Proof. exact (impl_collapse_req_all V v0). Qed.

Theorem C02_scale_dense_req : forall (X F : dense V) (d : vec),
  dims_ok (Z.of_nat (length (dshape X))) None d ->
  impl_scale_req v0 vmul X d F = Ok (impl_scale_dense v0 vmul X (nats (np_sort d)) F).
Proof. exact (impl_scale_req_dims V v0 vmul). Qed.

(* sptensor.ttm, list form: the first sorted mode on the coordinate list (its result is dense), the others with tensor.ttm *)
Theorem C02_ttm_sparse_list : forall (S : sparse V) n J U r tr, wf_sp isz S ->
  Forall (fun p => fst p < length (sshape S)) ((n, (J, U)) :: r) ->
  let nUs := (n, (J, U)) :: r in
  let Y := impl_ttm_sp_list V v0 vadd vmul S nUs tr in
  dshape Y = ttm_list_shape (sshape S) nUs /\ wf_dense Y /\
  forall i, inb (ttm_list_shape (sshape S) nUs) i = true ->
    den_dense v0 Y i = spec_ttm_list v0 vadd vmul (den_sp v0 S) (sshape S) nUs tr i.
Proof. exact (impl_ttm_sp_list_correct V v0 v1 vadd vmul vsub vopp Vring isz). Qed.
End C02.

Print Assumptions C02_ttv_dense.
Print Assumptions C02_innerprod_dense.
Print Assumptions C02_normsq_dense.
Print Assumptions C02_ttm_dense.
Print Assumptions C02_khatrirao_rev.
Print Assumptions C02_mttkrp_dense.
Print Assumptions C02_mttkrp_kruskal_operand.
Print Assumptions C02_sum_linear_innerprod.
Print Assumptions C02_sum_linear_mttkrp.
Print Assumptions C02_sum_linear_ttv.
Print Assumptions C02_dimscheck_align.
Print Assumptions C02_ttv_dense_req.
Print Assumptions C02_ttm_dense_req.
Print Assumptions C02_sparse_sum.
Print Assumptions C02_innerprod_sparse_dense.
Print Assumptions C02_innerprod_sparse_sparse.
Print Assumptions C02_normsq_sparse.
Print Assumptions C02_ttv_k1.
Print Assumptions C02_repr_indep_innerprod.
Print Assumptions C02_ttv_sparse1.
Print Assumptions C02_sparse_switch.
Print Assumptions C02_mttkrp_sparse.
Print Assumptions C02_innerprod_kk.
Print Assumptions C02_normsq_k.
Print Assumptions C02_mttkrp_k.
Print Assumptions C02_repr_indep_mttkrp.
Print Assumptions C02_ttt_dense.
Print Assumptions C02_collapse_dense.
Print Assumptions C02_collapse_sum_dense.
Print Assumptions C02_contract_dense.
Print Assumptions C02_scale_dense.
Print Assumptions C02_mask_dense.
Print Assumptions C02_ttv_perm_invariant.
Print Assumptions C02_ttm_list_perm_invariant.
Print Assumptions C02_ttv_dense_req_caller.
Print Assumptions C02_ttm_dense_req_caller.
Print Assumptions C02_attach_own_order.
Print Assumptions C02_ttv_indicator_sum.
Print Assumptions C02_ttv_sparse.
Print Assumptions C02_ttm_sparse.
Print Assumptions C02_collapse_sparse.
Print Assumptions C02_contract_sparse.
Print Assumptions C02_scale_sparse.
Print Assumptions C02_mask_sparse.
Print Assumptions C02_ttv_kruskal.
Print Assumptions C02_ttm_tucker1.
Print Assumptions C02_ttm_tucker.
Print Assumptions C02_ttv_tucker.
Print Assumptions C02_mttkrp_tucker.
Print Assumptions C02_ttm_all_modes.
Print Assumptions C02_full_tucker.
Print Assumptions C02_innerprod_tucker_dense.
Print Assumptions C02_normsq_tucker.
Print Assumptions C02_innerprod_tucker_tucker.
Print Assumptions C02_innerprod_kruskal_any.
Print Assumptions C02_ttt_dense_req.
Print Assumptions C02_to_tenmat_req_both.
Print Assumptions C02_to_tenmat_req_rows_all.
Print Assumptions C02_collapse_dense_req.
Print Assumptions C02_collapse_dense_req_all.
Print Assumptions C02_scale_dense_req.
Print Assumptions C02_ttm_sparse_list.

(* non-vacuity: concrete non-symmetric instances over Z *)
Local Open Scope Z_scope.
Example C02_ex_ttv : impl_ttv_dense 0 Z.add Z.mul (mkDense [2; 3]%nat [1; 2; 3; 4; 5; 6]) [1%nat] [[1; 0; 2]] = mkDense [2%nat] [11; 14].
Proof. reflexivity. Qed.
Example C02_ex_ttv_scalar : impl_ttv_dense 0 Z.add Z.mul (mkDense [2; 3]%nat [1; 2; 3; 4; 5; 6]) [0; 1]%nat [[1; -1]; [1; 0; 2]] = mkDense [] [-3].
Proof. reflexivity. Qed.
Example C02_ex_ttm : impl_ttm_dense 0 Z.add Z.mul (mkDense [2; 3]%nat [1; 2; 3; 4; 5; 6]) 1 [[1; 0; 2]; [0; 1; 0]] 2 false
                     = mkDense [2; 2]%nat [11; 14; 3; 4].
Proof. reflexivity. Qed.
Example C02_ex_ttm_T : impl_ttm_dense 0 Z.add Z.mul (mkDense [2; 3]%nat [1; 2; 3; 4; 5; 6]) 0 [[1; 0]; [2; 1]] 2 true
                     = mkDense [2; 3]%nat [5; 2; 11; 4; 17; 6].
Proof. reflexivity. Qed.
Example C02_ex_mttkrp : impl_mttkrp_dense 0 Z.add Z.mul (mkDense [2; 3; 2]%nat [1; 2; 3; 4; 5; 6; 7; 8; 9; 10; 11; 12])
                          [[[0]; [0]]; [[1]; [0]; [2]]; [[1]; [-1]]] 0 1 = mkDense [2; 1]%nat [-18; -18].
Proof. reflexivity. Qed.
Example C02_ex_innerprod_sp : impl_innerprod_sp_dense 0 Z.add Z.mul (mkSp [2; 3]%nat [[1; 2]; [0; 1]]%nat [5; 7]) (mkDense [2; 3]%nat [1; 2; 3; 4; 5; 6]) = 51.
Proof. reflexivity. Qed.
Example C02_ex_ttv_k : impl_ttv_k1 0 Z.add Z.mul (mkK [2; 3] [[[1; 0]; [2; 1]]; [[1; 1]; [0; 2]; [3; 0]]]) 1 [1; -1; 2]
                       = mkK [14; -3] [[[1; 0]; [2; 1]]].
Proof. reflexivity. Qed.
Example C02_ex_mttkrp_last : impl_mttkrp_dense 0 Z.add Z.mul (mkDense [2; 3; 2]%nat [1; 2; 3; 4; 5; 6; 7; 8; 9; 10; 11; 12])
                          [[[1]; [-1]]; [[1]; [0]; [2]]; [[0]; [0]]] 2 1 = mkDense [2; 1]%nat [-3; -3].
Proof. reflexivity. Qed.
Example C02_ex_mttkrp_mid : impl_mttkrp_dense 0 Z.add Z.mul (mkDense [2; 3; 2]%nat [1; 2; 3; 4; 5; 6; 7; 8; 9; 10; 11; 12])
                          [[[1]; [-1]]; [[0]; [0]; [0]]; [[1]; [2]]] 1 1 = mkDense [3; 1]%nat [-3; -3; -3].
Proof. reflexivity. Qed.
(* a cyclic (non-involutive) dims order: vector j belongs to mode dims[j] *)
Example C02_ex_ttv_req : impl_ttv_req 0 Z.add Z.mul (mkDense [2; 3; 2]%nat [1; 2; 3; 4; 5; 6; 7; 8; 9; 10; 11; 12])
                          (Some [2; 0; 1]) None [[1; -1]; [1; 2]; [0; 1; 0]] = Ok (mkDense [] [-18]).
Proof. reflexivity. Qed.
Example C02_ex_ttm_req : impl_ttm_req 0 Z.add Z.mul (mkDense [2; 3]%nat [1; 2; 3; 4; 5; 6])
                          None (Some [0]) [(1%nat, [[5; 5]]); (2%nat, [[1; 0; 2]; [0; 1; 0]])] false = Ok (mkDense [2; 2]%nat [11; 14; 3; 4]).
Proof. reflexivity. Qed.
Example C02_ex_innerprod_kk : impl_innerprod_kk 0 Z.add Z.mul (mkK [2; 3] [[[1; 0]; [2; 1]]; [[1; 1]; [0; 2]; [3; 0]]])
                                (mkK [-1] [[[1]; [2]]; [[0]; [1]; [2]]]) = -72.
Proof. reflexivity. Qed.
Example C02_ex_mttkrp_k : impl_mttkrp_k 0 Z.add Z.mul (mkK [2; 3] [[[1; 0]; [2; 1]]; [[1; 1]; [0; 2]; [3; 0]]])
                                [[[0]; [0]]; [[1]; [-1]; [2]]] 0 1 0 = 25.
Proof. reflexivity. Qed.
Example C02_ex_ttv_sp1 : map (impl_ttv_sp1 0 Z.add Z.mul (mkSp [2; 3]%nat [[1; 2]; [0; 1]; [1; 0]]%nat [5; 7; 2]) 1 [1; -1; 2]) [[0%nat]; [1%nat]] = [-7; 12].
Proof. reflexivity. Qed.
Example C02_ex_mttkrp_sp : map (fun x => impl_mttkrp_sp 0 1 Z.add Z.mul (mkSp [2; 3]%nat [[1; 2]; [0; 1]; [1; 0]]%nat [5; 7; 2])
                                  [[[0]; [0]]; [[1]; [-1]; [2]]] 0 x 0) [0%nat; 1%nat] = [-7; 12].
Proof. reflexivity. Qed.
Example C02_ex_absorb : get_mttkrp_factors_k Z.mul [2; -1] [[[1; 1]; [0; 2]]; [[1; 2]; [3; 4]; [5; 6]]] 0
                        = [[[1; 1]; [0; 2]]; [[2; -2]; [6; -4]; [10; -6]]].
Proof. reflexivity. Qed.
(* wave 3 *)
Example C02_ex_ttt : impl_ttt_dense 0 Z.add Z.mul (mkDense [2; 3]%nat [1; 2; 3; 4; 5; 6]) (mkDense [3; 2]%nat [1; 0; 2; 0; 1; -1]) [1%nat] [0%nat]
                     = mkDense [2; 2]%nat [11; 14; -2; -2].
Proof. reflexivity. Qed.
Example C02_ex_ttt_scalar : impl_ttt_dense 0 Z.add Z.mul (mkDense [2; 3]%nat [1; 2; 3; 4; 5; 6]) (mkDense [3; 2]%nat [1; 0; 2; 0; 1; -1]) [0; 1]%nat [1; 0]%nat
                     = mkDense [] [9].
Proof. reflexivity. Qed.
Example C02_ex_collapse : impl_collapse_dense 0 (sumv 0 Z.add) (mkDense [2; 3]%nat [1; 2; 3; 4; 5; 6]) [0%nat] = mkDense [3%nat] [3; 7; 11].
Proof. reflexivity. Qed.
Example C02_ex_collapse_max : impl_collapse_dense 0 (fold_right Z.max (-100)) (mkDense [2; 3]%nat [1; 2; 3; 4; 5; 6]) [1%nat] = mkDense [2%nat] [5; 6].
Proof. reflexivity. Qed.
Example C02_ex_contract : impl_contract_dense 0 Z.add (mkDense [2; 3; 2]%nat [1; 2; 3; 4; 5; 6; 7; 8; 9; 10; 11; 12]) 0 2 = mkDense [3%nat] [9; 13; 17].
Proof. reflexivity. Qed.
Example C02_ex_scale : impl_scale_dense 0 Z.mul (mkDense [2; 3]%nat [1; 2; 3; 4; 5; 6]) [1%nat] (mkDense [3%nat] [1; 0; -1]) = mkDense [2; 3]%nat [1; 2; 0; 0; -5; -6].
Proof. reflexivity. Qed.
Example C02_ex_mask : impl_mask_dense 0 (mkDense [2; 3]%nat [1; 2; 3; 4; 5; 6]) [[1; 2]; [0; 1]]%nat = [6; 3].
Proof. reflexivity. Qed.
(* the caller's order (2, 0, 1) and the sorted order give the same defining sum *)
Example C02_ex_ttv_perm : spec_ttv 0 Z.add Z.mul (den_dense 0 (mkDense [2; 3; 2]%nat [1; 2; 3; 4; 5; 6; 7; 8; 9; 10; 11; 12])) [2; 3; 2]%nat
                            [2; 0; 1]%nat [[1; -1]; [1; 2]; [0; 1; 0]] [] = -18.
Proof. reflexivity. Qed.
Example C02_ex_ttv_sp : map (impl_ttv_sp 0 1 Z.add Z.mul (mkSp [2; 3; 2]%nat [[1; 2; 0]; [0; 1; 1]; [1; 0; 1]]%nat [5; 7; 2]) [0; 2]%nat [[1; -1]; [2; 3]])
                           [[0%nat]; [1%nat]; [2%nat]] = [-6; 21; -10].
Proof. reflexivity. Qed.
Example C02_ex_ttm_sp : map (impl_ttm_sp 0 Z.add Z.mul (mkSp [2; 3]%nat [[1; 2]; [0; 1]; [1; 0]]%nat [5; 7; 2]) 1 [[1; 0; 2]; [0; 1; 0]] false)
                           [[0; 0]; [1; 0]; [0; 1]; [1; 1]]%nat = [0; 12; 7; 0].
Proof. reflexivity. Qed.
Example C02_ex_collapse_sp : map (impl_collapse_sp 0 Z.add (mkSp [2; 3]%nat [[1; 2]; [0; 1]; [1; 0]]%nat [5; 7; 2]) [1%nat]) [[0%nat]; [1%nat]] = [7; 7].
Proof. reflexivity. Qed.
Example C02_ex_contract_sp : map (impl_contract_sp 0 Z.add (mkSp [2; 3; 2]%nat [[1; 2; 1]; [0; 1; 0]; [1; 0; 0]]%nat [5; 7; 2]) 0 2) [[0%nat]; [1%nat]; [2%nat]] = [0; 7; 5].
Proof. reflexivity. Qed.
Example C02_ex_scale_sp : impl_scale_sp Z.mul (fun v => v =? 0) (mkSp [2; 3]%nat [[1; 2]; [0; 1]; [1; 0]]%nat [5; 7; 2]) [1%nat] (fun i => nth (nth 0 i 0%nat) [3; 0; -1] 0)
                          = mkSp [2; 3]%nat [[1; 2]; [1; 0]]%nat [-5; 6].
Proof. reflexivity. Qed.
Example C02_ex_mask_sp : impl_mask_sp 0 (mkSp [2; 3]%nat [[1; 2]; [0; 1]; [1; 0]]%nat [5; 7; 2]) [[0; 1]; [0; 0]; [1; 2]]%nat = [7; 0; 5].
Proof. reflexivity. Qed.
Example C02_ex_ttv_kmulti : impl_ttv_k 0 1 Z.add Z.mul (mkK [2; 3] [[[1; 0]; [2; 1]]; [[1; 1]; [0; 2]; [3; 0]]; [[1; -1]; [2; 0]]]) [0; 2]%nat [[1; -1]; [2; 1]]
                       = mkK [-8; 6] [[[1; 1]; [0; 2]; [3; 0]]].
Proof. reflexivity. Qed.
Example C02_ex_ttm_t : impl_ttm_t1 0 Z.add Z.mul (mkT (mkDense [1; 2]%nat [2; -1]) [[[1]; [2]]; [[1; 0]; [0; 1]; [1; 1]]]) 1 [[1; 0; 2]; [0; 1; 0]] 2 false
                       = mkT (mkDense [1; 2]%nat [2; -1]) [[[1]; [2]]; [[3; 2]; [0; 1]]].
Proof. reflexivity. Qed.
Example C02_ex_ttv_t : impl_ttv_t 0 Z.add Z.mul (mkT (mkDense [1; 2]%nat [2; -1]) [[[1]; [2]]; [[1; 0]; [0; 1]; [1; 1]]]) [1%nat] [[1; 2; -1]]
                       = mkT (mkDense [1%nat] [-1]) [[[1]; [2]]].
Proof. reflexivity. Qed.
Example C02_ex_mttkrp_t : map (fun x => impl_mttkrp_t 0 Z.add Z.mul (mkT (mkDense [1; 2]%nat [2; -1]) [[[1]; [2]]; [[1; 0]; [0; 1]; [1; 1]]])
                                 [[[0]; [0]]; [[1]; [2]; [-1]]] 0 1 x 0) [0%nat; 1%nat] = [-1; -2].
Proof. reflexivity. Qed.
Example C02_ex_full_t : impl_full_t 0 Z.add Z.mul (mkT (mkDense [1; 2]%nat [2; -1]) [[[1]; [2]]; [[1; 0]; [0; 1]; [1; 1]]])
                        = mkDense [2; 3]%nat [2; 4; -1; -2; 1; 2].
Proof. reflexivity. Qed.
(* unit-length but non-orthogonal factor columns (a repeated selection column), tensor larger than its core: the Gram branch *)
Example C02_ex_normsq_t : impl_normsq_t 0 Z.add Z.mul (mkT (mkDense [2; 1]%nat [1; 2]) [[[1; 1]; [0; 0]; [0; 0]]; [[1]; [0]]]) = 9.
Proof. reflexivity. Qed.
Example C02_ex_innerprod_t : impl_innerprod_t_dense 0 Z.add Z.mul (mkT (mkDense [1; 2]%nat [2; -1]) [[[1]; [2]]; [[1; 0]; [0; 1]; [1; 1]]])
                               (mkDense [2; 3]%nat [1; 2; 3; 4; 5; 6]) = 16.
Proof. reflexivity. Qed.
Example C02_ex_innerprod_tt : impl_innerprod_tt 0 Z.add Z.mul (mkT (mkDense [1; 2]%nat [2; -1]) [[[1]; [2]]; [[1; 0]; [0; 1]; [1; 1]]])
                               (mkT (mkDense [2; 1]%nat [1; 3]) [[[1; 0]; [0; 1]]; [[1]; [1]; [0]]]) = 7.
Proof. reflexivity. Qed.
Example C02_ex_ttt_req : impl_ttt_req 0 Z.add Z.mul (mkDense [2; 3]%nat [1; 2; 3; 4; 5; 6]) (mkDense [3; 2]%nat [1; 0; 2; 0; 1; -1]) [1] [0]
                         = Ok (mkDense [2; 2]%nat [11; 14; -2; -2]).
Proof. reflexivity. Qed.
Example C02_ex_collapse_req : impl_collapse_req 0 (sumv 0 Z.add) (mkDense [2; 3]%nat [1; 2; 3; 4; 5; 6]) (Some [0]) = Ok (mkDense [3%nat] [3; 7; 11]).
Proof. reflexivity. Qed.
Example C02_ex_ttm_sp_list : impl_ttm_sp_list Z 0 Z.add Z.mul (mkSp [2; 3]%nat [[1; 2]; [0; 1]; [1; 0]]%nat [5; 7; 2])
                               [(0%nat, (1%nat, [[1; -1]])); (1%nat, (2%nat, [[1; 0; 2]; [0; 1; 0]]))] false = mkDense [1; 2]%nat [-12; 7].
Proof. reflexivity. Qed.
