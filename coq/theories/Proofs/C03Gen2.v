(* Proofs/C03Gen2.v — wave 3b: the transliterations of Model/C03Gen2.v (== and != own code paths over the GENERATED helpers)
   equal, list for list, the hand models of Model/C03More.v (S != S2, S == T) resp. compute the element-wise specification (S != T
   through tt_union_rows).  Scatter lemmas: a[positions of C in l] = g(C) read back as a map over l. *)
From Coq Require Import List ZArith Arith Lia Bool Permutation Sorted.
From PV Require Import Base.Index Np.NpZ Np.NpZ2 Np.Array Gen.GenUtils Gen.GenUtils2 Model.Sparse Model.C03Ops Model.C03Gen Model.C03More Model.C03Gen2
                       Proofs.NpZProofs Proofs.UtilsProofs Proofs.RowsProofs Proofs.C03Rows Proofs.C03Lemmas Proofs.C03Proofs Proofs.C03GenProofs
                       Proofs.C03More Proofs.GenRows.
Import ListNotations.
Local Open Scope nat_scope.

(* ------------------------------------------------------------------------------------------ *)
(* scatter / mask-assignment, read back                                                         *)
(* ------------------------------------------------------------------------------------------ *)
Lemma scatter_len {X} (idx : vec) : forall (a vals : list X), length (np_scatter a idx vals) = length a.
Proof. induction idx as [|i idx IH]; intros a [|v vals]; cbn [np_scatter]; auto. now rewrite IH, upd_len. Qed.

Lemma scatter_const_eq {X} (idx : vec) (v : X) : forall a, np_scatter_const a idx v = np_scatter a idx (map (fun _ => v) idx).
Proof. unfold np_scatter_const. induction idx as [|i idx IH]; intros a; cbn [fold_left map np_scatter]; auto. Qed.

(* a[pos(C)] = g(C): position k of the result holds g(l[k]) when l[k] is in C, the old value otherwise *)
Lemma scatter_pos_nth {X} (l : list idx) (g : idx -> X) (d : X) : NoDup l ->
  forall (C : list idx) (a : list X), length a = length l -> (forall i, In i C -> In i l) ->
  forall k, k < length l ->
  nth k (np_scatter a (map (fun i => Z.of_nat (pos i l)) C) (map g C)) d = if mem (nth k l []) C then g (nth k l []) else nth k a d.
Proof.
  intros Hn. induction C as [|c C IH]; intros a Ha HC k Hk; [reflexivity|].
  cbn [map np_scatter]. rewrite Nat2Z.id.
  assert (Hc : In c l) by (apply HC; cbn; auto). destruct (pos_spec c l Hc) as [Hp Hnth].
  rewrite IH; [|now rewrite upd_len|intros i Hi; apply HC; cbn; auto|exact Hk].
  rewrite upd_nth_Z by lia. unfold mem at 2. cbn [existsb]. fold (mem (nth k l []) C).
  destruct (mem (nth k l []) C); [now rewrite orb_true_r|]. rewrite orb_false_r.
  destruct (Nat.eqb_spec k (pos c l)) as [->|Hne].
  - now rewrite Hnth, idx_eqb_refl.
  - destruct (idx_eqb (nth k l []) c) eqn:E; [|reflexivity]. apply idx_eqb_spec in E. exfalso. apply Hne.
    apply (proj1 (NoDup_nth l []) Hn); auto. now rewrite Hnth.
Qed.

Lemma scatter_pos_map {X} (l C : list idx) (g : idx -> X) (d0 : X) : NoDup l -> (forall i, In i C -> In i l) ->
  np_scatter (repeat d0 (length l)) (map (fun i => Z.of_nat (pos i l)) C) (map g C) = map (fun i => if mem i C then g i else d0) l.
Proof.
  intros Hn HC. apply (nth_ext _ _ d0 ((fun i => if mem i C then g i else d0) [])).
  - now rewrite scatter_len, repeat_length, map_length.
  - intros k Hk. rewrite scatter_len, repeat_length in Hk. rewrite (map_nth (fun i => if mem i C then g i else d0)).
    rewrite (scatter_pos_nth l g d0 Hn C) by (auto; apply repeat_length). now rewrite nth_repeat.
Qed.

Lemma np_full_zlen {X Y} (l : list Y) (v : X) : np_full (zlen l) v = repeat v (length l).
Proof. unfold np_full, zlen. now rewrite Nat2Z.id. Qed.

Lemma if_nonempty_mask {X} (m : bvec) (l : list X) : (if nonempty m && nonempty l then np_mask l m else []) = np_mask l m.
Proof. destruct m, l; reflexivity. Qed.

Lemma mem_inter_l (l1 l2 : list idx) i : In i l1 -> mem i (filter (fun j => mem j l1) l2) = mem i l2.
Proof. intros H. apply eq_true_iff_eq. rewrite !mem_spec, filter_In, mem_spec. tauto. Qed.

(* selfIdx = ones(bool); selfIdx[pos(C)] = False; l[selfIdx] *)
Lemma mask_out_positions (l C : list idx) : NoDup l -> (forall i, In i C -> In i l) ->
  np_mask l (np_scatter_const (np_full (zlen l) true) (map (fun i => Z.of_nat (pos i l)) C) false) = filter (fun i => negb (mem i C)) l.
Proof.
  intros Hn HC. rewrite scatter_const_eq, np_full_zlen, map_map.
  rewrite (scatter_pos_map l C (fun _ => false) true Hn HC).
  rewrite (map_ext _ (fun i => negb (mem i C))) by (intros i; now destruct (mem i C)). apply np_mask_filter.
Qed.

Lemma mask_assign_map {X} (g : idx -> bool) (h : idx -> X) (d0 : X) (rows : list idx) :
  mask_assign (repeat d0 (length rows)) (map g rows) (map h (filter g rows)) = map (fun i => if g i then h i else d0) rows.
Proof.
  induction rows as [|r rows IH]; [reflexivity|]. cbn [length repeat map filter mask_assign].
  destruct (g r) eqn:E; cbn [map]; now rewrite IH.
Qed.

Lemma existsb_id_false (l : bvec) : existsb (fun b : bool => b) l = false -> forall b, In b l -> b = false.
Proof. induction l as [|x l IH]; cbn; [tauto|]. intros H b [<-|Hb]; apply orb_false_iff in H as [H1 H2]; auto. Qed.

(* tt_ismember_rows on every combination of empty / non-empty arguments, both outputs *)
Theorem ismember_rows_exact (S T : mat) : okw S -> okw T -> tt_ismember_rows S T = Ok (map (inrows T) S, map (loc T) S).
Proof.
  intros [->|HS] HT; [reflexivity|]. destruct HT as [->|HT].
  - unfold tt_ismember_rows. destruct (Z.eqb_spec (np_size2 S) 0) as [E|_]; [lia|]. change (np_size2 [] =? 0)%Z with true. cbv iota.
    unfold np_nrows, zlen. rewrite neg_full. unfold np_full. rewrite Nat2Z.id. f_equal. f_equal.
    + unfold inrows. cbn [find_last find_last_from is_some]. symmetry. apply map_const_repeat.
    + unfold loc. cbn [find_last find_last_from]. symmetry. apply map_const_repeat.
  - rewrite tt_ismember_rows_bridge by lia. reflexivity.
Qed.

Section Gen2.
Context {V : Type} (v0 : V) (isz : V -> bool).
Hypothesis isz_spec : forall v, isz v = true <-> v = v0.
Variable one : V.
Hypothesis one_nz : one <> v0.
Variable veqb : V -> V -> bool.
Hypothesis veqb_spec : forall a b, veqb a b = true <-> a = b.
Notation den := (den_sp v0).
Notation dend := (den_dense v0).
Notation wf := (wf_sp isz).
Notation wfs := (@wf_struct V).
Notation bv := (bval v0 one).

(* sptensor.extract over the generated tt_ismember_rows: the value at each requested subscript, implicit zeros included *)
Theorem extract_gen_spec (A : sparse V) (rows : list idx) : wfs A -> sshape A <> [] -> width (length (sshape A)) rows ->
  extract_gen v0 A rows = Ok (map (den A) rows).
Proof.
  intros W Hne Hw. assert (HN : 0 < length (sshape A)) by (destruct (sshape A); [contradiction|cbn; lia]).
  pose proof (width_subs A W) as WdA. pose proof W as (HL & Hn & Hb).
  unfold extract_gen. rewrite ismember_rows_exact by eauto using okw_zrows. cbn [bind fst snd].
  change (zrows rows) with (map zrow rows). rewrite !map_map.
  rewrite (map_ext (fun i => inrows (zrows (ssubs A)) (zrow i)) (fun i => mem i (ssubs A))) by (intros i; apply inrows_zrows).
  rewrite (np_mask_map (fun i => loc (zrows (ssubs A)) (zrow i)) (fun i => mem i (ssubs A)) rows).
  set (C := filter (fun i => mem i (ssubs A)) rows).
  assert (HC : forall i, In i C -> In i (ssubs A)) by (intros i Hi; apply filter_In in Hi as [_ Hi]; now apply mem_spec).
  rewrite (map_ext_in _ (fun i => Z.of_nat (pos i (ssubs A))) C) by (intros i Hi; apply loc_zrows; auto).
  rewrite take_pos. rewrite (map_ext_in _ (fun i => den A i) C) by (intros i Hi; apply (nth_pos_vals v0); auto).
  assert (Hd : forall i, (if mem i (ssubs A) then den A i else v0) = den A i).
  { intros i. destruct (mem i (ssubs A)) eqn:E; [reflexivity|]. apply mem_false in E. symmetry. now apply den_sp_notin. }
  f_equal. destruct (existsb (fun b : bool => b) (map (fun i => mem i (ssubs A)) rows)) eqn:Ex.
  - unfold C. rewrite (mask_assign_map (fun i => mem i (ssubs A)) (fun i => den A i) v0 rows). now apply map_ext.
  - rewrite <- map_const_repeat. apply map_ext_in. intros i Hi. rewrite <- Hd.
    rewrite (existsb_id_false _ Ex (mem i (ssubs A))); [reflexivity|]. apply in_map_iff. now exists i.
Qed.

(* S != S2 over the generated helpers is, list for list, the algorithm of C03_ne_sparse *)
Theorem impl_ne_sparse_gen_eq (A B : sparse V) : wfs A -> wfs B -> sshape B = sshape A -> sshape A <> [] ->
  impl_ne_sparse_gen v0 one veqb A B = Ok (impl_ne_sparse v0 one veqb A B).
Proof.
  intros WA WB Hs Hne. assert (HN : 0 < length (sshape A)) by (destruct (sshape A); [contradiction|cbn; lia]).
  pose proof (width_subs A WA) as WdA. pose proof (width_subs B WB) as WdB. rewrite Hs in WdB.
  pose proof WA as (HLA & HnA & HbA). pose proof WB as (HLB & HnB & HbB).
  unfold impl_ne_sparse_gen, impl_ne_sparse. cbv zeta.
  rewrite (intersect_rows_idx _ HN (ssubs A) (ssubs B)) by auto. cbn [bind].
  rewrite (intersect_rows_idx _ HN (ssubs B) (ssubs A)) by auto. cbn [bind].
  set (CA := filter (fun i => mem i (ssubs A)) (ssubs B)). set (CB := filter (fun i => mem i (ssubs B)) (ssubs A)).
  assert (HCA : forall i, In i CA -> In i (ssubs A)) by (intros i Hi; apply filter_In in Hi as [_ Hi]; now apply mem_spec).
  assert (HCB : forall i, In i CB -> In i (ssubs B)) by (intros i Hi; apply filter_In in Hi as [_ Hi]; now apply mem_spec).
  rewrite !if_nonempty_mask. rewrite (mask_out_positions (ssubs A) CA HnA HCA), (mask_out_positions (ssubs B) CB HnB HCB).
  assert (E1 : filter (fun i => negb (mem i CA)) (ssubs A) = rows_diff (ssubs A) (ssubs B)).
  { unfold rows_diff. apply filter_ext_in. intros i Hi. unfold CA. now rewrite mem_inter_l. }
  assert (E2 : filter (fun i => negb (mem i CB)) (ssubs B) = rows_diff (ssubs B) (ssubs A)).
  { unfold rows_diff. apply filter_ext_in. intros i Hi. unfold CB. now rewrite mem_inter_l. }
  rewrite E1, E2.
  set (ne := fun i => negb (veqb (den A i) (den B i))).
  match goal with |- bind ?x _ = _ =>
    assert (E3 : x = Ok (filter (fun i => mem i (ssubs B) && ne i) (ssubs A))) end.
  { destruct (nonempty_cases (ssubs A)) as [El|El]; [rewrite El; reflexivity|].
    destruct (nonempty_cases (ssubs B)) as [Fl|Fl].
    { rewrite Fl, andb_false_r. f_equal. symmetry. rewrite (filter_ext _ (fun _ => false)) by reflexivity. apply filter_false. }
    rewrite El, Fl. cbn [andb bind].
    assert (ET : np_take [] (ssubs A) (map (fun i => Z.of_nat (pos i (ssubs A))) CA) = CA).
    { rewrite take_pos. rewrite <- (map_id CA) at 2. apply map_ext_in. intros i Hi. now apply pos_spec, HCA. }
    rewrite ET.
    assert (WCA : width (length (sshape A)) CA) by (unfold CA; now apply width_filter).
    rewrite (extract_gen_spec A CA WA Hne WCA). cbn [bind].
    rewrite (extract_gen_spec B CA WB) by (rewrite ?Hs; auto). cbn [bind]. f_equal.
    rewrite zipw_map, np_full_zlen. fold ne.
    rewrite (scatter_pos_map (ssubs A) CA ne false HnA HCA). rewrite np_mask_filter.
    apply filter_ext_in. intros i Hi. unfold CA. rewrite mem_inter_l by auto. now destruct (mem i (ssubs B)). }
  rewrite E3. cbn [bind]. reflexivity.
Qed.

(* S == T over extract / the generated tt_ismember_rows is, list for list, the algorithm of C03_eq_dense *)
Theorem impl_eq_dense_gen_eq (A : sparse V) (T : dense V) : wfs A -> sshape A <> [] ->
  impl_eq_dense_gen v0 isz one veqb A T = Ok (impl_eq_dense v0 isz one veqb A T).
Proof.
  intros WA Hne. unfold impl_eq_dense_gen, impl_eq_dense. cbv zeta.
  rewrite (extract_gen_spec A _ WA Hne) by (apply width_filter, width_allsubs). cbn [bind]. f_equal. f_equal. f_equal.
  - rewrite map_map. apply np_mask_filter.
  - destruct (nonempty_cases (ssubs A)) as [El|El]; [|now rewrite El]. rewrite El. unfold entries. now rewrite El.
Qed.
(* ---- S != T over the generated tt_union_rows and tt_setdiff_rows ---- *)
Lemma ssorted_map_filter {X Y} (R : Y -> Y -> Prop) (f : X -> Y) (p : X -> bool) (l : list X) :
  StronglySorted R (map f l) -> StronglySorted R (map f (filter p l)).
Proof.
  induction l as [|x l IH]; cbn [map filter]; intros H; [constructor|].
  inversion H as [|? ? Hs Hf]; subst. destruct (p x); [|now apply IH]. cbn [map]. constructor; [now apply IH|].
  rewrite Forall_forall in *. intros y Hy. apply Hf. apply in_map_iff in Hy as (z & <- & Hz). apply in_map_iff. exists z.
  split; [reflexivity|]. now apply filter_In in Hz as [Hz _].
Qed.

Lemma zrows_filter_notin (l1 l2 : list idx) :
  filter (fun r => negb (inrows (zrows l1) r)) (zrows l2) = zrows (filter (fun i => negb (mem i l1)) l2).
Proof. unfold zrows at 2 3. rewrite filter_map_comm. f_equal. apply filter_ext. intros i. now rewrite inrows_zrows. Qed.

Lemma zrows_app (a b : list idx) : zrows (a ++ b) = zrows a ++ zrows b.
Proof. apply map_app. Qed.

(* closed form: the union, then the positions of the enumeration outside it *)
Theorem impl_ne_dense_gen_eq (alls : list idx) (A : sparse V) (T : dense V) : wfs A -> sshape A <> [] ->
  NoDup alls -> (forall i, In i alls <-> inb (sshape A) i = true) -> StronglySorted row_lt (zrows alls) ->
  let U := rows_diff (filter (fun i => isz (dend T i)) alls) (ssubs A) ++ ssubs A in
  impl_ne_dense_gen v0 isz one veqb alls A T =
  Ok (sp_const (sshape A) (rows_diff alls U ++ map fst (filter (fun e => negb (veqb (snd e) (dend T (fst e)))) (entries A))) one).
Proof.
  intros WA Hne Hnd Hall Hsort U. assert (HN : 0 < length (sshape A)) by (destruct (sshape A); [contradiction|cbn; lia]).
  pose proof (width_subs A WA) as WdA. pose proof WA as (HLA & HnA & HbA).
  assert (Wall : width (length (sshape A)) alls) by (intros i Hi; apply Hall in Hi; now apply inb_length).
  set (tz := filter (fun i => isz (dend T i)) alls) in *.
  assert (Wtz : width (length (sshape A)) tz) by (now apply width_filter).
  assert (Ntz : NoDup tz) by (now apply NoDup_filter).
  unfold impl_ne_dense_gen. cbv zeta. fold tz.
  rewrite (tt_union_rows_sortedB (zrows (ssubs A)) (zrows tz)).
  2: now apply zrows_NoDup. 2: now apply (okw_zrows (length (sshape A))). 2: now apply (okw_zrows (length (sshape A))).
  2: { apply StronglySorted_Sorted. unfold zrows, tz. now apply ssorted_map_filter. }
  2: { intros r q Hr Hq. apply in_map_iff in Hr as (i & <- & Hi). apply in_map_iff in Hq as (j & <- & Hj).
       unfold zrow. rewrite !map_length. now rewrite (WdA i Hi), (Wtz j Hj). }
  cbn [bind]. rewrite zrows_filter_notin. fold (rows_diff tz (ssubs A)). rewrite <- zrows_app. fold U.
  assert (NU : NoDup U).
  { unfold U. apply NoDup_app_intro; [now apply NoDup_filter|exact HnA|]. intros i H1 H2. apply in_rows_diff in H1. tauto. }
  assert (WU : width (length (sshape A)) U).
  { intros i Hi. unfold U in Hi. apply in_app_iff in Hi as [Hi|Hi]; [apply in_rows_diff in Hi as [Hi _]; now apply Wtz|now apply WdA]. }
  assert (IU : forall i, In i U -> In i alls).
  { intros i Hi. unfold U in Hi. apply in_app_iff in Hi as [Hi|Hi].
    - apply in_rows_diff in Hi as [Hi _]. now apply filter_In in Hi as [Hi _].
    - apply Hall. now apply wf_inb. }
  assert (Lall : length alls = size (sshape A)).
  { rewrite <- (seq_length (size (sshape A)) 0), <- (map_length (ind2sub (sshape A))). fold (allsubs (sshape A)).
    apply Permutation_length. apply NoDup_Permutation; auto using allsubs_NoDup. intros i. now rewrite Hall, in_allsubs. }
  match goal with |- bind ?x _ = _ => assert (E : x = Ok (rows_diff alls U)) end.
  { unfold zrows at 1. rewrite map_length.
    destruct (Nat.eqb_spec (length U) (size (sshape A))) as [EL|NL]; cbn [negb].
    - f_equal. symmetry. unfold rows_diff.
      assert (Hin : incl alls U) by (apply NoDup_length_incl; [exact NU|lia|exact IU]).
      rewrite (filter_ext_in _ (fun _ => false)); [apply filter_false|]. intros i Hi. apply negb_false_iff, mem_spec. now apply Hin.
    - change (bind (tt_setdiff_rows (zrows alls) (zrows U)) (fun subs1Idx => Ok (np_take [] alls subs1Idx))) with (gen_diff alls U).
      now apply (gen_diff_spec _ HN). }
  rewrite E. cbn [bind]. f_equal. f_equal. f_equal.
  destruct (nonempty_cases (ssubs A)) as [El|El]; [|now rewrite El]. rewrite El. unfold entries. now rewrite El.
Qed.

Theorem impl_ne_dense_gen_correct (alls : list idx) (A : sparse V) (T : dense V) : wf A -> sshape A <> [] ->
  NoDup alls -> (forall i, In i alls <-> inb (sshape A) i = true) -> StronglySorted row_lt (zrows alls) ->
  exists R, impl_ne_dense_gen v0 isz one veqb alls A T = Ok R /\ wf R /\ sshape R = sshape A /\
            forall i, inb (sshape A) i = true -> den R i = bv (negb (veqb (den A i) (dend T i))).
Proof.
  intros WA Hne Hnd Hall Hsort. pose proof (wf_sp_struct isz A WA) as Ws.
  eexists. split; [now apply impl_ne_dense_gen_eq|]. cbv zeta.
  set (tz := filter (fun i => isz (dend T i)) alls). set (U := rows_diff tz (ssubs A) ++ ssubs A).
  set (g1 := rows_diff alls U).
  set (g2 := map fst (filter (fun e => negb (veqb (snd e) (dend T (fst e)))) (entries A))).
  assert (H1 : forall i, In i g1 <-> inb (sshape A) i = true /\ ~ In i (ssubs A) /\ dend T i <> v0).
  { intros i. unfold g1, U, tz. rewrite in_rows_diff, in_app_iff, in_rows_diff, filter_In, Hall, isz_spec.
    destruct (in_dec idx_dec i (ssubs A)) as [HA|HA]; [tauto|]. split; [intros (Hi & Hn); repeat split; auto; intros E; apply Hn; left; tauto|tauto]. }
  assert (H2 : forall i, In i g2 <-> In i (ssubs A) /\ negb (veqb (den A i) (dend T i)) = true).
  { intros i. unfold g2. now rewrite (in_fst_filter_entries v0). }
  destruct (sp_const_char v0 isz isz_spec one one_nz (sshape A) (g1 ++ g2) (fun i => negb (veqb (den A i) (dend T i)))) as (W & D).
  - apply NoDup_app_intro.
    + now apply NoDup_filter.
    + unfold g2. apply NoDup_map_fst_filter. now apply NoDup_fst_entries.
    + intros i Hi1 Hi2. apply H1 in Hi1. apply H2 in Hi2. tauto.
  - intros i Hi. apply in_app_iff in Hi as [Hi|Hi]; [apply H1 in Hi; tauto|apply H2 in Hi; apply wf_inb; tauto].
  - intros i Hi. rewrite in_app_iff, H1, H2.
    destruct (in_dec idx_dec i (ssubs A)) as [Hin|Hout]; [tauto|].
    rewrite (den_sp_notin v0 A i Hout), negb_true_iff. rewrite <- (not_true_iff_false (veqb v0 (dend T i))), veqb_spec. split.
    + intros [(_ & _ & E)|?]; [|tauto]. intros E'. now symmetry in E'.
    + intros E. left. split; [auto|split; [auto|]]. intros E'. now symmetry in E'.
  - split; [exact W|split; [reflexivity|exact D]].
Qed.
End Gen2.

(* ------------------------------------------------------------------------------------------ *)
(* pyttb's enumeration of a shape (allsubs(): first mode slowest = the order of np.where) is in strict lexicographic row order *)
(* ------------------------------------------------------------------------------------------ *)
Lemma row_ltb_app_lt (X Y : vec) x y : length X = length Y -> row_ltb X Y = true -> row_ltb (X ++ x) (Y ++ y) = true.
Proof.
  revert Y; induction X as [|a X IH]; intros [|b Y] HL H; cbn in *; try discriminate.
  destruct (a <? b)%Z; [reflexivity|]. destruct (a =? b)%Z; [|discriminate]. apply IH; auto.
Qed.

Lemma row_ltb_app_same (X : vec) x y : row_ltb (X ++ [x]) (X ++ [y]) = (x <? y)%Z.
Proof.
  induction X as [|a X IH]; cbn.
  - destruct (x <? y)%Z; [reflexivity|]. now destruct (x =? y)%Z.
  - now rewrite Z.ltb_irrefl, Z.eqb_refl.
Qed.

Lemma ind2sub_colex (s : shape) : forall a b, a < b -> b < size s ->
  row_ltb (zrow (rev (ind2sub s a))) (zrow (rev (ind2sub s b))) = true.
Proof.
  induction s as [|d s IH]; intros a b Hab Hb; [cbn in Hb; lia|].
  rewrite size_cons in Hb. assert (Hd : d <> 0) by (intros ->; cbn in Hb; lia).
  cbn [ind2sub rev]. unfold zrow. rewrite !map_app. cbn [map].
  pose proof (Nat.div_mod a d Hd) as Ea. pose proof (Nat.div_mod b d Hd) as Eb.
  pose proof (Nat.mod_upper_bound a d Hd) as Ma. pose proof (Nat.mod_upper_bound b d Hd) as Mb.
  destruct (Nat.eq_dec (a / d) (b / d)) as [Eq|Nq].
  - rewrite Eq. rewrite row_ltb_app_same. apply Z.ltb_lt. rewrite Eq in Ea. lia.
  - apply row_ltb_app_lt; [now rewrite !map_length, !rev_length, !ind2sub_length|].
    apply IH.
    + assert (a / d <= b / d) by (apply Nat.div_le_mono; lia). lia.
    + apply Nat.div_lt_upper_bound; auto.
Qed.

Lemma ssorted_map_seq {Y} (R : Y -> Y -> Prop) (f : nat -> Y) n : forall o,
  (forall a b, o <= a -> a < b -> b < o + n -> R (f a) (f b)) -> StronglySorted R (map f (seq o n)).
Proof.
  induction n as [|n IH]; intros o H; cbn [seq map]; constructor.
  - apply IH. intros a b Ha Hab Hb. apply H; lia.
  - apply Forall_forall. intros y Hy. apply in_map_iff in Hy as (b & <- & Hb). apply in_seq in Hb. apply H; lia.
Qed.

Theorem allsubsC_sorted (s : shape) : StronglySorted row_lt (zrows (allsubsC s)).
Proof.
  unfold zrows, allsubsC, allsubs. rewrite !map_map. apply ssorted_map_seq.
  intros a b _ Hab Hb. unfold row_lt. apply ind2sub_colex; auto.
Qed.

(* S != T over pyttb's own enumeration: the element-wise specification, for all well-formed operands of order >= 1 *)
Theorem impl_ne_dense_gen_C {V : Type} (v0 : V) (isz : V -> bool) (isz_spec : forall v, isz v = true <-> v = v0)
  (one : V) (one_nz : one <> v0) (veqb : V -> V -> bool) (veqb_spec : forall a b, veqb a b = true <-> a = b)
  (A : sparse V) (T : dense V) : wf_sp isz A -> sshape A <> [] ->
  exists R, impl_ne_dense_gen v0 isz one veqb (allsubsC (sshape A)) A T = Ok R /\ wf_sp isz R /\ sshape R = sshape A /\
            forall i, inb (sshape A) i = true -> den_sp v0 R i = bval v0 one (negb (veqb (den_sp v0 A i) (den_dense v0 T i))).
Proof.
  intros WA Hne. apply (impl_ne_dense_gen_correct v0 isz isz_spec one one_nz veqb veqb_spec); auto.
  - apply allsubsC_NoDup.
  - apply in_allsubsC.
  - apply allsubsC_sorted.
Qed.

(* end-to-end statements for the two transliterations that equal a hand model list for list *)
Section EndToEnd.
Context {V : Type} (v0 : V) (isz : V -> bool).
Hypothesis isz_spec : forall v, isz v = true <-> v = v0.
Variable one : V.
Hypothesis one_nz : one <> v0.
Variable veqb : V -> V -> bool.
Hypothesis veqb_spec : forall a b, veqb a b = true <-> a = b.

Theorem impl_ne_sparse_gen_correct (A B : sparse V) : wf_sp isz A -> wf_sp isz B -> sshape B = sshape A -> sshape A <> [] ->
  exists R, impl_ne_sparse_gen v0 one veqb A B = Ok R /\ wf_sp isz R /\ sshape R = sshape A /\
            forall i, inb (sshape A) i = true -> den_sp v0 R i = bval v0 one (negb (veqb (den_sp v0 A i) (den_sp v0 B i))).
Proof.
  intros WA WB Hs Hne. eexists. split.
  - apply impl_ne_sparse_gen_eq; eauto using wf_sp_struct.
  - now apply (impl_ne_sparse_correct v0 isz isz_spec one one_nz veqb veqb_spec).
Qed.

Theorem impl_eq_dense_gen_correct (A : sparse V) (T : dense V) : wf_sp isz A -> sshape A <> [] ->
  exists R, impl_eq_dense_gen v0 isz one veqb A T = Ok R /\ wf_sp isz R /\ sshape R = sshape A /\
            forall i, inb (sshape A) i = true -> den_sp v0 R i = bval v0 one (veqb (den_sp v0 A i) (den_dense v0 T i)).
Proof.
  intros WA Hne. eexists. split.
  - apply impl_eq_dense_gen_eq; eauto using wf_sp_struct.
  - now apply (impl_eq_dense_correct v0 isz isz_spec one one_nz veqb veqb_spec).
Qed.
End EndToEnd.
