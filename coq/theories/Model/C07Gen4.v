(* Model/C07Gen4.v — the permute REQUEST on sparse and Kruskal holders entirely over GENERATED code: the order as written is read
   by the generated parse_one_d (Gen/GenUtils3b.v, through Model/C07Req.v order_of), the operation is the generated whole
   method sptensor.permute / ktensor.permute (Gen/GenSptensor4.v, Gen/GenKtensor4.v; `self` is a record of Np/NpZ3.v).
   Definitions only; Proofs/C07Gen4.v ties them to permute_sp_req / permute_k_req of Model/C07Req.v. *)
From Coq Require Import List ZArith Bool.
From PV Require Import Np.NpZ Np.NpZ2 Np.NpZ3 Np.NpZ3b Gen.GenUtils3b Gen.GenSptensor4 Gen.GenKtensor4 Model.C07Req Model.C07W5.
Import ListNotations.

(* sptensor.permute looks at the dtype of the parsed order (`order.dtype == bool`, /repo 9c8fdd5): the generated method takes
   the 0 / 1 vector of a boolean order together with the flag `true`; an integer order goes in with `false`; any other parsed
   array (floats) never reaches a result (numpy refuses it as a column index) *)
Definition sptensor_permute_req (self : sptz) (x : pyshp) : res sptz :=
  match bool_order_of x with
  | Some bz => sptensor_permute self bz true
  | None => match order_of x with Some pz => sptensor_permute self pz false | None => Err end
  end.
(* ktensor.permute takes the entries of a boolean order as the numbers 1 / 0 (order.tolist(), list indexing): order_of_k of
   Model/C07W5.v; on integer orders order_of_k = order_of *)
Definition ktensor_permute_req (self : ktz) (x : pyshp) : res ktz :=
  match order_of_k x with Some pz => ktensor_permute self pz | None => Err end.
