(* Proofs/C17Dup.v — the GENERATED row-set helpers tt_intersect_rows / tt_setdiff_rows (Gen/GenUtils.v) and
   tt_union_rows (Gen/GenUtils2.v) on ARBITRARY row lists: repeated rows in either argument, any stored order.

   np.unique(m, axis=0, return_index=True) on rows with repetitions is characterised first:
       rows[argsort(idx)]  = dedup m     (distinct rows of m in first-occurrence order)
       sort(idx) = unique(idx) = firstpos m   (ascending positions of the first occurrences)
       m[firstpos m]       = dedup m
   and from it exactly what the three helpers return.  Consequences:
     * tt_union_rows is set union for all arguments (each row once; new rows of B in B's order, then the rows of A);
     * tt_intersect_rows / tt_setdiff_rows meet their index contract whenever the FIRST argument is duplicate-free
       (second argument arbitrary);
     * with repeated rows in the first argument the returned numbers are positions in `dedup A`, not in A: the
       full-strength contract is refuted (finding A-41), the refutations are kept below. *)
From Coq Require Import List ZArith Arith Bool Lia Permutation Sorted.
From PV Require Import Base.Index Np.NpZ Np.NpZ2 Proofs.NpZProofs Proofs.UtilsProofs Gen.GenUtils Proofs.RowsProofs
  Proofs.C03Rows Gen.GenUtils2 Proofs.GenRows.
Import ListNotations.
Local Open Scope Z_scope.

(* ------------------------------------------------------------------------------------------ *)
(* the lexicographic order np.unique(axis=0) sorts by is a strict total order on rows           *)
(* ------------------------------------------------------------------------------------------ *)
Lemma row_ltb_irrefl r : row_ltb r r = false.
Proof. induction r as [|x r IH]; cbn; [reflexivity|]. now rewrite Z.ltb_irrefl, Z.eqb_refl. Qed.

Lemma row_ltb_trans a b c : row_ltb a b = true -> row_ltb b c = true -> row_ltb a c = true.
Proof.
  revert b c; induction a as [|x a IH]; intros [|y b] [|z c]; cbn; try discriminate; auto.
  destruct (Z.ltb_spec x y), (Z.ltb_spec y z), (Z.ltb_spec x z); try lia; auto;
    destruct (Z.eqb_spec x y), (Z.eqb_spec y z), (Z.eqb_spec x z); try lia; try discriminate; eauto.
Qed.

Lemma row_tricho a b : row_ltb a b = false -> row_eqb a b = false -> row_ltb b a = true.
Proof.
  revert b; induction a as [|x a IH]; intros [|y b]; cbn; try discriminate; auto.
  destruct (Z.ltb_spec x y); [discriminate|]. destruct (Z.eqb_spec x y) as [->|Hne].
  - rewrite Z.ltb_irrefl, Z.eqb_refl. cbn. apply IH.
  - intros _ _. destruct (Z.ltb_spec y x); [reflexivity|lia].
Qed.

Lemma row_ltb_neq a b : row_ltb a b = true -> row_eqb a b = false.
Proof.
  intros H. destruct (row_eqb a b) eqn:E; [|reflexivity]. apply row_eqb_spec in E. subst.
  rewrite row_ltb_irrefl in H. discriminate.
Qed.

Lemma row_eqb_refl r : row_eqb r r = true.
Proof. now apply row_eqb_spec. Qed.

(* ------------------------------------------------------------------------------------------ *)
(* the insertion fold of np_unique_rows on tagged rows WITH repetitions                          *)
(* ------------------------------------------------------------------------------------------ *)
Definition rlt (p q : vec * Z) : Prop := row_ltb (fst p) (fst q) = true.
Definition remove_row (r : vec) (l : list (vec * Z)) : list (vec * Z) :=
  filter (fun q => negb (row_eqb r (fst q))) l.

(* the pairs (row, tag) of the first occurrences, in order of occurrence *)
Fixpoint firstpairs (ps : list (vec * Z)) : list (vec * Z) :=
  match ps with
  | [] => []
  | p :: ps' => p :: remove_row (fst p) (firstpairs ps')
  end.

Lemma filter_id {X} (f : X -> bool) l : (forall x, In x l -> f x = true) -> filter f l = l.
Proof.
  induction l as [|x l IH]; intros H; cbn; [reflexivity|]. rewrite H by (cbn; auto). f_equal. apply IH.
  intros; apply H; cbn; auto.
Qed.

Lemma remove_row_id r l : (forall q, In q l -> row_eqb r (fst q) = false) -> remove_row r l = l.
Proof. intros H. apply filter_id. intros q Hq. now rewrite H. Qed.

Lemma remove_row_cons_eq r q l : row_eqb r (fst q) = true -> remove_row r (q :: l) = remove_row r l.
Proof. intros E. unfold remove_row. cbn [filter]. now rewrite E. Qed.

Lemma remove_row_cons_ne r q l : row_eqb r (fst q) = false -> remove_row r (q :: l) = q :: remove_row r l.
Proof. intros E. unfold remove_row. cbn [filter]. now rewrite E. Qed.

Lemma ins_urow_fst p l x : In x (ins_urow p l) -> fst x = fst p \/ exists q, In q l /\ fst x = fst q.
Proof.
  induction l as [|q l IH]; cbn [ins_urow].
  - intros [<-|[]]. now left.
  - destruct (row_ltb (fst p) (fst q)).
    + intros [E|H]; [left; now subst x|]. right. exists x. split; [exact H|reflexivity].
    + destruct (row_eqb (fst p) (fst q)).
      * intros [E|H]; right; [exists q; subst x; cbn; auto|exists x; cbn; auto].
      * intros [E|H]; [right; exists x; subst x; cbn; auto|].
        destruct (IH H) as [E|(q' & Hq' & E)]; [now left|right; exists q'; cbn; auto].
Qed.

Lemma ins_urow_sorted p l : StronglySorted rlt l -> StronglySorted rlt (ins_urow p l).
Proof.
  induction l as [|q l IH]; intros Hs; cbn [ins_urow]; [repeat constructor|].
  inversion Hs as [|? ? Hs' Hq]; subst. rewrite Forall_forall in Hq.
  destruct (row_ltb (fst p) (fst q)) eqn:E1.
  - constructor; [exact Hs|]. constructor; [exact E1|]. rewrite Forall_forall. intros x Hx.
    unfold rlt in *. eapply row_ltb_trans; [exact E1|]. now apply Hq.
  - destruct (row_eqb (fst p) (fst q)) eqn:E2.
    + constructor; [exact Hs'|]. rewrite Forall_forall. intros x Hx. unfold rlt. cbn [fst]. now apply Hq.
    + constructor; [now apply IH|]. rewrite Forall_forall. intros x Hx. unfold rlt.
      destruct (ins_urow_fst _ _ _ Hx) as [E|(q' & Hq' & E)]; rewrite E.
      * now apply row_tricho.
      * now apply Hq.
Qed.

Lemma ins_urow_perm_gen p l : StronglySorted rlt l -> (forall q, In q l -> snd p <= snd q) ->
  Permutation (ins_urow p l) (p :: remove_row (fst p) l).
Proof.
  induction l as [|q l IH]; intros Hs Hle; cbn [ins_urow]; [apply Permutation_refl|].
  inversion Hs as [|? ? Hs' Hq]; subst. rewrite Forall_forall in Hq. unfold rlt in Hq.
  destruct (row_ltb (fst p) (fst q)) eqn:E1.
  - rewrite remove_row_id; [apply Permutation_refl|]. intros x [<-|Hx]; apply row_ltb_neq; [exact E1|].
    eapply row_ltb_trans; [exact E1|now apply Hq].
  - destruct (row_eqb (fst p) (fst q)) eqn:E2.
    + rewrite remove_row_cons_eq by exact E2. apply row_eqb_spec in E2.
      rewrite remove_row_id.
      * rewrite Z.min_l by (apply Hle; cbn; auto). rewrite <- E2. destruct p; apply Permutation_refl.
      * intros x Hx. apply row_ltb_neq. rewrite E2. now apply Hq.
    + rewrite remove_row_cons_ne by exact E2.
      eapply perm_trans; [apply perm_skip, IH|apply perm_swap]; [exact Hs'|]. intros x Hx. apply Hle. cbn; auto.
Qed.

Lemma Permutation_filter' {X} (f : X -> bool) l l' : Permutation l l' -> Permutation (filter f l) (filter f l').
Proof.
  induction 1 as [|x l l' HP IH|x y l|l l' l'' H1 IH1 H2 IH2]; cbn.
  - constructor.
  - destruct (f x); [now constructor|exact IH].
  - destruct (f x), (f y); try apply Permutation_refl. apply perm_swap.
  - eapply perm_trans; eauto.
Qed.

Lemma firstpairs_incl ps x : In x (firstpairs ps) -> In x ps.
Proof.
  induction ps as [|p ps IH]; cbn [firstpairs]; [auto|]. intros [<-|H]; [cbn; auto|]. right. apply IH.
  unfold remove_row in H. apply filter_In in H. tauto.
Qed.

Lemma urow_fold_sorted ps : StronglySorted rlt (fold_right ins_urow [] ps).
Proof. induction ps as [|p ps IH]; cbn [fold_right]; [constructor|now apply ins_urow_sorted]. Qed.

Lemma urow_fold_firstpairs ps : StronglySorted Z.lt (map snd ps) ->
  Permutation (fold_right ins_urow [] ps) (firstpairs ps).
Proof.
  induction ps as [|p ps IH]; intros Hs; cbn [fold_right firstpairs]; [constructor|].
  cbn [map] in Hs. inversion Hs as [|? ? Hs' Hp]; subst. rewrite Forall_forall in Hp.
  eapply perm_trans; [apply ins_urow_perm_gen; [apply urow_fold_sorted|]|apply perm_skip, Permutation_filter', IH; exact Hs'].
  intros q Hq. eapply Permutation_in in Hq; [|apply IH; exact Hs']. apply firstpairs_incl in Hq.
  apply Z.lt_le_incl, Hp. now apply in_map.
Qed.

Lemma sorted_map_filter {X} (g : X -> Z) f l : StronglySorted Z.lt (map g l) -> StronglySorted Z.lt (map g (filter f l)).
Proof.
  induction l as [|a l IH]; cbn; intros H; [constructor|]. inversion H as [|? ? Hs' Hf]; subst.
  destruct (f a); cbn; [|now apply IH]. constructor; [now apply IH|]. rewrite Forall_forall in *.
  intros z Hz. apply in_map_iff in Hz as (x & <- & Hx). apply filter_In in Hx as [Hx _]. apply Hf. now apply in_map.
Qed.

Lemma firstpairs_snd_sorted ps : StronglySorted Z.lt (map snd ps) -> StronglySorted Z.lt (map snd (firstpairs ps)).
Proof.
  induction ps as [|p ps IH]; cbn [firstpairs map]; intros Hs; [constructor|].
  inversion Hs as [|? ? Hs' Hf]; subst. rewrite Forall_forall in Hf. constructor.
  - unfold remove_row. apply sorted_map_filter. now apply IH.
  - rewrite Forall_forall. intros z Hz. apply in_map_iff in Hz as (x & <- & Hx). unfold remove_row in Hx.
    apply filter_In in Hx as [Hx _]. apply firstpairs_incl in Hx. apply Hf. now apply in_map.
Qed.

(* ------------------------------------------------------------------------------------------ *)
(* specification side: distinct rows in first-occurrence order and their positions              *)
(* ------------------------------------------------------------------------------------------ *)
Fixpoint dedup (m : mat) : mat :=
  match m with
  | [] => []
  | r :: m' => r :: filter (fun q => negb (row_eqb r q)) (dedup m')
  end.

Definition firstpos (m : mat) : vec := map snd (firstpairs (combine m (tags m))).

Lemma map_fst_remove_row r l : map fst (remove_row r l) = filter (fun q => negb (row_eqb r q)) (map fst l).
Proof.
  unfold remove_row. induction l as [|[a b] l IH]; cbn; [reflexivity|].
  destruct (row_eqb r a); cbn; now rewrite IH.
Qed.

Lemma firstpairs_fst (m : mat) (ts : vec) : length ts = length m -> map fst (firstpairs (combine m ts)) = dedup m.
Proof.
  revert ts; induction m as [|r m IH]; intros [|t ts] H; cbn in *; try discriminate; [reflexivity|].
  f_equal. rewrite map_fst_remove_row. f_equal. apply IH. lia.
Qed.

Lemma dedup_in m r : In r (dedup m) <-> In r m.
Proof.
  induction m as [|a m IH]; cbn [dedup In]; [tauto|]. rewrite filter_In, IH, negb_true_iff. split.
  - intros [->|[H _]]; auto.
  - intros [->|H]; [auto|]. destruct (row_eqb a r) eqn:E; [apply row_eqb_spec in E; auto|auto].
Qed.

Lemma dedup_nodup m : NoDup (dedup m).
Proof.
  induction m as [|a m IH]; cbn [dedup]; constructor.
  - rewrite filter_In. intros [_ H]. rewrite row_eqb_refl in H. discriminate.
  - now apply NoDup_filter.
Qed.

Lemma dedup_id m : NoDup m -> dedup m = m.
Proof.
  induction m as [|a m IH]; cbn [dedup]; intros H; [reflexivity|]. inversion H as [|? ? Hni Hn]; subst.
  f_equal. rewrite IH by exact Hn. apply filter_id. intros q Hq. apply negb_true_iff.
  destruct (row_eqb a q) eqn:E; [|reflexivity]. apply row_eqb_spec in E. subst. contradiction.
Qed.

Lemma firstpairs_id ps : NoDup (map fst ps) -> firstpairs ps = ps.
Proof.
  induction ps as [|p ps IH]; cbn [firstpairs map]; intros H; [reflexivity|]. inversion H as [|? ? Hni Hn]; subst.
  f_equal. rewrite IH by exact Hn. apply remove_row_id. intros q Hq.
  destruct (row_eqb (fst p) (fst q)) eqn:E; [|reflexivity]. apply row_eqb_spec in E. exfalso. apply Hni.
  rewrite E. now apply in_map.
Qed.

Lemma tags_length (m : mat) : length (tags m) = length m.
Proof. unfold tags. now rewrite map_length, seq_length. Qed.

Lemma firstpos_id m : NoDup m -> firstpos m = tags m.
Proof.
  intros H. unfold firstpos. rewrite firstpairs_id.
  - apply map_snd_combine. now rewrite tags_length.
  - rewrite map_fst_combine by (now rewrite tags_length). exact H.
Qed.

Lemma inrows_dedup A r : inrows (dedup A) r = inrows A r.
Proof. apply eq_true_iff_eq. rewrite !inrows_spec. apply dedup_in. Qed.

Lemma np_size2_pos (m : mat) : 0 < np_size2 m <-> exists r, In r m /\ r <> [].
Proof.
  induction m as [|a m IH].
  - cbn. split; [lia|]. intros (r & [] & _).
  - rewrite np_size2_cons. pose proof (np_size2_nonneg m) as Hnn. split.
    + intros H. destruct a as [|x a].
      * change (zlen (@nil Z)) with 0 in H. destruct (proj1 IH) as (r & Hr & Hne); [lia|]. exists r. cbn; auto.
      * exists (x :: a). split; [cbn; auto|discriminate].
    + intros (r & [<-|Hr] & Hne).
      * destruct a as [|x a]; [contradiction|]. unfold zlen. cbn [length]. lia.
      * assert (0 < np_size2 m) by (apply IH; eauto). unfold zlen. lia.
Qed.

Lemma okw_dedup m : okw m -> okw (dedup m).
Proof.
  intros [->|H]; [now left|]. right. apply np_size2_pos. apply np_size2_pos in H as (r & Hr & Hne).
  exists r. split; [now apply dedup_in|exact Hne].
Qed.

(* ------------------------------------------------------------------------------------------ *)
(* rows[argsort(idx)] and sort(idx) for a tagged list whose tags are distinct                   *)
(* ------------------------------------------------------------------------------------------ *)
Lemma nodup_map_inj {X Y} (g : X -> Y) l x y : NoDup (map g l) -> In x l -> In y l -> g x = g y -> x = y.
Proof.
  induction l as [|a l IH]; cbn; intros Hn Hx Hy E; [contradiction|]. inversion Hn as [|? ? Hni Hn']; subst.
  destruct Hx as [->|Hx], Hy as [->|Hy]; auto.
  - exfalso. apply Hni. rewrite E. now apply in_map.
  - exfalso. apply Hni. rewrite <- E. now apply in_map.
Qed.

Lemma take_argsort_keys (l l' : list (vec * Z)) :
  Permutation l l' -> StronglySorted Z.lt (map snd l') ->
  np_take [] (map fst l) (np_argsort (map snd l)) = map fst l' /\ np_sort (map snd l) = map snd l'.
Proof.
  intros HP HS. set (keys := map snd l).
  assert (HK : Permutation keys (map snd l')) by (unfold keys; now apply Permutation_map).
  assert (Hsort : np_sort keys = map snd l').
  { apply sorted_lt_ext; [|exact HS|].
    - apply sorted_le_nodup_lt; [apply np_sort_sorted|].
      eapply Permutation_NoDup; [symmetry; eapply perm_trans; [apply np_sort_perm|exact HK]|].
      now apply strict_sorted_nodup.
    - intros x. split; apply Permutation_in.
      + eapply perm_trans; [apply np_sort_perm|exact HK].
      + symmetry. eapply perm_trans; [apply np_sort_perm|exact HK]. }
  split; [|exact Hsort].
  assert (Hll : length l' = length l) by (symmetry; now apply Permutation_length).
  unfold np_sort in Hsort. unfold np_take, np_argsort. fold keys. set (s := isort_pairs (tagged keys)) in *.
  assert (Hs : Permutation s (tagged keys)) by apply isort_pairs_perm.
  assert (Hsl : length s = length l).
  { rewrite (Permutation_length Hs), tagged_length. unfold keys. now rewrite map_length. }
  apply (nth_ext _ _ [] []); [rewrite !map_length; lia|].
  intros j Hj. rewrite !map_length, Hsl in Hj.
  rewrite (nth_indep _ [] (znth [] (map fst l) 0)) by (rewrite !map_length; lia).
  rewrite (map_nth (znth [] (map fst l))).
  rewrite (nth_indep _ 0 (snd (0, 0))) by (rewrite map_length; lia). rewrite (map_nth snd).
  destruct (nth j s (0, 0)) as [a b] eqn:Ep. cbn [snd].
  assert (Hin : In (a, b) s) by (rewrite <- Ep; apply nth_In; lia).
  assert (Ha : a = snd (nth j l' ([], 0))).
  { assert (E1 : nth j (map fst s) 0 = a).
    { rewrite (nth_indep _ 0 (fst (0, 0))) by (rewrite map_length; lia). rewrite (map_nth fst), Ep. reflexivity. }
    rewrite Hsort in E1. rewrite (nth_indep _ 0 (snd (@nil Z, 0))) in E1 by (rewrite map_length; lia).
    rewrite (map_nth snd) in E1. now symmetry. }
  eapply Permutation_in in Hin; [|apply Hs].
  apply in_tagged in Hin as (k & Hk & Hb & Hf). cbn [fst snd] in Hb, Hf. subst b.
  rewrite znth_nat. unfold keys in Hk, Hf. rewrite map_length in Hk.
  rewrite (nth_indep _ [] (fst (@nil Z, 0))) by (rewrite map_length; lia). rewrite (map_nth fst).
  rewrite (nth_indep _ 0 (snd (@nil Z, 0))) in Hf by (rewrite map_length; lia). rewrite (map_nth snd) in Hf.
  rewrite (nth_indep _ [] (fst (@nil Z, 0))) by (rewrite map_length; lia). rewrite (map_nth fst).
  f_equal. apply (nodup_map_inj snd l').
  - now apply strict_sorted_nodup.
  - eapply Permutation_in; [exact HP|]. apply nth_In. exact Hk.
  - apply nth_In. unfold vec in *. lia.
  - transitivity a; [symmetry; exact Hf|exact Ha].
Qed.

(* ------------------------------------------------------------------------------------------ *)
(* np.unique(m, axis=0, return_index=True) for an arbitrary row list                            *)
(* ------------------------------------------------------------------------------------------ *)
Theorem unique_rows_gen (m : mat) :
  np_take [] (fst (np_unique_rows m)) (np_argsort (snd (np_unique_rows m))) = dedup m /\
  np_sort (snd (np_unique_rows m)) = firstpos m /\
  np_unique (snd (np_unique_rows m)) = firstpos m /\
  np_take [] m (firstpos m) = dedup m.
Proof.
  unfold np_unique_rows. cbn [fst snd]. fold (tags m). set (ps := combine m (tags m)).
  assert (Hts : map snd ps = tags m) by (apply map_snd_combine; now rewrite tags_length).
  assert (Hsorted : StronglySorted Z.lt (map snd ps)) by (rewrite Hts; apply seqz_sorted).
  assert (HP : Permutation (fold_right ins_urow [] ps) (firstpairs ps)) by now apply urow_fold_firstpairs.
  assert (HS : StronglySorted Z.lt (map snd (firstpairs ps))) by now apply firstpairs_snd_sorted.
  destruct (take_argsort_keys _ _ HP HS) as [T S].
  unfold firstpos. fold ps. rewrite <- (firstpairs_fst m (tags m)) by apply tags_length. fold ps.
  split; [exact T|]. split; [exact S|]. split.
  - apply sorted_lt_ext; [apply np_unique_strict|exact HS|]. intros x. rewrite np_unique_in.
    split; apply Permutation_in; [now apply Permutation_map|symmetry; now apply Permutation_map].
  - unfold np_take. rewrite map_map. apply map_ext_in. intros [r z] Hp. cbn [fst snd].
    apply firstpairs_incl in Hp. unfold ps, tags in Hp. apply in_combine_tags in Hp as (j & -> & Hj & ->).
    cbn [Nat.add]. apply znth_nat.
Qed.

Lemma firstpos_length m : length (firstpos m) = length (dedup m).
Proof. destruct (unique_rows_gen m) as (_ & _ & _ & H). rewrite <- H. unfold np_take. now rewrite map_length. Qed.

(* the "unique rows, first-occurrence index" preamble of tt_intersect_rows / tt_setdiff_rows *)
Lemma uniq_branch_gen (m : mat) : okw m ->
  exists U I, (if np_size2 m >? 0 then let u := np_unique_rows m in Ok (fst u, snd u) else Ok ([], [])) = Ok (U, I) /\
              np_take [] U (np_argsort I) = dedup m /\ np_unique I = firstpos m.
Proof.
  intros [->|Hw].
  - exists [], []. repeat split; reflexivity.
  - exists (fst (np_unique_rows m)), (snd (np_unique_rows m)).
    destruct (Z.gtb_spec (np_size2 m) 0) as [_|E]; [|lia]. split; [reflexivity|].
    destruct (unique_rows_gen m) as (H1 & _ & H3 & _). now split.
Qed.

(* ------------------------------------------------------------------------------------------ *)
(* what the generated helpers return, for all arguments                                         *)
(* ------------------------------------------------------------------------------------------ *)
Theorem tt_intersect_rows_gen (A B : mat) : okw A -> okw B ->
  tt_intersect_rows A B = Ok (map (loc (dedup A)) (filter (inrows A) (dedup B))).
Proof.
  intros HwA HwB. unfold tt_intersect_rows.
  destruct (uniq_branch_gen A HwA) as (UA & IA & EA & RA & _).
  destruct (uniq_branch_gen B HwB) as (UB & IB & EB & RB & _).
  match goal with |- bind ?x _ = _ => assert (E : x = Ok (UA, IA)) by exact EA; rewrite E; clear E end.
  cbn [bind].
  match goal with |- bind ?x _ = _ => assert (E : x = Ok (UB, IB)) by exact EB; rewrite E; clear E end.
  cbn [bind]. rewrite RA, RB.
  destruct (tt_ismember_rows_total (dedup B) (dedup A) (okw_dedup B HwB) (okw_dedup A HwA)) as (matched & E & Hm).
  rewrite E. cbn [bind]. rewrite Hm. do 2 f_equal. apply filter_ext. intros r. apply inrows_dedup.
Qed.

Theorem tt_setdiff_rows_gen (A B : mat) : okw A -> okw B ->
  tt_setdiff_rows A B =
  Ok (filter (fun x => negb (zmem x (map (loc (dedup A)) (filter (inrows A) (dedup B))))) (firstpos A)).
Proof.
  intros HwA HwB. unfold tt_setdiff_rows.
  destruct (uniq_branch_gen A HwA) as (UA & IA & EA & RA & UAI).
  destruct (uniq_branch_gen B HwB) as (UB & IB & EB & RB & _).
  match goal with |- bind ?x _ = _ => assert (E : x = Ok (UA, IA)) by exact EA; rewrite E; clear E end.
  cbn [bind].
  match goal with |- bind ?x _ = _ => assert (E : x = Ok (UB, IB)) by exact EB; rewrite E; clear E end.
  cbn [bind]. rewrite RA, RB.
  destruct (tt_ismember_rows_total (dedup B) (dedup A) (okw_dedup B HwB) (okw_dedup A HwA)) as (matched & E & Hm).
  rewrite E. cbn [bind]. unfold np_setdiff1d. rewrite Hm, UAI. do 2 f_equal.
  rewrite (filter_ext _ _ (inrows_dedup A)). reflexivity.
Qed.

(* ---- tt_union_rows ---- *)

Lemma take_take {X} (d : X) (B : list X) (F : vec) (ks : list nat) :
  (forall k, In k ks -> (k < length F)%nat) ->
  np_take d B (np_take 0 F (map Z.of_nat ks)) = np_take d (np_take d B F) (map Z.of_nat ks).
Proof.
  intros Hk. unfold np_take. rewrite !map_map. apply map_ext_in. intros k Hin. rewrite !znth_nat.
  rewrite (nth_indep _ d (znth d B 0)) by (rewrite map_length; auto). now rewrite map_nth.
Qed.

Lemma union_A_branch_gen (A X : mat) : okw A ->
  exists UA IA A',
    (if np_size2 A >? 0 then let u := np_unique_rows A in Ok (fst u, snd u, A)
     else Ok (np_empty_like X, [], np_empty_like X)) = Ok (UA, IA, A') /\
    np_take [] UA (np_argsort IA) = dedup A /\ np_take [] A' (np_sort IA) = dedup A.
Proof.
  intros [->|Hw].
  - exists (np_empty_like X), [], (np_empty_like X). repeat split; reflexivity.
  - exists (fst (np_unique_rows A)), (snd (np_unique_rows A)), A.
    destruct (Z.gtb_spec (np_size2 A) 0) as [_|E]; [|lia]. split; [reflexivity|].
    destruct (unique_rows_gen A) as (H1 & H2 & _ & H4). split; [exact H1|]. now rewrite H2.
Qed.

Lemma union_B_branch_gen (B X : mat) : okw B ->
  exists BU IB B',
    (if np_size2 B >? 0 then let u := np_unique_rows B in Ok (fst u, snd u, B)
     else Ok (np_empty_like X, [], np_empty_like X)) = Ok (BU, IB, B') /\
    np_take [] BU (np_argsort IB) = dedup B /\
    (forall p : vec -> bool,
       np_take [] B' (np_take 0 (np_sort IB) (np_where1 (map p (dedup B)))) = filter p (dedup B)).
Proof.
  intros [->|Hw].
  - exists (np_empty_like X), [], (np_empty_like X). repeat split; reflexivity.
  - exists (fst (np_unique_rows B)), (snd (np_unique_rows B)), B.
    destruct (Z.gtb_spec (np_size2 B) 0) as [_|E]; [|lia]. split; [reflexivity|].
    destruct (unique_rows_gen B) as (H1 & H2 & _ & H4). split; [exact H1|].
    intros p. rewrite H2, (where1_map p [] (dedup B)), take_take.
    + rewrite H4. apply take_positions.
    + intros k Hk. apply filter_In in Hk as [Hk _]. apply in_seq in Hk. rewrite firstpos_length. exact (proj2 Hk).
Qed.

(* for ALL arguments (repeated rows, any stored order): the distinct rows of B that do not occur in A, in the order of
   their first occurrence in B, followed by the distinct rows of A in the order of their first occurrence *)
Theorem tt_union_rows_gen (A B : mat) :
  okw A -> okw B -> (forall r q, In r A -> In q B -> length r = length q) ->
  tt_union_rows A B = Ok (filter (fun r => negb (inrows A r)) (dedup B) ++ dedup A).
Proof.
  intros HwA HwB Hcols. unfold tt_union_rows.
  destruct (union_A_branch_gen A B HwA) as (UA & IA & A' & EA & RA & TA).
  match goal with |- bind ?x _ = _ => assert (E : x = Ok (UA, IA, A')) by exact EA; rewrite E; clear E end.
  cbn [bind].
  destruct (union_B_branch_gen B A' HwB) as (BU & IB & B' & EB & RB & TB).
  match goal with |- bind ?x _ = _ => assert (E : x = Ok (BU, IB, B')) by exact EB; rewrite E; clear E end.
  cbn [bind]. rewrite RA, RB.
  destruct (tt_ismember_rows_total (dedup B) (dedup A) (okw_dedup B HwB) (okw_dedup A HwA)) as (matched & E & _).
  rewrite E. cbn [bind].
  assert (Hmask : np_lt_s (map (loc (dedup A)) (dedup B)) 0 = map (fun r => negb (inrows A r)) (dedup B)).
  { unfold np_lt_s. rewrite map_map. apply map_ext. intros r. now rewrite loc_neg, inrows_dedup. }
  rewrite Hmask, TA, (TB (fun r => negb (inrows A r))).
  assert (Hv : np_vstack_ok (filter (fun r => negb (inrows A r)) (dedup B)) (dedup A) = true).
  { unfold np_vstack_ok. destruct (filter (fun r => negb (inrows A r)) (dedup B)) as [|rb l] eqn:EF; [reflexivity|].
    destruct (dedup A) as [|ra A0] eqn:EA0; [reflexivity|]. apply Z.eqb_eq. unfold zlen. f_equal. symmetry. apply Hcols.
    - apply dedup_in. rewrite EA0. cbn; auto.
    - assert (Hin : In rb (filter (fun r => negb (inrows A r)) (dedup B))) by (rewrite EF; cbn; auto).
      apply filter_In in Hin as [Hin _]. now apply dedup_in. }
  rewrite Hv. reflexivity.
Qed.

(* set-algebra reading, all arguments: membership = union, no row twice *)
Corollary tt_union_rows_set (A B : mat) :
  okw A -> okw B -> (forall r q, In r A -> In q B -> length r = length q) ->
  exists U, tt_union_rows A B = Ok U /\ (forall r, In r U <-> In r A \/ In r B) /\ NoDup U.
Proof.
  intros HwA HwB Hcols. eexists. split; [now apply tt_union_rows_gen|]. split.
  - intros r. rewrite in_app_iff, filter_In, negb_true_iff, !dedup_in. split.
    + intros [[H _]|H]; auto.
    + intros [H|H]; [auto|]. destruct (inrows A r) eqn:E; [right; now apply inrows_spec|left; auto].
  - apply nodup_app_rows; [apply NoDup_filter, dedup_nodup|apply dedup_nodup|].
    intros r Hr HA. apply filter_In in Hr as [_ Hr]. apply negb_true_iff in Hr.
    apply (proj1 (dedup_in A r)) in HA. apply (proj2 (inrows_spec A r)) in HA. rewrite HA in Hr. discriminate.
Qed.

(* duplicate-free arguments in ANY stored order (B need not be sorted; the C17-UNION repair is in) *)
Corollary tt_union_rows_nodup (A B : mat) :
  NoDup A -> NoDup B -> okw A -> okw B -> (forall r q, In r A -> In q B -> length r = length q) ->
  tt_union_rows A B = Ok (filter (fun r => negb (inrows A r)) B ++ A).
Proof. intros HnA HnB HwA HwB Hc. rewrite tt_union_rows_gen by auto. now rewrite !dedup_id. Qed.

(* ---- index contracts with a duplicate-free FIRST argument and an arbitrary second one ---- *)

Corollary tt_intersect_rows_dupB (A B : mat) : NoDup A -> okw A -> okw B ->
  exists idx, tt_intersect_rows A B = Ok idx /\ idx = map (loc A) (filter (inrows A) (dedup B)) /\
              np_take [] A idx = filter (inrows A) (dedup B) /\ (forall x, In x idx -> 0 <= x < zlen A).
Proof.
  intros HnA HwA HwB. eexists. split; [now apply tt_intersect_rows_gen|]. rewrite dedup_id by exact HnA.
  split; [reflexivity|]. split.
  - apply take_loc. intros r Hr. apply filter_In in Hr as [_ Hr]. now apply inrows_spec.
  - intros x Hx. apply in_map_iff in Hx as (r & <- & Hr). apply filter_In in Hr as [_ Hr].
    unfold inrows, loc in *. destruct (find_last r A) as [j|] eqn:E; [|discriminate].
    apply find_last_some_in in E as [Hj _]. unfold zlen. lia.
Qed.

Corollary tt_setdiff_rows_dupB (A B : mat) : NoDup A -> okw A -> okw B ->
  tt_setdiff_rows A B =
  Ok (map Z.of_nat (filter (fun k => negb (existsb (row_eqb (nth k A [])) B)) (seq 0 (length A)))).
Proof.
  intros HnA HwA HwB. rewrite tt_setdiff_rows_gen by auto. rewrite dedup_id, firstpos_id by exact HnA.
  f_equal. unfold tags. rewrite filter_map_comm. f_equal. apply filter_ext_in. intros k Hk. apply in_seq in Hk. f_equal.
  apply eq_true_iff_eq. rewrite zmem_spec, existsb_exists. split.
  - intros Hin. apply in_map_iff in Hin as (r & Hl & Hr). apply filter_In in Hr as [HrB Hr].
    unfold inrows, loc in *. destruct (find_last r A) as [j|] eqn:E; [|discriminate].
    apply find_last_some_in in E as [Hj Hn]. assert (j = k) by lia. subst j.
    exists r. split; [now apply dedup_in|]. apply row_eqb_spec. auto.
  - intros (r & HrB & E). apply row_eqb_spec in E. subst r. apply in_map_iff. exists (nth k A []). split.
    + unfold loc. rewrite find_last_nodup by (auto; lia). reflexivity.
    + apply filter_In. split; [now apply dedup_in|]. apply inrows_spec. apply nth_In. lia.
Qed.

(* ---- the full-strength contracts (all arguments) and their refutation for a first argument with repeated rows ---- *)

(* A[tt_intersect_rows A B] = the distinct common rows, in the order of B *)
Definition intersect_rows_contract_stmt : Prop := forall A B : mat, okw A -> okw B ->
  exists idx, tt_intersect_rows A B = Ok idx /\ np_take [] A idx = filter (inrows A) (dedup B).

(* A[tt_setdiff_rows A B] = the distinct rows of A that do not occur in B *)
Definition setdiff_rows_contract_stmt : Prop := forall A B : mat, okw A -> okw B ->
  exists idx, tt_setdiff_rows A B = Ok idx /\ np_take [] A idx = filter (fun r => negb (inrows B r)) (dedup A).

Lemma okw_pos (m : mat) : 0 < np_size2 m -> okw m.
Proof. now right. Qed.

Theorem intersect_rows_contract_refuted : ~ intersect_rows_contract_stmt.
Proof.
  intros H. destruct (H [[1]; [1]; [2]] [[2]]) as (idx & E & T); [apply okw_pos; reflexivity|apply okw_pos; reflexivity|].
  vm_compute in E. inversion E; subst idx. vm_compute in T. discriminate.
Qed.

Theorem setdiff_rows_contract_refuted : ~ setdiff_rows_contract_stmt.
Proof.
  intros H. destruct (H [[1]; [1]; [2]] [[2]]) as (idx & E & T); [apply okw_pos; reflexivity|apply okw_pos; reflexivity|].
  vm_compute in E. inversion E; subst idx. vm_compute in T. discriminate.
Qed.

(* ... and proved as soon as the first argument is duplicate-free *)
Theorem intersect_rows_contract_nodupA (A B : mat) : NoDup A -> okw A -> okw B ->
  exists idx, tt_intersect_rows A B = Ok idx /\ np_take [] A idx = filter (inrows A) (dedup B).
Proof. intros HnA HwA HwB. destruct (tt_intersect_rows_dupB A B HnA HwA HwB) as (idx & E & _ & T & _). eauto. Qed.

Theorem setdiff_rows_contract_nodupA (A B : mat) : NoDup A -> okw A -> okw B ->
  exists idx, tt_setdiff_rows A B = Ok idx /\ np_take [] A idx = filter (fun r => negb (inrows B r)) (dedup A).
Proof.
  intros HnA HwA HwB. eexists. split; [now apply tt_setdiff_rows_dupB|]. rewrite dedup_id by exact HnA.
  etransitivity; [|apply (take_positions [] A (fun r => negb (inrows B r)))]. do 2 f_equal. apply filter_ext. intros k. cbv beta. f_equal.
  apply eq_true_iff_eq. rewrite existsb_exists, inrows_spec. split.
  - intros (r & Hr & E). apply row_eqb_spec in E. now subst r.
  - intros Hin. exists (nth k A []). split; [exact Hin|apply row_eqb_refl].
Qed.

Example union_unsorted_dup_example :
  tt_union_rows [[1; 2]; [3; 4]; [1; 2]] [[5; 5]; [0; 0]; [1; 2]; [5; 5]] = Ok [[5; 5]; [0; 0]; [1; 2]; [3; 4]].
Proof. reflexivity. Qed.

Example intersect_dupB_example :
  tt_intersect_rows [[3; 0]; [1; 1]; [0; 2]] [[0; 2]; [7; 7]; [3; 0]; [0; 2]] = Ok [2; 0].
Proof. reflexivity. Qed.

Example setdiff_dupB_example :
  tt_setdiff_rows [[3; 0]; [1; 1]; [0; 2]; [4; 4]] [[0; 2]; [7; 7]; [0; 2]] = Ok [0; 1; 3].
Proof. reflexivity. Qed.

(* the defect, concretely: position 1 of A is not the common row [2]; row 2 of A = [2] is in B *)
Example dupA_example :
  tt_intersect_rows [[1]; [1]; [2]] [[2]] = Ok [1] /\ tt_setdiff_rows [[1]; [1]; [2]] [[2]] = Ok [0; 2].
Proof. split; reflexivity. Qed.

(* ---- reading of the specification functions used above ---- *)
Lemma firstpos_sorted m : StronglySorted Z.lt (firstpos m).
Proof.
  unfold firstpos. apply firstpairs_snd_sorted. rewrite map_snd_combine by (now rewrite tags_length). apply seqz_sorted.
Qed.

Theorem dedup_reading (m : mat) :
  NoDup (dedup m) /\ (forall r, In r (dedup m) <-> In r m) /\ (NoDup m -> dedup m = m) /\
  np_take [] m (firstpos m) = dedup m /\ StronglySorted Z.lt (firstpos m) /\
  (forall r, inrows m r = true <-> In r m) /\
  (forall r, In r m -> exists j, loc m r = Z.of_nat j /\ (j < length m)%nat /\ nth j m [] = r).
Proof.
  split; [apply dedup_nodup|]. split; [intros r; apply dedup_in|]. split; [apply dedup_id|].
  split; [apply unique_rows_gen|]. split; [apply firstpos_sorted|]. split; [intros r; apply inrows_spec|].
  intros r Hr. unfold loc. destruct (find_last r m) as [j|] eqn:E.
  - exists j. apply find_last_some_in in E as [Hj Hn]. auto.
  - exfalso. now apply (find_last_none_notin _ _ E).
Qed.

(* ---- tt_ismember_rows for ALL arguments (including operands without rows): membership flags and locations ---- *)
Theorem tt_ismember_rows_okw (S T : mat) : okw S -> okw T ->
  tt_ismember_rows S T = Ok (map (inrows T) S, map (loc T) S).
Proof.
  intros [->|HS] HT; [reflexivity|]. destruct HT as [->|HT].
  - unfold tt_ismember_rows.
    destruct (Z.eqb_spec (np_size2 S) 0) as [E|_]; [lia|]. change (np_size2 [] =? 0) with true. cbv iota.
    unfold np_nrows, zlen. rewrite neg_full. unfold np_full. rewrite Nat2Z.id. f_equal. f_equal.
    + unfold inrows. cbn [find_last find_last_from is_some]. symmetry. apply map_const_repeat.
    + unfold loc. cbn [find_last find_last_from]. symmetry. apply map_const_repeat.
  - rewrite tt_ismember_rows_bridge by lia. reflexivity.
Qed.
