(* Proofs/C14Coo.v — the product model used for scipy.sparse in sptensor.nvecs (y = tnt.T.dot(tnt) on a COO matrix): the
   coordinate-level product coo_gram of the stored triples equals the MATRIX product of the denotations, for every COO matrix
   (repeated positions allowed: den_coo sums them, as coo_matrix.toarray / the CSR conversion inside the product do). *)
From Coq Require Import List Arith Lia Bool Ring.
From PV Require Import Base.Index Base.Sum Np.Array Model.Sparse Model.Repr Model.C01Unique Model.C01Coo Model.C14Nvecs Model.C14Gram Model.C14SpPath
                       Proofs.C14Sums Proofs.C14Split Proofs.C14GramSp Proofs.C14GramT.
Import ListNotations.

(* coo_triples (the (row, column, value) triples of a COO matrix) is defined in Model/C14SpPath.v *)

Section Coo.
Variable V : Type.
Variables (v0 v1 : V) (vadd vmul vsub : V -> V -> V) (vopp : V -> V).
Hypothesis Vring : ring_theory v0 v1 vadd vmul vsub vopp (@eq V).
Add Ring Vr14c : Vring.
Notation "x + y" := (vadd x y).
Notation "x * y" := (vmul x y).
Notation SO := (sum_over v0 vadd).
Notation SN := (sum_n v0 vadd).

Lemma vsum_as_sum i (es : list (idx * V)) :
  vsum_at v0 vadd i es = SO es (fun e => if idx_eqb i (fst e) then snd e else v0).
Proof.
  unfold vsum_at. induction es as [|e es IH]; [reflexivity|].
  rewrite sum_over_cons. cbn [filter]. destruct (idx_eqb i (fst e)).
  - cbn [map sumv]. now rewrite IH.
  - rewrite IH. ring.
Qed.

Lemma coo_pair_sum K a b r1 c1 r2 c2 (x y : V) : r1 < K ->
  SN K (fun k => (if idx_eqb [k; a] [r1; c1] then x else v0) * (if idx_eqb [k; b] [r2; c2] then y else v0))
  = if Nat.eqb c1 a && (Nat.eqb c2 b && Nat.eqb r1 r2) then x * y else v0.
Proof.
  intros Hr. unfold sum_n. rewrite (sum_over_single V v0 v1 vadd vmul vsub vopp Vring (seq 0 K) r1).
  - cbn [idx_eqb]. rewrite Nat.eqb_refl, !andb_true_r. rewrite (Nat.eqb_sym a c1), (Nat.eqb_sym b c2).
    destruct (Nat.eqb c1 a), (Nat.eqb c2 b), (Nat.eqb r1 r2); cbn [andb]; ring.
  - apply seq_NoDup.
  - apply in_seq. lia.
  - intros k _ Hk. cbn [idx_eqb]. rewrite (proj2 (Nat.eqb_neq k r1) Hk). cbn [andb]. ring.
Qed.

Theorem coo_gram_product (C : coo V) (K a b : nat) :
  (forall e, In e (coo_entries C) -> exists r c, fst e = [r; c] /\ r < K) ->
  coo_gram v0 vadd vmul (coo_triples C) a b
  = SN K (fun k => vsum_at v0 vadd [k; a] (coo_entries C) * vsum_at v0 vadd [k; b] (coo_entries C)).
Proof.
  intros Hes. set (es := coo_entries C) in *.
  set (p := fun (k : nat) (e : idx * V) => if idx_eqb [k; a] (fst e) then snd e else v0).
  set (q := fun (k : nat) (e : idx * V) => if idx_eqb [k; b] (fst e) then snd e else v0).
  transitivity (SO es (fun e1 => SO es (fun e2 => SN K (fun k => p k e1 * q k e2)))).
  - unfold coo_gram, coo_triples. fold es. rewrite sum_over_map. apply sum_over_ext. intros e1 H1.
    rewrite sum_over_map. apply sum_over_ext. intros e2 H2. cbn [fst snd].
    destruct (Hes e1 H1) as (r1 & c1 & E1 & Hr1). destruct (Hes e2 H2) as (r2 & c2 & E2 & _).
    unfold p, q. destruct e1 as [i1 x1], e2 as [i2 x2]. cbn [fst snd] in *. subst i1 i2. cbn [nth]. symmetry.
    now apply coo_pair_sum.
  - symmetry. unfold sum_n.
    transitivity (SO (seq 0 K) (fun k => SO es (fun e1 => SO es (fun e2 => p k e1 * q k e2)))).
    + apply sum_over_ext. intros k _. rewrite !vsum_as_sum. fold es.
      exact (sum_over_mul_sum V v0 v1 vadd vmul vsub vopp Vring es es (p k) (q k)).
    + rewrite (sum_over_swap V v0 v1 vadd vmul vsub vopp Vring). apply sum_over_ext. intros e1 _.
      now rewrite (sum_over_swap V v0 v1 vadd vmul vsub vopp Vring).
Qed.

(* in terms of the denotation of the COO matrix: y[a, b] = sum_k A[k, a] A[k, b] with A = C.toarray(), K rows, a and b columns *)
Corollary coo_gram_den (C : coo V) (K N a b : nat) : coo_shape C = [K; N] -> a < N -> b < N ->
  Forall (fun rc => inb [K; N] rc = true) (coo_subs C) ->
  coo_gram v0 vadd vmul (coo_triples C) a b = SN K (fun k => den_coo v0 vadd C [k; a] * den_coo v0 vadd C [k; b]).
Proof.
  intros Hs Ha Hb Hin. rewrite (coo_gram_product C K a b).
  - apply sum_n_ext. intros k Hk. unfold den_coo, coo_toarray. rewrite Hs.
    rewrite !den_tabulate by (cbn [inb]; rewrite !(proj2 (Nat.ltb_lt _ _)) by assumption; reflexivity). reflexivity.
  - intros [rc x] He. unfold coo_entries in He. apply in_combine_l in He. rewrite Forall_forall in Hin. specialize (Hin _ He).
    cbn [fst]. pose proof (inb_length _ _ Hin) as HL. destruct rc as [|r [|c [|? ?]]]; try discriminate HL. cbn [inb] in Hin.
    exists r, c. split; [reflexivity|]. apply andb_true_iff in Hin as [Hr _]. now apply Nat.ltb_lt.
Qed.
End Coo.

Example coo_gram_example :
  let C := mkCoo [3; 2] [[0; 1]; [2; 0]; [0; 1]; [0; 0]] [5; 2; 1; 3] in      (* position (0,1) stored twice *)
  coo_gram 0 Nat.add Nat.mul (coo_triples C) 0 1 = 18 /\ coo_gram 0 Nat.add Nat.mul (coo_triples C) 1 1 = 36 /\
  coo_toarray 0 Nat.add C = mkDense [3; 2] [3; 0; 2; 6; 0; 0].
Proof. vm_compute. repeat split. Qed.
