(* Proofs/C11Lbfgs.v — the mechanism of finding C11-F1 inside the transliterated L-BFGS direction (Model/C11Lbfgs.v):
   for a rank-1 row sub-problem (one unknown) with the default memory lbfgsMem = 3, ONE stored pair (slot 0; pyttb never advances the
   slot) and a free variable, the direction get_search_dir_pqnr returns at inner iteration 1 or 2 is exactly 0:
   the first loop maps -g to -g + ((s g)/(s y)) y = 0, the slot walk 0 -> 1 -> 2 then points the second loop at a never-written slot
   whose delta_model column is 0.  A zero direction leaves the row unchanged, the next pair has delm = 0, and (Model/C11Replay.v
   lbfgs_scan) the assertion 'L-BFGS first iterate is bad' follows unless the row KKT value is already below stoptol. *)
From Coq Require Import List Arith Bool ZArith QArith Qabs Qcanon Field.
From PV Require Import Base.Index Base.Sum Np.Array Model.Sparse Model.Repr Model.Harness Model.C14Nvecs Model.C11Apr Model.C11Rows
                       Model.C11Check Model.C11Replay Model.C11Lbfgs.
Import ListNotations.
Local Open Scope Qc_scope.

Lemma qdot1 a b : qdot [a] [b] = a * b.
Proof. unfold qdot, sum_over, q0. cbn [combine map sumv fst snd]. ring. Qed.

Lemma qisz_false x : x <> 0 -> qisz x = false.
Proof.
  intros H. unfold qisz. destruct (Qc_eq_bool x (Q2Qc 0)) eqn:E; [|reflexivity].
  apply Qc_eq_bool_correct in E. contradiction.
Qed.

Lemma mul_nz s y : s * y <> 0 -> s <> 0 /\ y <> 0.
Proof. intros H. split; intros E; apply H; rewrite E; ring. Qed.

Lemma zf1 x : zero_fixed [false] [x] = [x].
Proof. reflexivity. Qed.

Lemma dir_1d_zero_gen (eps m0 g0 s y : Qc) (iters : nat) :
  s * y <> 0 -> fixed_vars eps [m0] [g0] = [false] -> (iters = 1 \/ iters = 2)%nat ->
  search_dir_pqnr eps [m0] [g0] [[s]; [q0]; [q0]] [[y]; [q0]; [q0]] [/ (s * y); q0; q0] 0 iters = [q0].
Proof.
  intros Hsy Hfx Hit. destruct (mul_nz s y Hsy) as [Hs Hy].
  unfold search_dir_pqnr. rewrite Hfx.
  cbn [length slot nth map]. rewrite zf1, qdot1, (qisz_false _ Hsy).
  assert (E1 : vaxpy (- (vget [/ (s * y); q0; q0] 0 * qdot [s] [- g0])) [y] [- g0] = [q0]).
  { unfold vaxpy, vget. cbn [nth combine map fst snd]. rewrite qdot1. f_equal. unfold q0. field. split; assumption. }
  assert (Z0 : forall a x, vaxpy a [q0] [x] = [x]).
  { intros a x. unfold vaxpy. cbn [combine map fst snd]. f_equal. unfold q0. ring. }
  assert (M0 : forall c, map (Qcmult c) [q0] = [q0]).
  { intros c. cbn [map]. f_equal. unfold q0. ring. }
  destruct Hit as [-> | ->].
  - replace (Nat.min 1 3) with 1%nat by reflexivity. cbn [loop1 slot nth]. rewrite E1.
    replace (next_k 3 0) with 1%nat by reflexivity.
    rewrite M0. cbn [loop2]. replace (1 mod 3)%nat with 1%nat by reflexivity.
    cbn [slot nth]. rewrite Z0. apply zf1.
  - replace (Nat.min 2 3) with 2%nat by reflexivity. cbn [loop1 slot nth]. rewrite E1.
    replace (next_k 3 0) with 1%nat by reflexivity. cbn [slot nth]. rewrite Z0.
    replace (next_k 3 1) with 2%nat by reflexivity.
    rewrite M0. cbn [loop2]. replace (2 mod 3)%nat with 2%nat by reflexivity.
    cbn [slot nth]. rewrite !Z0. apply zf1.
Qed.

(* with lbfgsMem = 1 the same state gives the secant step -(s / y) g *)
Lemma dir_1d_mem1 (eps m0 g0 s y : Qc) :
  s * y <> 0 -> fixed_vars eps [m0] [g0] = [false] ->
  search_dir_pqnr eps [m0] [g0] [[s]] [[y]] [/ (s * y)] 0 1 = [- (s / y) * g0].
Proof.
  intros Hsy Hfx. destruct (mul_nz s y Hsy) as [Hs Hy].
  unfold search_dir_pqnr. rewrite Hfx.
  cbn [length slot nth map]. rewrite zf1, qdot1, (qisz_false _ Hsy).
  replace (Nat.min 1 1) with 1%nat by reflexivity. cbn [loop1 slot nth repeat].
  replace (next_k 1 0) with 0%nat by reflexivity.
  cbn [loop2]. replace (0 mod 1)%nat with 0%nat by reflexivity.
  unfold vaxpy, vget. cbn [upd slot nth combine map fst snd]. rewrite !qdot1. rewrite zf1.
  f_equal. unfold q1. field. repeat split; try assumption. intros E; discriminate E.
Qed.

(* non-vacuity: the free-variable hypothesis holds, e.g., for m = 5/2 with gradient 1/4 and eps = 1e-8-ish *)
Example dir_1d_zero_ex :
  search_dir_pqnr (Q2Qc (1 # 100000000)) [Q2Qc (5 # 2)] [Q2Qc (1 # 4)] [[Q2Qc (1 # 2)]; [q0]; [q0]] [[Q2Qc (-1 # 8)]; [q0]; [q0]]
                  [Q2Qc (-16 # 1); q0; q0] 0 1 = [q0]
  /\ map this (search_dir_pqnr (Q2Qc (1 # 100000000)) [Q2Qc (5 # 2)] [Q2Qc (1 # 4)] [[Q2Qc (1 # 2)]] [[Q2Qc (-1 # 8)]] [Q2Qc (-16 # 1)] 0 1)
     = [1 # 1]%Q.
Proof. split; vm_compute; reflexivity. Qed.
