"""C11 — recorder for the row sub-problem solvers of cp_apr (PDNR / PQNR).

pyttb/cp_apr.py is NOT edited: while a run is recorded, the module attributes `calc_partials`, `calc_grad`,
`tt_linesearch_prowsubprob` of pyttb.cp_apr are replaced by wrappers that call the original function and note, together with the
position (iteration, n, jj, i) read from the calling frame of tt_cp_apr_pdnr / tt_cp_apr_pqnr,
  * the gradient the KKT test of that inner iteration sees (PDNR: 1 - phi_row; PQNR: calc_grad's first result),
  * for every line search: search direction, old row, phi_row, returned row.
From the events `tables()` builds what Model/C11Replay.v consumes: the gradient per (iteration, mode, row, inner) and per line
search the oracle answers of Model/C11Rows.v (fallback?, direction, step length, phi).  The step length is recovered by trying
step_len * step_red^k, k = 0..max_steps, with pyttb's own float operations (model_old + s * d, projected); if neither a projected
step nor the multiplicative fallback reproduces the returned row bit for bit the run is reported (`bad`)."""
import contextlib
import sys


class Trace:
    def __init__(self):
        self.ev = []          # ("g", ctx, m_row, grad) | ("s", ctx, direction, m_old, phi_row, m_new, step_len, step_red, max_steps)
        self.bad = []
        self.scalar_dirs = 0


def _ctx(depth=2):
    f = sys._getframe(depth)
    if f.f_code.co_name not in ("tt_cp_apr_pdnr", "tt_cp_apr_pqnr"):
        return None
    L = f.f_locals
    return (int(L["iteration"]), int(L["n"]), int(L["jj"]), int(L["i"]))


@contextlib.contextmanager
def recording(np, apr, tr):
    orig = {k: getattr(apr, k) for k in ("calc_partials", "calc_grad", "tt_linesearch_prowsubprob")}

    def calc_partials(isSparse, Pi, epsilon, data_row, model_row):
        phi_row, ups_row = orig["calc_partials"](isSparse, Pi, epsilon, data_row, model_row)
        c = _ctx()
        if c is not None:
            tr.ev.append(("g", c, [float(x) for x in np.asarray(model_row).ravel()],
                          [float(x) for x in (np.ones((1, np.asarray(phi_row).size)) - np.asarray(phi_row).reshape(1, -1)).ravel()]))
        return phi_row, ups_row

    def calc_grad(isSparse, Pi, eps_div_zero, data_row, model_row):
        g, phi_row = orig["calc_grad"](isSparse, Pi, eps_div_zero, data_row, model_row)
        c = _ctx()
        if c is not None:
            tr.ev.append(("g", c, [float(x) for x in np.asarray(model_row).ravel()], [float(x) for x in np.asarray(g).ravel()]))
        return g, phi_row

    def tt_linesearch_prowsubprob(direction, grad, model_old, step_len, step_red, max_steps, *rest):
        m0 = np.array(model_old, dtype=float, copy=True).ravel()
        d0 = np.array(direction, dtype=float, copy=True).ravel()
        if d0.size == 1 and m0.size > 1:      # tt_cp_apr_pqnr passes search_dir.transpose()[0] of a 1-D search_dir: ONE number, which
            tr.scalar_dirs += 1               # numpy broadcasts over the row (model_old + stepSize * direction); replayed as executed
            d0 = np.full(m0.shape, d0[0])
        res = orig["tt_linesearch_prowsubprob"](direction, grad, model_old, step_len, step_red, max_steps, *rest)
        c = _ctx()
        if c is not None:
            phi = np.asarray(rest[4], dtype=float).ravel()          # rest = suff_decr, isSparse, data_row, Pi, phi_row, display_warning
            tr.ev.append(("s", c, [float(x) for x in d0], [float(x) for x in m0], [float(x) for x in phi],
                          [float(x) for x in np.asarray(res[0]).ravel()], float(step_len), float(step_red), int(max_steps)))
        return res

    for k, f in (("calc_partials", calc_partials), ("calc_grad", calc_grad), ("tt_linesearch_prowsubprob", tt_linesearch_prowsubprob)):
        setattr(apr, k, f)
    try:
        yield tr
    finally:
        for k, f in orig.items():
            setattr(apr, k, f)


def _classify(np, d, m0, phi, m1, step_len, step_red, max_steps):
    """(fallback, k): the returned row is the projected step of length step_len * step_red^k, or the projected multiplicative
    update m0 * phi; None when neither reproduces it exactly"""
    d, m0, phi, m1 = (np.array(x, dtype=float) for x in (d, m0, phi, m1))
    s = step_len
    for k in range(max_steps + 1):
        new = m0 + s * d
        new = new * (new > 0)
        if np.array_equal(new, m1):
            return (False, k)
        s *= step_red
    new = m0 * phi
    new = new * (new > 0)
    if np.array_equal(new, m1):
        return (True, 0)
    return None


def tables(np, tr, alg):
    """-> (gtab, stab): gtab[(it, n, jj, i)] = gradient seen by the KKT test of inner iteration i (PQNR, i = 0: the gradient after
    the priming line search); stab[(it, n, jj, phase)] = (fallback, direction, alpha, phi) where phase = length of the row's history
    of iterates when the line search runs (PDNR: i; PQNR: 0 for the priming search, i + 1 for the search of inner iteration i)"""
    gtab, stab, nsearch = {}, {}, {}
    for e in tr.ev:
        if e[0] == "g":
            gtab[e[1]] = e[3]                       # the later call wins (PQNR i = 0)
        else:
            _, c, d, m0, phi, m1, sl, sr, ms = e
            row = c[:3]
            k = nsearch.get(row, 0)
            nsearch[row] = k + 1
            cl = _classify(np, d, m0, phi, m1, sl, sr, ms)
            if cl is None:
                tr.bad.append(f"line search at (iteration, mode, row, inner) = {c}: returned row {m1} is neither a projected step "
                              f"m + step_len*step_red^k*d (k <= {ms}) nor the projected multiplicative update of {m0}")
                cl = (False, 0)
            phase = k
            if alg == "pdnr" and phase != c[3] or alg == "pqnr" and phase != (0 if k == 0 else c[3] + 1):
                tr.bad.append(f"line search number {k} of row {row} at inner iteration {c[3]} ({alg})")
            stab[(c[0], c[1], c[2], phase)] = (cl[0], d, sl * sr ** cl[1], phi)
    return gtab, stab
