(* Np/NpZ4e.v — primitives of the fifth translator batch (option "m5" of tools/pyx2v.py; first user: sptensor.reshape,
   Gen/GenSptensor4d.v).  Trusted base: each definition is what the numpy call named in its comment computes on integer data
   (compared with numpy itself by the prim5_* cases of tools/props/w4gen.py). *)
From Coq Require Import List ZArith Bool.
From PV Require Import Np.NpZ Np.NpZ2 Np.NpZ3.
Import ListNotations.
Local Open Scope Z_scope.

(* a >= c element-wise (a 1-d, c an int) *)
Definition np_ge_s (a : vec) (c : Z) : bvec := map (fun x => x >=? c) a.

(* np.concatenate((a, b), axis=1) of two 2-d arrays (lists of rows): the row counts must agree (ValueError otherwise); row i of
   the result is row i of a followed by row i of b.  A 2-d array WITHOUT rows has no representation of its column count
   in the list-of-rows model: callers only concatenate arrays with at least one row (sptensor.reshape: nnz > 0 there). *)
Definition np_hstack_ok (a b : mat) : bool := zlen a =? zlen b.
Fixpoint np_hstack (a b : mat) : mat :=
  match a, b with
  | r :: a', q :: b' => (r ++ q) :: np_hstack a' b'
  | _, _ => []
  end.
