"""C07 — permute, reshape and squeeze are exact index maps (DESIGN §C07)."""
import itertools
import math
from fractions import Fraction
from vcheck import Case, gnlist, gz, gzlist, gzmat
import tgen

PROP = "C07"
LEVEL = "proof"
GEN_UNITS = ["GenUtils", "GenUtils3b", "GenSptensor4", "GenSptensor4b", "GenSptensor4d", "GenKtensor4"]   # Props/C07Gen4.v + Props/W4C07.v / W4C07b.v / W4C07d.v: the generated whole methods sptensor.permute / squeeze / reshape, ktensor.permute; Props/C07w3.v: sparse reshape over the generated tt_sub2ind / tt_ind2sub; Props/C07w4.v: requests over the generated parse_one_d / parse_shape
COQ_TARGETS = ["Props/C07.vo", "Props/C07w3.vo", "Props/C07w4.vo", "Props/C07w5.vo", "Model/C07W5.vo", "Props/C07Gen4.vo", "Props/W4C07.vo", "Props/W4C07b.vo", "Props/W4C07d.vo", "Model/C07Gen4.vo", "Model/C07Harness.vo", "Model/C07Harness2.vo", "Model/C07Gen.vo",
               "Model/C07Req.vo", "Model/C07Impl.vo", "Model/Harness.vo"]
THEOREM_FILES = ["Props/C07.v", "Props/C07w3.v", "Props/C07w4.v", "Props/C07w5.v", "Props/C07Gen4.v",
                 "Props/W4C07.v", "Props/W4C07b.v", "Props/W4C07d.v"]    # W4C07.v is the translator builder's file (sptensor.ones / permute generated, bridged to permute_sp): claimed here like C04 claims W3C04.v
COQ_IMPORTS = ("From Coq Require Import List ZArith Bool.\n"
               "From PV Require Import Base.Index Base.Perm Np.Array Model.Sparse Model.Repr Model.Harness "
               "Model.C07Ops Model.C07Harness Model.C07Ops2 Model.C07Harness2 Np.NpZ Gen.GenUtils Model.C07Gen "
               "Np.NpZ2 Np.NpZ3 Np.NpZ3b Gen.GenUtils3b Model.C07Req Model.C07Impl Model.C07W5 "
               "Gen.GenSptensor4 Gen.GenSptensor4d Gen.GenKtensor4 Model.W4Ktensor Model.W4Sptensor Model.C07Gen4.\n")
def _finding_open(fid):
    """status of one of C07's own findings (findings.d/C07.jsonl); decides whether the trigger / witness of the finding exist"""
    import json
    import os
    fn = os.path.join(os.path.dirname(os.path.abspath(__file__)), "..", "..", "findings.d", "C07.jsonl")
    try:
        for line in open(fn):
            if line.strip():
                j = json.loads(line)
                if j.get("finding_id") == fid:
                    return j.get("status", "open") == "open"
    except OSError:
        pass
    return False


# N-C07-7 (sptensor.squeeze drops size-0 modes).  The comparer demands ONE behaviour on holders with a size-0 mode at any time: the
# size-0 modes are kept (squeeze_sp_any), through the demanded-behaviour model, the repaired return statements (squeeze_sp_impl_ne), the
# GENERATED sptensor.squeeze of this run and the text probe sq_text_keeps_zero.  While the finding is open (findings.d/C07.jsonl) the
# mismatches of exactly that class are attributed to it (trigger + witness); once it is flipped to fixed there is no trigger and no
# witness: the class is an ordinary stream class, the witness input (shape (2,0,1) out of to_sptensor()) stays its first case, and a
# tree that still tests `shape > 1` is reported as a VIOLATION.
N7_OPEN = _finding_open("N-C07-7")

RULE = ("permute: all N! orders for N<=4 (seeded sample for N=5) on shapes with distinct sizes (2,3,4,5), repeated sizes and "
        "singletons, for dense / sparse / Kruskal (rank 0..3) / Tucker with a dense core / Tucker with a sparse core (core <= "
        "2x2x2x2, stored order sorted|reversed|random, empty core included) holders; reshape: every ordered factorisation "
        "(factors >= 2, plus variants with inserted 1s) of every element count <= 48, dense and sparse; sparse reshape of every "
        "non-empty mode subset (ascending and one shuffled order; single modes also as the documented bare int) for N<=4, each "
        "also as the round trip reshape ; reshape-back ; permute(argsort(keep ++ old)) and against the dense route "
        "permute(keep ++ old) ; reshape on the same data; reshape / squeeze through full() of Kruskal and Tucker (dense and sparse "
        "core) holders; squeeze: every shape with <= 8 cells and <= 4 modes, sparsity {0,1,some,all} (so every all-singleton "
        "shape occurs with nothing stored); a small malformed stream (non-permutations, wrong element counts). non-trivial = "
        "more than one cell, at least one nonzero and not (identity order on a cubical shape). Third wave: the dense ops on 7 memory "
        "layouts of the same logical array (built from C-ordered data with and without copy, from a transposed view, from a slice "
        "of a larger array, a C-ordered array / strided view assigned to .data, integer dtype, operands produced by sptensor.full() "
        "and by slicing a larger tensor); sparse operands with Fortran-ordered / strided subscript arrays without copy and operands "
        "produced by tensor.to_sptensor() / slicing a larger sptensor (model input = what pyttb holds before the call); values scaled by 2^k, k in "
        "{-30,-20,24,40}, dense and sparse; sparse operands with explicitly stored zeros, integer-typed values, and operands "
        "without stored entries that come out of S - S / S * 0; old_modes with a repeated mode; Kruskal / Tucker holders with "
        "C-ordered, assigned C-ordered and strided factor matrices (and core data) and Kruskal holders right after "
        "normalize(weight_factor = k | 'all'); multi-step histories (op chain: permute;permute, reshape;permute;reshape, "
        "reshape-with-inserted-1s;squeeze, sparse subset-reshape;permute;squeeze, second call on the same object) with every "
        "intermediate object observed raw. Fourth wave: orders that are not permutations (all ones, a negative entry, the numpy "
        "spelling k-N of a valid mode, a repeated entry, an entry = N, one entry too few / too many) on all five holders; orders "
        "and target shapes written as list, tuple, (1,N) / (N,1) / (1,N,1) integer arrays, int8 arrays, bare int / np.int64 / 0-d "
        "array (one mode), and as float arrays / 2-row matrices / nested lists (refused) — the model side runs through the "
        "GENERATED parse_one_d / parse_shape; negative and zero sizes; sparse subset reshape with mode numbers outside 0..N-1; "
        "dense holders grown by __setitem__ past their extent (element / slice / subscript-array assignment), float32 / int8 / "
        "int32 data; sparse holders with float32 / int8 values, int8 / int32 / uint8 subscripts; integer values 2^33..2^52 + k; "
        "histories of 4-7 random permute / reshape / squeeze steps on one object. Fifth wave: the witnesses of the repaired "
        "N-C07-1..6 as regression cases; boolean orders (every truth vector of the right length, one too long / too short; as "
        "bool array, (N,1) bool array, list / tuple of bools, bare bool, 0-d bool array) on all five holders; dense squeeze of "
        "shapes with size-0 modes in 6 layouts and inside histories; sparse subset reshape with mode numbers < 0 or >= N as bare "
        "int / list / tuple / int8 array, alone and next to valid modes, with and without stored entries; negative sizes in the "
        "target of full and subset reshapes, with and without stored entries; every non-ascending listing of every mode subset "
        "with >= 2 non-singleton modes (sparse, and against the dense route); dense reshape from sources with at most one "
        "non-singleton mode ((n), (1,n), (n,1), (1,1,n), (1,n,1)) to every >= 2-factor target in random layouts, and the round "
        "trips target -> source -> reversed target, dense and sparse")
EXPLANATION = ("Theorems (Props/C07.v) are over the hand-written models Model/C07Ops.v and Model/C07Ops2.v, for all N, shapes, "
               "orders and any value type (Kruskal/Tucker: any commutative ring). The correspondence stream runs pyttb and the "
               "model on the same inputs and compares shape, denotation at every subscript, well-formedness and nnz in Coq; "
               "dense results are compared as raw F-order .data lists and must be Fortran-ordered with .shape = .data.shape; the "
               "argument must be left unchanged. Sparse reshape is additionally evaluated through Model/C07Gen.v, the "
               "transliteration of sptensor.reshape over the GENERATED tt_sub2ind / tt_ind2sub (Props/C07w3.v bridges it to "
               "the hand model), so an edit of those helpers breaks the proof or the comparison. Orders / shapes written in a "
               "specific form are read on the model side by the GENERATED parse_one_d / parse_shape (Model/C07Req.v, "
               "Props/C07w4.v). Fifth wave: every sparse reshape request is also evaluated through Model/C07W5.v reshape_sp_code, "
               "the transliteration of sptensor.reshape as written after /repo b27c529 (mode-number test, size-sign test, size "
               "check, empty branch, generated tt_sub2ind / tt_ind2sub; Props/C07w5.v bridges it to the request-level "
               "specification); dense squeeze follows the repaired `shape != 1` tests (size-0 modes are kept); boolean orders "
               "are refused by sparse / dense / Tucker holders and read as 1 / 0 by ktensor.permute. Sixth wave: sparse squeeze on "
               "holders with a size-0 mode demands ONE behaviour (the size-0 modes are kept) through squeeze_sp_any, the repaired return "
               "statements squeeze_sp_impl_ne, the generated sptensor.squeeze of this run and the text probe sq_text_keeps_zero; "
               + ("finding N-C07-7 (sptensor.squeeze tests `shape > 1`) is OPEN: mismatches are attributed only on squeeze_sp of a shape with a 0."
                  if N7_OPEN else
                  "finding N-C07-7 is repaired (sptensor.squeeze tests `shape != 1`): no trigger, no witness, the class is an ordinary stream class."))
CORRESPONDENCE_ONLY = []
ASSUMPTIONS = ["numpy transpose / F-order reshape / squeeze semantics as defined in Np/Array.v (np_transpose, np_reshapeF)",
               "np.ravel_multi_index / np.unravel_index / negative-index wrap as defined in Np/NpZ.v (used by the generated "
               "tt_sub2ind / tt_ind2sub); the statements of sptensor.reshape around the two helper calls are transliterated by hand "
               "(Model/C07Gen.v)",
               "the numpy / Python primitives of Np/NpZ3.v, NpZ3b.v (ndarray records, squeeze, np.array of a list / tuple) and Np/NpZ4.v, "
               "NpZ4b.v, NpZ4d.v, NpZ4e.v (np.sort, take, column gather, np.where, setdiff1d, hstack, constructor guards spt_make_ok / kt_make_ok) "
               "used by the generated parse_one_d / parse_shape / sptensor.permute / sptensor.squeeze / sptensor.reshape / ktensor.permute "
               "(validated by the primitive-level streams of the translator's own checks W3GEN / W4GEN); the translator tools/pyx2v.py "
               "itself; np.unravel_index's refusal of a 0-d target is guarded in the generated text / in reshape_sp_code, not in the primitive",
               "ktensor.full / ttensor.full compute tabulate(shape, den) (proved for pyttb's algorithms under C01); C07 only "
               "uses them to route Kruskal / Tucker holders to tensor.reshape / tensor.squeeze, which pyttb does not offer on "
               "ktensor / ttensor"]


# ---------------------------------------------------------------------------------------- generators
def ordered_factorisations(n, minf=2):
    if n == 1:
        return [[]]
    out = []
    for d in range(minf, n + 1):
        if n % d == 0:
            for rest in ordered_factorisations(n // d, minf):
                out.append([d] + rest)
    return out


def with_ones(rng, f):
    f = list(f)
    for _ in range(rng.randint(1, 2)):
        f.insert(rng.randint(0, len(f)), 1)
    return f


def rand_matrix(rng, m, n, lo=-2, hi=3):
    return [[rng.randint(lo, hi) for _ in range(n)] for _ in range(m)]


def rand_sparse(rng, shp, fill=None):
    n = math.prod(shp)
    if fill is None:
        fill = rng.choice([0.0, 0.3, 0.6, 1.0])
    data = tgen.rand_dense(rng, shp, fill)
    if fill == 0.3 and n > 1 and rng.random() < 0.4:
        data = [0] * n
        data[rng.randrange(n)] = rng.choice([-2, 3])
    subs, vals = tgen.dense_to_sparse(shp, data, rng, rng.choice(["sorted", "reversed", "random"]))
    return subs, vals


PERM_SHAPES = [[3], [1], [2, 3], [3, 3], [1, 4], [1, 1], [2, 3, 4], [2, 2, 3], [3, 1, 2], [2, 2, 2], [1, 1, 3],
               [2, 3, 4, 5], [2, 3, 2, 3], [1, 2, 1, 3], [2, 1, 3, 4]]


def gen_cases(rng, tier):
    big = tier == "thorough"
    cases = []
    reps = 3 if big else 1
    # ---------------- permute, four holders
    shapes = [list(s) for s in PERM_SHAPES]
    if big:
        shapes += [tgen.rand_shape(rng, maxn=4, maxcells=96) for _ in range(10)]
    jobs = []
    for shp in shapes:
        for p in itertools.permutations(range(len(shp))):
            jobs.append((shp, list(p)))
    for shp in ([[2, 1, 3, 2, 2], [2, 3, 1, 2, 3]] if not big else [[2, 1, 3, 2, 2], [2, 3, 1, 2, 3], [3, 2, 2, 2, 2], [1, 2, 3, 4, 1]]):
        for _ in range(24 if big else 6):
            p = list(range(5))
            rng.shuffle(p)
            jobs.append((shp, p))
    for shp, p in jobs:
        n = math.prod(shp)
        ident = p == sorted(p)
        for _ in range(reps):
            data = tgen.rand_dense(rng, shp, rng.choice([0.6, 1.0]))
            nt = n > 1 and any(data) and not (ident and len(set(shp)) == 1)
            cases.append(Case("permute_d", {"shape": shp, "data": data, "p": p}, nt))
            subs, vals = rand_sparse(rng, shp)
            cases.append(Case("permute_sp", {"shape": shp, "subs": subs, "vals": vals, "p": p}, nt and bool(vals)))
            R = rng.choice([0, 1, 2, 3]) if rng.random() < 0.3 else rng.choice([2, 3])
            K = {"weights": [rng.choice([-2, -1, 1, 2, 3]) for _ in range(R)], "factors": [rand_matrix(rng, d, R) for d in shp]}
            cases.append(Case("permute_k", {"shape": shp, "K": K, "p": p}, nt and R > 0))
            cshape = [rng.randint(1, 2) for _ in shp]
            core = tgen.rand_dense(rng, cshape, rng.choice([0.5, 1.0]))
            T = {"cshape": cshape, "core": core, "factors": [rand_matrix(rng, d, c) for d, c in zip(shp, cshape)]}
            cases.append(Case("permute_t", {"shape": shp, "T": T, "p": p}, nt and any(core)))
            # Tucker holder whose core is an sptensor (ttensor.permute -> sptensor.permute on the core)
            cshape2 = [rng.randint(1, 2) for _ in shp]
            core2 = tgen.rand_dense(rng, cshape2, rng.choice([0.0, 0.4, 0.7, 1.0]))
            csubs, cvals = tgen.dense_to_sparse(cshape2, core2, rng, rng.choice(["sorted", "reversed", "random"]))
            Ts = {"cshape": cshape2, "csubs": csubs, "cvals": cvals,
                  "factors": [rand_matrix(rng, d, c) for d, c in zip(shp, cshape2)]}
            cases.append(Case("permute_st", {"shape": shp, "T": Ts, "p": p}, nt and bool(cvals)))
    # ---------------- dense / sparse reshape over every factorisation
    counts = list(range(1, 49))
    for n in counts:
        facs = ordered_factorisations(n)
        facs = [f for f in facs if len(f) <= 5] or [[n]]
        if n == 1:
            facs = [[1]]
        extra = [with_ones(rng, f) for f in rng.sample(facs, min(len(facs), 3))]
        targets = facs + extra
        for tgt in targets:
            if not tgt:
                continue
            src = list(rng.choice(facs + extra))
            if not src:
                src = [1]
            data = tgen.rand_dense(rng, src, rng.choice([0.5, 1.0]))
            nt = n > 1 and any(data) and src != tgt
            cases.append(Case("reshape_d", {"shape": src, "data": data, "new": tgt}, nt))
            if big or rng.random() < 0.7:
                subs, vals = rand_sparse(rng, src)
                cases.append(Case("reshape_sp", {"shape": src, "subs": subs, "vals": vals, "new": tgt, "old": None}, nt and bool(vals)))
    # ---------------- sparse reshape of every non-empty mode subset
    rshapes = [[6], [4, 3], [2, 3, 4], [3, 1, 2], [2, 2, 3, 2], [1, 2, 1, 3], [2, 3, 4, 2], [3, 3, 2]]
    if big:
        rshapes += [tgen.rand_shape(rng, maxn=4, maxcells=72) for _ in range(12)]
    for shp in rshapes:
        N = len(shp)
        for r in range(1, N + 1):
            for comb in itertools.combinations(range(N), r):
                orders = [list(comb)]
                if r > 1:
                    q = list(comb)
                    rng.shuffle(q)
                    orders.append(q)
                    if big:
                        orders.append(list(comb)[::-1])
                for old in orders:
                    m = math.prod(shp[k] for k in old)
                    facs = ordered_factorisations(m) if m > 1 else [[1]]
                    picks = rng.sample(facs, min(len(facs), 4 if big else 2))
                    picks.append(with_ones(rng, rng.choice(facs)))
                    for tgt in picks:
                        if not tgt:
                            tgt = [1]
                        for fill in ([0.0, 0.5, 1.0] if big else [rng.choice([0.0, 0.4, 1.0])]):
                            subs, vals = rand_sparse(rng, shp, fill)
                            nt = bool(vals) and math.prod(shp) > 1
                            cases.append(Case("reshape_sp", {"shape": shp, "subs": subs, "vals": vals, "new": tgt, "old": old}, nt))
                            # reshape ; reshape the trailing modes back ; restore the mode order  == the stored object
                            subs, vals = rand_sparse(rng, shp, fill)
                            cases.append(Case("reshape_sp_rt", {"shape": shp, "subs": subs, "vals": vals, "new": tgt, "old": old},
                                              bool(vals) and math.prod(shp) > 1))
                            # the same data as tensor and as sptensor: dense route against sparse subset reshape
                            data = tgen.rand_dense(rng, shp, fill)
                            subs, vals = tgen.dense_to_sparse(shp, data, rng, rng.choice(["sorted", "reversed", "random"]))
                            cases.append(Case("reshape_agree", {"shape": shp, "data": data, "subs": subs, "vals": vals,
                                                                "new": tgt, "old": old}, any(data) and math.prod(shp) > 1))
                if r == 1:     # the documented bare-int form of old_modes (N-C07-2, repaired): must behave like [mode]
                    m = shp[comb[0]]
                    facs = ordered_factorisations(m) if m > 1 else [[1]]
                    for tgt in [[m], with_ones(rng, rng.choice(facs))] + ([rng.choice(facs)] if len(facs) > 1 else []):
                        subs, vals = rand_sparse(rng, shp, rng.choice([0.0, 0.6, 1.0]))
                        cases.append(Case("reshape_sp", {"shape": shp, "subs": subs, "vals": vals, "new": tgt,
                                                         "old": [comb[0]], "old_int": True}, bool(vals)))
    # ---------------- squeeze
    for shp in tgen.shapes_upto(8) + ([tuple(tgen.rand_shape(rng, maxn=5, maxcells=48)) for _ in range(40)] if big else
                                      [(2, 1, 3, 1, 2), (1, 1, 1, 1, 1), (1, 5, 1), (3, 1, 1, 4)]):
        shp = list(shp)
        n = math.prod(shp)
        for fill in [0.0, 0.5, 1.0]:
            data = tgen.rand_dense(rng, shp, fill)
            nt = n > 1 and any(data) and 1 in shp
            if fill > 0:
                cases.append(Case("squeeze_d", {"shape": shp, "data": data}, nt))
            subs, vals = tgen.dense_to_sparse(shp, data, rng, rng.choice(["sorted", "reversed", "random"]))
            cases.append(Case("squeeze_sp", {"shape": shp, "subs": subs, "vals": vals}, nt))
    # ---------------- Kruskal / Tucker holders: reshape and squeeze exist only through full()
    hshapes = [[2, 3], [3, 1, 2], [2, 1, 3], [1, 4], [1, 1], [2, 2, 3], [1, 3, 1, 2], [4, 3], [1], [2, 3, 2]]
    if big:
        hshapes += [tgen.rand_shape(rng, maxn=4, maxcells=36) for _ in range(20)]
    for shp in hshapes:
        n = math.prod(shp)
        facs = ordered_factorisations(n) if n > 1 else [[1]]
        for _ in range(3 if big else 1):
            R = rng.choice([1, 2, 3])
            K = {"weights": [rng.choice([-2, -1, 1, 2, 3]) for _ in range(R)], "factors": [rand_matrix(rng, d, R) for d in shp]}
            cshape = [rng.randint(1, 2) for _ in shp]
            core = tgen.rand_dense(rng, cshape, rng.choice([0.5, 1.0]))
            T = {"cshape": cshape, "core": core, "factors": [rand_matrix(rng, d, c) for d, c in zip(shp, cshape)]}
            csubs, cvals = tgen.dense_to_sparse(cshape, core, rng, rng.choice(["sorted", "reversed", "random"]))
            Ts = {"cshape": cshape, "csubs": csubs, "cvals": cvals, "factors": T["factors"]}
            for tgt in [rng.choice(facs), with_ones(rng, rng.choice(facs))]:
                cases.append(Case("reshape_full", {"shape": shp, "holder": "k", "H": K, "new": tgt}, n > 1))
                cases.append(Case("reshape_full", {"shape": shp, "holder": "t", "H": T, "new": tgt}, n > 1 and any(core)))
                cases.append(Case("reshape_full", {"shape": shp, "holder": "st", "H": Ts, "new": tgt}, n > 1 and any(core)))
            cases.append(Case("squeeze_full", {"shape": shp, "holder": "k", "H": K}, n > 1 and 1 in shp))
            cases.append(Case("squeeze_full", {"shape": shp, "holder": "t", "H": T}, n > 1 and 1 in shp and any(core)))
            cases.append(Case("squeeze_full", {"shape": shp, "holder": "st", "H": Ts}, n > 1 and 1 in shp and any(core)))
    # ---------------- malformed stream: rejected requests must be rejected by both
    for _ in range(60 if big else 20):
        shp = tgen.rand_shape(rng, maxn=4, maxcells=24)
        N = len(shp)
        bad = [rng.randint(0, N) for _ in range(rng.choice([N, N, N + 1, max(1, N - 1)]))]
        if sorted(bad) == list(range(N)):
            continue        # valid
        data = tgen.rand_dense(rng, shp, 1.0)
        subs, vals = rand_sparse(rng, shp, 0.5)
        cases.append(Case("permute_d", {"shape": shp, "data": data, "p": bad}, True))
        cases.append(Case("permute_sp", {"shape": shp, "subs": subs, "vals": vals, "p": bad}, True))
        cshape = [rng.randint(1, 2) for _ in shp]
        core = tgen.rand_dense(rng, cshape, 1.0)
        csubs, cvals = tgen.dense_to_sparse(cshape, core)
        cases.append(Case("permute_st", {"shape": shp, "p": bad, "T": {"cshape": cshape, "csubs": csubs, "cvals": cvals,
                          "factors": [rand_matrix(rng, d, c) for d, c in zip(shp, cshape)]}}, True))
        tgt = [math.prod(shp) + rng.choice([1, 2])]
        cases.append(Case("reshape_d", {"shape": shp, "data": data, "new": tgt}, True))
        cases.append(Case("reshape_sp", {"shape": shp, "subs": subs, "vals": vals, "new": tgt, "old": None}, True))
    # ================= third wave: layout classes, stored zeros, magnitudes, computed-empty operands, multi-step chains
    cases += gen_w3(rng, big)
    # ================= fourth wave: invalid orders, request forms, grown / typed holders, wide values, long histories
    cases += gen_w4(rng, big)
    # ================= fifth wave: the input classes of the repaired N-C07-3..6 as ordinary cases (mode numbers outside 0..N-1
    # in every spelling, negative sizes with and without stored entries, boolean orders on all holders, dense squeeze with
    # size-0 modes), listed-order-sensitive subset reshapes, dense reshape from / to shapes with at most one non-singleton mode
    cases += gen_w5(rng, big)
    return cases


DENSE_LAYOUTS = ["C", "C_nocopy", "transposed", "sliced", "assignC", "assign_view", "int", "sp_full", "getitem",
                 # wave 4: holders GROWN by __setitem__ past their extent (pyttb then holds a C-ordered np.zeros buffer),
                 # and element types other than float64 / int64
                 "grown_elem", "grown_slice", "grown_subs", "grown_empty_elem", "grown_empty_slice", "grown_newmode",
                 "float32", "int8", "int32"]
GROWN_LAYOUTS = ["grown_elem", "grown_slice", "grown_subs", "grown_empty_elem", "grown_empty_slice", "grown_newmode"]
ORDER_FORMS_OK = ["list", "tuple", "row", "col", "cube", "int8"]
ORDER_FORMS_BAD = ["float", "mat2", "nested"]
SCALAR_FORMS = ["scalar", "npint", "arr0d"]
BOOL_FORMS = ["bool", "bool_col", "bool_list", "bool_tuple", "bool_scalar", "bool0d"]     # the last two: one entry
SP_VARIANTS_W4 = ["val_float32", "val_int8", "subs_int8", "subs_int32", "subs_uint8"]
FACTOR_LAYOUTS = ["C", "assignC", "assign_view", "grown_core"]   # grown_core: Tucker core grown by assignment (C-ordered), handed over with copy=False
SCALES = [-30, -20, 24, 40]


def inject_zeros(rng, shp, subs, vals, force=True):
    """explicitly stored zeros (accepted by the plain constructor): at free positions and/or replacing stored values"""
    subs, vals = [list(r) for r in subs], list(vals)
    free = [i for i in tgen.all_subs(shp) if i not in subs]
    rng.shuffle(free)
    k = rng.randint(1, 2) if force else rng.randint(0, 1)
    for i in free[:k]:
        pos = rng.randint(0, len(subs))
        subs.insert(pos, i)
        vals.insert(pos, 0)
    if vals and (not free or rng.random() < 0.3):
        vals[rng.randrange(len(vals))] = 0
    return subs, vals


def unit_kruskal(rng, shp, R, for_all=False):
    """columns with exactly one nonzero entry (2-norm exact); for weight_factor='all' entries +-1 and unit weights, so that
    normalize stays inside the integers"""
    fs = []
    for d in shp:
        m = [[0] * R for _ in range(d)]
        for r in range(R):
            m[rng.randrange(d)][r] = rng.choice([-1, 1]) if for_all else rng.choice([-3, -2, -1, 1, 2, 3])
        fs.append(m)
    w = [1] * R if for_all else [rng.choice([-2, 1, 2, 3]) for _ in range(R)]
    return {"weights": w, "factors": fs}


def nonones(s):
    return [d for d in s if d != 1]


def facs_of(n, maxlen=None):
    """ordered factorisations (factors >= 2) of n as target shapes; [[1]] for n = 1 (a 0-way target is not admissible)"""
    if n == 1:
        return [[1]]
    return [f for f in ordered_factorisations(n) if maxlen is None or len(f) <= maxlen] or [[n]]


def gen_w3(rng, big):
    cases = []
    rep = 3 if big else 1
    # ---------------- dense holders in every memory layout (values are the same logical array in each)
    lshapes = [[2, 3], [3, 2, 2], [2, 3, 4], [1, 3, 2], [2, 1, 3], [4], [1, 5], [3, 1], [2, 2, 3, 2], [2, 1, 2, 3]]
    if big:
        lshapes += [tgen.rand_shape(rng, maxn=4, maxcells=60) for _ in range(8)]
    for shp in lshapes:
        N, n = len(shp), math.prod(shp)
        perms = list(itertools.permutations(range(N)))
        facs = facs_of(n, 4)
        for lay in DENSE_LAYOUTS:
            for _ in range(rep):
                data = tgen.rand_dense(rng, shp, rng.choice([0.7, 1.0]))
                for p in (perms if (big and N <= 3) else rng.sample(perms, min(len(perms), 3))):
                    cases.append(Case("permute_d", {"shape": shp, "data": data, "p": list(p), "layout": lay},
                                      n > 1 and any(data) and list(p) != sorted(p)))
                for tgt in rng.sample(facs, min(len(facs), 3)) + [with_ones(rng, rng.choice(facs))]:
                    cases.append(Case("reshape_d", {"shape": shp, "data": data, "new": tgt, "layout": lay},
                                      n > 1 and any(data) and tgt != shp))
                if 1 in shp:
                    cases.append(Case("squeeze_d", {"shape": shp, "data": data, "layout": lay}, any(data)))
    for shp in [[1, 1], [1], [1, 1, 1]]:
        for lay in DENSE_LAYOUTS:
            cases.append(Case("squeeze_d", {"shape": shp, "data": [rng.choice([-2, 3, 4])], "layout": lay}, False))
    # ---------------- magnitudes: the same integers scaled by 2^k (exact in float64); every value must come back bit-exact
    for shp in [[2, 3, 2], [3, 1, 2], [4, 3], [5], [1, 1]]:
        N, n = len(shp), math.prod(shp)
        facs = facs_of(n)
        for k in SCALES:
            data = tgen.rand_dense(rng, shp, 0.8)
            p = list(range(N))
            rng.shuffle(p)
            cases.append(Case("permute_d", {"shape": shp, "data": data, "p": p, "scale_exp": k}, n > 1 and any(data)))
            cases.append(Case("reshape_d", {"shape": shp, "data": data, "new": rng.choice(facs), "scale_exp": k}, n > 1 and any(data)))
            cases.append(Case("squeeze_d", {"shape": shp, "data": data, "scale_exp": k}, n > 1 and any(data) and 1 in shp))
            subs, vals = rand_sparse(rng, shp, 0.6)
            cases.append(Case("permute_sp", {"shape": shp, "subs": subs, "vals": vals, "p": p, "scale_exp": k}, bool(vals)))
            cases.append(Case("reshape_sp", {"shape": shp, "subs": subs, "vals": vals, "new": with_ones(rng, rng.choice(facs)),
                                             "old": None, "scale_exp": k}, bool(vals)))
            cases.append(Case("squeeze_sp", {"shape": shp, "subs": subs, "vals": vals, "scale_exp": k}, bool(vals)))
    # ---------------- sparse: explicitly stored zeros; integer-typed values; operands without entries that come out of a computation
    sshapes = [[2, 3], [2, 3, 4], [3, 1, 2], [1, 4], [2, 2, 1, 3], [1, 1], [1, 1, 1], [6]]
    if big:
        sshapes += [tgen.rand_shape(rng, maxn=4, maxcells=48) for _ in range(8)]
    for shp in sshapes:
        N, n = len(shp), math.prod(shp)
        facs = facs_of(n)
        for variant in ["zeros", "zeros", "int", "minus", "times0", "F_nocopy", "view_nocopy", "to_sptensor", "getitem"] + SP_VARIANTS_W4:
            for _ in range(rep):
                extra = {}
                if variant == "zeros":
                    subs, vals = rand_sparse(rng, shp, rng.choice([0.0, 0.4, 0.7]))
                    subs, vals = inject_zeros(rng, shp, subs, vals)
                    extra = {"zeros": True}
                elif variant == "int":
                    subs, vals = rand_sparse(rng, shp, 0.6)
                    extra = {"dtype": "int"}
                elif variant in ("minus", "times0"):   # the operand is S - S / S * 0 for a random non-empty S: nothing stored
                    subs, vals = rand_sparse(rng, shp, 0.7)
                    if not vals:
                        continue
                    extra = {"via": variant}
                else:        # Fortran-ordered / strided subscript arrays without copy; operands made by to_sptensor() / slicing
                    subs, vals = rand_sparse(rng, shp, rng.choice([0.0, 0.5, 0.8]))
                    extra = {"via": variant}
                nt = bool(vals) and n > 1 and variant not in ("minus", "times0")
                p = list(range(N))
                rng.shuffle(p)
                base = {"shape": shp, "subs": subs, "vals": vals}
                cases.append(Case("permute_sp", dict(base, p=p, **extra), nt))
                cases.append(Case("reshape_sp", dict(base, new=with_ones(rng, rng.choice(facs)), old=None, **extra), nt))
                cases.append(Case("squeeze_sp", dict(base, **extra), nt and 1 in shp))
                if N >= 2:
                    r = rng.randint(1, N)
                    old = rng.sample(range(N), r)
                    m = math.prod(shp[k] for k in old)
                    f2 = facs_of(m)
                    tgt = rng.choice(f2) or [1]
                    cases.append(Case("reshape_sp", dict(base, new=tgt, old=old, **extra), nt))
                    if variant not in ("minus", "times0"):
                        cases.append(Case("reshape_sp_rt", dict(base, new=tgt, old=old, **extra), nt))
    # ---------------- old_modes with a REPEATED mode (accepted by pyttb; forward law only, not onto: C07_reshape_sparse_repeated_not_onto)
    for shp in [[2], [2, 3], [3, 2, 2], [1, 2]]:
        N = len(shp)
        for _ in range(3 * rep):
            k = rng.randrange(N)
            old = [k, k] + ([rng.randrange(N)] if rng.random() < 0.4 else [])
            rng.shuffle(old)
            m = math.prod(shp[j] for j in old)
            f2 = facs_of(m)
            subs, vals = rand_sparse(rng, shp, rng.choice([0.0, 0.5, 1.0]))
            cases.append(Case("reshape_sp", {"shape": shp, "subs": subs, "vals": vals, "new": rng.choice(f2) or [1], "old": old,
                                             "repeated": True}, bool(vals)))
    # ---------------- Kruskal / Tucker holders whose factor matrices are C-ordered / views / left C-ordered by normalize
    fshapes = [[2, 3], [3, 2, 4], [2, 3, 2], [1, 3, 2], [2, 2, 3, 2], [3]]
    for shp in fshapes:
        N, n = len(shp), math.prod(shp)
        perms = list(itertools.permutations(range(N)))
        facs = facs_of(n)
        for lay in FACTOR_LAYOUTS:
            for p in rng.sample(perms, min(len(perms), 4 if big else 2)):
                p = list(p)
                R = rng.choice([2, 3])
                K = {"weights": [rng.choice([-2, -1, 1, 2, 3]) for _ in range(R)], "factors": [rand_matrix(rng, d, R) for d in shp]}
                cases.append(Case("permute_k", {"shape": shp, "K": K, "p": p, "flayout": lay}, n > 1))
                cshape = [rng.randint(1, 2) for _ in shp]
                core = tgen.rand_dense(rng, cshape, 1.0)
                T = {"cshape": cshape, "core": core, "factors": [rand_matrix(rng, d, c) for d, c in zip(shp, cshape)]}
                cases.append(Case("permute_t", {"shape": shp, "T": T, "p": p, "flayout": lay}, n > 1))
                csubs, cvals = tgen.dense_to_sparse(cshape, core, rng, "random")
                Ts = {"cshape": cshape, "csubs": csubs, "cvals": cvals, "factors": T["factors"]}
                cases.append(Case("permute_st", {"shape": shp, "T": Ts, "p": p, "flayout": lay}, n > 1))
            K = {"weights": [rng.choice([-2, 1, 3]) for _ in range(2)], "factors": [rand_matrix(rng, d, 2) for d in shp]}
            cshape = [rng.randint(1, 2) for _ in shp]
            T = {"cshape": cshape, "core": tgen.rand_dense(rng, cshape, 1.0), "factors": [rand_matrix(rng, d, c) for d, c in zip(shp, cshape)]}
            for holder, H in (("k", K), ("t", T)):
                cases.append(Case("reshape_full", {"shape": shp, "holder": holder, "H": H, "new": rng.choice(facs), "flayout": lay}, n > 1))
                if 1 in shp:
                    cases.append(Case("squeeze_full", {"shape": shp, "holder": holder, "H": H, "flayout": lay}, n > 1))
        # after K.normalize(weight_factor=k | 'all') pyttb itself holds C-ordered factor matrices
        for wf in list(range(N)) + ["all"]:
            for p in rng.sample(perms, min(len(perms), 3 if big else 2)):
                K = unit_kruskal(rng, shp, rng.choice([2, 3]), for_all=(wf == "all"))
                cases.append(Case("permute_k", {"shape": shp, "K": K, "p": list(p), "normalize": wf}, n > 1))
            K = unit_kruskal(rng, shp, 2, for_all=(wf == "all"))
            cases.append(Case("reshape_full", {"shape": shp, "holder": "k", "H": K, "new": rng.choice(facs), "normalize": wf}, n > 1))
    # ---------------- multi-step histories; every intermediate object is observed raw
    cshapes = [[2, 3, 4], [3, 2, 2], [2, 1, 3], [4, 3], [2, 3, 2, 2], [1, 2, 1, 3], [6], [3, 3, 2]]
    if big:
        cshapes += [tgen.rand_shape(rng, maxn=4, maxcells=48) for _ in range(10)]
    for shp in cshapes:
        N, n = len(shp), math.prod(shp)
        perms = list(itertools.permutations(range(N)))
        facs = facs_of(n, 4)
        for _ in range(4 if big else 2):
            p, q = list(rng.choice(perms)), list(rng.choice(perms))
            data = tgen.rand_dense(rng, shp, rng.choice([0.6, 1.0]))
            subs, vals = rand_sparse(rng, shp, rng.choice([0.0, 0.4, 0.8]))
            if rng.random() < 0.3:
                subs, vals = inject_zeros(rng, shp, subs, vals)
            ntd, nts = n > 1 and any(data), n > 1 and bool(vals)
            lay = rng.choice([None] + DENSE_LAYOUTS)
            # permute ; permute   (= one permute by the composed order)  and a second call on the same object
            steps = [["permute", p], ["permute", q]]
            cases.append(Case("chain", {"holder": "d", "shape": shp, "data": data, "steps": steps, "law": "pp", "layout": lay}, ntd))
            cases.append(Case("chain", {"holder": "sp", "shape": shp, "subs": subs, "vals": vals, "steps": steps, "law": "pp"}, nts))
            R = rng.choice([1, 2, 3])
            K = {"weights": [rng.choice([-2, -1, 1, 2, 3]) for _ in range(R)], "factors": [rand_matrix(rng, d, R) for d in shp]}
            cases.append(Case("chain", {"holder": "k", "shape": shp, "H": K, "steps": steps, "law": "pp"}, n > 1))
            cshape = [rng.randint(1, 2) for _ in shp]
            core = tgen.rand_dense(rng, cshape, rng.choice([0.6, 1.0]))
            T = {"cshape": cshape, "core": core, "factors": [rand_matrix(rng, d, c) for d, c in zip(shp, cshape)]}
            cases.append(Case("chain", {"holder": "t", "shape": shp, "H": T, "steps": steps, "law": "pp"}, n > 1 and any(core)))
            csubs, cvals = tgen.dense_to_sparse(cshape, core, rng, "random")
            Ts = {"cshape": cshape, "csubs": csubs, "cvals": cvals, "factors": T["factors"]}
            cases.append(Case("chain", {"holder": "st", "shape": shp, "H": Ts, "steps": steps, "law": "pp"}, n > 1 and any(core)))
            # reshape ; permute ; reshape
            s1 = list(rng.choice(facs))
            if rng.random() < 0.4:
                s1 = with_ones(rng, s1)
            p1 = list(range(len(s1)))
            rng.shuffle(p1)
            s2 = list(rng.choice(facs))
            steps = [["reshape", s1], ["permute", p1], ["reshape", s2]]
            cases.append(Case("chain", {"holder": "d", "shape": shp, "data": data, "steps": steps, "law": None, "layout": lay}, ntd))
            cases.append(Case("chain", {"holder": "sp", "shape": shp, "subs": subs, "vals": vals, "steps": steps, "law": None}, nts))
            # reshape with inserted singleton modes ; squeeze   (= reshape to the non-singleton sizes)
            s3 = with_ones(rng, rng.choice([shp, list(rng.choice(facs))]))
            steps = [["reshape", s3], ["squeeze"]]
            cases.append(Case("chain", {"holder": "d", "shape": shp, "data": data, "steps": steps, "law": "rs", "layout": lay}, ntd))
            cases.append(Case("chain", {"holder": "sp", "shape": shp, "subs": subs, "vals": vals, "steps": steps, "law": "rs"}, nts))
            # sparse only: subset reshape ; permute ; squeeze
            if N >= 2:
                old = rng.sample(range(N), rng.randint(1, N))
                m = math.prod(shp[k] for k in old)
                f2 = facs_of(m)
                tgt = with_ones(rng, rng.choice(f2))
                M = N - len(old) + len(tgt)
                p2 = list(range(M))
                rng.shuffle(p2)
                steps = [["reshape_sub", tgt, old], ["permute", p2], ["squeeze"]]
                cases.append(Case("chain", {"holder": "sp", "shape": shp, "subs": subs, "vals": vals, "steps": steps, "law": None}, nts))
    for shp in [[1, 1], [1], [1, 1, 1]]:      # all-singleton chains end in a scalar
        v = rng.choice([-2, 3])
        steps = [["reshape", [1] * rng.randint(1, 4)], ["squeeze"]]
        cases.append(Case("chain", {"holder": "d", "shape": shp, "data": [v], "steps": steps, "law": "rs", "layout": None}, False))
        cases.append(Case("chain", {"holder": "sp", "shape": shp, "subs": [[0] * len(shp)], "vals": [v], "steps": steps, "law": "rs"}, False))
        cases.append(Case("chain", {"holder": "sp", "shape": shp, "subs": [], "vals": [], "steps": steps, "law": "rs"}, False))
    return cases


def bad_orders(rng, N):
    """orders that are not permutations of 0..N-1: all ones (N >= 2; on one mode order [1]), a negative entry, a repeated
    entry, an entry = N, one entry too few / too many"""
    out = []
    out.append([1] * N)
    p = list(range(N))
    rng.shuffle(p)
    q = list(p)
    q[rng.randrange(N)] = -1
    out.append(q)
    q = list(p)
    k = rng.randrange(N)
    q[k] = q[k] - N                      # the numpy spelling of the same mode counted from the end
    out.append(q)
    if N >= 2:
        q = list(p)
        i, j = rng.sample(range(N), 2)
        q[i] = q[j]
        out.append(q)
    q = list(p)
    q[q.index(N - 1)] = N
    out.append(q)
    out.append(p[:-1])
    out.append(p + [rng.randrange(N + 1)])
    return [o for o in out if sorted(o) != list(range(N))]


def _holders_for(rng, shp):
    R = rng.choice([1, 2, 3])
    K = {"weights": [rng.choice([-2, -1, 1, 2, 3]) for _ in range(R)], "factors": [rand_matrix(rng, d, R) for d in shp]}
    cshape = [rng.randint(1, 2) for _ in shp]
    core = tgen.rand_dense(rng, cshape, 1.0)
    T = {"cshape": cshape, "core": core, "factors": [rand_matrix(rng, d, c) for d, c in zip(shp, cshape)]}
    csubs, cvals = tgen.dense_to_sparse(cshape, core, rng, "random")
    Ts = {"cshape": cshape, "csubs": csubs, "cvals": cvals, "factors": T["factors"]}
    return K, T, Ts


def _permute_cases(rng, shp, p, nt, **extra):
    data = tgen.rand_dense(rng, shp, 1.0)
    subs, vals = rand_sparse(rng, shp, rng.choice([0.0, 0.5, 1.0]))
    K, T, Ts = _holders_for(rng, shp)
    return [Case("permute_d", dict({"shape": shp, "data": data, "p": p}, **extra), nt),
            Case("permute_sp", dict({"shape": shp, "subs": subs, "vals": vals, "p": p}, **extra), nt),
            Case("permute_k", dict({"shape": shp, "K": K, "p": p}, **extra), nt),
            Case("permute_t", dict({"shape": shp, "T": T, "p": p}, **extra), nt),
            Case("permute_st", dict({"shape": shp, "T": Ts, "p": p}, **extra), nt)]


def gen_w4(rng, big):
    cases = []
    rep = 3 if big else 1
    # ---------------- invalid orders on every holder (rejected requests): all ones, negative, repeated, out of range, wrong length
    for shp in [[3], [1], [2, 3], [2, 2], [1, 1], [3, 1, 2], [2, 3, 4], [2, 2, 2, 3]]:
        for _ in range(rep):
            for bad in bad_orders(rng, len(shp)):
                cases += _permute_cases(rng, shp, bad, True)
    # ---------------- the request as the caller writes it (list, tuple, arrays with singleton axes, narrow integer type, bare
    # int on one mode; floats / matrices / nested lists are not orders): through the GENERATED parse_one_d
    for shp in [[2, 3, 4], [3, 1, 2], [4, 3], [3], [1], [2, 2, 3, 2]]:
        N = len(shp)
        perms = list(itertools.permutations(range(N)))
        for form in ORDER_FORMS_OK + ORDER_FORMS_BAD + (SCALAR_FORMS if N == 1 else []):
            if form in ("mat2", "nested") and N == 1:
                continue
            for p in rng.sample(perms, min(len(perms), 2 * rep)):
                cases += _permute_cases(rng, shp, list(p), math.prod(shp) > 1, pform=form)
        for bad in bad_orders(rng, N)[:3]:
            cases += _permute_cases(rng, shp, bad, True, pform=rng.choice(ORDER_FORMS_OK))
    for v in [1, -1, 2]:                   # bare int that is not mode 0 of a one-mode holder
        for form in SCALAR_FORMS:
            cases += _permute_cases(rng, [3], [v], True, pform=form)
    # ---------------- target shapes as the caller writes them: through the GENERATED parse_shape
    for shp in [[2, 3, 4], [4, 3], [6], [3, 1, 2], [2, 2, 3]]:
        n = math.prod(shp)
        facs = facs_of(n, 4)
        for form in ORDER_FORMS_OK + ORDER_FORMS_BAD + SCALAR_FORMS:
            for _ in range(rep):
                tgt = [n] if form in SCALAR_FORMS else list(rng.choice([f for f in facs if len(f) >= 2] or facs))
                if form in ("mat2", "nested") and len(tgt) < 2:
                    continue
                data = tgen.rand_dense(rng, shp, 1.0)
                subs, vals = rand_sparse(rng, shp, rng.choice([0.0, 0.5, 1.0]))
                cases.append(Case("reshape_d", {"shape": shp, "data": data, "new": tgt, "sform": form}, True))
                cases.append(Case("reshape_sp", {"shape": shp, "subs": subs, "vals": vals, "new": tgt, "old": None, "sform": form}, bool(vals)))
        # sizes that are not sizes: a negative factor pair with the right product, a zero, the right count with a sign
        for tgt in [[-shp[0], -(n // shp[0])], [n, 0], [-n], [-1, n]]:
            data = tgen.rand_dense(rng, shp, 1.0)
            cases.append(Case("reshape_d", {"shape": shp, "data": data, "newz": tgt, "new": [abs(t) for t in tgt]}, True))
            subs, vals = rand_sparse(rng, shp, rng.choice([0.0, 0.5, 1.0]))
            cases.append(Case("reshape_sp", {"shape": shp, "subs": subs, "vals": vals, "newz": tgt, "new": [abs(t) for t in tgt], "old": None}, True))
    # ---------------- sparse subset reshape with mode numbers that are not modes of the tensor
    for shp in [[2, 3], [2, 3, 4], [3, 1, 2], [4]]:
        N = len(shp)
        for _ in range(2 * rep):
            k = rng.randrange(N)
            for oldz in ([k - N], [N + rng.randint(0, 1)]) + (([k - N, (k + 1) % N],) if N >= 2 else ()):
                m = math.prod(shp[j % N] for j in oldz)
                subs, vals = rand_sparse(rng, shp, rng.choice([0.0, 0.6, 1.0]))
                cases.append(Case("reshape_sp", {"shape": shp, "subs": subs, "vals": vals, "new": list(rng.choice(facs_of(m))),
                                                 "old": [j % N for j in oldz], "oldz": oldz}, True))
    # ---------------- old_modes written as list / tuple / int8 array (np.atleast_1d reads them alike), any listed order
    for shp in [[2, 3, 4], [3, 1, 2], [2, 2, 3, 2]]:
        N = len(shp)
        for form in ["list", "tuple", "int8"]:
            for _ in range(2 * rep):
                old = rng.sample(range(N), rng.randint(1, N))
                m = math.prod(shp[k] for k in old)
                subs, vals = rand_sparse(rng, shp, rng.choice([0.0, 0.5, 1.0]))
                cases.append(Case("reshape_sp", {"shape": shp, "subs": subs, "vals": vals, "new": with_ones(rng, rng.choice(facs_of(m))),
                                                 "old": old, "oform": form}, bool(vals)))
    # ---------------- dense holders with a mode of size 0 (no element; sptensor refuses such shapes): permute and reshape
    for shp in [[2, 0], [0, 3], [2, 0, 3], [1, 0], [3, 0, 1, 2]]:
        N = len(shp)
        for p in rng.sample(list(itertools.permutations(range(N))), min(math.factorial(N), 3 * rep)):
            cases.append(Case("permute_d", {"shape": shp, "data": [], "p": list(p)}, False))
        for tgt in [[0], [0, 5], [3, 0, 2], shp[::-1]]:
            cases.append(Case("reshape_d", {"shape": shp, "data": [], "new": tgt}, False))
        cases.append(Case("reshape_d", {"shape": shp, "data": [], "new": [1]}, False))        # 0 cells -> 1 cell: refused
        cases.append(Case("chain", {"holder": "d", "shape": shp, "data": [], "law": None, "layout": None,
                                    "steps": [["permute", list(range(N))[::-1]], ["reshape", [0, 2]], ["permute", [1, 0]]]}, False))
    # ---------------- wide values: integers that need more than 24 / 32 bits (a detour through a narrower type shows)
    for shp in [[2, 3, 2], [3, 1, 2], [4, 3], [5]]:
        N, n = len(shp), math.prod(shp)
        for _ in range(rep):
            wide = [rng.choice([-1, 1]) * (2 ** rng.choice([33, 40, 52]) + rng.randint(1, 9)) if rng.random() < 0.8 else 0 for _ in range(n)]
            p = list(range(N))
            rng.shuffle(p)
            cases.append(Case("permute_d", {"shape": shp, "data": wide, "p": p}, n > 1))
            cases.append(Case("reshape_d", {"shape": shp, "data": wide, "new": list(rng.choice(facs_of(n)))}, n > 1))
            cases.append(Case("squeeze_d", {"shape": shp, "data": wide}, 1 in shp))
            subs, vals = tgen.dense_to_sparse(shp, wide, rng, "random")
            cases.append(Case("permute_sp", {"shape": shp, "subs": subs, "vals": vals, "p": p}, bool(vals)))
            cases.append(Case("reshape_sp", {"shape": shp, "subs": subs, "vals": vals, "new": list(rng.choice(facs_of(n))), "old": None}, bool(vals)))
            cases.append(Case("squeeze_sp", {"shape": shp, "subs": subs, "vals": vals}, bool(vals) and 1 in shp))
    # ---------------- holders grown by assignment in EVERY dense stream: the three chain laws and the dense route of the
    # sparse-subset agreement (permute_d / reshape_d / squeeze_d get them through DENSE_LAYOUTS in gen_w3)
    for shp in [[2, 3, 4], [3, 2], [2, 1, 3], [4], [2, 2, 3, 2]]:
        N, n = len(shp), math.prod(shp)
        perms = list(itertools.permutations(range(N)))
        facs = facs_of(n, 4)
        for lay in GROWN_LAYOUTS:
            for _ in range(rep):
                data = tgen.rand_dense(rng, shp, rng.choice([0.7, 1.0]))
                p, q = list(rng.choice(perms)), list(rng.choice(perms))
                cases.append(Case("chain", {"holder": "d", "shape": shp, "data": data, "steps": [["permute", p], ["permute", q]],
                                            "law": "pp", "layout": lay}, any(data)))
                s1 = with_ones(rng, list(rng.choice(facs)))
                p1 = list(range(len(s1)))
                rng.shuffle(p1)
                cases.append(Case("chain", {"holder": "d", "shape": shp, "data": data, "law": None, "layout": lay,
                                            "steps": [["reshape", s1], ["permute", p1], ["reshape", list(rng.choice(facs))]]}, any(data)))
                cases.append(Case("chain", {"holder": "d", "shape": shp, "data": data, "law": "rs", "layout": lay,
                                            "steps": [["reshape", with_ones(rng, shp)], ["squeeze"]]}, any(data)))
                cases.append(Case("chain", {"holder": "d", "shape": shp, "data": data, "law": None, "layout": lay,
                                            "steps": [["squeeze"], ["reshape", list(rng.choice(facs))]] if 1 in shp and nonones(shp) else
                                                     [["permute", p], ["reshape", list(rng.choice(facs))], ["squeeze"]]}, any(data)))
                if N >= 2:
                    old = rng.sample(range(N), rng.randint(1, N))
                    m = math.prod(shp[k] for k in old)
                    subs, vals = tgen.dense_to_sparse(shp, data, rng, "random")
                    cases.append(Case("reshape_agree", {"shape": shp, "data": data, "subs": subs, "vals": vals, "layout": lay,
                                                        "new": list(rng.choice(facs_of(m))), "old": old}, any(data)))
    # ---------------- long histories on one object: 4..7 random steps of permute / reshape / squeeze (dense in every layout,
    # sparse in every stored variant); every intermediate object is observed raw
    for shp in [[2, 3, 4], [3, 2, 2], [2, 1, 3, 2], [4, 3], [1, 6, 1], [2, 2, 3, 2]]:
        n = math.prod(shp)
        for _ in range(6 if big else 3):
            cur = list(shp)
            steps = []
            for _k in range(rng.randint(4, 7)):
                kind = rng.choice(["permute", "reshape", "reshape1", "squeeze"])
                if kind == "permute" and len(cur) >= 2:
                    q = list(range(len(cur)))
                    rng.shuffle(q)
                    steps.append(["permute", q])
                    cur = [cur[k] for k in q]
                elif kind == "squeeze" and 1 in cur and nonones(cur):
                    steps.append(["squeeze"])
                    cur = nonones(cur)
                else:
                    t = list(rng.choice(facs_of(n, 4)))
                    if kind == "reshape1":
                        t = with_ones(rng, t)
                    steps.append(["reshape", t])
                    cur = t
            data = tgen.rand_dense(rng, shp, rng.choice([0.6, 1.0]))
            cases.append(Case("chain", {"holder": "d", "shape": shp, "data": data, "steps": steps, "law": None,
                                        "layout": rng.choice([None] + DENSE_LAYOUTS)}, any(data)))
            subs, vals = rand_sparse(rng, shp, rng.choice([0.0, 0.4, 0.8]))
            ex = rng.choice([{}, {}, {"via": "F_nocopy"}, {"via": "to_sptensor"}, {"via": "subs_int8"}, {"via": "val_float32"}])
            cases.append(Case("chain", dict({"holder": "sp", "shape": shp, "subs": subs, "vals": vals, "steps": steps, "law": None}, **ex), bool(vals)))
    return cases


def gen_w5(rng, big):
    cases = []
    rep = 3 if big else 1
    # ---------------- the witnesses of the repaired findings, as ordinary regression cases
    W = {"shape": [2, 3], "subs": [[0, 1], [1, 2]], "vals": [5, 6]}
    cases.append(Case("reshape_sp", dict(W, new=[3], old=[1], oldz=[-1], oform="scalar"), True))                     # N-C07-3
    cases.append(Case("reshape_sp", {"shape": [2, 3], "subs": [], "vals": [], "newz": [-2, -3], "new": [2, 3], "old": None}, True))  # N-C07-4
    cases.append(Case("permute_sp", dict(W, p=[1, 0], pform="bool_list"), True))                                       # N-C07-5
    cases.append(Case("squeeze_d", {"shape": [1, 0], "data": []}, False))                                              # N-C07-6
    cases.append(Case("squeeze_sp", {"shape": [1, 1, 1], "subs": [], "vals": []}, False))                              # N-C07-1
    cases.append(Case("reshape_sp", {"shape": [2, 1, 3], "subs": [[0, 0, 0], [1, 0, 2]], "vals": [5, 6], "new": [3],
                                     "old": [2], "old_int": True}, True))                                              # N-C07-2
    # ---------------- boolean orders (entries 1 / 0 = True / False) on all five holders: every truth vector of the right
    # length (the mixed ones sort to 0, 1), one of a wrong length, in every spelling
    for shp in [[3], [1], [2, 3], [3, 2], [2, 2], [1, 4], [2, 3, 4], [3, 1, 2]]:
        N = len(shp)
        vecs = [list(v) for v in itertools.product([0, 1], repeat=N)]
        vecs.append([rng.randint(0, 1) for _ in range(N + 1)])
        if N > 1:
            vecs.append([rng.randint(0, 1) for _ in range(N - 1)])
        for v in vecs:
            forms = ["bool", "bool_col", "bool_list", "bool_tuple"] + (["bool_scalar", "bool0d"] if len(v) == 1 else [])
            for form in (forms if big else rng.sample(forms, 2)):
                cases += _permute_cases(rng, shp, v, True, pform=form)
    # ---------------- dense squeeze with modes of size 0 (kept: they are no singletons), alone and inside histories
    for shp in [[1, 0], [1, 0, 1], [0], [2, 0, 1], [0, 1, 3], [1, 0, 1, 3], [0, 0], [1, 1, 0], [0, 1], [3, 0], [1, 0, 0, 1]]:
        for lay in [None, "C", "C_nocopy", "int", "float32", "assignC"]:
            cases.append(Case("squeeze_d", {"shape": shp, "data": [], "layout": lay}, False))
        sq = [d for d in shp if d != 1]
        steps = [["squeeze"]]
        if len(sq) >= 2:
            q = list(range(len(sq)))
            rng.shuffle(q)
            steps.append(["permute", q])
        steps += [["reshape", with_ones(rng, [0, rng.randint(2, 4)])], ["squeeze"]]
        cases.append(Case("chain", {"holder": "d", "shape": shp, "data": [], "steps": steps, "law": None, "layout": None}, False))
        cases.append(Case("chain", {"holder": "d", "shape": shp, "data": [], "law": "rs", "layout": None,
                                    "steps": [["reshape", with_ones(rng, sq)], ["squeeze"]]}, False))
    # ---------------- SPARSE holders with a size-0 mode (they come out of tensor.to_sptensor(); the validating constructor
    # refuses such shapes): squeeze must keep the size-0 modes like tensor.squeeze (open N-C07-7), permute / reshape answer
    for shp in [[2, 0, 1], [1, 0], [0], [0, 3], [1, 0, 1, 3], [2, 0], [0, 1], [1, 1, 0]]:
        N = len(shp)
        Z0 = {"shape": shp, "subs": [], "vals": [], "via": "to_sptensor"}
        cases.append(Case("squeeze_sp", dict(Z0), False))
        for p in rng.sample(list(itertools.permutations(range(N))), min(math.factorial(N), 2)):
            cases.append(Case("permute_sp", dict(Z0, p=list(p)), False))
        for tgt in [[0], [0, 4], [3, 0, 1]]:
            cases.append(Case("reshape_sp", dict(Z0, new=tgt, old=None), False))
        cases.append(Case("reshape_sp", dict(Z0, new=[1], old=None), False))          # 0 cells -> 1 cell: refused
        k0 = shp.index(0)
        cases.append(Case("reshape_sp", dict(Z0, new=[0, 2], old=[k0]), False))
    # ---------------- a target WITHOUT modes ((), []): refused by tensor.reshape and sptensor.reshape — also where it would only
    # fold singleton modes away (1 x 3 x 2, old_modes 0) — with and without stored entries
    for shp in [[1], [1, 1], [1, 1, 1], [2, 3], [1, 3, 2], [2, 1, 3]]:
        N = len(shp)
        for form in ["tuple", "list"]:
            data = tgen.rand_dense(rng, shp, 1.0)
            cases.append(Case("reshape_d", {"shape": shp, "data": data, "new": [], "sform": form}, False))
            for fill in [0.0, 1.0]:
                subs, vals = rand_sparse(rng, shp, fill)
                cases.append(Case("reshape_sp", {"shape": shp, "subs": subs, "vals": vals, "new": [], "old": None, "sform": form}, False))
                for k in [j for j, d in enumerate(shp) if d == 1][:2]:
                    subs, vals = rand_sparse(rng, shp, fill)
                    cases.append(Case("reshape_sp", {"shape": shp, "subs": subs, "vals": vals, "new": [], "old": [k], "oldz": [k],
                                                     "sform": form, "oform": rng.choice(["scalar", "list", None])}, False))
    # ---------------- sparse subset reshape: mode numbers outside 0..N-1 in every spelling (bare int, list, tuple, int8 array,
    # array), alone and next to valid modes, on tensors with and without stored entries; negative sizes in the target of a
    # subset reshape and of a full reshape, with and without stored entries
    for shp in [[2, 3], [2, 3, 4], [3, 1, 2], [4], [2, 2, 3, 2]]:
        N = len(shp)
        for _ in range(2 * rep):
            k = rng.randrange(N)
            for fill in [0.0, rng.choice([0.5, 1.0])]:
                for oldz in [[k - N], [-N - 1], [N], [N + 2]] + ([[k, (k + 1) % N - N], [N, k]] if N >= 2 else []):
                    form = rng.choice(["scalar", "list", "tuple", "int8", None]) if len(oldz) == 1 else rng.choice(["list", "tuple", "int8", None])
                    m = math.prod(shp[j % N] for j in oldz)
                    subs, vals = rand_sparse(rng, shp, fill)
                    cases.append(Case("reshape_sp", {"shape": shp, "subs": subs, "vals": vals, "new": list(rng.choice(facs_of(m))),
                                                     "old": [j % N for j in oldz], "oldz": oldz, "oform": form}, True))
                old = rng.sample(range(N), rng.randint(1, N))
                m = math.prod(shp[j] for j in old)
                f = list(rng.choice(facs_of(m)))
                for tgt in [[-x for x in f] if len(f) % 2 == 0 else [-f[0], -1] + f[1:], [-1, -m], [m, 0], f + [-1, -1]]:
                    subs, vals = rand_sparse(rng, shp, fill)
                    cases.append(Case("reshape_sp", {"shape": shp, "subs": subs, "vals": vals, "new": [abs(t) for t in tgt],
                                                     "newz": tgt, "old": old, "oldz": old, "oform": rng.choice(["list", None])}, True))
                n = math.prod(shp)
                f = list(rng.choice(facs_of(n)))
                for tgt in [[-x for x in f] if len(f) % 2 == 0 else [-f[0], -1] + f[1:], [-1, -n]]:
                    subs, vals = rand_sparse(rng, shp, fill)
                    cases.append(Case("reshape_sp", {"shape": shp, "subs": subs, "vals": vals, "new": [abs(t) for t in tgt],
                                                     "newz": tgt, "old": None}, True))
    # ---------------- the listed ORDER of old_modes matters (mode listed first varies fastest): every ordering of every
    # subset with at least two non-singleton modes, entries at distinct positions in each listed mode
    for shp in [[2, 3, 4], [3, 2, 2], [2, 3, 1, 2], [4, 3]]:
        N = len(shp)
        for r in range(2, N + 1):
            for comb in itertools.combinations(range(N), r):
                if sum(1 for k in comb if shp[k] > 1) < 2:
                    continue
                perms_ = [list(q) for q in itertools.permutations(comb) if list(q) != sorted(q)]
                for old in (perms_ if big else rng.sample(perms_, min(len(perms_), 2))):
                    m = math.prod(shp[k] for k in old)
                    for tgt in [[m], [m, 1], list(rng.choice(facs_of(m)))]:
                        subs, vals = rand_sparse(rng, shp, rng.choice([0.5, 1.0]))
                        form = rng.choice(["list", "tuple", "int8", None])
                        cases.append(Case("reshape_sp", {"shape": shp, "subs": subs, "vals": vals, "new": tgt, "old": old,
                                                         "oform": form}, bool(vals)))
                        data = tgen.rand_dense(rng, shp, 1.0)
                        subs, vals = tgen.dense_to_sparse(shp, data, rng, "random")
                        cases.append(Case("reshape_agree", {"shape": shp, "data": data, "subs": subs, "vals": vals,
                                                            "new": tgt, "old": old}, True))
    # ---------------- dense reshape whose SOURCE has at most one non-singleton mode (data both C- and F-contiguous) into
    # targets with at least two non-singleton modes, and back, in every layout
    for n in [6, 8, 12] + ([24, 30] if big else []):
        for src in [[n], [1, n], [n, 1], [1, 1, n], [1, n, 1]]:
            for tgt in [f for f in ordered_factorisations(n) if len(f) >= 2][: (8 if big else 3)]:
                for lay in ([None] + rng.sample(DENSE_LAYOUTS, 4) if big else [None, rng.choice(DENSE_LAYOUTS)]):
                    data = tgen.rand_dense(rng, src, 1.0)
                    if len(set(data)) < 2:
                        data[0] += 1
                    cases.append(Case("reshape_d", {"shape": src, "data": data, "new": with_ones(rng, tgt) if rng.random() < 0.3 else tgt,
                                                    "layout": lay}, True))
                data = tgen.rand_dense(rng, src, 1.0)
                subs, vals = tgen.dense_to_sparse(src, data, rng, "random")
                cases.append(Case("chain", {"holder": "d", "shape": src, "data": data, "law": None, "layout": None,
                                            "steps": [["reshape", tgt], ["reshape", src], ["reshape", tgt[::-1]]]}, True))
                cases.append(Case("chain", {"holder": "sp", "shape": src, "subs": subs, "vals": vals, "law": None,
                                            "steps": [["reshape", tgt], ["reshape", src], ["reshape", tgt[::-1]]]}, bool(vals)))
    return cases


# ---------------------------------------------------------------------------------------- pyttb side
def _int_arg(np, v, form):
    """the integer vector v (an order or a target shape) as the caller may write it"""
    if form is None or form == "arr":
        return np.array(v, dtype=int)
    if form == "list":
        return [int(x) for x in v]
    if form == "tuple":
        return tuple(int(x) for x in v)
    if form == "row":
        return np.array([v], dtype=int)
    if form == "col":
        return np.array([[x] for x in v], dtype=int)
    if form == "cube":
        return np.array([[[x] for x in v]], dtype=int)
    if form == "int8":
        return np.array(v, dtype=np.int8)
    if form == "float":
        return np.array(v, dtype=float)
    if form == "mat2":
        return np.array([v, v], dtype=int)
    if form == "nested":
        return [[int(x) for x in v]]
    if form == "scalar":
        return int(v[0])
    if form == "npint":
        return np.int64(v[0])
    if form == "arr0d":
        return np.array(int(v[0]))
    # boolean orders (entries 0 / 1 stand for False / True)
    if form == "bool":
        return np.array([bool(x) for x in v], dtype=bool)
    if form == "bool_col":
        return np.array([[bool(x)] for x in v], dtype=bool)
    if form == "bool_list":
        return [bool(x) for x in v]
    if form == "bool_tuple":
        return tuple(bool(x) for x in v)
    if form == "bool_scalar":
        return bool(v[0])
    if form == "bool0d":
        return np.array(bool(v[0]))
    raise ValueError(form)


def _gshp(v, form):
    """the same argument as a Gallina pyshp literal (Np/NpZ3b.v)"""
    zl = "[" + "; ".join(gz(x) for x in v) + "]" if v else "(@nil Z)"
    nf = "[" + "; ".join(f"NFin {gz(x)}" for x in v) + "]" if v else "(@nil npnum)"
    n = len(v)
    if form in ("list", "tuple"):
        el = "[" + "; ".join(f"EInt {gz(x)}" for x in v) + "]" if v else "(@nil pyelem)"
        return f"({'SList' if form == 'list' else 'STuple'} {el})"
    if form == "nested":
        return f"(SList [EList {zl}])"
    if form in ("scalar", "npint"):
        return f"(SInt {gz(v[0])})"
    if form == "arr0d":
        return f"(SArr (mknd (@nil Z) DInt [NFin {gz(v[0])}]))"
    if form in BOOL_FORMS:
        # a list / tuple of Python bools and the bare bool are written as the boolean array that the first statement of
        # parse_one_d makes of them (np.array(list) / np.array([True])): pyelem (Np/NpZ3.v) has no boolean entries
        bshape = {"bool_col": [n, 1], "bool0d": []}.get(form, [n])
        return f"(SArr (mknd {_gzl(bshape)} DBool {nf}))"
    shape = {"arr": [n], "int8": [n], "float": [n], "row": [1, n], "col": [n, 1], "cube": [1, n, 1], "mat2": [2, n]}[form]
    if form == "mat2":
        nf = "[" + "; ".join(f"NFin {gz(x)}" for x in list(v) + list(v)) + "]"
    kind = "DFloat" if form == "float" else "DInt"
    return f"(SArr (mknd [{'; '.join(gz(d) for d in shape)}] {kind} {nf}))"


def _noncontig_view(np, arr):
    """a strided (neither C- nor F-contiguous) view holding the same logical values"""
    big = np.full([2 * d + 1 for d in arr.shape], 77, dtype=arr.dtype)
    view = big[tuple(slice(1, 2 * d, 2) for d in arr.shape)]
    view[...] = arr
    return view


def _transposed_view(np, arr):
    N = arr.ndim
    q = list(range(1, N)) + [0]
    base = np.ascontiguousarray(np.transpose(arr, q))
    return np.transpose(base, [q.index(k) for k in range(N)])


def _scale(a):
    return 2.0 ** a["scale_exp"] if a.get("scale_exp") is not None else None


def _mk_dense(ttb, np, a):
    """the dense holder of a case in the requested memory layout; returns (tensor, logical ndarray)"""
    arr = tgen.np_dense(np, a["shape"], a["data"])
    if _scale(a) is not None:
        arr = arr * _scale(a)
    lay = a.get("layout")
    if lay == "int":
        arr = arr.astype(int)
    shape = tuple(a["shape"])
    if lay in ("float32", "int8", "int32"):      # element types other than float64 / int64 (small integers: exact in each)
        arr = arr.astype({"float32": np.float32, "int8": np.int8, "int32": np.int32}[lay])
    if lay in (None, "F", "int", "float32", "int8", "int32"):
        T = ttb.tensor(arr.copy(order="F"), shape, copy=True)
    elif lay in ("grown_empty_elem", "grown_empty_slice"):
        # an EMPTY ttb.tensor() filled by assignment (element by element, far corner first / one slice assignment)
        T = ttb.tensor()
        if lay == "grown_empty_slice":
            T[tuple(slice(0, d) for d in shape)] = arr
        else:
            for i in sorted(tgen.all_subs(a["shape"]), key=lambda i: -sum(i)):
                T[tuple(i)] = arr[tuple(i)]
    elif lay == "grown_newmode" and len(shape) >= 2:
        # the holder starts with one mode fewer (the first slab of the last mode) and gains the last mode by assignment
        T = ttb.tensor(arr[..., 0].copy(order="F"), copy=True)
        T[tuple(slice(0, d) for d in shape)] = arr
    elif lay in ("grown_elem", "grown_slice", "grown_subs", "grown_newmode"):
        # the holder starts one shorter in every mode of size > 1 and is GROWN by assignment past its extent
        # (tensor.__setitem__ then replaces .data by a fresh buffer); afterwards it holds the same logical array
        blk = tuple(slice(0, max(d - 1, 1)) for d in shape)
        T = ttb.tensor(arr[blk].copy(order="F"), copy=True)
        rest = [i for i in tgen.all_subs(a["shape"]) if any(x >= max(d - 1, 1) for x, d in zip(i, shape))]
        rest.sort(key=lambda i: -sum(i))          # the far corner first: one growth step, then in-range assignments
        if lay in ("grown_slice", "grown_newmode"):
            T[tuple(slice(0, d) for d in shape)] = arr
        elif lay == "grown_elem":
            for i in rest:
                T[tuple(i)] = arr[tuple(i)]
        elif rest:
            T[np.array(rest[:1], dtype=int)] = np.array([arr[tuple(rest[0])]])
            if rest[1:]:
                T[np.array(rest[1:], dtype=int)] = np.array([arr[tuple(i)] for i in rest[1:]])
    elif lay == "C":                 # built from C-ordered data
        T = ttb.tensor(np.ascontiguousarray(arr))
    elif lay == "C_nocopy":
        T = ttb.tensor(np.ascontiguousarray(arr), copy=False)
    elif lay == "transposed":        # built from a transposed view
        T = ttb.tensor(_transposed_view(np, arr), copy=False)
    elif lay == "sliced":            # built from a slice of a larger array
        T = ttb.tensor(_noncontig_view(np, arr))
    elif lay == "assignC":           # a C-ordered array assigned to the holder
        T = ttb.tensor(arr.copy(order="F"), shape, copy=True)
        T.data = np.ascontiguousarray(arr)
    elif lay == "assign_view":
        T = ttb.tensor(arr.copy(order="F"), shape, copy=True)
        T.data = _noncontig_view(np, arr)
    elif lay == "sp_full":           # the operand comes out of sptensor.full()
        nzs = [(i, arr[tuple(i)]) for i in tgen.all_subs(a["shape"]) if arr[tuple(i)] != 0]
        S = ttb.sptensor(np.array([i for i, _ in nzs], dtype=int).reshape((len(nzs), len(shape))),
                         np.array([[v] for _, v in nzs], dtype=float).reshape((len(nzs), 1)), shape)
        T = S.full()
    elif lay == "getitem":           # the operand is a slice of a larger tensor
        big = np.full([d + 1 for d in shape], 9.0, order="F")
        big[tuple(slice(0, d) for d in shape)] = arr
        T = ttb.tensor(big)[tuple(slice(0, d) for d in shape)]
    else:
        raise ValueError(lay)
    return T, arr


def _eff_sparse(a, o=None):
    """the stored lists of the operand: as generated, or — when the operand is itself the result of a pyttb computation
    (S - S, S * 0, tensor.to_sptensor(), a slice of a larger sptensor) — as pyttb held it right before the call under test"""
    if o is not None and "pre_sp" in o:
        return o["pre_sp"]["subs"], o["pre_sp"]["vals"]
    return ([], []) if a.get("via") in ("minus", "times0") else (a["subs"], a["vals"])


def _mk_sp(ttb, np, a):
    shape, subs, vals = a["shape"], a["subs"], a["vals"]
    s_ = np.array(subs, dtype=int).reshape((len(subs), len(shape)))
    v_ = np.array(vals, dtype=int if a.get("dtype") == "int" else float).reshape((len(vals), 1))
    if _scale(a) is not None:
        v_ = v_ * _scale(a)
    via = a.get("via")
    if via in ("val_float32", "val_int8"):       # element types of the values other than float64 / int64
        return ttb.sptensor(s_, v_.astype(np.float32 if via == "val_float32" else np.int8), tuple(shape), copy=True)
    if via in ("subs_int8", "subs_int32", "subs_uint8"):   # narrow subscript types
        return ttb.sptensor(s_.astype({"subs_int8": np.int8, "subs_int32": np.int32, "subs_uint8": np.uint8}[via]), v_, tuple(shape), copy=True)
    if via == "F_nocopy":            # Fortran-ordered subscript array handed over without a copy
        return ttb.sptensor(np.asfortranarray(s_), v_, tuple(shape), copy=False)
    if via == "view_nocopy":         # strided views of larger arrays, no copy
        sb = np.zeros((2 * len(subs) + 1, 2 * len(shape) + 1), dtype=int)
        sv = sb[1:2 * len(subs):2, 1:2 * len(shape):2]
        sv[...] = s_
        vb = np.zeros((len(vals), 3), dtype=v_.dtype)
        vb[:, 1:2] = v_
        return ttb.sptensor(sv, vb[:, 1:2], tuple(shape), copy=False)
    if via == "to_sptensor":         # the operand comes out of tensor.to_sptensor()
        d = np.zeros(tuple(shape), order="F")
        for r, v in zip(s_, v_.ravel()):
            d[tuple(r)] = v
        return ttb.tensor(d).to_sptensor()
    if via == "getitem":             # the operand is a slice of a larger sptensor
        big = ttb.sptensor(np.vstack([s_, np.array([[d for d in shape]], dtype=int)]) if len(subs) else np.array([[d for d in shape]], dtype=int),
                           np.vstack([v_, np.array([[9.0]])]) if len(vals) else np.array([[9.0]]), tuple(d + 1 for d in shape))
        return big[tuple(slice(0, d) for d in shape)]
    S = ttb.sptensor(s_, v_, tuple(shape), copy=True)
    if via == "minus":
        S = S - S
    elif via == "times0":
        S = S * 0
    return S


def _pre_sp(ttb, np, a, S, o):
    """operands produced by pyttb itself: record what pyttb holds; skip the case if that is not the intended tensor
    (construction is the business of other properties)"""
    if not a.get("via"):
        return
    if not isinstance(S, ttb.sptensor) or tuple(int(d) for d in S.shape) != tuple(a["shape"]):
        o["skip"] = True
        return
    pre = tgen.obs_sparse(np, S)
    want = {} if a["via"] in ("minus", "times0") else {tuple(r): v for r, v in zip(a["subs"], a["vals"])}
    got = {tuple(r): v for r, v in zip(pre["subs"], pre["vals"])}
    if len(got) != len(pre["subs"]) or got != {k: (v * _scale(a) if _scale(a) is not None else v) for k, v in want.items()}:
        o["skip"] = True
    if _scale(a) is not None:
        pre["vals"] = [_unscale_val(v, a["scale_exp"]) for v in pre["vals"]]
    o["pre_sp"] = pre


def _relayout(np, m, lay):
    if lay in ("C", "assignC"):
        return np.ascontiguousarray(m)
    if lay == "assign_view":
        return _noncontig_view(np, m)
    return m


def _mk_k(ttb, np, K, shape, lay=None):
    R = len(K["weights"])
    fm = [np.array(f, dtype=float).reshape((d, R)) for f, d in zip(K["factors"], shape)]
    if lay == "C":
        return ttb.ktensor([np.ascontiguousarray(f) for f in fm], np.array(K["weights"], dtype=float), copy=True)
    Kt = ttb.ktensor([f.copy() for f in fm], np.array(K["weights"], dtype=float), copy=True)
    if lay in ("assignC", "assign_view"):
        for n in range(len(fm)):
            Kt.factor_matrices[n] = _relayout(np, Kt.factor_matrices[n], lay)
    return Kt


def _mk_t(ttb, np, T, shape, lay=None):
    core = tgen.mk_tensor(ttb, np, T["cshape"], T["core"])
    fm = [np.array(f, dtype=float).reshape((d, c)) for f, d, c in zip(T["factors"], shape, T["cshape"])]
    if lay == "C":
        return ttb.ttensor(core, [np.ascontiguousarray(f) for f in fm], copy=True)
    if lay == "grown_core":
        core = _mk_dense(ttb, np, {"shape": T["cshape"], "data": T["core"], "layout": "grown_slice"})[0]
        return ttb.ttensor(core, [f.copy() for f in fm], copy=False)
    Tt = ttb.ttensor(core, [f.copy() for f in fm], copy=True)
    if lay in ("assignC", "assign_view"):
        for n in range(len(fm)):
            Tt.factor_matrices[n] = _relayout(np, Tt.factor_matrices[n], lay)
        Tt.core.data = _relayout(np, Tt.core.data, lay)
    return Tt


def _mk_st(ttb, np, T, shape, lay=None):
    """Tucker holder with an sptensor core"""
    core = tgen.mk_sptensor(ttb, np, T["cshape"], T["csubs"], T["cvals"])
    fm = [np.array(f, dtype=float).reshape((d, c)) for f, d, c in zip(T["factors"], shape, T["cshape"])]
    if lay == "C":
        return ttb.ttensor(core, [np.ascontiguousarray(f) for f in fm], copy=True)
    Tt = ttb.ttensor(core, [f.copy() for f in fm], copy=True)
    if lay in ("assignC", "assign_view"):
        for n in range(len(fm)):
            Tt.factor_matrices[n] = _relayout(np, Tt.factor_matrices[n], lay)
    return Tt


def _mk_holder(ttb, np, a):
    return {"k": _mk_k, "t": _mk_t, "st": _mk_st}[a["holder"]](ttb, np, a["H"], a["shape"], a.get("flayout"))


def _rs_order(N, old):
    keep = [k for k in range(N) if k not in old]
    return keep, keep + list(old)


def _obs_d(np, R):
    """raw dense observation: F-order value list of .data, its shape, the .shape attribute and the layout flag"""
    ob = tgen.obs_dense(np, R)
    ob["tshape"] = [int(d) for d in R.shape]
    ob["fcontig"] = bool(R.data.flags["F_CONTIGUOUS"])
    return ob


def _obs_k(np, R):
    return {"weights": [tgen.exact(x) for x in np.asarray(R.weights).ravel()],
            "factors": [[[tgen.exact(x) for x in row] for row in np.asarray(f)] for f in R.factor_matrices]}


def _obs_any(ttb, np, R):
    if isinstance(R, ttb.tensor):
        return {"kind": "d", "ob": _obs_d(np, R)}
    if isinstance(R, ttb.sptensor):
        return {"kind": "sp", "ob": tgen.obs_sparse(np, R)}
    if isinstance(R, ttb.ktensor):
        return {"kind": "k", "ob": _obs_k(np, R)}
    if isinstance(R, ttb.ttensor):
        fs = [tgen.obs_matrix(np, f) for f in R.factor_matrices]
        if isinstance(R.core, ttb.sptensor):
            return {"kind": "st", "ob": {"core": tgen.obs_sparse(np, R.core), "factors": fs}}
        return {"kind": "t", "ob": {"core": _obs_d(np, R.core), "factors": fs}}
    return {"kind": "scalar", "ob": tgen.exact(R)}


def _unscale_val(v, k):
    if k is None or not isinstance(v, (int, Fraction)):
        return v
    w = Fraction(v) / (Fraction(2) ** k)
    return int(w) if w.denominator == 1 else w


def _unscale(o, k):
    """values were generated as integer * 2^k: divide back exactly (a value that is not integer * 2^k stays a Fraction
    and fails the integrality test of the comparer)"""
    if k is None:
        return o
    if "scalar" in o:
        o["scalar"] = _unscale_val(o["scalar"], k)
    if "ok" in o:
        for key in ("data", "vals"):
            if key in o["ok"]:
                o["ok"][key] = [_unscale_val(v, k) for v in o["ok"][key]]
    return o


def _step(ttb, np, X, st):
    if st[0] == "permute":
        return X.permute(np.array(st[1], dtype=int))
    if st[0] == "reshape":
        return X.reshape(tuple(st[1]))
    if st[0] == "reshape_sub":
        return X.reshape(tuple(st[1]), np.array(st[2], dtype=int))
    if st[0] == "squeeze":
        return X.squeeze()
    raise ValueError(st)


def _run_chain(ttb, np, a):
    h = a["holder"]
    if h == "d":
        X, arr = _mk_dense(ttb, np, a)
        if not isinstance(X, ttb.tensor) or tuple(X.shape) != tuple(a["shape"]) or not np.array_equal(X.data, arr):
            return {"skip": True}
    elif h == "sp":
        X = _mk_sp(ttb, np, a)
    else:
        X = _mk_holder(ttb, np, a)
    X0 = X
    out = {"steps": []}
    for k, st in enumerate(a["steps"]):
        try:
            X = _step(ttb, np, X, st)
        except Exception as ex:
            out["exc"] = type(ex).__name__
            out["msg"] = str(ex)[:200]
            out["at"] = k
            return out
        out["steps"].append(_obs_any(ttb, np, X))
        if out["steps"][-1]["kind"] == "scalar":
            break
    try:    # a second call of the first step on the same (original) object
        out["again"] = _obs_any(ttb, np, _step(ttb, np, X0, a["steps"][0]))
    except Exception as ex:
        out["again"] = {"kind": "exc", "ob": type(ex).__name__}
    return out


def run_impl(c):
    import numpy as np
    import pyttb as ttb
    a = c.args
    try:
        if c.op in ("permute_d", "reshape_d", "squeeze_d"):
            T, arr = _mk_dense(ttb, np, a)
            if not isinstance(T, ttb.tensor) or tuple(T.shape) != tuple(a["shape"]) or not np.array_equal(T.data, arr):
                return {"skip": True}       # the producing operation did not give the intended operand: not C07's business
            if c.op == "permute_d":
                R = T.permute(_int_arg(np, a["p"], a.get("pform")))
            elif c.op == "reshape_d":
                R = T.reshape(tuple(a["newz"]) if "newz" in a else _int_arg(np, a["new"], a["sform"]) if a.get("sform") else tuple(a["new"]))
            else:
                R = T.squeeze()
            o = {"ok": _obs_d(np, R)} if isinstance(R, ttb.tensor) else {"scalar": tgen.exact(R)}
            if tuple(T.shape) != tuple(a["shape"]) or T.data.shape != arr.shape or not np.array_equal(T.data, arr):
                o["input_changed"] = True
            return _unscale(o, a.get("scale_exp"))
        if c.op in ("permute_sp", "reshape_sp", "squeeze_sp"):
            S = _mk_sp(ttb, np, a)
            pre = {}
            _pre_sp(ttb, np, a, S, pre)
            if pre.get("skip"):
                return pre
            s0, v0, sh0 = S.subs.copy(), S.vals.copy(), tuple(S.shape)
            if c.op == "permute_sp":
                R = S.permute(_int_arg(np, a["p"], a.get("pform")))
            elif c.op == "squeeze_sp":
                R = S.squeeze()
            elif "oldz" in a:
                tgt_ = tuple(a["newz"]) if "newz" in a else _int_arg(np, a["new"], a["sform"]) if a.get("sform") else tuple(a["new"])
                R = S.reshape(tgt_, _int_arg(np, a["oldz"], a.get("oform")))
            elif a["old"] is None:
                R = S.reshape(tuple(a["newz"]) if "newz" in a else _int_arg(np, a["new"], a["sform"]) if a.get("sform") else tuple(a["new"]))
            elif a.get("old_int"):
                R = S.reshape(tuple(a["new"]), int(a["old"][0]))
            else:
                R = S.reshape(tuple(a["new"]), _int_arg(np, a["old"], a.get("oform")))
            o = {"ok": tgen.obs_sparse(np, R)} if isinstance(R, ttb.sptensor) else {"scalar": tgen.exact(R)}
            if tuple(S.shape) != sh0 or not np.array_equal(S.subs, s0) or not np.array_equal(S.vals, v0):
                o["input_changed"] = True
            o.update(pre)
            return _unscale(o, a.get("scale_exp"))
        if c.op == "permute_k":
            K = _mk_k(ttb, np, a["K"], a["shape"], a.get("flayout"))
            o = {}
            if a.get("normalize") is not None:
                K.normalize(weight_factor=a["normalize"])
                o["pre"] = _obs_k(np, K)
                o["pre_c"] = [bool(f.flags["C_CONTIGUOUS"]) for f in K.factor_matrices]
            R = K.permute(_int_arg(np, a["p"], a.get("pform")))
            o["ok"] = _obs_k(np, R)
            return o
        if c.op == "permute_t":
            T = _mk_t(ttb, np, a["T"], a["shape"], a.get("flayout"))
            R = T.permute(_int_arg(np, a["p"], a.get("pform")))
            return {"ok": {"core": _obs_d(np, R.core), "factors": [tgen.obs_matrix(np, f) for f in R.factor_matrices]}}
        if c.op == "permute_st":
            T = _mk_st(ttb, np, a["T"], a["shape"], a.get("flayout"))
            R = T.permute(_int_arg(np, a["p"], a.get("pform")))
            if not isinstance(R.core, ttb.sptensor):
                return {"exc": "CoreNotSparse", "msg": type(R.core).__name__}
            return {"ok": {"core": tgen.obs_sparse(np, R.core), "factors": [tgen.obs_matrix(np, f) for f in R.factor_matrices]}}
        if c.op == "reshape_sp_rt":
            S = _mk_sp(ttb, np, a)
            pre = {}
            _pre_sp(ttb, np, a, S, pre)
            if pre.get("skip"):
                return pre
            keep, q = _rs_order(len(a["shape"]), a["old"])
            R = S.reshape(tuple(a["new"]), np.array(a["old"], dtype=int))
            R2 = R.reshape(tuple(a["shape"][k] for k in a["old"]), np.arange(len(keep), len(keep) + len(a["new"]), dtype=int))
            inv = [q.index(k) for k in range(len(q))]          # argsort(keep ++ old), by plain search
            return dict(pre, ok=tgen.obs_sparse(np, R2.permute(np.array(inv, dtype=int))))
        if c.op == "reshape_agree":
            keep, q = _rs_order(len(a["shape"]), a["old"])
            out = {}
            try:
                D0 = _mk_dense(ttb, np, a)[0] if a.get("layout") else tgen.mk_tensor(ttb, np, a["shape"], a["data"])
                D = D0.permute(np.array(q, dtype=int))
                out["dense"] = _obs_d(np, D.reshape(tuple([a["shape"][k] for k in keep] + list(a["new"]))))
            except Exception as ex:
                out["dense_exc"] = type(ex).__name__
            try:
                S = tgen.mk_sptensor(ttb, np, a["shape"], a["subs"], a["vals"])
                out["sparse"] = tgen.obs_sparse(np, S.reshape(tuple(a["new"]), np.array(a["old"], dtype=int)))
            except Exception as ex:
                out["sparse_exc"] = type(ex).__name__
            return out
        if c.op in ("reshape_full", "squeeze_full"):
            H = _mk_holder(ttb, np, a)
            o = {}
            if a.get("normalize") is not None:
                H.normalize(weight_factor=a["normalize"])
                o["pre"] = _obs_k(np, H)
            R = H.full().reshape(tuple(a["new"])) if c.op == "reshape_full" else H.full().squeeze()
            o.update({"ok": _obs_d(np, R)} if isinstance(R, ttb.tensor) else {"scalar": tgen.exact(R)})
            return o
        if c.op == "chain":
            return _run_chain(ttb, np, a)
    except Exception as ex:
        return {"exc": type(ex).__name__, "msg": str(ex)[:200]}
    raise ValueError(c.op)


# ---------------------------------------------------------------------------------------- model side
def _gk(K):
    return tgen.gktensor(K["weights"], K["factors"])


def _gmat_list(fs):
    return "[" + "; ".join(tgen.gmatrix(f) for f in fs) + "]"


def _gk_shaped(K, shape):
    """rank-0 factor matrices have rows of length 0: write them as d empty rows"""
    fs = [f if f else [[] for _ in range(d)] for f, d in zip(K["factors"], shape)]
    return tgen.gktensor(K["weights"], fs)


def _gmatrix(m):
    if not m:
        return "(@nil (list Z))"
    return "[" + "; ".join(tgen.gzlist(r) for r in m) + "]"


def _d_ok(ob):
    """a dense observation is usable: integer values, .shape attribute = data.shape, Fortran-ordered storage"""
    return tgen.all_int(ob["data"]) and ob.get("tshape", ob["shape"]) == ob["shape"] and ob.get("fcontig", True)


def _k_int(ob):
    return tgen.all_int(ob["weights"]) and all(tgen.all_int(r) for f in ob["factors"] for r in f)


def _lit(kind, ob):
    """Gallina literal of an observed object (None when it is not representable: non-integers, nnz mismatch, ...)"""
    if kind == "d":
        return tgen.gdense(ob["shape"], ob["data"]) if _d_ok(ob) else None
    if kind == "sp":
        if not tgen.all_int(ob["vals"]) or ob["nnz"] != len(ob["subs"]):
            return None
        return tgen.gsparse(ob["shape"], ob["subs"], ob["vals"])
    if kind == "k":
        return _gk_shaped(ob, [len(f) for f in ob["factors"]]) if _k_int(ob) else None
    if kind == "t":
        if not _d_ok(ob["core"]) or not all(tgen.all_int(r) for f in ob["factors"] for r in f):
            return None
        return f"(mkT {tgen.gdense(ob['core']['shape'], ob['core']['data'])} {_gmat_list(ob['factors'])})"
    if kind == "st":
        oc = ob["core"]
        if not tgen.all_int(oc["vals"]) or oc["nnz"] != len(oc["subs"]) or not all(tgen.all_int(r) for f in ob["factors"] for r in f):
            return None
        return f"(mkST {tgen.gsparse(oc['shape'], oc['subs'], oc['vals'])} {_gmat_list(ob['factors'])})"
    return None


def _chain_input(a):
    h = a["holder"]
    if h == "d":
        return tgen.gdense(a["shape"], a["data"])
    if h == "sp":
        return tgen.gsparse(a["shape"], *_eff_sparse(a))
    H = a["H"]
    if h == "k":
        return _gk_shaped(H, a["shape"])
    if h == "t":
        return f"(mkT {tgen.gdense(H['cshape'], H['core'])} {_gmat_list(H['factors'])})"
    return f"(mkST {tgen.gsparse(H['cshape'], H['csubs'], H['cvals'])} {_gmat_list(H['factors'])})"


_PERM = {"d": "permute_d 0%Z", "sp": "permute_sp", "k": "permute_k", "t": "permute_t 0%Z", "st": "permute_st"}
_CMP = {"d": "od_ok", "sp": "os_ok", "k": "ok_ok", "t": "ot_ok", "st": "ost_ok"}


def _step_check(kind, cur, st, res):
    """model of one step applied to the literal [cur] against the observation [res] of pyttb's result"""
    if st[0] == "squeeze":
        f, cmp_ = ("squeeze_d 0%Z", "sqd_ok") if kind == "d" else ("squeeze_sp 0%Z", "sqs_ok")
        if res["kind"] == "scalar":
            return f"{cmp_} ({f} {cur}) (SqScalar {gz(res['ob'])})" if isinstance(res["ob"], int) else "false"
        lit = _lit(kind, res["ob"]) if res["kind"] == kind else None
        return f"{cmp_} ({f} {cur}) (SqT {lit})" if lit else "false"
    if st[0] == "permute":
        m = f"({_PERM[kind]} {cur} {gnlist(st[1])})"
    elif st[0] == "reshape":
        m = f"(reshape_d 0%Z {cur} {gnlist(st[1])})" if kind == "d" else f"(reshape_sp_all {cur} {gnlist(st[1])})"
    else:
        m = f"(reshape_sp {cur} {gnlist(st[1])} {gnlist(st[2])})"
    lit = _lit(kind, res["ob"]) if res["kind"] == kind else None
    return f"{_CMP[kind]} {m} (Some {lit})" if lit else "false"


def _chain_check(a, o):
    if "exc" in o or len(o["steps"]) == 0:
        return "false"                     # every generated chain is admissible
    kind = a["holder"]
    T0 = _chain_input(a)
    parts = []
    cur = T0
    for st, res in zip(a["steps"], o["steps"]):
        parts.append(_step_check(kind, cur, st, res))
        if res["kind"] == "scalar":
            break
        cur = _lit(kind, res["ob"]) if res["kind"] == kind else None
        if cur is None:
            return "false"
    if len(o["steps"]) < len(a["steps"]) and o["steps"][-1]["kind"] != "scalar":
        return "false"
    parts.append(_step_check(kind, T0, a["steps"][0], o["again"]) if o["again"]["kind"] != "exc" else "false")
    last = o["steps"][-1]
    if a.get("law") == "pp":               # permute p ; permute q  =  permute (p[q])
        p, q = a["steps"][0][1], a["steps"][1][1]
        lit = _lit(kind, last["ob"]) if last["kind"] == kind else None
        parts.append(f"{_CMP[kind]} ({_PERM[kind]} {T0} (pick 0 {gnlist(q)} {gnlist(p)})) (Some {lit})" if lit else "false")
    elif a.get("law") == "rs":             # reshape s ; squeeze  =  reshape to the non-singleton sizes of s
        tgt = nonones(a["steps"][0][1])
        if tgt:
            parts.append(_step_check(kind, T0, ["reshape", tgt], last))
        else:
            parts.append(_step_check(kind, T0, ["squeeze"], last))
    if kind in ("d", "sp") and all(st[0] in ("permute", "reshape", "squeeze") for st in a["steps"]):
        sl = "[" + "; ".join(f"StPermute {gnlist(st[1])}" if st[0] == "permute" else f"StReshape {gnlist(st[1])}" if st[0] == "reshape"
                             else "StSqueeze" for st in a["steps"]) + "]"
        run, cmp_ = ("run_d 0%Z", "sqd_ok") if kind == "d" else ("run_sp 0%Z", "sqs_ok")
        if last["kind"] == "scalar":
            fin = f"(SqScalar {gz(last['ob'])})" if isinstance(last["ob"], int) else None
        else:
            lit = _lit(kind, last["ob"]) if last["kind"] == kind else None
            fin = f"(SqT {lit})" if lit else None
        parts.append(f"match {run} {T0} {sl} with Some r => {cmp_} r {fin} | None => false end" if fin else "false")
    if "false" in parts:
        return "false"
    e = parts[-1]
    for x in reversed(parts[:-1]):
        e = f"andb ({x}) ({e})"
    return e


def _gzl(v):
    return "[" + "; ".join(gz(x) for x in v) + "]" if v else "(@nil Z)"


def _perm_call(fn, a, req5=None):
    """model call of a permute: the order as a nat list, or — when the request is written in a specific form or has a negative
    entry — through the request level of Model/C07Req.v (generated parse_one_d; negative entries); dense and Kruskal holders
    through the fifth-wave request models of Model/C07W5.v (req5: what they do with a boolean order)"""
    if a.get("pform") and req5:
        return f"({req5} {_gshp(a['p'], a['pform'])})"
    if a.get("pform"):
        return f"(with_order ({fn}) {_gshp(a['p'], a['pform'])})"
    if any(x < 0 for x in a["p"]):
        return f"(with_order_z ({fn}) {_gzl(a['p'])})"
    return f"({fn} {gnlist(a['p'])})"


def _shape_call(fn, a):
    if "newz" in a:
        return f"(with_order_z ({fn}) {_gzl(a['newz'])})"
    if a.get("sform"):
        return f"(with_shape ({fn}) {_gshp(a['new'], a['sform'])})"
    return f"({fn} {gnlist(a['new'])})"


def coq_check(c, o):
    a = c.args
    exc = "exc" in o
    if o.get("skip"):
        return None
    if o.get("input_changed"):
        return "false"
    if c.op == "chain":
        return _chain_check(a, o)
    if c.op == "permute_d":
        T = tgen.gdense(a["shape"], a["data"])
        if not exc and not _d_ok(o["ok"]):
            return "false"
        obs = "None" if exc else f"(Some {tgen.gdense(o['ok']['shape'], o['ok']['data'])})"
        return f"od_ok {_perm_call(f'permute_d 0%Z {T}', a, f'permute_d_req5 0%Z {T}')} {obs}"
    if c.op == "reshape_d":
        T = tgen.gdense(a["shape"], a["data"])
        if not exc and not _d_ok(o["ok"]):
            return "false"
        obs = "None" if exc else f"(Some {tgen.gdense(o['ok']['shape'], o['ok']['data'])})"
        return f"od_ok {_shape_call(f'reshape_d 0%Z {T}', a)} {obs}"
    if c.op in ("permute_sp", "reshape_sp"):
        S = tgen.gsparse(a["shape"], *_eff_sparse(a, o))
        if not exc:
            ob = o["ok"]
            if not tgen.all_int(ob["vals"]) or ob["nnz"] != len(ob["subs"]) or any(d < 0 for d in ob["shape"]):
                return "false"
            obs = f"(Some {tgen.gsparse(ob['shape'], ob['subs'], ob['vals'])})"
        else:
            obs = "None"
        if c.op == "permute_sp":      # operation model and the return statements as written (Model/C07Impl.v)
            e = f"andb (os_ok {_perm_call(f'permute_sp {S}', a)} {obs}) (os_ok {_perm_call(f'permute_sp_impl {S}', a)} {obs})"
            es, ev = _eff_sparse(a, o)
            if a.get("pform") and ev:      # request -> GENERATED parse_one_d -> GENERATED sptensor.permute (Model/C07Gen4.v)
                Z = f"(mkspt {gzmat(es)} {gzlist(ev)} {gzlist(a['shape'])})"
                e = (f"andb ({e}) (match sptensor_permute_req {Z} {_gshp(a['p'], a['pform'])} with "
                     f"Ok t => os_ok (Some (to_Sp t)) {obs} | Err => os_ok None {obs} end)")
            return e
        # the request as sptensor.reshape reads it after /repo b27c529 (Model/C07W5.v reshape_sp_code: mode-number test,
        # size-sign test, size check, empty branch, the GENERATED tt_sub2ind / tt_ind2sub through Model/C07Gen.v)
        xs = _gshp(a["newz"], "tuple") if "newz" in a else _gshp(a["new"], a.get("sform") or "tuple")
        om = f"(Some {_gzl(a['oldz'])})" if "oldz" in a else "None" if a["old"] is None else f"(Some {_gzl(a['old'])})"
        code = f"os_ok (res_opt (reshape_sp_code {S} {xs} {om})) {obs}"
        # request -> GENERATED parse_shape -> GENERATED sptensor.reshape (Gen/GenSptensor4d.v; Model/C07Gen4.v sptensor_reshape_req)
        es, ev = _eff_sparse(a, o)
        Zs = f"(mkspt {gzmat(es)} {gzlist(ev)} {gzlist(a['shape'])})"
        code = (f"andb ({code}) (match sptensor_reshape_req {Zs} {xs} {om} with "
                f"Ok t => os_ok (Some (to_Sp t)) {obs} | Err => os_ok None {obs} end)")
        if "oldz" in a:            # mode numbers as written (negative / out of range: not modes of the tensor)
            return f"andb (os_ok (reshape_sp_req {S} {xs} {_gzl(a['oldz'])}) {obs}) ({code})"
        if "newz" in a or a.get("sform"):
            return f"andb (os_ok {_shape_call(f'reshape_sp_all {S}', a)} {obs}) ({code})"
        # hand model against pyttb
        if a["old"] is None:
            return f"andb (os_ok (reshape_sp_all {S} {gnlist(a['new'])}) {obs}) ({code})"
        return f"andb (os_ok (reshape_sp {S} {gnlist(a['new'])} {gnlist(a['old'])}) {obs}) ({code})"
    if c.op == "permute_k":
        Kin = o.get("pre", a["K"])
        if not _k_int(Kin):
            return "false"      # normalize(weight_factor) of single-entry columns stays inside the integers
        K = _gk_shaped(Kin, a["shape"])
        if exc:
            kobs = "None"
        else:
            ob = o["ok"]
            if not tgen.all_int(ob["weights"]) or not all(tgen.all_int(r) for f in ob["factors"] for r in f):
                return "false"
            kobs = f"(Some {_gk_shaped(ob, [len(f) for f in ob['factors']])})"
        e = f"ok_ok {_perm_call(f'permute_k {K}', a, f'permute_k_req5 {K}')} {kobs}"
        if a.get("pform") and Kin["weights"]:     # request -> GENERATED parse_one_d -> GENERATED ktensor.permute (Model/C07Gen4.v)
            Z = f"(mkkt {gzlist(Kin['weights'])} [{'; '.join(gzmat(f) for f in Kin['factors'])}])"
            e = (f"andb ({e}) (match ktensor_permute_req {Z} {_gshp(a['p'], a['pform'])} with "
                 f"Ok k => ok_ok (Some (to_K k)) {kobs} | Err => ok_ok None {kobs} end)")
        return e
    if c.op == "permute_t":
        T = a["T"]
        G = f"(mkT {tgen.gdense(T['cshape'], T['core'])} {_gmat_list(T['factors'])})"
        if exc:
            return f"ot_ok {_perm_call(f'permute_t 0%Z {G}', a)} None"
        ob = o["ok"]
        if not _d_ok(ob["core"]) or not all(tgen.all_int(r) for f in ob["factors"] for r in f):
            return "false"
        O = f"(mkT {tgen.gdense(ob['core']['shape'], ob['core']['data'])} {_gmat_list(ob['factors'])})"
        return f"ot_ok {_perm_call(f'permute_t 0%Z {G}', a)} (Some {O})"
    if c.op == "permute_st":
        T = a["T"]
        G = f"(mkST {tgen.gsparse(T['cshape'], T['csubs'], T['cvals'])} {_gmat_list(T['factors'])})"
        if exc:
            return f"ost_ok {_perm_call(f'permute_st {G}', a)} None" if o["exc"] != "CoreNotSparse" else "false"
        ob = o["ok"]
        oc = ob["core"]
        if not tgen.all_int(oc["vals"]) or oc["nnz"] != len(oc["subs"]) or not all(tgen.all_int(r) for f in ob["factors"] for r in f):
            return "false"
        O = f"(mkST {tgen.gsparse(oc['shape'], oc['subs'], oc['vals'])} {_gmat_list(ob['factors'])})"
        return f"ost_ok {_perm_call(f'permute_st {G}', a)} (Some {O})"
    if c.op == "reshape_sp_rt":
        S = tgen.gsparse(a["shape"], *_eff_sparse(a, o))
        if exc:
            return "false"            # generated requests are admissible: the round trip must not raise
        ob = o["ok"]
        if not tgen.all_int(ob["vals"]) or ob["nnz"] != len(ob["subs"]):
            return "false"
        return (f"rt_ok {S} (reshape_sp_rt {S} {gnlist(a['new'])} {gnlist(a['old'])}) "
                f"(Some {tgen.gsparse(ob['shape'], ob['subs'], ob['vals'])})")
    if c.op == "reshape_agree":
        if "dense" not in o or "sparse" not in o:
            return "false"
        od, os_ = o["dense"], o["sparse"]
        if not _d_ok(od) or not tgen.all_int(os_["vals"]) or os_["nnz"] != len(os_["subs"]):
            return "false"
        T = tgen.gdense(a["shape"], a["data"])
        S = tgen.gsparse(a["shape"], a["subs"], a["vals"])
        return (f"agree_ok (reshape_d_route {T} {gnlist(a['new'])} {gnlist(a['old'])}) (Some {tgen.gdense(od['shape'], od['data'])}) "
                f"(reshape_sp {S} {gnlist(a['new'])} {gnlist(a['old'])}) (Some {tgen.gsparse(os_['shape'], os_['subs'], os_['vals'])})")
    if c.op in ("reshape_full", "squeeze_full"):
        H = o.get("pre", a["H"]) if a["holder"] == "k" else a["H"]
        if a["holder"] == "k" and not _k_int(H):
            return "false"
        if a["holder"] == "k":
            F = f"(zfull_k {_gk_shaped(H, a['shape'])})"
        elif a["holder"] == "t":
            F = f"(zfull_t (mkT {tgen.gdense(H['cshape'], H['core'])} {_gmat_list(H['factors'])}))"
        else:
            F = f"(zfull_st (mkST {tgen.gsparse(H['cshape'], H['csubs'], H['cvals'])} {_gmat_list(H['factors'])}))"
        if exc:
            return "false"
        if c.op == "reshape_full":
            if not _d_ok(o["ok"]):
                return "false"
            return f"od_ok (reshape_d 0%Z {F} {gnlist(a['new'])}) (Some {tgen.gdense(o['ok']['shape'], o['ok']['data'])})"
        if "scalar" in o:
            return f"sqd_ok (squeeze_d 0%Z {F}) (SqScalar {gz(o['scalar'])})" if isinstance(o["scalar"], int) else "false"
        if not _d_ok(o["ok"]):
            return "false"
        return f"sqd_ok (squeeze_d 0%Z {F}) (SqT {tgen.gdense(o['ok']['shape'], o['ok']['data'])})"
    if c.op == "squeeze_d":
        T = tgen.gdense(a["shape"], a["data"])
        if exc:
            return "false"
        if "scalar" in o:
            return f"sqd_ok (squeeze_d 0%Z {T}) (SqScalar {gz(o['scalar'])})" if isinstance(o["scalar"], int) else "false"
        if not _d_ok(o["ok"]):
            return "false"
        return f"sqd_ok (squeeze_d 0%Z {T}) (SqT {tgen.gdense(o['ok']['shape'], o['ok']['data'])})"
    if c.op == "squeeze_sp":
        S = tgen.gsparse(a["shape"], *_eff_sparse(a, o))
        if exc:
            return "false"
        if "scalar" in o:
            if not isinstance(o["scalar"], int):
                return "false"
            fin = f"(SqScalar {gz(o['scalar'])})"
        else:
            ob = o["ok"]
            if not tgen.all_int(ob["vals"]) or ob["nnz"] != len(ob["subs"]):
                return "false"
            fin = f"(SqT {tgen.gsparse(ob['shape'], ob['subs'], ob['vals'])})"
        es, ev = _eff_sparse(a, o)
        Zs = f"(mkspt {gzmat(es)} {gzlist(ev)} {gzlist(a['shape'])})"
        gen = f"(match sptensor_squeeze_res {Zs} with Some r => sqs_ok r {fin} | None => false end)"
        ne = f"(match squeeze_sp_impl_ne 0%Z {S} with Some r => sqs_ok r {fin} | None => false end)"
        if 0 in a["shape"]:
            # a holder with a size-0 mode (out of tensor.to_sptensor()): ONE accepted behaviour — the size-0 modes are kept, like
            # tensor.squeeze — through the demanded-behaviour model (Model/C07W5.v squeeze_sp_any), the return statements with the
            # repaired test `shape != 1` (Model/C07Gen4.v squeeze_sp_impl_ne), the GENERATED sptensor.squeeze of this run and the
            # probe of the regenerated text (sq_text_keeps_zero: C07_squeeze_sparse_zero_mode_generated then speaks about
            # squeeze_sp_any).  A tree that still tests `shape > 1` fails all of them: N-C07-7 (attributed while the finding is open)
            return f"andb (andb (andb (sqs_ok (squeeze_sp_any 0%Z {S}) {fin}) {ne}) {gen}) sq_text_keeps_zero"
        # demanded behaviour on every shape, operation model, sptensor.squeeze's return statements with either singleton test
        # (Model/C07Impl.v `> 1`, Model/C07Gen4.v `!= 1`: the same on positive sizes) and the GENERATED whole method
        # (Gen/GenSptensor4b.v through Model/C07Gen4.v sptensor_squeeze_res)
        return (f"andb (andb (andb (andb (sqs_ok (squeeze_sp_any 0%Z {S}) {fin}) (sqs_ok (squeeze_sp 0%Z {S}) {fin})) "
                f"(match squeeze_sp_impl 0%Z {S} with Some r => sqs_ok r {fin} | None => false end)) {ne}) {gen}")
    raise ValueError(c.op)


# ---------------------------------------------------------------------------------------- brute-force oracle
def _lin(shape, sub):
    k, mul = 0, 1
    for x, d in zip(sub, shape):
        k += x * mul
        mul *= d
    return k


def _unlin(shape, k):
    out = []
    for d in shape:
        out.append(k % d)
        k //= d
    return out


def _sp_dict(ob, zeros_ok=False):
    """stored entries as a dict; None when a subscript is stored twice, lies outside the shape, or (unless the operand
    itself was handed explicit zeros) a zero is stored"""
    d = {}
    for s, v in zip(ob["subs"], ob["vals"]):
        if tuple(s) in d or len(s) != len(ob["shape"]) or any(not 0 <= x < m for x, m in zip(s, ob["shape"])):
            return None
        if v == 0 and not zeros_ok:
            return None
        d[tuple(s)] = v
    return d


def _din(a, o=None):
    subs, vals = _eff_sparse(a, o)
    return {tuple(s): v for s, v in zip(subs, vals)}


def _dense_obs_defect(ob):
    if ob.get("tshape", ob["shape"]) != ob["shape"]:
        return f".shape attribute {ob['tshape']} differs from .data.shape {ob['shape']}"
    if ob.get("fcontig") is False:
        return "the result's .data is not Fortran-ordered"
    return None


# ---- independent evaluation of multi-step histories on index -> value tables
def _table(kind, ob, zeros_ok=False):
    """(shape, {index tuple: value}) of an observed / given object, None if ill-formed"""
    if kind == "d":
        if len(ob["data"]) != math.prod(ob["shape"]):
            return None
        return ob["shape"], {tuple(i): ob["data"][_lin(ob["shape"], i)] for i in tgen.all_subs(ob["shape"])}
    if kind == "sp":
        d = _sp_dict(ob, zeros_ok)
        if d is None:
            return None
        return ob["shape"], {tuple(i): d.get(tuple(i), 0) for i in tgen.all_subs(ob["shape"])}
    shp = [len(f) for f in ob["factors"]]
    if kind == "k":
        return shp, {tuple(i): _den_k(ob, i) for i in tgen.all_subs(shp)}
    if kind == "t":
        c = ob["core"]
        return shp, {tuple(i): _den_t(c["shape"], c["data"], ob["factors"], i) for i in tgen.all_subs(shp)}
    c = ob["core"]
    cd = _sp_dict(c, zeros_ok)
    if cd is None:
        return None
    return shp, {tuple(i): _den_st(c["shape"], cd, ob["factors"], i) for i in tgen.all_subs(shp)}


def _table_step(shape, tab, st, kind="sp"):
    N = len(shape)
    if st[0] == "permute":
        p = st[1]
        nshape = [shape[k] for k in p]
        return nshape, {tuple(i[k] for k in p): v for i, v in tab.items()}
    if st[0] == "reshape":
        return list(st[1]), {tuple(_unlin(st[1], _lin(shape, i))): v for i, v in tab.items()}
    if st[0] == "reshape_sub":
        new, old = st[1], st[2]
        keep = [k for k in range(N) if k not in old]
        oshape = [shape[k] for k in old]
        return ([shape[k] for k in keep] + list(new),
                {tuple([i[k] for k in keep] + _unlin(new, _lin(oshape, [i[k] for k in old]))): v for i, v in tab.items()})
    keepi = [k for k, d in enumerate(shape) if d != 1]
    return [shape[k] for k in keepi], {tuple(i[k] for k in keepi): v for i, v in tab.items()}


def _chain_oracle(a, o):
    if "exc" in o:
        return f"step {o.get('at')} of an admissible history raised {o['exc']}: {o.get('msg')}"
    kind = a["holder"]
    zeros_ok = kind == "sp" and 0 in a["vals"]
    if kind == "d":
        cur = _table("d", {"shape": a["shape"], "data": a["data"]})
    elif kind == "sp":
        subs, vals = _eff_sparse(a)
        cur = _table("sp", {"shape": a["shape"], "subs": subs, "vals": vals}, True)
        nnz0 = len(vals)
    elif kind == "k":
        cur = _table("k", a["H"])
    elif kind == "t":
        H = a["H"]
        cur = _table("t", {"core": {"shape": H["cshape"], "data": H["core"]}, "factors": H["factors"]})
    else:
        H = a["H"]
        cur = _table("st", {"core": {"shape": H["cshape"], "subs": H["csubs"], "vals": H["cvals"]}, "factors": H["factors"]}, True)
    first = None
    for k, (st, res) in enumerate(zip(a["steps"], o["steps"])):
        shape, tab = _table_step(cur[0], cur[1], st, kind)
        if first is None:
            first = (shape, tab)
        if not shape:
            if res["kind"] != "scalar" or res["ob"] != tab[()]:
                return f"step {k} ({st[0]}): scalar result differs from the single entry"
            return _again_oracle(a, o, first, zeros_ok)
        if res["kind"] != kind:
            return f"step {k} ({st[0]}): result is a {res['kind']}, expected the holder kind {kind}"
        for dob in ([res["ob"]] if kind == "d" else [res["ob"]["core"]] if kind == "t" else []):
            bad = _dense_obs_defect(dob)
            if bad:
                return f"step {k} ({st[0]}): {bad}"
        got = _table(kind, res["ob"], zeros_ok)
        if got is None:
            return f"step {k} ({st[0]}): result ill-formed"
        if kind == "sp" and res["ob"]["nnz"] != nnz0:
            return f"step {k} ({st[0]}): number of stored entries changed"
        if list(got[0]) != list(shape) or got[1] != tab:
            return f"step {k} ({st[0]}): an entry is not at the position given by the index formula (or the shape is wrong)"
        cur = (shape, tab)
    if len(o["steps"]) < len(a["steps"]):
        return "history stopped early"
    return _again_oracle(a, o, first, zeros_ok)


def _again_oracle(a, o, first, zeros_ok):
    ag = o.get("again")
    if ag is None or ag["kind"] == "exc":
        return "the second call of the first step on the same object raised"
    if not first[0]:
        return None if ag["kind"] == "scalar" and ag["ob"] == first[1][()] else "second call on the same object differs"
    if ag["kind"] != a["holder"]:
        return "second call on the same object returns another kind of object"
    got = _table(ag["kind"], ag["ob"], zeros_ok)
    if got is None or list(got[0]) != list(first[0]) or got[1] != first[1]:
        return "the second call of the same operation on the same object gives a different tensor"
    return None


def _den_k(K, i):
    tot = 0
    for r, w in enumerate(K["weights"]):
        t = w
        for f, x in zip(K["factors"], i):
            t *= f[x][r]
        tot += t
    return tot


def _den_t(cshape, core, factors, i):
    tot = 0
    for j in tgen.all_subs(cshape):
        t = core[_lin(cshape, j)]
        for f, x, y in zip(factors, i, j):
            t *= f[x][y]
        tot += t
    return tot


def _den_st(cshape, cdict, factors, i):
    tot = 0
    for j, v in cdict.items():
        t = v
        for f, x, y in zip(factors, i, j):
            t *= f[x][y]
        tot += t
    return tot


def _holder_den(a, i):
    H = a["H"]
    if a["holder"] == "k":
        return _den_k(H, i)
    if a["holder"] == "t":
        return _den_t(H["cshape"], H["core"], H["factors"], i)
    return _den_st(H["cshape"], {tuple(s): v for s, v in zip(H["csubs"], H["cvals"])}, H["factors"], i)


def _valid_perm(p, N):
    return sorted(p) == list(range(N))


def oracle(c, o):
    a = c.args
    shp = a["shape"]
    N = len(shp)
    if o.get("input_changed"):
        return "the argument was modified by the call"
    if c.op == "chain":
        return _chain_oracle(a, o)
    if (a.get("pform") in ORDER_FORMS_BAD or a.get("sform") in ORDER_FORMS_BAD) and "exc" in o:
        return None            # a float / matrix / nested list is not an order or a shape: refusing it is fine
    if "newz" in a and any(x < 0 for x in a["newz"]):
        return None if "exc" in o else f"negative sizes {a['newz']} accepted: result shape {o.get('ok', {}).get('shape')}"
    if c.op in ("reshape_d", "reshape_sp") and not a["new"] and "exc" in o:
        return None            # a target without modes refused
    if "oldz" in a and "exc" in o and any(not 0 <= x < N for x in a["oldz"]):
        return None            # a mode number outside 0..N-1 refused
    zeros_ok = 0 in a.get("vals", [])
    for dob in [o.get("ok"), o.get("dense"), (o.get("ok") or {}).get("core") if isinstance(o.get("ok"), dict) else None]:
        if isinstance(dob, dict) and "data" in dob and "shape" in dob:
            bad = _dense_obs_defect(dob)
            if bad:
                return bad
    if "pre" in o:             # the holder as pyttb held it right before the call under test (after normalize)
        a = dict(a)
        if c.op == "permute_k":
            a["K"] = o["pre"]
        else:
            a["H"] = o["pre"]
    if c.op.startswith("permute") and a.get("pform") in BOOL_FORMS:
        # a vector of truth values is not a mode order: refusing it is fine; an answer must be the permutation by the
        # numbers 1 / 0 (ktensor.permute), or the tensor itself for [True] on a one-mode dense tensor (A-28 residue, C19)
        if "exc" in o:
            return None
        if not _valid_perm(a["p"], N) and not (c.op == "permute_d" and N == 1 and a["p"] == [1] and o["ok"]["data"] == a["data"]):
            return f"boolean order {a['p']} accepted"
        if not _valid_perm(a["p"], N):
            return None
    if c.op.startswith("permute"):
        p = a["p"]
        if not _valid_perm(p, N):
            return None if "exc" in o else f"invalid order {p} accepted"
        if "exc" in o:
            return f"valid order {p} rejected: {o['exc']} {o.get('msg')}"
        nshape = [shp[k] for k in p]

        def src(i):           # i indexes the result; result[i] = X[j] with j[p[k]] = i[k]
            j = [0] * N
            for k in range(N):
                j[p[k]] = i[k]
            return j
        ob = o["ok"]
        if c.op == "permute_d":
            if ob["shape"] != nshape:
                return f"shape {ob['shape']} != {nshape}"
            for i in tgen.all_subs(nshape):
                if ob["data"][_lin(nshape, i)] != a["data"][_lin(shp, src(i))]:
                    return f"entry {i} of the result is not entry {src(i)} of the argument"
            return None
        if c.op == "permute_sp":
            d = _sp_dict(ob, zeros_ok)
            din = _din(a, o)
            if d is None or ob["shape"] != nshape or ob["nnz"] != len(din):
                return "result ill-formed / wrong shape / wrong nnz"
            for i in tgen.all_subs(nshape):
                if d.get(tuple(i), 0) != din.get(tuple(src(i)), 0):
                    return f"entry {i} of the result is not entry {src(i)} of the argument"
            return None
        if c.op == "permute_k":
            if [len(f) for f in ob["factors"]] != nshape:
                return "wrong shape"
            for i in tgen.all_subs(nshape):
                if _den_k(ob, i) != _den_k(a["K"], src(i)):
                    return f"entry {i} of the result is not entry {src(i)} of the argument"
            return None
        if c.op == "permute_st":
            if [len(f) for f in ob["factors"]] != nshape:
                return "wrong shape"
            T = a["T"]
            din = {tuple(s): v for s, v in zip(T["csubs"], T["cvals"])}
            d = _sp_dict(ob["core"])
            if d is None or ob["core"]["nnz"] != len(din) or ob["core"]["shape"] != [T["cshape"][k] for k in p]:
                return "core ill-formed / wrong core shape / wrong nnz"
            for i in tgen.all_subs(nshape):
                if _den_st(ob["core"]["shape"], d, ob["factors"], i) != _den_st(T["cshape"], din, T["factors"], src(i)):
                    return f"entry {i} of the result is not entry {src(i)} of the argument"
            return None
        if c.op == "permute_t":
            if [len(f) for f in ob["factors"]] != nshape:
                return "wrong shape"
            T = a["T"]
            for i in tgen.all_subs(nshape):
                if _den_t(ob["core"]["shape"], ob["core"]["data"], ob["factors"], i) != _den_t(T["cshape"], T["core"], T["factors"], src(i)):
                    return f"entry {i} of the result is not entry {src(i)} of the argument"
            return None
    if c.op == "reshape_d":
        if math.prod(a["new"]) != math.prod(shp):
            return None if "exc" in o else "element count changed but request accepted"
        if "exc" in o:
            return f"admissible reshape rejected: {o['exc']} {o.get('msg')}"
        if o["ok"]["shape"] != a["new"] or o["ok"]["data"] != a["data"]:
            return "F-order value list or shape differs"
        return None
    if c.op == "reshape_sp":
        old = a["old"] if a["old"] is not None else list(range(N))
        keep = [k for k in range(N) if k not in old]
        oshape = [shp[k] for k in old]
        if math.prod(a["new"]) != math.prod(oshape):
            return None if "exc" in o else "element count changed but request accepted"
        if "exc" in o:
            return f"admissible reshape rejected: {o['exc']} {o.get('msg')}"
        ob = o["ok"]
        nshape = [shp[k] for k in keep] + a["new"]
        d = _sp_dict(ob, zeros_ok)
        din = _din(a, o)
        if d is None or ob["shape"] != nshape or ob["nnz"] != len(din):
            return "result ill-formed / wrong shape / wrong nnz"
        want = {}
        for s, v in din.items():
            t = [s[k] for k in keep] + _unlin(a["new"], _lin(oshape, [s[k] for k in old]))
            want[tuple(t)] = v
        return None if want == d else "an entry did not move to kept ++ ind2sub(new, sub2ind(old))"
    if c.op == "reshape_sp_rt":
        if "exc" in o:
            return f"round trip of an admissible subset reshape raised: {o['exc']} {o.get('msg')}"
        d = _sp_dict(o["ok"], zeros_ok)
        din = _din(a, o)
        if d is None or o["ok"]["shape"] != shp or d != din:
            return "reshape ; reshape back ; restore mode order did not return the original tensor"
        return None
    if c.op == "reshape_agree":
        old = a["old"]
        keep = [k for k in range(N) if k not in old]
        oshape = [shp[k] for k in old]
        nshape = [shp[k] for k in keep] + a["new"]
        want = [0] * math.prod(nshape)
        for s in tgen.all_subs(shp):
            t_ = [s[k] for k in keep] + _unlin(a["new"], _lin(oshape, [s[k] for k in old]))
            want[_lin(nshape, t_)] = a["data"][_lin(shp, s)]
        if "dense" not in o or "sparse" not in o:
            return f"admissible request raised: {o.get('dense_exc')} / {o.get('sparse_exc')}"
        d = _sp_dict(o["sparse"])
        if d is None or o["sparse"]["shape"] != nshape:
            return "sparse result ill-formed / wrong shape"
        got = [d.get(tuple(i), 0) for i in tgen.all_subs(nshape)]
        if got != want:
            return "sparse subset reshape: an entry did not move to kept ++ ind2sub(new, sub2ind(old))"
        if o["dense"]["shape"] != nshape or o["dense"]["data"] != want:
            return "dense route permute(keep ++ old).reshape(kept ++ new) differs from the index formula"
        return None
    if c.op == "reshape_full":
        if "exc" in o:
            return f"reshape of full() raised {o['exc']}: {o.get('msg')}"
        want = [_holder_den(a, i) for i in tgen.all_subs(shp)]
        if o["ok"]["shape"] != a["new"] or o["ok"]["data"] != want:
            return "reshape of full(): F-order value list or shape differs from the holder's entries"
        return None
    if c.op == "squeeze_full":
        if "exc" in o:
            return f"squeeze of full() raised {o['exc']}: {o.get('msg')}"
        want = [_holder_den(a, i) for i in tgen.all_subs(shp)]
        nshape = [d for d in shp if d > 1]
        if not nshape:
            return None if o.get("scalar") == want[0] else "scalar result differs from the single entry"
        if "ok" not in o or o["ok"]["shape"] != nshape or o["ok"]["data"] != want:
            return "squeeze of full() differs from the holder's entries"
        return None
    if c.op in ("squeeze_d", "squeeze_sp"):
        if "exc" in o:
            return f"squeeze raised {o['exc']}: {o.get('msg')}"
        keepi = [k for k, d in enumerate(shp) if d != 1]   # a size-0 mode is no singleton: it is kept (dense and sparse)
        nshape = [shp[k] for k in keepi]
        if c.op == "squeeze_d":
            if not keepi:
                return None if o.get("scalar") == a["data"][0] else "scalar result differs from the single entry"
            if "ok" not in o or o["ok"]["shape"] != nshape or o["ok"]["data"] != a["data"]:
                return "squeezed tensor differs"
            return None
        din = _din(a, o)
        if not keepi:
            want = din.get(tuple([0] * N), 0)
            return None if o.get("scalar") == want else "scalar result differs from the single entry"
        if "ok" not in o:
            return "tensor expected"
        d = _sp_dict(o["ok"], zeros_ok)
        want = {tuple(s[k] for k in keepi): v for s, v in din.items()}
        if d is None or o["ok"]["shape"] != nshape or d != want:
            return "squeezed sparse tensor differs"
        return None
    return None


# ---------------------------------------------------------------------------------------- known findings
# N-C07-7 (found in wave 5; trigger and witness exist only while findings.d/C07.jsonl lists it as open — N7_OPEN above — and vanish
# with the flip: fixes/C07-N-C07-7.diff, /tmp/fixwt f390850) sptensor.squeeze with a size-0 mode — the sparse sibling of the repaired N-C07-6: the tests
# `shape > 1` treat a size-0 mode like a singleton, so T(2,0,1).to_sptensor().squeeze() has shape (2,) (2 cells out of 0) and
# shape (1,0) / (0,) answer with the scalar 0.0; tensor.squeeze answers (2,0) / (0,).  Trigger = exactly squeeze_sp on a shape
# with a 0.  Proposed fixes/C07-N-C07-7.diff.
# REPAIRED in /repo: N-C07-1 (50c170a), N-C07-2 (5dc7c44), N-C07-3 / N-C07-4 (b27c529), N-C07-5 (9c8fdd5), N-C07-6 (649a706): model,
# comparer and oracle accept only the repaired behaviour, the witness inputs are ordinary regression cases at the head of gen_w5
# and their input classes are ordinary stream classes (no trigger, no attribution): a regression is reported as a VIOLATION.
def _trig_sq_sp_zero(c):
    return c.op == "squeeze_sp" and 0 in c.args["shape"]


TRIGGERS = {"squeeze_sparse_zero_mode": _trig_sq_sp_zero} if N7_OPEN else {}


def _wit_sq_sp_zero():
    import numpy as np
    import pyttb as ttb
    S = ttb.tensor(np.zeros((2, 0, 1))).to_sptensor()
    try:
        R = S.squeeze()
    except Exception as ex:
        return f"tensor(np.zeros((2,0,1))).to_sptensor().squeeze() raised {type(ex).__name__}: {ex}"
    if isinstance(R, ttb.sptensor) and tuple(int(d) for d in R.shape) == (2, 0):
        return None
    return f"tensor(np.zeros((2,0,1))).to_sptensor().squeeze() returned {('shape ' + str(tuple(int(d) for d in R.shape))) if isinstance(R, ttb.sptensor) else repr(R)}, tensor.squeeze gives shape (2, 0)"


WITNESSES = {"N-C07-7": _wit_sq_sp_zero} if N7_OPEN else {}
