(* Model/C04AdvVal.v — C04, wave 4 (definitions, executable): dense region assignment of a VALUE ARRAY through a key with index
   lists (the A-16 key class and its neighbours) as pyttb performs it: tensor._set_subtensor grows the tensor from the key alone
   and then executes  self.data[key] = value , i.e. numpy advanced-index assignment: the selection is the zipped one
   (np_adv_positions, Model/C04Extra.v) of result shape os, and the value array is BROADCAST against os (numpy: surplus leading
   dimensions must be 1 and are dropped; missing leading dimensions are 1; every remaining dimension equals the target's or is 1).
   When the broadcast is impossible numpy raises AFTER pyttb has grown the tensor. *)
From Coq Require Import List Arith ZArith Bool.
From PV Require Import Base.Index Np.Array Model.Sparse Model.Harness Model.C04Model Model.C04Harness Model.C04Mat Model.C04Extra.
Import ListNotations.

Fixpoint forallb2 {A B} (f : A -> B -> bool) (l : list A) (r : list B) : bool :=
  match l, r with
  | [], [] => true
  | x :: l', y :: r' => f x y && forallb2 f l' r'
  | _, _ => false
  end.

(* the value's shape aligned with the target shape os (same length), or None when numpy cannot broadcast *)
Definition np_bcast_shape (vs os : shape) : option shape :=
  let extra := length vs - length os in
  if forallb (Nat.eqb 1) (firstn extra vs) then
    let v := repeat 1 (length os - length vs) ++ skipn extra vs in
    if forallb2 (fun dv d => Nat.eqb dv d || Nat.eqb dv 1) v os then Some v else None
  else None.

(* a target subscript read in the aligned value: dimensions of extent 1 are repeated *)
Fixpoint bcast_idx (v : shape) (j : idx) : idx :=
  match v, j with
  | dv :: v', x :: j' => (if Nat.eqb dv 1 then 0 else x) :: bcast_idx v' j'
  | _, _ => []
  end.

(* the value array (shape vs, F-order data) broadcast to os, in F order *)
Definition np_bcast {V} (v0 : V) (vs : shape) (data : list V) (os : shape) : option (list V) :=
  match np_bcast_shape vs os with
  | Some v => if Nat.eqb (length data) (size vs)
              then Some (map (fun k => nth (sub2ind v (bcast_idx v (ind2sub os k))) data v0) (seq 0 (size os)))
              else None
  | None => None
  end.

(* T[key] = value array: (tensor afterwards, did numpy raise?) *)
Definition np_adv_set_values {V} (v0 : V) (T : dense V) (es : list kelem) (vs : shape) (data : list V) : option (dense V * bool) :=
  if has_list es && region_ok (dshape T) es then
    let s' := grow (dshape T) (map elem_need es) in
    match np_adv_positions s' es with
    | Some (os, ps) =>
        if forallb (inb s') ps then
          match np_bcast v0 vs data os with
          | Some bv => Some (dense_assign v0 T s' (combine ps bv), false)
          | None => Some (dense_resize v0 T s', true)
          end
        else None
    | None => None end
  else None.

(* comparer: pyttb must show EITHER numpy's behaviour (known finding A-16 still there) OR what the property demands: the outer
   product with an exactly shaped value (kept shape of the region), every other value shape rejected *)
Definition check_np_adv_setv (T : dense Z) (es : list kelem) (vs : shape) (data : list Z) (T2 : dense Z) (raised : bool) : bool :=
  match np_adv_set_values 0%Z T es vs data with
  | Some (T1, r) => Bool.eqb r raised && dense_eqb T1 T2
  | None => false end
  ||
  match resolve_set (V:=Z) cartF (dshape T) (KRegion es) (RScalar 0%Z) with
  | Some (s', asg) =>
      match region_lists s' es with
      | Some ls =>
          if nvec_eqb vs (kept_shape ls) && Nat.eqb (length data) (length asg) then
            match zstep_dense T (OSet (KRegion es) (RValues data)) with
            | Some (T1, _) => negb raised && dense_eqb T1 T2
            | None => false end
          else raised && (dense_eqb T T2 || dense_eqb (dense_resize 0%Z T s') T2)
      | None => false end
  | None => false end.

(* is the case one where the two accepted behaviours differ? *)
Definition np_adv_setv_differs (T : dense Z) (es : list kelem) (vs : shape) (data : list Z) : bool :=
  match np_adv_set_values 0%Z T es vs data, zstep_dense T (OSet (KRegion es) (RValues data)) with
  | Some (T1, false), Some (T2, _) => negb (dense_eqb T1 T2)
  | Some (_, true), None => false
  | _, _ => true end.

(* numpy:  a = np.arange(6.).reshape(2,3) ; a[[0,1],[0,2]] = [7,8]  ->  only (0,0) and (1,2) change;
   a[[0,1],[0,2]] = [[7,8],[9,4]] (the outer-product shape) raises;  a[0, :, [1,0]]-style keys move the list dimension first *)
Example np_adv_set_values_example :
  np_adv_set_values 0%Z (mkDense [2; 3] [0; 3; 1; 4; 2; 5]%Z) [KList [0; 1]%Z; KList [0; 2]%Z] [2] [7; 8]%Z
    = Some (mkDense [2; 3] [7; 3; 1; 4; 2; 8]%Z, false) /\
  np_adv_set_values 0%Z (mkDense [2; 3] [0; 3; 1; 4; 2; 5]%Z) [KList [0; 1]%Z; KList [0; 2]%Z] [2; 2] [7; 9; 8; 4]%Z
    = Some (mkDense [2; 3] [0; 3; 1; 4; 2; 5]%Z, true) /\
  np_adv_set_values 0%Z (mkDense [2; 3] [0; 3; 1; 4; 2; 5]%Z) [KList [0; 1]%Z; KList [0; 2]%Z] [1] [7]%Z
    = Some (mkDense [2; 3] [7; 3; 1; 4; 2; 7]%Z, false).
Proof. repeat split; vm_compute; reflexivity. Qed.

(* ------------------------------------------------------------------------------------------------ *)
(* wave 4: dense HISTORIES in which every key with an index list follows numpy (the as-is behaviour behind the open finding A-16) *)
(* ------------------------------------------------------------------------------------------------ *)
(* one step: (state afterwards, Some output | None = pyttb raised).  Keys without an index list: the specification.  A value array
   arrives with the outer-product (kept) shape of the key on the grown tensor, as the property demands it. *)
(* numpy refuses the request (index out of range after the growth, index lists of incompatible lengths, value not broadcastable):
   pyttb has already grown the tensor when the key is structurally admissible *)
Definition raise_after_growth (T : dense Z) (es : list kelem) : option (dense Z * option (outv (V:=Z))) :=
  if region_ok (dshape T) es then Some (dense_resize 0%Z T (grow (dshape T) (map elem_need es)), None) else Some (T, None).

Definition np_step_dense (T : dense Z) (o : zop) : option (dense Z * option (outv (V:=Z))) :=
  let spec := match zstep_dense T o with Some (T1, out) => Some (T1, Some out) | None => Some (T, None) end in
  match o with
  | OGet (KRegion es) =>
      if has_list es then
        match np_adv_get 0%Z T es with Some out => Some (T, Some out) | None => Some (T, None) end
      else spec
  | OSet (KRegion es) (RScalar v) =>
      if has_list es then
        match np_adv_set_scalar 0%Z T es v with Some T1 => Some (T1, Some ([], [])) | None => raise_after_growth T es end
      else spec
  | OSet (KRegion es) (RValues data) =>
      if has_list es then
        match region_lists (grow (dshape T) (map elem_need es)) es with
        | Some ls =>
            match np_adv_set_values 0%Z T es (kept_shape ls) data with
            | Some (T1, false) => Some (T1, Some ([], []))
            | Some (T1, true) => Some (T1, None)
            | None => raise_after_growth T es end
        | None => raise_after_growth T es end
      else spec
  | _ => spec
  end.

Fixpoint check_dense_np (T : dense Z) (ops : list zop) (obs : list (dense Z * option xout)) : bool :=
  match ops, obs with
  | [], [] => true
  | o :: ops', (T2, xo) :: obs' =>
      match np_step_dense T o, xo with
      | Some (T1, Some out), Some x => dense_eqb T1 T2 && out_ok out x && check_dense_np T1 ops' obs'
      | Some (T1, None), None => dense_eqb T1 T2 && check_dense_np T1 ops' obs'
      | _, _ => false
      end
  | _, _ => false
  end.

(* tenmat: the same on a 2-way array of FIXED shape (numpy never grows an ndarray: a request that would resize raises and leaves
   the matrix unchanged) — the A-16 key class on tenmat.__getitem__ / __setitem__ (two index lists are zipped by numpy) *)
Definition np_fixed_step_dense (T : dense Z) (o : zop) : option (dense Z * option (outv (V:=Z))) :=
  if is_2way (dshape T) then
    match np_step_dense T o with
    | Some (T1, r) => if shape_eqb (dshape T1) (dshape T) then Some (T1, r) else Some (T, None)
    | None => None end
  else None.

Fixpoint check_tenmat_np (T : dense Z) (ops : list zop) (obs : list (dense Z * option xout)) : bool :=
  match ops, obs with
  | [], [] => true
  | o :: ops', (T2, xo) :: obs' =>
      match np_fixed_step_dense T o, xo with
      | Some (T1, Some out), Some x => dense_eqb T1 T2 && out_ok out x && check_tenmat_np T1 ops' obs'
      | Some (T1, None), None => dense_eqb T1 T2 && check_tenmat_np T1 ops' obs'
      | _, _ => false
      end
  | _, _ => false
  end.
