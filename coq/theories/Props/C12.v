(* Props/C12.v — GCP losses, gradients and their tensor-level evaluation are mutually consistent.
   T1 is stated over Gen/GenHandles.v (pyttb/gcp/handles.py as regenerated on this run).
   Only statements, `exact`, Print Assumptions. *)
From Coq Require Import Reals Lra List ZArith.
Set Warnings "-ambiguous-paths".   (* Coquelicot's Rbar coercion notice would otherwise end up in the Print Assumptions output *)
From Coquelicot Require Import Coquelicot.
From PV Require Import Np.NpR Gen.GenHandles Proofs.C12Handles Proofs.C12NegBinRefuted.
From PV Require Import Base.Index Base.Sum Np.Array Model.Repr Model.C12Gcp Proofs.C12Tensor Proofs.C12TensorR Proofs.C12Mttkrps Proofs.C12Setup Proofs.C12GenTie Proofs.C12Reshape Proofs.C12KrTie Proofs.C12Lambda Proofs.C12Weighted Proofs.C12Wrap Proofs.C12EstGrad Proofs.C12EvalBytes Proofs.C12EndToEnd Proofs.C12LambdaR Proofs.C12WScale Proofs.C12EstLine.
From PV Require Model.Harness Model.C12Harness Proofs.C12LambdaZ.
From PV Require Model.C02Dense Proofs.C02DenseProofs.
From PV Require Gen.GenFgSetup Gen.GenKernels Gen.GenKernels3 Proofs.C12GenMttv Proofs.C12GenMttvPy Proofs.C12HandleNum.
From PV Require Import Np.NpZ.
Import List.   (* List.nth again in front of Coquelicot's *)
Import ListNotations.
Local Open Scope R_scope.

(* ---- numeric tie of the ten real handles, decided in Coq (Proofs/C12HandleNum.v; audit A6) ----------------------------------------
   hfun id = the GENERATED handle number id (2 * objective + 0 loss / 1 gradient); hnum_check evaluates it with the Interval library's
   verified floating-point interval evaluator at the rational point (dn/dd, mn/md, pn/pd) and accepts only when the enclosure proves
   |handle - on/od| <= tn/td.  The correspondence stream calls it (vm_compute) on every float pyttb's handles return. *)
Theorem C12_handles_numeric : forall (id : nat) (below pos : bool) (dn dd mn md pn pd on od tn td : Z),
  C12HandleNum.hnum_check id below pos dn dd mn md pn pd on od tn td = true ->
  Rabs (C12HandleNum.hfun id (IZR dn / IZR dd) (IZR mn / IZR md) (IZR pn / IZR pd) - IZR on / IZR od) <= IZR tn / IZR td.
Proof. exact C12HandleNum.hnum_check_sound. Qed.
Print Assumptions C12_handles_numeric.

(* the table: number -> generated handle *)
Theorem C12_handles_numeric_table :
  C12HandleNum.hfun 0 = (fun d m _ => gaussian d m) /\ C12HandleNum.hfun 1 = (fun d m _ => gaussian_grad d m) /\
  C12HandleNum.hfun 2 = (fun d m _ => bernoulli_odds d m) /\ C12HandleNum.hfun 3 = (fun d m _ => bernoulli_odds_grad d m) /\
  C12HandleNum.hfun 4 = (fun d m _ => bernoulli_logit d m) /\ C12HandleNum.hfun 5 = (fun d m _ => bernoulli_logit_grad d m) /\
  C12HandleNum.hfun 6 = (fun d m _ => poisson d m) /\ C12HandleNum.hfun 7 = (fun d m _ => poisson_grad d m) /\
  C12HandleNum.hfun 8 = (fun d m _ => poisson_log d m) /\ C12HandleNum.hfun 9 = (fun d m _ => poisson_log_grad d m) /\
  C12HandleNum.hfun 10 = (fun d m _ => rayleigh d m) /\ C12HandleNum.hfun 11 = (fun d m _ => rayleigh_grad d m) /\
  C12HandleNum.hfun 12 = (fun d m _ => gamma_ d m) /\ C12HandleNum.hfun 13 = (fun d m _ => gamma_grad d m) /\
  C12HandleNum.hfun 14 = huber /\ C12HandleNum.hfun 15 = huber_grad /\
  C12HandleNum.hfun 16 = negative_binomial /\ C12HandleNum.hfun 17 = negative_binomial_grad /\
  C12HandleNum.hfun 18 = beta_ /\ C12HandleNum.hfun 19 = beta_grad.
Proof. exact C12HandleNum.hfun_table. Qed.
Print Assumptions C12_handles_numeric_table.

(* ---- T1: every gradient handle is the derivative of its loss handle on the loss's domain ---------- *)
(* domain of m: the lower bound fg_setup.setup attaches to the objective (0 where the loss is EPS-shifted) *)
Theorem C12_gaussian_deriv : forall x m, is_derive (fun m => gaussian x m) m (gaussian_grad x m).
Proof. exact gaussian_deriv. Qed.
Print Assumptions C12_gaussian_deriv.

Theorem C12_bernoulli_odds_deriv : forall x m, 0 <= m ->
  is_derive (fun m => bernoulli_odds x m) m (bernoulli_odds_grad x m).
Proof. exact bernoulli_odds_deriv. Qed.
Print Assumptions C12_bernoulli_odds_deriv.

Theorem C12_bernoulli_logit_deriv : forall x m,
  is_derive (fun m => bernoulli_logit x m) m (bernoulli_logit_grad x m).
Proof. exact bernoulli_logit_deriv. Qed.
Print Assumptions C12_bernoulli_logit_deriv.

Theorem C12_poisson_deriv : forall x m, 0 <= m -> is_derive (fun m => poisson x m) m (poisson_grad x m).
Proof. exact poisson_deriv. Qed.
Print Assumptions C12_poisson_deriv.

Theorem C12_poisson_log_deriv : forall x m, is_derive (fun m => poisson_log x m) m (poisson_log_grad x m).
Proof. exact poisson_log_deriv. Qed.
Print Assumptions C12_poisson_log_deriv.

Theorem C12_rayleigh_deriv : forall x m, 0 <= m -> is_derive (fun m => rayleigh x m) m (rayleigh_grad x m).
Proof. exact rayleigh_deriv. Qed.
Print Assumptions C12_rayleigh_deriv.

Theorem C12_gamma_deriv : forall x m, 0 <= m -> is_derive (fun m => gamma_ x m) m (gamma_grad x m).
Proof. exact gamma_deriv. Qed.
Print Assumptions C12_gamma_deriv.

(* every positive threshold, every data and model value, including the kinks |x - m| = threshold *)
Theorem C12_huber_deriv : forall x m t, 0 < t -> is_derive (fun m => huber x m t) m (huber_grad x m t).
Proof. exact huber_deriv. Qed.
Print Assumptions C12_huber_deriv.

Theorem C12_beta_deriv : forall x m b, 0 <= m -> b <> 0 -> b <> 1 ->
  is_derive (fun m => beta_ x m b) m (beta_grad x m b).
Proof. exact beta_deriv. Qed.
Print Assumptions C12_beta_deriv.

(* ---- negative binomial: BEGIN block to switch when fixes/C12-A-34.diff is applied ------------------ *)
(* as the source stands the pair is inconsistent (finding A-34): the statement is refuted at (x,m,r) = (3,1,1);
   what does hold: the loss's derivative is (r + x)/(1 + m) - x/(m + EPS), and the code is right for data = 1 *)
Theorem C12_negative_binomial_refuted : ~ (forall x m r, 0 <= m ->
  is_derive (fun m => negative_binomial x m r) m (negative_binomial_grad x m r)).
Proof. exact negative_binomial_refuted. Qed.
Print Assumptions C12_negative_binomial_refuted.

Theorem C12_negative_binomial_true_deriv : forall x m r, 0 <= m ->
  is_derive (fun m => negative_binomial x m r) m ((r + x) / (1 + m) - x / (m + EPS)).
Proof. exact negative_binomial_true_deriv. Qed.
Print Assumptions C12_negative_binomial_true_deriv.

Theorem C12_negative_binomial_deriv_partial : forall m r, 0 <= m ->
  is_derive (fun m => negative_binomial 1 m r) m (negative_binomial_grad 1 m r).
Proof. exact negative_binomial_deriv_partial. Qed.
Print Assumptions C12_negative_binomial_deriv_partial.
(* after the fix: import Proofs.C12NegBin instead of Proofs.C12NegBinRefuted and replace this block by
   Theorem C12_negative_binomial_deriv : forall x m r, 0 <= m ->
     is_derive (fun m => negative_binomial x m r) m (negative_binomial_grad x m r).
   Proof. exact negative_binomial_deriv. Qed.
   Print Assumptions C12_negative_binomial_deriv.                                                      *)
(* ---- END block ---------------------------------------------------------------------------------- *)

(* ---- T2: tensor-level evaluation (model Model/C12Gcp.v of fg.evaluate, fg_est.estimate, mttkrps) ------------ *)
Section C12_T2.
Variable V : Type.
Variables (v0 v1 : V) (vadd vmul vsub : V -> V -> V) (vopp : V -> V).
Hypothesis Vring : ring_theory v0 v1 vadd vmul vsub vopp (@eq V).

(* the objective evaluate returns is the (optionally weighted) sum of the loss over all entries: this is the
   DEFINITION of the model (eval_F; the lemma only unfolds it), its content is the tie of eval_F to fg.evaluate by the
   correspondence stream (ops evaluate / evaluate_struct / estimate_full, all weight-array layouts) *)
Theorem C12_objective : forall (f : V -> V -> V) (K : ktensor V) (X : dense V) (w : option (dense V)),
  eval_F v0 v1 vadd vmul f K X w =
  sum_over v0 vadd (allsubs (dshape X))
    (fun i => vmul (f (den_dense v0 X i) (den_k v0 v1 vadd vmul K i)) (wget v0 v1 w i)).
Proof. exact (eval_F_is_weighted_sum V v0 v1 vadd vmul). Qed.

(* the model tensor is linear in each factor matrix *)
Theorem C12_multilinear : forall (K : ktensor V) k A H I R i,
  (k < length (kfactors K))%nat -> nth k (kfactors K) nil = A -> mdims V A I R -> mdims V H I R ->
  den_k v0 v1 vadd vmul (kset V K k (madd V vadd A H)) i =
  vadd (den_k v0 v1 vadd vmul K i) (den_k v0 v1 vadd vmul (kset V K k H) i).
Proof. exact (den_k_multilinear V v0 v1 vadd vmul vsub vopp Vring). Qed.

(* adjoint identity: <Y, model with A_k := H> = <mttkrp(Y, factors, k), H>, each column weighted by the model weight *)
Theorem C12_adjoint : forall (K : ktensor V) k (H : list (list V)) (Y : idx -> V) s R,
  kshape (kset V K k H) = s -> krank K = R -> (k < length (kfactors K))%nat -> mdims V H (nth k s 0%nat) R ->
  sum_over v0 vadd (allsubs s) (fun i => vmul (Y i) (den_k v0 v1 vadd vmul (kset V K k H) i)) =
  mpair V v0 vadd vmul (kweights K) (mttkrp_den v0 v1 vadd vmul s Y (kfactors K) R k) H (nth k s 0%nat) R.
Proof. exact (mttkrp_adjoint V v0 v1 vadd vmul vsub vopp Vring). Qed.

(* estimate_helper's forward/backward passes compute the leave-one-out products, for every number of modes *)
Theorem C12_leave_one_out : forall (As : list (list (list V))) (i : list nat) (r k : nat),
  length i = length As -> (k < length As)%nat ->
  nth k (loo_alg v1 vmul (urow v0 As i r)) v0 = kprod_skip v0 v1 vmul As i r k.
Proof. exact (loo_is_kprod_skip V v0 v1 vadd vmul vsub vopp Vring). Qed.

(* the sampled estimator on "every subscript once, unit weights, no correction range" equals the exact evaluation *)
Theorem C12_estimate_exact : forall (f g : V -> V -> V) (As : list (list (list V))) (R : nat) (X : dense V),
  wf_dense X -> dshape X = map nrows As ->
  est_F v0 v1 vadd vmul vsub f As R (allsubs (dshape X)) (ddata X) (repeat v1 (size (dshape X))) nil =
    eval_F v0 v1 vadd vmul f (mkK (repeat v1 R) As) X None /\
  est_G v0 v1 vadd vmul vsub g As R (allsubs (dshape X)) (ddata X) (repeat v1 (size (dshape X))) nil (dshape X) =
    eval_G v0 v1 vadd vmul g (mkK (repeat v1 R) As) X None.
Proof. exact (estimate_exact_FG V v0 v1 vadd vmul vsub vopp Vring). Qed.

(* computing all mode gradients at once = one mode at a time: the split / partial-contraction algorithm of tensor.mttkrps
   (left sweep over modes 0..sp with mttv_mid / mttv_left, right sweep over sp+1..N-1; Proofs/C12Mttkrps.v) returns, for EVERY
   split index sp and every number of modes, exactly the per-mode MTTKRPs *)
Theorem C12_mttkrps_eq : forall (s : shape) (Y : idx -> V) (As : list (list (list V))) (R sp : nat),
  length As = length s ->
  mttkrps_alg V v0 v1 vadd vmul s Y As R sp = map (mttkrp_den v0 v1 vadd vmul s Y As R) (seq 0 (length s)).
Proof. exact (Proofs.C12Mttkrps.C12_mttkrps_eq V v0 v1 vadd vmul vsub vopp Vring). Qed.

(* ... in particular at the split index the code chooses (min_split), which always leaves a mode on the right *)
Theorem C12_mttkrps_py_eq : forall (s : shape) (Y : idx -> V) (As : list (list (list V))) (R : nat),
  length As = length s -> Forall (fun d => 1 <= d)%nat s -> (2 <= length s)%nat ->
  (S (min_split s) < length s)%nat /\
  mttkrps_py V v0 v1 vadd vmul s Y As R = map (mttkrp_den v0 v1 vadd vmul s Y As R) (seq 0 (length s)).
Proof. exact (Proofs.C12Mttkrps.C12_mttkrps_py_eq V v0 v1 vadd vmul vsub vopp Vring). Qed.

(* ... and the BYTE-LEVEL form of tensor.mttkrps / mttv_left / mttv_mid (Proofs/C12Reshape.v: the data array as its flat F-order
   value list, every reshape(order="F") as index arithmetic on that list, every .dot as a sum over the contracted linear index,
   the Khatri-Rao factors as the row lists khatrirao(reverse=True) builds) returns the per-mode MTTKRPs of the array the list
   denotes: every well-formed array with positive sizes, factor matrices of matching sizes with R columns, EVERY split index *)
Theorem C12_mttkrps_bytes : forall (T : dense V) (As : list (list (list V))) (R sp : nat),
  wf_dense T -> Forall (fun d => 1 <= d)%nat (dshape T) -> fdims V R As (dshape T) -> (S sp < length (dshape T))%nat ->
  mttkrps_b V v0 vadd vmul (ddata T) As sp =
  map (mttkrp_den v0 v1 vadd vmul (dshape T) (den_dense v0 T) As R) (seq 0 (length (dshape T))).
Proof. exact (Proofs.C12Reshape.C12_mttkrps_bytes V v0 v1 vadd vmul vsub vopp Vring). Qed.

(* ... as called, at split_idx = min_split(self.shape) *)
Theorem C12_mttkrps_bytes_py : forall (T : dense V) (As : list (list (list V))) (R : nat),
  wf_dense T -> Forall (fun d => 1 <= d)%nat (dshape T) -> fdims V R As (dshape T) -> (2 <= length (dshape T))%nat ->
  mttkrps_b V v0 vadd vmul (ddata T) As (min_split (dshape T)) =
  map (mttkrp_den v0 v1 vadd vmul (dshape T) (den_dense v0 T) As R) (seq 0 (length (dshape T))).
Proof. exact (Proofs.C12Reshape.C12_mttkrps_bytes_py V v0 v1 vadd vmul vsub vopp Vring). Qed.

(* ---- the BYTE-LEVEL form of fg.evaluate (Proofs/C12EvalBytes.v): data, model.full() and the weight array as flat F-order value lists,
   `Y = handle(data.data, full_model.data); Y *= weights` position by position, `F = np.sum(Y)` the sum of the flat list,
   `G = tensor(Y).mttkrps(factor_matrices)` the byte-level mttkrps of the flat list — equal to the subscript-level model eval_F / eval_G
   for every well-formed data / weight array, every loss and derivative handle (G: positive sizes, every admissible split index) *)
Theorem C12_evaluate_bytes_F : forall (f : V -> V -> V) (K : ktensor V) (X : dense V) (w : option (dense V)),
  wf_dense X -> w_ok V (dshape X) w ->
  evaluate_F_b V v0 v1 vadd vmul f K X w = eval_F v0 v1 vadd vmul f K X w.
Proof. exact (evaluate_F_bytes V v0 v1 vadd vmul vsub vopp Vring). Qed.

Theorem C12_evaluate_bytes_G : forall (g : V -> V -> V) (K : ktensor V) (X : dense V) (w : option (dense V)) (sp : nat),
  wf_dense X -> w_ok V (dshape X) w -> Forall (fun d => 1 <= d)%nat (dshape X) ->
  fdims V (krank K) (kfactors K) (dshape X) -> (S sp < length (dshape X))%nat ->
  evaluate_G_b V v0 v1 vadd vmul g K X w sp = eval_G v0 v1 vadd vmul g K X w.
Proof. exact (evaluate_G_bytes V v0 v1 vadd vmul vsub vopp Vring). Qed.

(* fg.evaluate is linear in the weight array: every weight times c => objective and every gradient entry times c (Proofs/C12WScale.v;
   the correspondence stream hands fractional weights k / 2^e to pyttb and compares 2^e * result with the model on the numerators k) *)
Theorem C12_weights_linear_F : forall (f : V -> V -> V) (K : ktensor V) (X W : dense V) (c : V),
  eval_F v0 v1 vadd vmul f K X (Some (wscale V vmul c W)) = vmul c (eval_F v0 v1 vadd vmul f K X (Some W)).
Proof. exact (eval_F_wscale V v0 v1 vadd vmul vsub vopp Vring). Qed.

Theorem C12_weights_linear_G : forall (g : V -> V -> V) (K : ktensor V) (X W : dense V) (c : V),
  eval_G v0 v1 vadd vmul g K X (Some (wscale V vmul c W)) = map (map (map (vmul c))) (eval_G v0 v1 vadd vmul g K X (Some W)).
Proof. exact (eval_G_wscale V v0 v1 vadd vmul vsub vopp Vring). Qed.

(* ---- fg_est.estimate_helper / estimate transliterated LINE BY LINE on whole arrays (Proofs/C12EstLine.v: Uexp by fancy row indexing,
   the forward pass Zexp[k] = Zexp[k-1] * Uexp[k-1], the backward pass Zexp[k] *= Zexp[0]; Zexp[0] *= Uexp[k], mvals by row sums,
   Y[crng] -= ... as numpy fancy-index subtraction, S = csr_array(...) as a dense I x nsamples array, G[k] = S.dot(Zexp[k]))
   compute the subscript-level models est_m / est_F / est_G.  Hypotheses: at least two modes, every subscript row has one entry per
   mode, every addressed factor row exists and has R entries, data / weight vectors have one entry per sample, crng in range. *)
Theorem C12_estimate_helper_line : forall (As : list (list (list V))) (R : nat) (subs : list idx),
  (2 <= length As)%nat ->
  (forall s, (s < length subs)%nat -> length (nth s subs []) = length As) ->
  (forall k s, (k < length As)%nat -> (s < length subs)%nat -> length (nth (nth k (nth s subs []) 0%nat) (nth k As []) []) = R) ->
  let U := uexp V As subs (length As) in
  let Z := zexp_bwd V vmul U (length As) (zexp_fwd V vmul U (length As)) in
  Z = map (fun k => tabm V (length subs) R (fun s r => kprod_skip v0 v1 vmul As (nth s subs []) r k)) (seq 0 (length As)) /\
  rowsum V v0 vadd (had V vmul (nth (length As - 1) Z []) (nth (length As - 1) U []))
  = map (fun s => fac_val v0 v1 vadd vmul As R (nth s subs [])) (seq 0 (length subs)).
Proof. exact (fun As R subs H1 H2 H3 => conj (zexp_line_spec V v0 v1 vadd vmul vsub vopp Vring As R subs H1 H2 H3)
                                              (mvals_line_spec V v0 v1 vadd vmul vsub vopp Vring As R subs H1 H2 H3)). Qed.

Theorem C12_estimate_F_line : forall (f : V -> V -> V) (As : list (list (list V))) (R : nat) (subs : list idx) (xs ws : list V)
    (crng : option (list nat)),
  (2 <= length As)%nat ->
  (forall s, (s < length subs)%nat -> length (nth s subs []) = length As) ->
  (forall k s, (k < length As)%nat -> (s < length subs)%nat -> length (nth (nth k (nth s subs []) 0%nat) (nth k As []) []) = R) ->
  length xs = length subs -> length ws = length subs -> Forall (fun j => (j < length subs)%nat) (crng_list crng) ->
  estimate_F_line V v0 vadd vmul vsub f As subs xs ws crng = est_F v0 v1 vadd vmul vsub f As R subs xs ws (crng_list crng).
Proof. exact (fun f As R subs xs ws crng H1 => estimate_F_line_spec V v0 v1 vadd vmul vsub vopp Vring f As R (repeat 0%nat (length As)) subs xs ws crng H1 (repeat_length 0%nat (length As))). Qed.

Theorem C12_estimate_G_line : forall (g : V -> V -> V) (As : list (list (list V))) (R : nat) (shp : shape) (subs : list idx)
    (xs ws : list V) (crng : option (list nat)),
  (2 <= length As)%nat -> length shp = length As ->
  (forall s, (s < length subs)%nat -> length (nth s subs []) = length As) ->
  (forall k s, (k < length As)%nat -> (s < length subs)%nat -> length (nth (nth k (nth s subs []) 0%nat) (nth k As []) []) = R) ->
  length xs = length subs -> length ws = length subs -> Forall (fun j => (j < length subs)%nat) (crng_list crng) ->
  estimate_G_line V v0 vadd vmul vsub g As R shp subs xs ws crng = est_G v0 v1 vadd vmul vsub g As R subs xs ws (crng_list crng) shp.
Proof. exact (fun g As R shp subs xs ws crng => estimate_G_line_spec V v0 v1 vadd vmul vsub vopp Vring g As R shp subs xs ws crng). Qed.

(* ---- fg_est.estimate with lambda_check: `if lambda_check and any(weights != 1): model = model.normalize(0)` (Proofs/C12Lambda.v) ----
   estimate_helper reads only the factor matrices.  For EVERY rescaling of the factor columns (column r of factor k times cs_k[r]) whose
   product over the modes is the component weight — what normalize(0) performs — the values it computes are those of the weighted model *)
Theorem C12_lambda_values : forall (cs : list (list V)) (As : list (list (list V))) (lam : list V) (i : idx),
  length cs = length As -> (forall r, (r < length lam)%nat -> cprod V v0 v1 vmul cs r = nth r lam v0) ->
  inb (map nrows As) i = true ->
  fac_val v0 v1 vadd vmul (scale_all V vmul cs As) (length lam) i = den_k v0 v1 vadd vmul (mkK lam As) i.
Proof. exact (lambda_values V v0 v1 vadd vmul vsub vopp Vring). Qed.

(* ... so for every sample set (repeats, any sample weights, any correction range) the estimated objective is the weighted sample sum
   of the loss at the WEIGHTED model's values *)
Theorem C12_lambda_estimate : forall (f : V -> V -> V) (cs : list (list V)) (As : list (list (list V))) (lam : list V),
  length cs = length As -> (forall r, (r < length lam)%nat -> cprod V v0 v1 vmul cs r = nth r lam v0) ->
  forall (subs : list idx) (xs ws : list V) (crng : list nat),
  Forall (fun i => inb (kshape (mkK lam As)) i = true) subs ->
  est_F v0 v1 vadd vmul vsub f (scale_all V vmul cs As) (length lam) subs xs ws crng =
  sum_over v0 vadd (seq 0 (length subs)) (fun q =>
    let m := den_k v0 v1 vadd vmul (mkK lam As) (nth q subs nil) in
    vmul (nth q ws v0) (if inl q crng then vsub (f (nth q xs v0) m) (f v0 m) else f (nth q xs v0) m)).
Proof. exact (lambda_est_F V v0 v1 vadd vmul vsub vopp Vring). Qed.

(* ... on every subscript once with unit sample weights it is the exact objective of the weighted model, and the gradient matrices are
   the MTTKRPs of the weighted model's element-wise derivative array with the rescaled factors *)
Theorem C12_lambda_exact : forall (f g : V -> V -> V) (cs : list (list V)) (As : list (list (list V))) (lam : list V),
  length cs = length As -> (forall r, (r < length lam)%nat -> cprod V v0 v1 vmul cs r = nth r lam v0) ->
  forall X : dense V, wf_dense X -> dshape X = map nrows As ->
  est_F v0 v1 vadd vmul vsub f (scale_all V vmul cs As) (length lam) (allsubs (dshape X)) (ddata X) (repeat v1 (size (dshape X))) nil =
    eval_F v0 v1 vadd vmul f (mkK lam As) X None /\
  est_G v0 v1 vadd vmul vsub g (scale_all V vmul cs As) (length lam) (allsubs (dshape X)) (ddata X) (repeat v1 (size (dshape X))) nil
        (dshape X) =
    map (mttkrp_den v0 v1 vadd vmul (dshape X) (eval_Y v0 v1 vadd vmul g (mkK lam As) X None) (scale_all V vmul cs As) (length lam))
        (seq 0 (length (dshape X))).
Proof. exact (lambda_exact_FG V v0 v1 vadd vmul vsub vopp Vring). Qed.

(* ... which are the MTTKRPs with the original factors times the complementary column factors (prod over l <> k of cs_l[r]) *)
Theorem C12_lambda_mttkrp_scale : forall (cs : list (list V)) (As : list (list (list V))) (lam : list V),
  length cs = length As ->
  forall (s : shape) (Y : idx -> V) (k j r : nat), length s = length As -> (j < nth k s 0)%nat -> (r < length lam)%nat ->
  mget v0 (mttkrp_den v0 v1 vadd vmul s Y (scale_all V vmul cs As) (length lam) k) j r =
  vmul (mget v0 (mttkrp_den v0 v1 vadd vmul s Y As (length lam) k) j r) (cskip V v0 v1 vmul cs r k).
Proof. exact (mttkrp_scale V v0 v1 vadd vmul vsub vopp Vring). Qed.

(* absorbing the weights into mode 0 (the exact instance the executable harness uses) is such a rescaling *)
Theorem C12_lambda_absorb : forall (lam : list V) (N r : nat), (1 <= N)%nat -> (r < length lam)%nat ->
  cprod V v0 v1 vmul (absorb_cs V v1 lam N) r = nth r lam v0.
Proof. exact (absorb_cs_prod V v0 v1 vadd vmul vsub vopp Vring). Qed.
End C12_T2.
Print Assumptions C12_lambda_values.
Print Assumptions C12_lambda_estimate.
Print Assumptions C12_lambda_exact.
Print Assumptions C12_lambda_mttkrp_scale.
Print Assumptions C12_lambda_absorb.
Print Assumptions C12_mttkrps_eq.
Print Assumptions C12_mttkrps_py_eq.
Print Assumptions C12_mttkrps_bytes.
Print Assumptions C12_mttkrps_bytes_py.
Print Assumptions C12_evaluate_bytes_F.
Print Assumptions C12_evaluate_bytes_G.
Print Assumptions C12_weights_linear_F.
Print Assumptions C12_weights_linear_G.
Print Assumptions C12_estimate_helper_line.
Print Assumptions C12_estimate_F_line.
Print Assumptions C12_estimate_G_line.
Print Assumptions C12_objective.
Print Assumptions C12_multilinear.
Print Assumptions C12_adjoint.
Print Assumptions C12_leave_one_out.
Print Assumptions C12_estimate_exact.

(* the matrices evaluate returns ARE the partial derivatives of the objective in every factor entry, for every loss
   whose gradient handle is its derivative on m >= lb (T1) and every unit-weight model whose entries stay >= lb
   (lb = -infinity: take the unrestricted version C12_gradient_all) *)
Theorem C12_gradient : forall (lb : R) (f g : R -> R -> R) (K : ktensor R) (X : dense R) (w : option (dense R)) (k j r : nat),
  (forall x m, lb <= m -> is_derive (fun m => f x m) m (g x m)) ->
  (forall i, inb (kshape K) i = true -> lb <= den_k 0 1 Rplus Rmult K i) ->
  (forall q, (q < krank K)%nat -> nth q (kweights K) 0 = 1) ->
  wf_k K -> (k < length (kfactors K))%nat -> (j < nrows (nth k (kfactors K) nil))%nat -> (r < krank K)%nat ->
  dshape X = kshape K ->
  is_derive (fun t => eval_F 0 1 Rplus Rmult f (kset R K k (mset (nth k (kfactors K) nil) j r t)) X w)
            (mget 0 (nth k (kfactors K) nil) j r)
            (mget 0 (nth k (eval_G 0 1 Rplus Rmult g K X w) nil) j r).
Proof. exact eval_gradient_lb. Qed.
Print Assumptions C12_gradient.

Theorem C12_gradient_all : forall (f g : R -> R -> R) (K : ktensor R) (X : dense R) (w : option (dense R)) (k j r : nat),
  (forall x m, is_derive (fun m => f x m) m (g x m)) ->
  (forall q, (q < krank K)%nat -> nth q (kweights K) 0 = 1) ->
  wf_k K -> (k < length (kfactors K))%nat -> (j < nrows (nth k (kfactors K) nil))%nat -> (r < krank K)%nat ->
  dshape X = kshape K ->
  is_derive (fun t => eval_F 0 1 Rplus Rmult f (kset R K k (mset (nth k (kfactors K) nil) j r t)) X w)
            (mget 0 (nth k (kfactors K) nil) j r)
            (mget 0 (nth k (eval_G 0 1 Rplus Rmult g K X w) nil) j r).
Proof. exact eval_gradient. Qed.
Print Assumptions C12_gradient_all.

(* T1 + T2 for one concrete loss: the Poisson objective and its gradient as generated from the source *)
Theorem C12_gradient_poisson : forall (K : ktensor R) (X : dense R) (w : option (dense R)) (k j r : nat),
  (forall i, inb (kshape K) i = true -> 0 <= den_k 0 1 Rplus Rmult K i) ->
  (forall q, (q < krank K)%nat -> nth q (kweights K) 0 = 1) ->
  wf_k K -> (k < length (kfactors K))%nat -> (j < nrows (nth k (kfactors K) nil))%nat -> (r < krank K)%nat ->
  dshape X = kshape K ->
  is_derive (fun t => eval_F 0 1 Rplus Rmult poisson (kset R K k (mset (nth k (kfactors K) nil) j r t)) X w)
            (mget 0 (nth k (kfactors K) nil) j r)
            (mget 0 (nth k (eval_G 0 1 Rplus Rmult poisson_grad K X w) nil) j r).
Proof. exact eval_gradient_poisson. Qed.
Print Assumptions C12_gradient_poisson.

(* ---- the sampled estimator: the matrices fg_est.estimate returns ARE the partial derivatives of the estimated objective in every
   factor entry (Proofs/C12EstGrad.v) — every sample set inside the model's shape (repeats allowed), any sample values and weights,
   any correction range, every loss whose gradient handle is its derivative on m >= lb with the model respecting the bound at the
   sampled subscripts.  estimate_helper reads only the factor matrices: no condition on component weights *)
Theorem C12_estimate_gradient : forall (lb : R) (f g : R -> R -> R) (As : list (list (list R))) (Rk : nat) (subs : list idx)
    (xs ws : list R) (crng : list nat) (k j r : nat),
  (forall x m, lb <= m -> is_derive (fun m => f x m) m (g x m)) ->
  (forall i, In i subs -> lb <= fac_val 0 1 Rplus Rmult As Rk i) ->
  C12EstGrad.rows_len Rk As -> (k < length As)%nat -> (j < nrows (nth k As nil))%nat -> (r < Rk)%nat ->
  Forall (fun i => inb (map (@nrows R) As) i = true) subs ->
  is_derive (fun t => est_F 0 1 Rplus Rmult Rminus f (upd As k (mset (nth k As nil) j r t)) Rk subs xs ws crng)
            (mget 0 (nth k As nil) j r)
            (mget 0 (nth k (est_G 0 1 Rplus Rmult Rminus g As Rk subs xs ws crng (map (@nrows R) As)) nil) j r).
Proof. exact est_gradient_lb. Qed.
Print Assumptions C12_estimate_gradient.

Theorem C12_estimate_gradient_all : forall (f g : R -> R -> R) (As : list (list (list R))) (Rk : nat) (subs : list idx)
    (xs ws : list R) (crng : list nat) (k j r : nat),
  (forall x m, is_derive (fun m => f x m) m (g x m)) ->
  C12EstGrad.rows_len Rk As -> (k < length As)%nat -> (j < nrows (nth k As nil))%nat -> (r < Rk)%nat ->
  Forall (fun i => inb (map (@nrows R) As) i = true) subs ->
  is_derive (fun t => est_F 0 1 Rplus Rmult Rminus f (upd As k (mset (nth k As nil) j r t)) Rk subs xs ws crng)
            (mget 0 (nth k As nil) j r)
            (mget 0 (nth k (est_G 0 1 Rplus Rmult Rminus g As Rk subs xs ws crng (map (@nrows R) As)) nil) j r).
Proof. exact est_gradient. Qed.
Print Assumptions C12_estimate_gradient_all.

(* ---- lambda_check: the rescaling ktensor.normalize(0) performs (Proofs/C12LambdaR.v) — columns divided by numbers n_k[r], the weight
   times their product absorbed into mode 0 — satisfies the product hypothesis of C12_lambda_values / _estimate / _exact for every
   component all of whose n_k[r] are nonzero (that they are the 2-norms is not needed; zero-norm columns: correspondence only) *)
Theorem C12_lambda_normalize0 : forall (lam : list R) (ns : list (list R)) (r : nat),
  ns <> nil -> (r < length lam)%nat -> Forall (fun n => nth r n 0 <> 0) ns ->
  cprod R 0 1 Rmult (normalize0_cs lam ns) r = nth r lam 0.
Proof. exact normalize0_cs_prod. Qed.
Print Assumptions C12_lambda_normalize0.

(* ... hence the model values estimate_helper computes from the factors normalize(0) leaves behind are those of the weighted model *)
Theorem C12_lambda_values_normalize0 : forall (lam : list R) (ns : list (list R)) (As : list (list (list R))) (i : idx),
  As <> nil -> length ns = length As ->
  (forall r, (r < length lam)%nat -> Forall (fun n => nth r n 0 <> 0) ns) ->
  inb (map (@nrows R) As) i = true ->
  fac_val 0 1 Rplus Rmult (scale_all R Rmult (normalize0_cs lam ns) As) (length lam) i = den_k 0 1 Rplus Rmult (mkK lam As) i.
Proof. exact lambda_values_normalize0. Qed.
Print Assumptions C12_lambda_values_normalize0.

(* ---- finding C12-W1 (open, known): models WITH component weights ------------------------------------------------------------
   for every weight vector the exact partial derivative of the objective in entry (j, r) of factor k is
   weights[r] * (the matrix evaluate returns)[k][j, r] ... *)
Theorem C12_gradient_weighted : forall (lb : R) (f g : R -> R -> R) (K : ktensor R) (X : dense R) (w : option (dense R)) (k j r : nat),
  (forall x m, lb <= m -> is_derive (fun m => f x m) m (g x m)) ->
  (forall i, inb (kshape K) i = true -> lb <= den_k 0 1 Rplus Rmult K i) ->
  wf_k K -> (k < length (kfactors K))%nat -> (j < nrows (nth k (kfactors K) nil))%nat -> (r < krank K)%nat ->
  dshape X = kshape K ->
  is_derive (fun t => eval_F 0 1 Rplus Rmult f (kset R K k (mset (nth k (kfactors K) nil) j r t)) X w)
            (mget 0 (nth k (kfactors K) nil) j r)
            (nth r (kweights K) 0 * mget 0 (nth k (eval_G 0 1 Rplus Rmult g K X w) nil) j r).
Proof. exact eval_gradient_weighted. Qed.
Print Assumptions C12_gradient_weighted.

(* ... so the returned entry itself (tensor(Y).mttkrps(model.factor_matrices), no weights) is NOT the partial derivative whenever
   the component's weight is not 1 and the entry is not 0: the property's gradient clause fails for fg.evaluate on such models *)
Theorem C12_gradient_unweighted_refuted : forall (lb : R) (f g : R -> R -> R) (K : ktensor R) (X : dense R) (w : option (dense R)) (k j r : nat),
  (forall x m, lb <= m -> is_derive (fun m => f x m) m (g x m)) ->
  (forall i, inb (kshape K) i = true -> lb <= den_k 0 1 Rplus Rmult K i) ->
  wf_k K -> (k < length (kfactors K))%nat -> (j < nrows (nth k (kfactors K) nil))%nat -> (r < krank K)%nat ->
  dshape X = kshape K ->
  nth r (kweights K) 0 <> 1 ->
  mget 0 (nth k (eval_G 0 1 Rplus Rmult g K X w) nil) j r <> 0 ->
  ~ is_derive (fun t => eval_F 0 1 Rplus Rmult f (kset R K k (mset (nth k (kfactors K) nil) j r t)) X w)
              (mget 0 (nth k (kfactors K) nil) j r)
              (mget 0 (nth k (eval_G 0 1 Rplus Rmult g K X w) nil) j r).
Proof. exact eval_G_unweighted_refuted. Qed.
Print Assumptions C12_gradient_unweighted_refuted.

(* the witness of the finding: weight 2, factors (1,2) x (1,1), zero data, Gaussian loss: returned 8, derivative 16 *)
Theorem C12_gradient_unweighted_witness :
  let K := mkK [2] [ [[1]; [2]]; [[1]; [1]] ] in
  let X := mkDense [2; 2]%nat [0; 0; 0; 0] in
  let f := fun x m : R => (m - x) * (m - x) in
  let g := fun x m : R => 2 * (m - x) in
  ~ is_derive (fun t => eval_F 0 1 Rplus Rmult f (kset R K 0 (mset (nth 0 (kfactors K) nil) 0 0 t)) X None)
              (mget 0 (nth 0 (kfactors K) nil) 0 0)
              (mget 0 (nth 0 (eval_G 0 1 Rplus Rmult g K X None) nil) 0 0)
  /\ is_derive (fun t => eval_F 0 1 Rplus Rmult f (kset R K 0 (mset (nth 0 (kfactors K) nil) 0 0 t)) X None)
              (mget 0 (nth 0 (kfactors K) nil) 0 0) 16.
Proof. exact eval_G_unweighted_refuted_witness. Qed.
Print Assumptions C12_gradient_unweighted_witness.

(* ---- the objective table of fg_setup.setup (hand model Proofs/C12Setup.v, tied by correspondence over all ten objectives) ---- *)
(* on every data value the objective's data check lets through and every model value not below the lower bound setup
   attaches, the gradient handle setup returns is the derivative of the loss handle it returns (nine objectives) *)
Theorem C12_setup_sound : forall o p x m, o <> NegativeBinomial -> param_ok o p ->
  valid_value (data_check o) x -> above_bound o m ->
  is_derive (fun m => loss o p x m) m (grad o p x m).
Proof. exact setup_sound. Qed.
Print Assumptions C12_setup_sound.

(* ---- A-34 setup: BEGIN block ---- *)
(* negative binomial (finding A-34, open): consistent for data = 1 only; the loss's true derivative on m >= 0 *)
Theorem C12_setup_negative_binomial_partial : forall p m, above_bound NegativeBinomial m ->
  is_derive (fun m => loss NegativeBinomial p 1 m) m (grad NegativeBinomial p 1 m) /\
  (forall x, is_derive (fun m => loss NegativeBinomial p x m) m ((p + x) / (1 + m) - x / (m + EPS))).
Proof. exact setup_negative_binomial. Qed.
Print Assumptions C12_setup_negative_binomial_partial.
(* ---- END A-34 setup block ---- *)

Theorem C12_setup_table :
  map bounded_below objectives = [false; true; false; true; false; true; true; false; true; true] /\
  map data_check objectives = [AnyData; Binary; Binary; Natural; Natural; Positive; Positive; AnyData; Positive; Positive] /\
  map needs_param objectives = [false; false; false; false; false; false; false; true; true; true] /\
  (forall d h, value_ok d false h = true -> valid_value d (IZR h / 2)).
Proof. exact setup_table_full. Qed.
Print Assumptions C12_setup_table.

(* ---- tie A for the table and for the split index: the same over the files generated from the source on this run ---- *)
(* whatever (loss, gradient, lower bound) the GENERATED fg_setup.setup returns — any objective but negative binomial, any
   data, any admissible parameter — the gradient is the derivative of the loss at every model value >= that bound *)
Theorem C12_setup_generated_sound : forall o data p fh gh lb,
  o <> GenFgSetup.NEGATIVE_BINOMIAL -> gparam_ok o p -> GenFgSetup.setup o data p = Some (fh, gh, lb) ->
  forall x m, lb_ok lb m -> is_derive (fun m => fh x m) m (gh x m).
Proof. exact gen_setup_sound. Qed.
Print Assumptions C12_setup_generated_sound.

(* T1 and T2 composed through the generated table (Proofs/C12EndToEnd.v): whatever (loss, gradient, bound) the GENERATED setup returns
   (any objective but negative binomial), the matrices fg.evaluate returns with that gradient handle are the exact partial derivatives of
   the objective it returns with that loss handle — unit-weight models whose entries respect the returned bound, any data, any weight array *)
Theorem C12_evaluate_setup_generated :
  forall (o : GenFgSetup.Objectives) (data : option GenFgSetup.datachk) (p : option R) (fh gh : R -> R -> R) (lb : GenFgSetup.lbound)
         (K : ktensor R) (X : dense R) (w : option (dense R)) (k j r : nat),
  o <> GenFgSetup.NEGATIVE_BINOMIAL -> gparam_ok o p -> GenFgSetup.setup o data p = Some (fh, gh, lb) ->
  (forall i, inb (kshape K) i = true -> lb_ok lb (den_k 0 1 Rplus Rmult K i)) ->
  (forall q, (q < krank K)%nat -> nth q (kweights K) 0 = 1) ->
  wf_k K -> (k < length (kfactors K))%nat -> (j < nrows (nth k (kfactors K) nil))%nat -> (r < krank K)%nat ->
  dshape X = kshape K ->
  is_derive (fun t => eval_F 0 1 Rplus Rmult fh (kset R K k (mset (nth k (kfactors K) nil) j r t)) X w)
            (mget 0 (nth k (kfactors K) nil) j r)
            (mget 0 (nth k (eval_G 0 1 Rplus Rmult gh K X w) nil) j r).
Proof. exact evaluate_gradient_setup_generated. Qed.
Print Assumptions C12_evaluate_setup_generated.

(* ... and the matrices fg_est.estimate returns are the exact partial derivatives of the estimated objective, every sample set *)
Theorem C12_estimate_setup_generated :
  forall (o : GenFgSetup.Objectives) (data : option GenFgSetup.datachk) (p : option R) (fh gh : R -> R -> R) (lb : GenFgSetup.lbound)
         (As : list (list (list R))) (Rk : nat) (subs : list idx) (xs ws : list R) (crng : list nat) (k j r : nat),
  o <> GenFgSetup.NEGATIVE_BINOMIAL -> gparam_ok o p -> GenFgSetup.setup o data p = Some (fh, gh, lb) ->
  (forall i, In i subs -> lb_ok lb (fac_val 0 1 Rplus Rmult As Rk i)) ->
  C12EstGrad.rows_len Rk As -> (k < length As)%nat -> (j < nrows (nth k As nil))%nat -> (r < Rk)%nat ->
  Forall (fun i => inb (map (@nrows R) As) i = true) subs ->
  is_derive (fun t => est_F 0 1 Rplus Rmult Rminus fh (upd As k (mset (nth k As nil) j r t)) Rk subs xs ws crng)
            (mget 0 (nth k As nil) j r)
            (mget 0 (nth k (est_G 0 1 Rplus Rmult Rminus gh As Rk subs xs ws crng (map (@nrows R) As)) nil) j r).
Proof. exact estimate_gradient_setup_generated. Qed.
Print Assumptions C12_estimate_setup_generated.

(* the hand table of Proofs/C12Setup.v is the generated one: handles, bound, parameter requirement, data-check column *)
Theorem C12_setup_table_generated : forall o p,
  (match GenFgSetup.setup (to_gen o) None (Some p) with
   | Some (fh, gh, lb) =>
       (forall x m, fh x m = loss o p x m) /\ (forall x m, gh x m = grad o p x m) /\
       lb = (if bounded_below o then GenFgSetup.Finite 0 else GenFgSetup.NegInf)
   | None => False
   end /\ (GenFgSetup.setup (to_gen o) None None = None <-> needs_param o = true)) /\
  (forall d : GenFgSetup.datachk,
     GenFgSetup.setup (to_gen o) (Some d) (Some p) = None <->
     match data_check o with
     | AnyData => true | Binary => GenFgSetup.valid_binary d | Natural => GenFgSetup.valid_natural d
     | Positive => GenFgSetup.valid_nonneg d
     end = false).
Proof. exact setup_table_generated_full. Qed.
Print Assumptions C12_setup_table_generated.

(* the split index of C12_mttkrps_py_eq is the one the GENERATED tensor.min_split returns *)
Theorem C12_min_split_generated : forall s : shape, s <> nil -> Forall (fun d => 1 <= d)%nat s ->
  GenKernels.min_split (map Z.of_nat s) = NpZ.Ok (Z.of_nat (min_split s)).
Proof. exact min_split_is_generated. Qed.
Print Assumptions C12_min_split_generated.

(* the Khatri-Rao row lists of the byte-level mttkrps (kr_rev) are what the GENERATED pyttb.khatrirao returns for reverse=True *)
Theorem C12_khatrirao_generated : forall (R : nat) (Bs : list (list (list Z))),
  Bs <> nil -> (1 <= R)%nat -> Forall (fun B => B <> nil /\ C02DenseProofs.wf_cols Z R B) Bs ->
  GenKernels.khatrirao Bs true = NpZ.Ok (C02Dense.kr_rev Z.mul Bs).
Proof. exact khatrirao_generated_kr_rev. Qed.
Print Assumptions C12_khatrirao_generated.

(* ---- tensor.mttkrps over the GENERATED helpers (Gen/GenKernels3.v mttv_left / mttv_mid, Gen/GenKernels.v khatrirao, regenerated from
   pyttb/tensor.py and pyttb/khatrirao.py on this run; Proofs/C12GenMttv.v) ---------------------------------------------------------
   the generated mttv_left returns the byte-level contraction of the leading mode (mttv_left_b of C12_mttkrps_bytes): every partial
   result W with d * m rows and R >= 1 columns, every factor matrix with d >= 1 rows and R columns *)
Theorem C12_mttv_left_generated : forall (W U1 : list (list Z)) (R d m : nat),
  (1 <= R)%nat -> (1 <= d)%nat -> length U1 = d -> C02DenseProofs.wf_cols Z R U1 -> length W = (d * m)%nat -> C02DenseProofs.wf_cols Z R W ->
  GenKernels3.mttv_left W U1 = NpZ.Ok (mttv_left_b Z 0%Z Z.add Z.mul W U1).
Proof. exact C12GenMttv.mttv_left_generated. Qed.
Print Assumptions C12_mttv_left_generated.

(* the generated mttv_mid (which calls the generated khatrirao) returns the byte-level contraction of all trailing modes at once *)
Theorem C12_mttv_mid_generated : forall (W : list (list Z)) (Bs : list (list (list Z))) (R m : nat),
  (1 <= R)%nat -> Bs <> nil -> Forall (fun B => B <> nil /\ C02DenseProofs.wf_cols Z R B) Bs ->
  length W = (m * length (C02Dense.kr_rev Z.mul Bs))%nat -> C02DenseProofs.wf_cols Z R W ->
  GenKernels3.mttv_mid W Bs = NpZ.Ok (mttv_mid_b Z 0%Z Z.add Z.mul W Bs).
Proof. exact C12GenMttv.mttv_mid_generated. Qed.
Print Assumptions C12_mttv_mid_generated.

(* the body of tensor.mttkrps with every mttv_left / mttv_mid / khatrirao call going to the generated functions (mttkrps_g: only the
   two initial reshape(...).dot(K) contractions and the two `for` sweeps are hand-transliterated) returns Ok of the per-mode MTTKRPs
   of the array the flat F-order list denotes: every well-formed integer array with positive sizes, R >= 1, EVERY split index *)
Theorem C12_mttkrps_generated : forall (T : dense Z) (As : list (list (list Z))) (R sp : nat),
  (1 <= R)%nat -> wf_dense T -> Forall (fun d => 1 <= d)%nat (dshape T) -> fdims Z R As (dshape T) -> (S sp < length (dshape T))%nat ->
  C12GenMttv.mttkrps_g (ddata T) As sp =
  NpZ.Ok (map (mttkrp_den 0%Z 1%Z Z.add Z.mul (dshape T) (den_dense 0%Z T) As R) (seq 0 (length (dshape T)))).
Proof. exact C12GenMttv.mttkrps_generated. Qed.
Print Assumptions C12_mttkrps_generated.

(* ... as called, at split_idx = min_split(self.shape) (= the generated min_split, C12_min_split_generated) *)
Theorem C12_mttkrps_generated_py : forall (T : dense Z) (As : list (list (list Z))) (R : nat),
  (1 <= R)%nat -> wf_dense T -> Forall (fun d => 1 <= d)%nat (dshape T) -> fdims Z R As (dshape T) -> (2 <= length (dshape T))%nat ->
  C12GenMttv.mttkrps_g (ddata T) As (min_split (dshape T)) =
  NpZ.Ok (map (mttkrp_den 0%Z 1%Z Z.add Z.mul (dshape T) (den_dense 0%Z T) As R) (seq 0 (length (dshape T)))).
Proof. exact C12GenMttv.mttkrps_generated_py. Qed.
Print Assumptions C12_mttkrps_generated_py.

(* ... with the split index ALSO computed by the generated tensor.min_split (mttkrps_gen = min_split, then mttkrps_g): every helper call
   of tensor.mttkrps is then a generated function *)
Theorem C12_mttkrps_generated_split : forall (T : dense Z) (As : list (list (list Z))) (R : nat),
  (1 <= R)%nat -> wf_dense T -> Forall (fun d => 1 <= d)%nat (dshape T) -> fdims Z R As (dshape T) -> (2 <= length (dshape T))%nat ->
  C12GenMttvPy.mttkrps_gen (dshape T) (ddata T) As =
  NpZ.Ok (map (mttkrp_den 0%Z 1%Z Z.add Z.mul (dshape T) (den_dense 0%Z T) As R) (seq 0 (length (dshape T)))).
Proof. exact C12GenMttvPy.mttkrps_gen_spec. Qed.
Print Assumptions C12_mttkrps_generated_split.

(* fg.evaluate's gradient branch `ttb.tensor(Y).mttkrps(model.factor_matrices)` with Y = gradient_handle(data, full) * weights: the
   generated-helper mttkrps run on the flat F-order value list of the derivative array returns exactly the model eval_G about which
   C12_gradient / C12_gradient_weighted are stated — any element-wise derivative g, weight array, admissible split index *)
Theorem C12_evaluate_G_generated : forall (g : Z -> Z -> Z) (K : ktensor Z) (X : dense Z) (w : option (dense Z)) (sp : nat),
  (1 <= krank K)%nat -> Forall (fun d => 1 <= d)%nat (dshape X) -> fdims Z (krank K) (kfactors K) (dshape X) ->
  (S sp < length (dshape X))%nat ->
  C12GenMttv.mttkrps_g (ddata (tabulate (dshape X) (eval_Y 0%Z 1%Z Z.add Z.mul g K X w))) (kfactors K) sp =
  NpZ.Ok (eval_G 0%Z 1%Z Z.add Z.mul g K X w).
Proof. exact C12GenMttv.evaluate_G_generated. Qed.
Print Assumptions C12_evaluate_G_generated.

(* the executable harness model of estimate(lambda_check=True) (weights absorbed into mode 0 when some weight is not 1) is an instance of
   C12_lambda_exact: on every subscript once with unit sample weights it is the exact objective of the WEIGHTED model — the identity the
   correspondence stream checks numerically against pyttb (op estimate_lam, mode full) *)
Theorem C12_lambda_harness_exact : forall (id : nat) (lam : list Z) (As : list (list (list Z))) (X : dense Z),
  (1 <= length As)%nat -> C12LambdaZ.rows_len (length lam) As -> wf_dense X -> dshape X = map nrows As ->
  C12Harness.zest_lam_F id true lam As (length lam) (allsubs (dshape X)) (ddata X) (repeat 1%Z (size (dshape X))) nil =
  C12Harness.zeval_F id (mkK lam As) X None.
Proof. exact C12LambdaZ.zest_lam_exact. Qed.
Print Assumptions C12_lambda_harness_exact.

(* non-vacuity: the domain hypotheses are satisfiable and the derivative values are not trivially 0 *)
Example C12_example_poisson : is_derive (fun m => poisson 3 m) 2 (1 - 3 / (2 + EPS)).
Proof. exact (poisson_deriv 3 2 ltac:(lra)). Qed.
Example C12_example_huber_kink : is_derive (fun m => huber 5 m 2) 3 (-4).
Proof.
  replace (-4) with (huber_grad 5 3 2).
  - apply huber_deriv. lra.
  - rewrite huber_grad_outer by (replace (5 - 3) with 2 by ring; rewrite Rabs_right by lra; lra).
    replace (5 - 3) with 2 by ring. rewrite sgnR_pos by lra. ring.
Qed.

(* T2 on a concrete non-symmetric instance over Z: 2x3 data, rank 2, loss (m - x)^2 with derivative 2(m - x):
   the full unit-weight sample reproduces the exact evaluation, and the values are not trivial *)
Example C12_example_tensor :
  let As := [[[1; 2]; [0; -1]]; [[1; 0]; [2; 1]; [-1; 3]]]%Z in
  let X := mkDense [2; 3]%nat [3; 0; -1; 2; 0; 5]%Z in
  let f := fun x m => ((m - x) * (m - x))%Z in
  let g := fun x m => (2 * (m - x))%Z in
  eval_F 0%Z 1%Z Z.add Z.mul f (mkK [1; 1]%Z As) X None = 127%Z /\
  est_F 0%Z 1%Z Z.add Z.mul Z.sub f As 2 (allsubs [2; 3]%nat) (ddata X) (repeat 1%Z 6) nil = 127%Z /\
  eval_G 0%Z 1%Z Z.add Z.mul g (mkK [1; 1]%Z As) X None =
  est_G 0%Z 1%Z Z.add Z.mul Z.sub g As 2 (allsubs [2; 3]%nat) (ddata X) (repeat 1%Z 6) nil [2; 3]%nat.
Proof. vm_compute. repeat split; reflexivity. Qed.

(* the mttkrps algorithm on a skewed 4-way instance, split indices 0 and 2 (more than one matrix in the middle Khatri-Rao product) *)
Example C12_example_mttkrps :
  let s := [3; 2; 2; 2]%nat in
  let Y := fun i : idx => (Z.of_nat (sub2ind s i) * Z.of_nat (sub2ind s i) - 7)%Z in
  let As := [[[1; 2]; [0; -1]; [2; 1]]; [[1; 0]; [2; 1]]; [[-1; 3]; [1; 1]]; [[2; -1]; [0; 3]]]%Z in
  mttkrps_alg Z 0%Z 1%Z Z.add Z.mul s Y As 2 0 = map (mttkrp_den 0%Z 1%Z Z.add Z.mul s Y As 2) (seq 0 4) /\
  mttkrps_alg Z 0%Z 1%Z Z.add Z.mul s Y As 2 2 = map (mttkrp_den 0%Z 1%Z Z.add Z.mul s Y As 2) (seq 0 4) /\
  nth 1 (mttkrps_alg Z 0%Z 1%Z Z.add Z.mul s Y As 2 0) nil <> nth 2 (mttkrps_alg Z 0%Z 1%Z Z.add Z.mul s Y As 2 0) nil.
Proof. vm_compute. repeat split; try reflexivity. discriminate. Qed.
Example C12_example_setup :
  is_derive (fun m => loss Rayleigh 0 (3 / 2) m) 0 (grad Rayleigh 0 (3 / 2) 0) /\
  setup_accepts BernoulliOdds false (Some (false, [0; 2; 1]%Z)) = false /\
  setup_accepts BernoulliOdds false (Some (false, [0; 2; 2]%Z)) = true /\
  setup_accepts Poisson false (Some (true, [4; 6]%Z)) = true /\
  setup_accepts Huber false None = false.
Proof. exact setup_example. Qed.
