(* Proofs/C01Tucker.v — ttensor.full: multiplying the core by the factor matrices mode by mode yields den_t. *)
From Coq Require Import List Arith Lia Bool Permutation Ring.
From PV Require Import Base.Index Base.Perm Base.Sum Np.Array Model.Sparse Model.Repr Model.C07Ops Model.C01Conv Proofs.C01Proofs.
Import ListNotations.

Lemma set_nth_app (a b : list nat) y x : set_nth (a ++ y :: b) (length a) x = a ++ x :: b.
Proof. induction a as [|z a IH]; cbn; auto. now rewrite IH. Qed.

Lemma nth_app_mid (a b : list nat) y : nth (length a) (a ++ y :: b) 0 = y.
Proof. induction a as [|z a IH]; cbn; auto. Qed.

Section Tk.
Variable V : Type.
Variables (v0 v1 : V) (vadd vmul vsub : V -> V -> V) (vopp : V -> V).
Hypothesis Vring : ring_theory v0 v1 vadd vmul vsub vopp (@eq V).
Add Ring Vr01t : Vring.
Notation mat := (matrix (V:=V)).
Notation sumo := (sum_over v0 vadd).
Notation sumn := (sum_n v0 vadd).

Lemma sum_allsubs_cons d s (g : idx -> V) :
  sumo (allsubs (d :: s)) g = sumo (allsubs s) (fun j' => sumn d (fun x => g (x :: j'))).
Proof.
  unfold allsubs. rewrite !(sum_over_map V v0 vadd). rewrite size_cons.
  change (sumo (seq 0 (d * size s)) (fun a => g (ind2sub (d :: s) a))) with (sumn (d * size s) (fun a => g (ind2sub (d :: s) a))).
  rewrite (sum_n_mul V v0 v1 vadd vmul vsub vopp Vring).
  apply (sum_n_ext V v0 vadd). intros j Hj. apply (sum_n_ext V v0 vadd). intros x Hx. f_equal.
  assert (Hin : inb (d :: s) (x :: ind2sub s j) = true).
  { cbn [inb]. apply Nat.ltb_lt in Hx. rewrite Hx. cbn. now apply inb_ind2sub. }
  rewrite <- (ind2sub_sub2ind (d :: s) (x :: ind2sub s j) Hin). f_equal. cbn [sub2ind]. now rewrite sub2ind_ind2sub.
Qed.

Lemma ttm_all_wf (Us : list mat) X n : wf_dense X -> wf_dense (ttm_all v0 vadd vmul X Us n).
Proof. revert X n; induction Us as [|U Us IH]; intros X n W; cbn [ttm_all]; auto. apply IH. apply wf_tabulate. Qed.

Lemma ttm_all_shape (Us : list mat) : forall (a c : shape) (X : dense V),
  dshape X = a ++ c -> length c = length Us ->
  dshape (ttm_all v0 vadd vmul X Us (length a)) = a ++ map (nrows (V:=V)) Us.
Proof.
  induction Us as [|U Us IH]; intros a c X Hs Hc.
  - destruct c; [|discriminate]. exact Hs.
  - destruct c as [|d c']; [discriminate|]. cbn [length] in Hc. cbn [ttm_all map].
    set (X' := ttm_mode v0 vadd vmul X U (length a)).
    assert (Hs' : dshape X' = (a ++ [nrows U]) ++ c').
    { unfold X', ttm_mode. rewrite dshape_tabulate, Hs, set_nth_app, <- app_assoc. reflexivity. }
    assert (HL : S (length a) = length (a ++ [nrows U])) by (rewrite app_length; cbn; lia).
    rewrite HL, (IH (a ++ [nrows U]) c' X' Hs') by lia. now rewrite <- app_assoc.
Qed.

Lemma ttm_all_den (Us : list mat) : forall (a c : shape) (X : dense V) (ia ic : idx),
  dshape X = a ++ c -> length c = length Us -> length ia = length a ->
  inb (a ++ map (nrows (V:=V)) Us) (ia ++ ic) = true ->
  dshape (ttm_all v0 vadd vmul X Us (length a)) = a ++ map (nrows (V:=V)) Us /\
  den_dense v0 (ttm_all v0 vadd vmul X Us (length a)) (ia ++ ic) =
    sumo (allsubs c) (fun j => vmul (tprod v0 v1 vmul Us ic j) (den_dense v0 X (ia ++ j))).
Proof.
  induction Us as [|U Us IH]; intros a c X ia ic Hs Hc Hia Hin.
  - destruct c; [|discriminate]. cbn [ttm_all map]. split; [exact Hs|].
    rewrite inb_app in Hin by auto. apply andb_true_iff in Hin as [_ Hic]. destruct ic; [|discriminate].
    unfold allsubs. cbn [size fold_right seq map]. rewrite sum_over_cons, sum_over_nil. cbn [tprod ind2sub]. ring.
  - destruct c as [|d c']; [discriminate|]. cbn [length] in Hc.
    rewrite inb_app in Hin by auto. apply andb_true_iff in Hin as [Hba Hic].
    destruct ic as [|x ic']; [discriminate|]. cbn [map inb] in Hic. apply andb_true_iff in Hic as [Hx Hic'].
    cbn [ttm_all]. set (X' := ttm_mode v0 vadd vmul X U (length a)).
    assert (Hs' : dshape X' = (a ++ [nrows U]) ++ c').
    { unfold X', ttm_mode. rewrite dshape_tabulate, Hs, set_nth_app, <- app_assoc. reflexivity. }
    assert (HL : S (length a) = length (a ++ [nrows U])) by (rewrite app_length; cbn; lia).
    rewrite HL.
    assert (Hin' : inb ((a ++ [nrows U]) ++ map (nrows (V:=V)) Us) ((ia ++ [x]) ++ ic') = true).
    { rewrite <- !app_assoc. cbn [app]. rewrite inb_app by auto. cbn [inb]. now rewrite Hba, Hx, Hic'. }
    destruct (IH (a ++ [nrows U]) c' X' (ia ++ [x]) ic' Hs' ltac:(lia) ltac:(rewrite !app_length; cbn; lia) Hin') as [Sh Dn].
    split; [rewrite Sh, <- app_assoc; reflexivity|].
    replace (ia ++ x :: ic') with ((ia ++ [x]) ++ ic') by (now rewrite <- app_assoc).
    rewrite Dn. rewrite sum_allsubs_cons.
    apply (sum_over_ext V v0 vadd). intros j' Hj'. apply in_allsubs in Hj'.
    (* the entry of the one-mode product *)
    assert (Hb : inb (a ++ nrows U :: c') (ia ++ x :: j') = true).
    { rewrite inb_app by auto. cbn [inb]. now rewrite Hba, Hx, Hj'. }
    rewrite <- app_assoc. cbn [app]. unfold X' at 1. unfold ttm_mode. rewrite Hs, set_nth_app.
    rewrite den_tabulate by exact Hb.
    rewrite nth_app_mid. unfold sum_n.
    rewrite <- (sum_over_scale_l V v0 v1 vadd vmul vsub vopp Vring).
    apply (sum_over_ext V v0 vadd). intros y _.
    rewrite <- Hia, nth_app_mid, set_nth_app. cbn [tprod]. ring.
Qed.

Theorem ttensor_full_correct (T : ttensor V) : wf_dense (tcore T) -> length (dshape (tcore T)) = length (tfactors T) ->
  wf_dense (ttensor_full v0 vadd vmul T) /\ dshape (ttensor_full v0 vadd vmul T) = tshape T /\
  forall i, den_dense v0 (ttensor_full v0 vadd vmul T) i = den_t v0 v1 vadd vmul T i.
Proof.
  intros W HN. unfold ttensor_full. split; [now apply ttm_all_wf|].
  assert (Hsh : dshape (ttm_all v0 vadd vmul (tcore T) (tfactors T) 0) = tshape T).
  { apply (ttm_all_shape (tfactors T) [] (dshape (tcore T)) (tcore T) eq_refl HN). }
  split; [exact Hsh|]. intros i. unfold den_t.
  destruct (inb (tshape T) i) eqn:Hi; [|apply den_dense_out; now rewrite Hsh].
  destruct (ttm_all_den (tfactors T) [] (dshape (tcore T)) (tcore T) [] i eq_refl HN eq_refl Hi) as [_ D].
  cbn [app length] in D. rewrite D. apply (sum_over_ext V v0 vadd). intros j _. ring.
Qed.

Lemma part_ok_tucker (T : ttensor V) : wf_dense (tcore T) -> length (dshape (tcore T)) = length (tfactors T) ->
  part_ok V v0 v1 vadd vmul (tshape T) (PT T).
Proof.
  intros W HN. destruct (ttensor_full_correct T W HN) as (W' & S' & D'). split; [exact W'|]. split; [exact S'|].
  intros i _. cbn [part_full part_den]. apply D'.
Qed.

End Tk.
