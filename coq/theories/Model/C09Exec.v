(* Model/C09Exec.v — Qc instance of the CP-ALS model and the boolean checkers evaluated by the generated correspondence
   cases (tools/props/c09.py). Exact rational arithmetic; the LAPACK solve is replaced by Gauss-Jordan elimination over Qc,
   the column scaling by the trivial one (C09_scaling_indep: the denoted model does not depend on it).
   Definitions only. *)
From Coq Require Import List Arith Bool ZArith QArith Qabs Qcanon.
From PV Require Import Base.Index Base.Sum Np.Array Model.Sparse Model.Repr Model.Harness Model.C09Als Model.C09Loop.
Import ListNotations.
Local Open Scope Qc_scope.

Definition qmx := @matrix Qc.
Definition qsub := Qcminus.
Definition z2q (z : Z) : Qc := Q2Qc (inject_Z z).

(* ---- data holders (integer-valued) as Qc denotations ---- *)
Definition xden_dense (T : dense Z) : idx -> Qc := fun i => z2q (zden T i).
Definition xden_sparse (S : sparse Z) : idx -> Qc := fun i => z2q (zden_sp S i).
Definition xden_tucker (T : ttensor Z) : idx -> Qc := fun i => z2q (zden_t T i).
Definition xden_kruskal (K : ktensor Z) : idx -> Qc := fun i => z2q (zden_k K i).
Definition xden_sum (parts : list (idx -> Qc)) : idx -> Qc := den_sum q0 Qcplus parts.
(* evaluate a denotation once per subscript and read it back from the table *)
Definition memo (s : shape) (X : idx -> Qc) : idx -> Qc := qden (tabulate s X).
Definition xscale (c : Qc) (X : idx -> Qc) : idx -> Qc := fun i => c * X i.

(* ---- instances of the spec-side quantities ---- *)
Definition q_mttkrp := mttkrp_den q0 q1 Qcplus Qcmult.
Definition q_mttkrp_mat := mttkrp_mat q0 q1 Qcplus Qcmult.
Definition q_inner := innerprod_den q0 Qcplus Qcmult.
Definition q_normsq := normsq_den q0 Qcplus Qcmult.
Definition q_resid := resid_den q0 Qcplus Qcmult Qcminus.
Definition q_gramhad := gramhad q0 q1 Qcplus Qcmult.
Definition q_ymat := ymat q0 q1 Qcplus Qcmult.
Definition q_mg := @mget Qc q0.
Definition q_sumn := sum_n q0 Qcplus.
Definition q_iprod := iprod_saved q0 Qcplus Qcmult.

Definition qcl (tol scale a b : Qc) : bool := qleb (qabs (a - b)) (tol * scale).
Definition qmaxl (l : list Qc) : Qc := fold_right (fun x m => qmax (qabs x) m) q0 l.
Definition qmaxmx (A : qmx) : Qc := qmaxl (concat A).
Definition range2 (I R : nat) : list (nat * nat) := list_prod (seq 0 I) (seq 0 R).

(* ---- Gauss-Jordan: solve A . Y = P for A  (rows of the augmented system Y^T | P^T) ---- *)
Fixpoint extract_pivot (c : nat) (rows : list (list Qc)) : option (list Qc * list (list Qc)) :=
  match rows with
  | [] => None
  | r :: rs =>
      if qisz (nth c r q0)
      then match extract_pivot c rs with Some (p, rs') => Some (p, r :: rs') | None => None end
      else Some (r, rs)
  end.
Fixpoint zipw (f : Qc -> Qc -> Qc) (a b : list Qc) : list Qc :=
  match a, b with x :: a', y :: b' => f x y :: zipw f a' b' | _, _ => [] end.
Definition elim (c : nat) (p r : list Qc) : list Qc := let f := nth c r q0 in zipw (fun a b => a - f * b) r p.
Fixpoint gj (cols : list nat) (done rest : list (list Qc)) : option (list (list Qc)) :=
  match cols with
  | [] => Some done
  | c :: cs =>
      match extract_pivot c rest with
      | None => None
      | Some (p, rest') =>
          let pv := nth c p q0 in
          let p' := map (fun x => x / pv) p in
          gj cs (map (elim c p') done ++ [p']) (map (elim c p') rest')
      end
  end.
Definition all_zero (Y : qmx) : bool := forallb qisz (concat Y).
(* None = singular nonzero system (numpy raises LinAlgError) *)
Definition qsolve_opt (R : nat) (Y P : qmx) : option qmx :=
  let I := length P in
  if all_zero Y then Some (tabmx I R (fun _ _ => q0))
  else
    let aug := map (fun r => map (fun c => q_mg Y c r) (seq 0 R) ++ map (fun i => q_mg P i r) (seq 0 I)) (seq 0 R) in
    match gj (seq 0 R) [] aug with
    | None => None
    | Some d => Some (tabmx I R (fun i r => nth (R + i) (nth r d []) q0))
    end.
Definition qsolve (R : nat) (Y P : qmx) : qmx := match qsolve_opt R Y P with Some A => A | None => [] end.
Definition ones (R : nat) : list Qc := repeat q1 R.
Definition noscale (R : nat) (it : nat) (A : qmx) : list Qc * qmx := (ones R, A).

(* exact ALS from factor list U0: k sweeps over dims, data X on shape s *)
Definition q_als (s : shape) (X : idx -> Qc) (R : nat) (dims : list nat) (k : nat) (U0 : list qmx) : als_state Qc :=
  als_iter q0 q1 Qcplus Qcmult (fun U n => q_mttkrp_mat s X U n R) (qsolve R) (noscale R) R k dims (mkAls (ones R) U0 []).

(* ---- observation checkers ---- *)
Definition k_shape_ok (s : shape) (R : nat) (K : ktensor Qc) : bool :=
  Nat.eqb (length (kweights K)) R && Nat.eqb (length (kfactors K)) (length s) &&
  forallb (fun n => wf_matrixb (nth n (kfactors K) []) (nth n s 0%nat) R) (seq 0 (length s)).

(* two denotations agree on every subscript of s within tol * max(1, max |reference|) *)
Definition den_close (tol : Qc) (s : shape) (obs ref : idx -> Qc) : bool :=
  let refs := map ref (allsubs s) in
  let sc := qmax q1 (qmaxl refs) in
  forallb (fun p => qcl tol sc (fst p) (snd p)) (combine (map obs (allsubs s)) refs).

(* the model reported by pyttb denotes what the exact model denotes *)
Definition model_close (tol : Qc) (s : shape) (K : ktensor Qc) (st : als_state Qc) : bool :=
  den_close tol s (qden_k K) (qden_k (st_model st)).

(* reported fit / residual norm against the recomputed residual:  normres^2 = ||X-M||^2  and  (1-fit)^2 ||X||^2 = ||X-M||^2 *)
Definition fit_ok (tol : Qc) (s : shape) (X : idx -> Qc) (K : ktensor Qc) (normres fit : Qc) : bool :=
  let nx := q_normsq s X in
  let rs := q_resid s X (qden_k K) in
  let sc := qmax q1 nx in
  qcl tol sc (normres * normres) rs && qcl tol sc ((q1 - fit) * (q1 - fit) * nx) rs && qleb q0 normres.
(* data whose norm is reported as 0 (sumtensor): the reported value is ||M||^2 - 2 <X,M> *)
Definition fit_ok_sum (tol : Qc) (s : shape) (X : idx -> Qc) (K : ktensor Qc) (normres fit : Qc) : bool :=
  let v := q_normsq s (qden_k K) - (q_inner s X (qden_k K) + q_inner s X (qden_k K)) in
  let sc := qmax q1 (qmax (qabs v) (q_normsq s (qden_k K))) in
  qcl tol sc normres v && qcl tol sc fit v.

(* normal equations of mode n on a model with weights:  (A_n diag(w)) . Y = P *)
Definition normal_eq_ok (tol : Qc) (s : shape) (X : idx -> Qc) (K : ktensor Qc) (n : nat) : bool :=
  let R := krank K in
  let As := kfactors K in
  let A := nth n As [] in
  let I := nth n s 0%nat in
  let P := q_mttkrp_mat s X As n R in
  let Y := q_ymat n As R in
  let wa := tabmx I R (fun j r => nth r (kweights K) q0 * q_mg A j r) in
  let sc := qmax q1 (qmax (qmaxmx P) (qmaxmx wa)) in
  forallb (fun jt => qcl tol sc (matmul_ent q0 Qcplus Qcmult R wa Y (fst jt) (snd jt)) (q_mg P (fst jt) (snd jt))) (range2 I R).

(* normal form after arrange: unit 2-norm columns (or zero columns), weights >= 0 in decreasing order *)
Definition colsq (A : qmx) (r : nat) : Qc := q_sumn (length A) (fun j => q_mg A j r * q_mg A j r).
Fixpoint descending (l : list Qc) : bool :=
  match l with x :: ((y :: _) as l') => qleb y x && descending l' | _ => true end.
Definition normal_form_ok (tol : Qc) (K : ktensor Qc) : bool :=
  forallb (fun A => forallb (fun r => let c := colsq A r in qcl tol q1 c q1 || qisz c) (seq 0 (krank K))) (kfactors K)
  && forallb (qleb q0) (kweights K) && descending (kweights K).

(* fits never get worse along the trace (tolerance absolute on the fit scale) *)
Fixpoint nondecreasing (tol : Qc) (l : list Qc) : bool :=
  match l with x :: ((y :: _) as l') => qleb x (y + tol) && nondecreasing tol l' | _ => true end.
Fixpoint nonincreasing (tol : Qc) (l : list Qc) : bool :=
  match l with x :: ((y :: _) as l') => qleb y (x + tol * qmax q1 (qabs x)) && nonincreasing tol l' | _ => true end.

Definition qlist_eqb (a b : list Qc) : bool := list_eqb Qc_eq_bool a b.
Definition qmx_eqb (a b : qmx) : bool := list_eqb qlist_eqb a b.
Definition qk_eqb (a b : ktensor Qc) : bool := qlist_eqb (kweights a) (kweights b) && list_eqb qmx_eqb (kfactors a) (kfactors b).

(* one mode update certified from recorded states: U_before, mode n, the scaled new factor An and the weights hint w:
   (An diag(w)) . Y(U_before) = mttkrp(X, U_before, n), all other factors unchanged, w > 0 *)
Definition update_ok (tol : Qc) (s : shape) (X : idx -> Qc) (R : nat) (Ub Ua : list qmx) (n : nat) (w : list Qc) : bool :=
  normal_eq_ok tol s X (mkK w (upd Ub n (nth n Ua []))) n &&
  forallb (fun m => Nat.eqb m n || qmx_eqb (nth m Ub []) (nth m Ua [])) (seq 0 (length s)) &&
  forallb (fun x => qleb q0 x) w.

(* iteration count: the run limited to m iterations reports min(m-1, first k >= 1 with |fit_k - fit_{k-1}| < stoptol);
   trace = fits of the runs limited to 1, 2, 3, ... iterations from the same start *)
Definition qltb (x y : Qc) : bool := negb (qleb y x).
Fixpoint first_stop (tol prev : Qc) (l : list Qc) (k : nat) : option nat :=
  match l with
  | [] => None
  | x :: l' => if qltb (qabs (prev - x)) tol then Some k else first_stop tol x l' (S k)
  end.
(* the proven outer-loop state machine (Model/C09Loop.v) driven by the observed fit trace: state = number of sweeps done *)
Definition loop_iters (tol : Qc) (trace : list Qc) (m : nat) : option nat :=
  match cpals_run (fun (_ : nat) (k : nat) => S k) (fun k => (q0, nth (k - 1) trace q0)) (fun _ => (q0, q0))
                  (fun fitold fit stoptol => qltb (qabs (fitold - fit)) stoptol) q0 (fun k => k) (fun k => k)
                  tol 0%nat 0%nat m false with
  | Some r => Some (r_iters r)
  | None => None
  end.
Definition expected_iters (tol : Qc) (trace : list Qc) (m : nat) : nat :=
  match trace with
  | [] => 0%nat
  | t0 :: l => match first_stop tol t0 (firstn (m - 1) l) 1 with Some k => k | None => (m - 1)%nat end
  end.
Definition iters_ok (tol : Qc) (trace : list Qc) (ms its : list nat) : bool :=
  forallb (fun p => match loop_iters tol trace (fst p) with Some k => Nat.eqb k (snd p) | None => false end
                    && Nat.eqb (expected_iters tol trace (fst p)) (snd p)) (combine ms its).
