(* Props/C18W5c.v — C18 wave 5: verbosity clause for the whole hosvd function as GENERATED (Gen/GenHosvdFull.v, unit of w5-skel,
   regenerated from /repo on every run; kernels arbitrary).  Only statements, `exact`, Print Assumptions. *)
From Coq Require Import String List Arith Bool.
From PV Require Import Model.W4SPrelude Gen.GenHosvdFull Proofs.C18GenPrintHosvdFull.
Import ListNotations.
Local Open Scope nat_scope.

(* the ttensor returned by the generated hosvd (argument checks, defaults, threshold, mode loop, final core) - or the exception - is the
   same for any two verbosities *)
Theorem C18_gen_print_hosvd_full : forall (T_V T_X T_Tensor T_Mat T_TT : Type) (c_leV : T_V -> T_V -> bool) (c_zeroV : T_V)
  (c_addV : T_V -> T_V -> T_V) (c_emptyMat : T_Mat) (k_ndims : T_X -> nat) (k_not_permutation : nat -> list nat -> bool)
  (k_normsqr : T_X -> T_V) (k_thresh : T_V -> T_V -> nat -> T_V) (k_as_tensor : T_X -> T_Tensor) (k_unfold : T_Tensor -> nat -> T_Mat)
  (k_gram : T_Mat -> T_Mat) (k_eigh : T_Mat -> list T_V * T_Mat) (k_argsort_desc : list T_V -> list nat)
  (k_take : list T_V -> list nat -> list T_V) (k_select_cols : T_Mat -> list nat -> T_Mat)
  (k_shrink : T_Tensor -> list T_Mat -> nat -> T_Tensor) (k_ttm_all_t : T_Tensor -> list T_Mat -> T_Tensor)
  (k_ttensor : T_Tensor -> list T_Mat -> T_TT) X tol (v1 v2 : T_V) dimorder sequential ranks,
  GenHosvdFull.hosvd_full T_V T_X T_Tensor T_Mat T_TT c_leV c_zeroV c_addV c_emptyMat k_ndims k_not_permutation k_normsqr
    k_thresh k_as_tensor k_unfold k_gram k_eigh k_argsort_desc k_take k_select_cols k_shrink k_ttm_all_t k_ttensor
    X tol v1 dimorder sequential ranks =
  GenHosvdFull.hosvd_full T_V T_X T_Tensor T_Mat T_TT c_leV c_zeroV c_addV c_emptyMat k_ndims k_not_permutation k_normsqr
    k_thresh k_as_tensor k_unfold k_gram k_eigh k_argsort_desc k_take k_select_cols k_shrink k_ttm_all_t k_ttensor
    X tol v2 dimorder sequential ranks.
Proof. exact gen_hosvd_full_print_indep. Qed.

Print Assumptions C18_gen_print_hosvd_full.
