(* Proofs/C03Ord0b.v — wave 5: more order-0 paths.  On pyttb's only order-0 sparse tensor E0 (shape (), nothing stored) the paths
   that ENUMERATE the shape through the generated tt_setdiff_rows (__ne__ scalar, __eq__ scalar -> logical_not, / scalar with the NaN
   fill) return the empty container as well: allsubs() of shape () is one zero-width row in numpy's reading (Base/Index.v) and no row
   in pyttb's, and the generated helper selects nothing from either.  Dense operand D0 = tensor(): the gather paths (product and logical_and). *)
From Coq Require Import List ZArith Bool.
From PV Require Import Base.Index Base.Sum Np.NpZ Np.Array Gen.GenUtils Model.Sparse Model.Repr Model.Harness Model.C03Ops
                       Model.C03Gen Model.C03More Model.C03Gen2 Model.C03Src Model.C03Ord0 Proofs.C03Ord0.
Import ListNotations.
Local Open Scope Z_scope.

Lemma order0_enumerating :
  gen_diff (allsubs []) [] = Ok [] /\ gen_diff (allsubsP []) [] = Ok [] /\
  (forall c, impl_ne_scalar_gen 1 Z.eqb zisz E0 c = Ok E0) /\
  (forall c, impl_eq_scalar_src zisz 1 Z.eqb E0 c = Ok E0) /\
  (forall c, impl_div_scalar_gen zisz xdivz XNaN E0 c = Ok EX0) /\
  impl_mul_dense 0 zisz Z.mul E0 D0 = E0 /\ impl_and_dense 0 zisz 1 E0 D0 = E0.
Proof.
  repeat split; try (vm_compute; reflexivity); intros c.
  - unfold impl_ne_scalar_gen. destruct (zisz c); vm_compute; reflexivity.
  - unfold impl_eq_scalar_src. destruct (zisz c); vm_compute; reflexivity.
  - unfold impl_div_scalar_gen. destruct (zisz c); vm_compute; reflexivity.
Qed.
