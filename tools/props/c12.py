"""C12 — GCP losses, gradients and their tensor-level evaluation are mutually consistent (DESIGN §C12)."""
import math
from fractions import Fraction

from vcheck import Case, gz, gzlist, gnlist, gnmat, gnat, gopt, gq
import tgen
from props import c12_util as U

PROP = "C12"
LEVEL = "proof"
GEN_UNITS = ["GenHandles", "GenFgSetup", "GenKernels"]
COQ_TARGETS = ["Props/C12.vo", "Model/C12Harness.vo", "Proofs/C12Mttkrps.vo", "Proofs/C12Setup.vo", "Proofs/C12GenTie.vo", "Model/Harness.vo"]
THEOREM_FILES = ["Props/C12.v"]
COQ_IMPORTS = ("From Coq Require Import List ZArith Bool QArith Qcanon.\n"
               "From PV Require Import Base.Index Np.Array Model.Sparse Model.Repr Model.Harness Model.C12Gcp Model.C12Harness Proofs.C12Mttkrps.\n"
               "Set Warnings \"-ambiguous-paths\".\nFrom PV Require Import Proofs.C12Setup.\n")
RULE = ("N-way shapes (N = 2..4, sizes 1..4, singleton modes, <= 48 cells) plus skewed 4-way shapes on both sides of min_split "
        "((6,2,2,3), (2,2,3,8), (4,1,2,2), (2,2,2,5)) and 5-way shapes, ranks 1..3, integer factors / data / masks, "
        "component-weight vectors all-ones / mixed (some exactly 1, some not) / all-non-unit under lambda_check True and False, "
        "4 polynomial (loss, derivative) pairs so float64 results are exact; samples with repeats and correction ranges; "
        "the ten real losses at a grid of rational points through an evaluator of the generated Gallina text; "
        "non-trivial = more than one cell and data and factors not all zero; distinct = distinct (op,args)")
EXPLANATION = ("T1 theorems are stated over Gen/GenHandles.v, regenerated from pyttb/gcp/handles.py on this run. "
               "R is not computable in Coq, so the numeric tie of the ten real handles is: the generated Gallina text is "
               "parsed and evaluated by tools/props/c12_util.py (an evaluator independent of the translator) and compared at "
               "1e-9 with pyttb's handles at the same points. fg.evaluate / fg_est.estimate / tensor.mttkrps are compared "
               "exactly (integers) with the executable model Model/C12Gcp.v, about which T2 is proved; estimate_lam = fg_est.estimate on "
               "models with all-ones / mixed / all-non-unit component weights under both lambda_check settings, compared with the exact "
               "evaluation of the same model (1e-9, the normalisation introduces square roots); setup = fg_setup.setup over all ten "
               "objectives against the table of Proofs/C12Setup.v.")
CORRESPONDENCE_ONLY = ["tensor.mttkrps: the byte-level numpy reshapes (the split / partial-contraction algorithm itself is proved equal to the "
                       "per-mode definition for every split index in Proofs/C12Mttkrps.v at the level of partial contractions; that model, "
                       "evaluated at min_split, is compared with pyttb on generated inputs incl. skewed 4-way and 5-way shapes)",
                       "fg_setup.setup: the executable acceptance check on concrete data (value classes) is a hand model tied by correspondence; "
                       "the table itself (handles, bound, parameter, which valid_* flag) is proved equal to the generated Gen/GenFgSetup.v",
                       "fg_est.estimate(lambda_check=True): ktensor.normalize(0) is taken as 'unit column norms, weight * norms absorbed into mode 0' "
                       "(norms computed by the harness), everything downstream is the exact model"]
ASSUMPTIONS = ["models have at least two modes (fg.evaluate and fg_est.estimate raise on 1-way models)",
               "real functions ln/exp/PI are the mathematical ones; EPS is the exact rational 1/10^10; IEEE rounding not modelled"]

NFID = 4


def _rand_factors(rng, shape, R, lo=-2, hi=2):
    return [[[rng.randint(lo, hi) for _ in range(R)] for _ in range(d)] for d in shape]


def gen_cases(rng, tier):
    big = tier == "thorough"
    cases = []
    shapes = [s for s in tgen.shapes_upto(8, maxn=3, minn=2)]
    shapes += [tuple(tgen.rand_shape(rng, maxn=4, maxcells=48, maxdim=4, minn=2)) for _ in range(60 if big else 14)]
    # >= 4 modes with skewed sizes (min_split = 0 / 2 / 3: two or more matrices in the middle Khatri-Rao product of mttkrps) and 5 modes
    many = [(6, 2, 2, 3), (2, 2, 3, 8), (4, 1, 2, 2), (2, 2, 2, 5), (2, 2, 2, 2, 2), (2, 3, 2, 3, 2), (2, 1, 2, 2, 3), (1, 2, 2, 2, 6)]
    if big:
        many += [(3, 1, 1, 2, 2), (7, 2, 3, 2), (2, 3, 2, 9), (2, 2, 2, 2, 3), (2, 2, 1, 2, 2, 2)]
        many += [tuple(rng.choice([1, 2, 2, 3]) for _ in range(5)) for _ in range(6)]
    shapes += many
    for shp in shapes:
        n = math.prod(shp)
        for rep in range(2 if big else 1):
            R = rng.randint(1, 3) if n <= 48 else rng.randint(1, 2)
            fac = _rand_factors(rng, shp, R)
            lam = [1] * R if rng.random() < 0.6 else [rng.randint(-2, 3) for _ in range(R)]
            data = tgen.rand_dense(rng, shp, rng.choice([0.3, 0.7, 1.0]), -3, 4)
            mask = rng.choice([None, "01", "int"])
            w = None if mask is None else [rng.randint(0, 1) if mask == "01" else rng.randint(-1, 2) for _ in range(n)]
            fid = rng.randrange(NFID)
            nt = n > 1 and any(data) and any(any(any(r) for r in A) for A in fac)
            sparse_data = rng.random() < 0.3
            cases.append(Case("evaluate", {"shape": list(shp), "R": R, "factors": fac, "lam": lam, "data": data,
                                           "w": w, "fid": fid, "sparse": sparse_data}, nt))
            # sampled estimator: random sample with repeats, integer weights, optional correction range
            ns = rng.randint(1, 7)
            subs = [[rng.randrange(d) for d in shp] for _ in range(ns)]
            xs = [rng.randint(-3, 4) for _ in range(ns)]
            ws = [rng.randint(-1, 3) for _ in range(ns)]
            crng = None if rng.random() < 0.5 else list(range(rng.randint(0, ns)))
            cases.append(Case("estimate", {"shape": list(shp), "R": R, "factors": fac, "lam": lam, "subs": subs,
                                           "xs": xs, "ws": ws, "crng": crng, "fid": rng.randrange(NFID)}, nt))
            # estimator on every subscript once with unit weights == exact evaluation
            cases.append(Case("estimate_full", {"shape": list(shp), "R": R, "factors": fac, "data": data,
                                                "fid": rng.randrange(NFID)}, nt))
            cases.append(Case("mttkrps", {"shape": list(shp), "R": R, "factors": fac, "data": data}, nt))
    # fg_est.estimate and the model's component weights: all-ones / mixed / all-non-unit under both lambda_check settings,
    # on the full subscript set with unit sample weights (compared with the exact evaluation of the same model) and on samples
    lam_shapes = [(2, 3), (3, 2, 2), (2, 2, 3), (4, 2), (2, 2, 2, 2), (3, 1, 2)]
    for shp in lam_shapes if not big else lam_shapes * 3 + [(2, 3, 4), (5, 2)]:
        n = math.prod(shp)
        for R in ((2, 3) if not big else (1, 2, 3)):
            for kind in ("ones", "mixed", "mixed", "nonunit"):
                if kind == "ones":
                    lam = [1] * R
                elif kind == "nonunit":
                    lam = [rng.choice([-2, 2, 3, 5]) for _ in range(R)]
                else:
                    lam = [1] + [rng.choice([-3, 2, 3, 4]) for _ in range(R - 1)]
                    rng.shuffle(lam)
                    if R >= 3 and rng.random() < 0.5:
                        lam[rng.randrange(R)] = 1
                    if R == 1:
                        lam = [rng.choice([2, -3])]
                fac = _rand_factors(rng, shp, R, -2, 3)
                if rng.random() < 0.8:          # no all-zero columns most of the time
                    for A in fac:
                        for r in range(R):
                            if not any(row[r] for row in A):
                                A[0][r] = 1
                data = tgen.rand_dense(rng, shp, 0.8, -3, 4)
                for lcheck in (True, False):
                    fid = rng.randrange(NFID)
                    cases.append(Case("estimate_lam", {"shape": list(shp), "R": R, "factors": fac, "lam": lam, "lcheck": lcheck,
                                                       "mode": "full", "data": data, "fid": fid, "kind": kind}, True))
                    ns = rng.randint(2, 6)
                    subs = [[rng.randrange(d) for d in shp] for _ in range(ns)]
                    cases.append(Case("estimate_lam", {"shape": list(shp), "R": R, "factors": fac, "lam": lam, "lcheck": lcheck,
                                                       "mode": "sample", "subs": subs, "xs": [rng.randint(-3, 4) for _ in range(ns)],
                                                       "ws": [rng.randint(-1, 3) for _ in range(ns)],
                                                       "crng": None if rng.random() < 0.5 else list(range(rng.randint(0, ns))),
                                                       "fid": fid, "kind": kind}, True))
    # fg_setup.setup: all ten objectives x (no data / dense / sparse data of every class) x (extra parameter given or not)
    datasets = [None]
    classes = {"binary": [0, 2, 2, 0], "binary1": [2, 2], "natural": [0, 4, 6, 2], "negint": [-2, 4], "positive": [1, 3, 5],
               "with_zero": [3, 0, 2], "negative": [3, -1, 2], "fraction": [2, 1], "big": [2, 4, 14]}
    for nm, hs in classes.items():
        datasets.append({"sparse": False, "halves": hs, "cls": nm})
        if all(h != 0 for h in hs):
            datasets.append({"sparse": True, "halves": hs, "cls": nm})
    for obj in range(10):
        for d in datasets:
            for hp in (True, False):
                cases.append(Case("setup", {"obj": obj, "data": d, "has_param": hp}, True))
    # the ten real losses at rational points (both sides of every switch: huber threshold, data 0/1, m = 0)
    for name in U.HANDLES:
        pts = U.grid(name, rng, 40 if big else 12)
        cases.append(Case("handle", {"name": name, "pts": [[str(Fraction(v)) for v in p] for p in pts]}, True))
    return cases


def _pyfg(fid):
    f = [lambda d, m: (m - d) * (m - d), lambda d, m: m * m * m - 3 * d * m, lambda d, m: d * m * m + m, lambda d, m: m + 0 * d][fid]
    g = [lambda d, m: 2 * (m - d), lambda d, m: 3 * m * m - 3 * d, lambda d, m: 2 * d * m + 1, lambda d, m: 1 + 0 * m + 0 * d][fid]
    return f, g


def run_impl(c):
    import numpy as np
    import pyttb as ttb
    from pyttb.gcp import fg, fg_est
    a = c.args
    try:
        if c.op == "handle":
            return {"vals": U.run_handles(a["name"], a["pts"])}
        if c.op == "setup":
            return U.run_setup(a)
        fac = [np.array(A, dtype=float).reshape((len(A), a["R"])) for A in a["factors"]]
        if c.op == "mttkrps":
            T = tgen.mk_tensor(ttb, np, a["shape"], a["data"])
            G = T.mttkrps([x.copy() for x in fac])
            one = [T.mttkrp([x.copy() for x in fac], k) for k in range(len(a["shape"]))]
            from pyttb.tensor import min_split
            return {"G": [tgen.obs_matrix(np, x) for x in G], "one": [tgen.obs_matrix(np, x) for x in one],
                    "split": int(min_split(tuple(a["shape"])))}
        lam = np.array(a.get("lam", [1] * a["R"]), dtype=float)
        K = ttb.ktensor([x.copy() for x in fac], lam.copy())
        f, g = _pyfg(a["fid"])
        if c.op == "evaluate":
            if a["sparse"]:
                subs, vals = tgen.dense_to_sparse(a["shape"], a["data"])
                X = tgen.mk_sptensor(ttb, np, a["shape"], subs, vals)
            else:
                X = tgen.mk_tensor(ttb, np, a["shape"], a["data"])
            w = None if a["w"] is None else tgen.np_dense(np, a["shape"], a["w"])
            F, G = fg.evaluate(K, X, w, f, g)
            F1 = fg.evaluate(K, X, None if w is None else w.copy(), f, None)
            G1 = fg.evaluate(K, X, None if w is None else w.copy(), None, g)
            return {"F": tgen.exact(F), "G": [tgen.obs_matrix(np, x) for x in G], "F1": tgen.exact(F1),
                    "G1": [tgen.obs_matrix(np, x) for x in G1]}
        if c.op == "estimate_lam":
            return U.run_estimate_lam(a, fac, f, g)
        if c.op == "estimate":
            subs = np.array(a["subs"], dtype=int).reshape((len(a["subs"]), len(a["shape"])))
            xs = np.array(a["xs"], dtype=float)
            ws = np.array(a["ws"], dtype=float)
            crng = None if a["crng"] is None else np.array(a["crng"], dtype=int)
            F, G = fg_est.estimate(K, subs.copy(), xs.copy(), ws.copy(), f, g, False, crng)
            return {"F": tgen.exact(F), "G": [tgen.obs_matrix(np, x) for x in G]}
        if c.op == "estimate_full":
            X = tgen.mk_tensor(ttb, np, a["shape"], a["data"])
            allsubs = tgen.all_subs(a["shape"])
            subs = np.array(allsubs, dtype=int).reshape((len(allsubs), len(a["shape"])))
            xs = np.array(a["data"], dtype=float)
            F, G = fg_est.estimate(K, subs, xs, np.ones(len(allsubs)), f, g, True, None)
            F2, G2 = fg.evaluate(K, X, None, f, g)
            return {"F": tgen.exact(F), "G": [tgen.obs_matrix(np, x) for x in G],
                    "F2": tgen.exact(F2), "G2": [tgen.obs_matrix(np, x) for x in G2]}
    except Exception as ex:
        return {"exc": type(ex).__name__, "msg": str(ex)[:200]}
    raise ValueError(c.op)


def _gmats(ms):
    return "[" + "; ".join(tgen.gmatrix(m) for m in ms) + "]"


def _ints(x):
    if isinstance(x, list):
        return all(_ints(y) for y in x)
    return isinstance(x, int)


def coq_check(c, o):
    a = c.args
    if "exc" in o:
        return "false"
    if c.op == "setup":
        return U.check_setup(a, o)
    if c.op == "handle":
        return "true" if U.compare_handles(a["name"], a["pts"], o["vals"]) is None else "false"
    shp = a["shape"]
    As = _gmats(a["factors"])
    if c.op == "estimate_lam":
        return U.check_estimate_lam(a, o, As)
    if not _ints([v for k, v in o.items()]):
        return "false"
    if c.op == "mttkrps":
        T = tgen.gdense(shp, a["data"])
        return (f"mats_eqb (zmttkrps {T} {As} {gnat(a['R'])}) {_gmats(o['G'])} && "
                f"mats_eqb (zmttkrps {T} {As} {gnat(a['R'])}) {_gmats(o['one'])} && "
                f"Nat.eqb (min_split {gnlist(shp)}) {gnat(o['split'])} && "
                f"mats_eqb (mttkrps_py Z 0%Z 1%Z Z.add Z.mul {gnlist(shp)} (den_dense 0%Z {T}) {As} {gnat(a['R'])}) {_gmats(o['G'])}")
    fid = gnat(a["fid"])
    if c.op == "evaluate":
        K = tgen.gktensor(a["lam"], a["factors"])
        X = tgen.gdense(shp, a["data"])
        w = "None" if a["w"] is None else f"(Some {tgen.gdense(shp, a['w'])})"
        return (f"Z.eqb (zeval_F {fid} {K} {X} {w}) {gz(o['F'])} && mats_eqb (zeval_G {fid} {K} {X} {w}) {_gmats(o['G'])} && "
                f"Z.eqb {gz(o['F1'])} {gz(o['F'])} && mats_eqb {_gmats(o['G1'])} {_gmats(o['G'])}")
    if c.op == "estimate":
        crng = gnlist(a["crng"] or [])
        args = f"{As} {gnat(a['R'])} {gnmat(a['subs'])} {gzlist(a['xs'])} {gzlist(a['ws'])} {crng}"
        return (f"Z.eqb (zest_F {fid} {args}) {gz(o['F'])} && mats_eqb (zest_G {fid} {args} {gnlist(shp)}) {_gmats(o['G'])}")
    if c.op == "estimate_full":
        n = math.prod(shp)
        K = tgen.gktensor([1] * a["R"], a["factors"])
        X = tgen.gdense(shp, a["data"])
        args = f"{As} {gnat(a['R'])} (allsubs {gnlist(shp)}) {gzlist(a['data'])} {gzlist([1] * n)} (@nil nat)"
        return (f"Z.eqb (zest_F {fid} {args}) {gz(o['F'])} && mats_eqb (zest_G {fid} {args} {gnlist(shp)}) {_gmats(o['G'])} && "
                f"Z.eqb (zeval_F {fid} {K} {X} None) {gz(o['F2'])} && mats_eqb (zeval_G {fid} {K} {X} None) {_gmats(o['G2'])} && "
                f"Z.eqb {gz(o['F'])} {gz(o['F2'])} && mats_eqb {_gmats(o['G'])} {_gmats(o['G2'])}")
    raise ValueError(c.op)


def oracle(c, o):
    """independent brute force (pure Python loops / exact rationals): does pyttb's output satisfy what C12 states?"""
    a = c.args
    if "exc" in o:
        return f"admissible request raised {o['exc']}: {o.get('msg')}"
    if c.op == "handle":
        return U.compare_handles(a["name"], a["pts"], o["vals"], against_derivative=True)
    if c.op == "setup":
        return U.oracle_setup(a, o)
    return U.oracle_tensor(c.op, a, o)


# ----------------------------------------------------------------------------------------- findings
def _w_a34():
    """negative_binomial_grad vs a central difference of negative_binomial at the Coq witness (data, model, trials) = (3, 1, 1)"""
    pts = [["3", "1", "1"]]
    vals = U.run_handles("negative_binomial", pts)
    return U.compare_handles("negative_binomial", pts, vals, against_derivative=True)


def _w_w1():
    import numpy as np
    import pyttb as ttb
    from pyttb.gcp import fg
    K = ttb.ktensor([np.array([[1.0], [2.0]]), np.array([[1.0], [1.0]])], np.array([2.0]))
    X = ttb.tensor(np.zeros((2, 2)))
    G = fg.evaluate(K, X, None, None, lambda d, m: 2 * (m - d))
    return None if G[0][0, 0] == 16 else f"fg.evaluate with model weights [2]: dF/dA_0[0,0] returned {G[0][0, 0]}, the partial derivative is 16"


TRIGGERS = {"never": lambda c: False}
WITNESSES = {"A-34": _w_a34, "C12-W1": _w_w1}
