(* Props/W3C19.v — argument checks of the sparse constructor (property C19: rejection of malformed requests), stated over
   tt_sizecheck / tt_subscheck / tt_valscheck / isrow / isvector / islogical of Gen/GenUtils3.v as regenerated from
   /repo/pyttb/pyttb_utils.py at run time.  Only statements, `exact`, Print Assumptions. *)
From Coq Require Import List ZArith Bool.
From PV Require Import Np.NpZ Np.NpZ2 Np.NpZ3 Gen.GenUtils3 Model.W3Utils Proofs.W3Bridge Proofs.W3Laws.
Import ListNotations.
Local Open Scope Z_scope.

(* each check answers its predicate; in assert mode (nargout = False) it raises exactly on the invalid arguments *)
Theorem C19_gen_checks : forall (a : ndarr) (nargout : bool),
  tt_sizecheck a nargout = check_result (size_ok a) nargout /\
  tt_subscheck a nargout = check_result (subs_ok a) nargout /\
  tt_valscheck a nargout = check_result (vals_ok a) nargout.
Proof. exact checks_spec. Qed.
Print Assumptions C19_gen_checks.

Theorem C19_gen_check_result : forall ok nargout,
  check_result ok nargout = if ok then Ok true else if nargout then Ok false else Err.
Proof. exact check_result_spec. Qed.
Print Assumptions C19_gen_check_result.

(* a tuple of ints is a valid shape iff every entry is positive *)
Theorem C19_gen_sizecheck_ints : forall l : vec, size_ok (int_array [zlen l] l) = forallb (fun z => z >? 0) l.
Proof. exact size_ok_ints. Qed.
Print Assumptions C19_gen_sizecheck_ints.

(* a 2-d integer array holds valid subscripts iff it is empty or every entry is non-negative; a non-empty float array never *)
Theorem C19_gen_subscheck_ints : forall (r c : Z) (l : vec),
  subs_ok (int_array [r; c] l) = (r * c =? 0) || forallb (fun z => z >=? 0) l.
Proof. exact subs_ok_ints. Qed.
Print Assumptions C19_gen_subscheck_ints.

Theorem C19_gen_subscheck_float : forall shp d, nd_size (mknd shp DFloat d) <> 0 -> subs_ok (mknd shp DFloat d) = false.
Proof. exact subs_ok_float. Qed.
Print Assumptions C19_gen_subscheck_float.

(* values must form a column *)
Theorem C19_gen_valscheck_2d : forall (r c : Z) k d, vals_ok (mknd [r; c] k d) = (r * c =? 0) || (c =? 1).
Proof. exact vals_ok_2d. Qed.
Print Assumptions C19_gen_valscheck_2d.

Example C19_gen_checks_example :
  tt_sizecheck (int_array [3] [2; 0; 4]) false = Err /\ tt_sizecheck (int_array [3] [2; 0; 4]) true = Ok false /\
  tt_sizecheck (int_array [3] [2; 1; 4]) false = Ok true /\
  tt_subscheck (int_array [2; 2] [0; 1; 2; -1]) false = Err /\ tt_subscheck (int_array [2; 2] [0; 1; 2; 1]) false = Ok true /\
  tt_valscheck (int_array [2; 3] [1; 2; 3; 2; 2; 2]) false = Err /\ tt_valscheck (int_array [2; 1] [1; 2]) false = Ok true.
Proof. repeat split; reflexivity. Qed.

Theorem C19_gen_predicates : forall a : ndarr,
  isrow a = Ok (H_isrow a) /\ isvector a = Ok (H_isvector a) /\ islogical a = Ok false.
Proof. exact predicates_spec. Qed.
Print Assumptions C19_gen_predicates.
