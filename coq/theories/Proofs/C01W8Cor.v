(* Proofs/C01W8Cor.v — wave 8: consequences of the two ties (Proofs/C01W8Tenmat.v, Proofs/C01W8Sptenmat.v): what the GENERATED
   constructors accept is what tm_ctor / stm_ctor accept, so the conclusions of C01_tenmat_guard / C01_tenmat_converse
   (Proofs/C01Converse.v tm_ctor_sound / tm_ctor_converse) and C01_sptenmat_guard (stm_ctor_sound) hold for requests the
   generated code accepted. *)
From Coq Require Import List ZArith Arith Lia Bool.
From PV Require Import Base.Index Base.Perm Np.Array Np.NpZ Np.NpZ2 Np.NpZ3 Np.NpZ3b Np.NpZ7 Np.NpZ7b Proofs.NpZProofs
  Gen.GenUtils Gen.GenUtils2 Model.C01Conv Model.C01Unique Proofs.C01GenBridge Gen.GenTenmat7 Gen.GenSptenmat7
  Model.W7Tenmat Model.W7Sptenmat Proofs.C01W8Tenmat Proofs.C01W8Sptenmat.
Import ListNotations.

Lemma tm_ctor_empty_size0 (D : dense Z) rd cd ts : tm_ctor (Some D) rd cd ts = CtorEmpty -> size (dshape D) = 0.
Proof.
  unfold tm_ctor. destruct (size (dshape D) =? 0) eqn:E; [intros _; now apply Nat.eqb_eq|].
  repeat match goal with |- context [match ?x with _ => _ end] => destruct x end; discriminate.
Qed.

(* rejected by the generated constructor <-> rejected by the guard model *)
Theorem gen_tenmat_init_rejects_iff mo data rd cd ts copy :
  tenmat_init mo (option_map emb_dense data) true (option_map zv rd) (option_map zv cd) (emb_oshape ts) copy = Err
  <-> tm_ctor data rd cd ts = CtorReject.
Proof.
  rewrite tenmat_init_is_tm_ctor. destruct (tm_ctor data rd cd ts); cbn [emb_tm_res]; split; intros H; try discriminate; reflexivity.
Qed.

(* accepted with data that has entries: the guard model accepted, and the stored object is its embedded answer *)
Theorem gen_tenmat_init_accepts_model mo (D : dense Z) rd cd ts copy Mz : size (dshape D) <> 0 ->
  tenmat_init mo (Some (emb_dense D)) true (option_map zv rd) (option_map zv cd) (emb_oshape ts) copy = Ok Mz ->
  exists M, tm_ctor (Some D) rd cd ts = CtorOk M /\ Mz = emb_tm M.
Proof.
  intros Hs H. pose proof (tenmat_init_is_tm_ctor mo (Some D) rd cd ts copy) as E. cbn [option_map] in E. rewrite E in H.
  destruct (tm_ctor (Some D) rd cd ts) as [| |M] eqn:T; cbn [emb_tm_res] in H.
  - discriminate.
  - apply tm_ctor_empty_size0 in T. contradiction.
  - exists M. split; [reflexivity|]. now injection H as <-.
Qed.

(* C01_tenmat_guard as a statement about the generated constructor: whatever it accepts (data with entries, well-formed)
   is the embedding of an object with the guarantees of tm_ctor_sound *)
From PV Require Proofs.C01Converse.
Theorem gen_tenmat_init_accept_guard mo (D : dense Z) rd cd ts copy Mz : wf_dense D -> size (dshape D) <> 0 ->
  tenmat_init mo (Some (emb_dense D)) true (option_map zv rd) (option_map zv cd) (emb_oshape ts) copy = Ok Mz ->
  exists M, Mz = emb_tm M /\ tm_ctor (Some D) rd cd ts = CtorOk M /\
    wf_dense (tm_data M) /\ ddata (tm_data M) = ddata D /\ length (dshape (tm_data M)) = 2 /\
    (length (dshape D) = 2 -> tm_data M = D) /\
    is_perm (tm_r M ++ tm_c M) (length (tm_tshape M)) /\ size (dshape (tm_data M)) = size (tm_tshape M) /\
    C01Conv.gather_wrap_dims (length (tm_tshape M)) rd cd None = Some (tm_r M, tm_c M) /\
    (forall t, ts = Some t -> tm_tshape M = t) /\ (ts = None -> tm_tshape M = dshape (tm_data M)).
Proof.
  intros W Hs H. destruct (gen_tenmat_init_accepts_model _ _ _ _ _ _ _ Hs H) as (M & T & E).
  exists M. split; [exact E|]. split; [exact T|]. exact (C01Converse.tm_ctor_sound D rd cd ts M W T).
Qed.

(* ---------------------------------------------------------------- sptenmat, copy=True: C01_sptenmat_converse over generated code *)
From Coq Require Import ZArithRing.
From PV Require Import Proofs.C01W8SptenmatFull.

Lemma w8_isz_spec : forall v : Z, (0 =? v)%Z = true <-> v = 0%Z.
Proof. intros v. rewrite Z.eqb_eq. split; intros H; now symmetry. Qed.

Theorem gen_sptenmat_init_accepts_model (subs : option (list idx)) vals rd cd ts Mz :
  is_some rd || is_some cd = true -> stm_typed subs vals ->
  sptenmat_init (option_map zm subs) vals (option_map zv rd) (option_map zv cd) (zv ts) true = Ok Mz ->
  exists M, Mz = emb_stm M /\ stm_ctor Z.add (Z.eqb 0) subs vals rd cd ts = Some M /\
    C01Converse.stm_converse_concl Z 0%Z Z.add (Z.eqb 0) (olist subs) (olist vals) ts M.
Proof.
  intros Hd Ht H. rewrite (sptenmat_init_is_stm_ctor subs vals rd cd ts Hd Ht) in H.
  destruct (stm_ctor Z.add (Z.eqb 0) subs vals rd cd ts) as [M|] eqn:E; cbn [emb_stm_ctor_res] in H; [|discriminate].
  exists M. split; [now injection H as <-|]. split; [reflexivity|].
  apply (C01Converse.stm_ctor_converse Z 0%Z 1%Z Z.add Z.mul Z.sub Z.opp (Z.eqb 0) Zth w8_isz_spec subs vals rd cd ts M E).
  - destruct rd, cd; try discriminate Hd; [left|left|right]; discriminate.
  - apply Ht.
  - apply Ht.
Qed.
