"""C14 — leading mode-n vectors span the dominant subspace in every representation (DESIGN §C14).

nvecs is run on integer tensors held dense / sparse / Kruskal / Tucker.  The LAPACK/ARPACK calls inside nvecs are
recorded (scipy functions wrapped by the harness, pyttb untouched): the recorded solver INPUT must equal the Gram matrix of
the denotation computed exactly in Coq, the list-level post-processing model applied to the recorded solver OUTPUT must
reproduce the returned matrix, and the returned matrix is certificate-checked in exact rationals against a full
eigen-decomposition of the exact Gram matrix (itself certificate-checked)."""
import contextlib
import math
from fractions import Fraction

from vcheck import Case, gnlist, gq, gbool, gzmat, gzlist
import tgen
from props.c10 import rq, gqmat, gqlist
from props import c14_util as cu

PROP = "C14"
LEVEL = "proof"
GEN_UNITS = ["GenUtils", "GenUtils2"]     # gather_wrap_dims (C14_gram_dense_code / _tucker_code), tt_sub2ind / tt_ind2sub (C14_gram_sparse_code)
SHARD = 8
COQ_TARGETS = ["Props/C14.vo", "Model/C14Check.vo", "Model/Harness.vo"]
THEOREM_FILES = ["Props/C14.v"]
COQ_IMPORTS = ("From Coq Require Import List ZArith Bool QArith Qcanon.\n"
               "From PV Require Import Base.Index Np.Array Model.Sparse Model.Repr Model.Harness Model.C10Tucker Model.C10Check "
               "Model.C14Nvecs Model.C14Check.\n")
RULE = ("integer tensors (Tucker-structured low rank with integer core/factors, and unstructured) with mode sizes 1..6, 2- to 4-way, each held "
        "dense/sparse/Kruskal/Tucker (dense core and sparse core with dense factors); all modes n, all 1 <= r <= size (iterative path "
        "r < size-1 and dense path), flipsign on/off; holder variants: arrays held C-contiguous or as non-contiguous views, data scaled by "
        "2^(+-24) (Kruskal: in the weights or in one factor), dense tensors held in float32/int64/int32/int16/int8/uint8/uint16 with "
        "magnitudes whose slice inner products overflow that dtype, Tucker tensors (dense and sparse core) whose factor matrices are "
        "scipy coo matrices (all / some; the requested mode's factor sparse and dense), sparse tensors whose vals are "
        "int64/int32/int16/uint8/int8/float32 (both solver paths; ordinary since /repo 6aef7c8), Tucker tensors whose core and factors are "
        "int64/int32/float32/uint8/int8/int16 (narrow ones at magnitudes where an intermediate product would overflow the type; ordinary since /repo 4b7dc0e; the witnesses of C14-F4 / C14-F5 are fixed regression cases), Tucker/Kruskal factors with unit-norm columns (signed unit vectors: "
        "orthonormal, or repeated = not orthogonal; generic directions normalised on the 2^-30 grid); sequences of nvecs calls over all modes "
        "on ONE object with another operation between the calls (normalize / normalize(weight_factor=k|'all') / normalize(sort) / arrange / "
        "fixsigns / redistribute / full / norm / innerprod / ttv / to_tenmat / collapse), sparse sequences checked at the Gram matrix; "
        "inside every exact sparse / sparse-core run the output of sptensor.spmatrix() (stored order) resp. of core.ttm(V) is recorded and "
        "compared with the code-path models; "
        "sparse requests (singleton mode n and singleton product of the other modes included since /repo f3d6beb) are compared facet by "
        "facet: sp_gram (Gram matrix, code-path model, recorded tnt, result shape, solver choice), sp_real (dtype), sp_eig, sp_post, sp_cols "
        "(orthonormal + sign rule), sp_set (eigenpairs of the r largest eigenvalues in any order), sp_code (the code's own post-processing of "
        "the recorded solver output), sp_agree; only-singleton shapes (also (1,)): sp_refused (ValueError and model refusal); 1-way sparse "
        "tensors are ordinary requests since /repo c11bcb2 (all facets, code-path model, recorded tnt; the witness of C14-F3 is a fixed "
        "regression case); modes that do not exist (n = -1, -ndims-1, ndims, ndims+2) on sparse tensors: sp_badmode (AssertionError of "
        "the range test of /repo 453f75b and model refusal sp_nvecs_tnt_z); dense holders of dtype bool (0/1 data; /repo 08011d5); "
        "CP models in Tucker form (superdiagonal core of weights, every factor tall with unit-norm non-orthogonal columns: signed unit "
        "vectors repeated / generic directions on the 2^-30 grid), every mode, r = 1 and r = R, held ttensor / ttensor_sp / ktensor / "
        "dense + agreement; "
        "large modes (ops big / sp_big): rank-5 integer tensors with one mode of size 24..40 at any position, r = 1, 2 on the iterative path, "
        "leading eigenvectors exact and structured (sum 0 / orthogonal to the alternating vector / first entry 0 / generic), certified by the "
        "trace bound; the solver CALL (positional arguments, keyword names) of every run is recorded and must be solver(y, r) / solver(y); "
        "agreement across representations only where the eigen-gap at r is > 1e-3 relative; non-trivial = mode size >= 2; "
        "distinct = distinct (op,args)")
CORRESPONDENCE_ONLY = ["scipy.sparse products (COO x COO in sptensor.nvecs, COO x ndarray in the sparse-core branch of ttensor.nvecs) compute the matrix "
                       "product of the arrays the COO matrices denote: library oracle; C14_coo_product proves that the coordinate-level model "
                       "is that matrix product, the recorded solver input is compared with the model on every sample",
                       "the single-mode kernel of sptensor.ttm used as the first step of the chain H = core.ttm(V) is C02's coordinate-level "
                       "model impl_ttm_sp (theorem C02_ttm_sparse; tied to the code by C02's correspondence and here by the recorded H of "
                       "every exact sparse-core sample); the sptensor constructor calls inside the two reshape calls are taken to keep the rows "
                       "as given (recorded spmatrix() output = model tnt on every exact sparse sample)",
                       "ttensor.nvecs with scipy coo FACTOR matrices (branches sparse.issparse(factor n) / issparse(XnT) / issparse(Y)): compared "
                       "through the Tucker denotation and the through-the-core model gram_t_code only (no transliteration of those branches)",
                       "element-type conversions (double() / astype): modelled as an entry map dbl : B -> V with dbl 0 = 0 (C14_gram_dense_held, "
                       "C14_gram_sparse_held, C14_gram_tucker_held); float64 rounding itself is outside the ring-generic theorems",
                       "eigen solvers eigh/eigsh/eig/eigs: certificate-checked oracles"]
ASSUMPTIONS = ["floats converted exactly (solver input/output) or on the 2^-40 grid (returned vectors) to rationals; recorded solver input of "
               "scaled data divided exactly by 4^exponent in the harness",
               "inputs whose products are rounded (after normalize/arrange/redistribute, factors on the 2^-30 grid) are compared within 1e-12*trace",
               "degenerate leading spectra are excluded from the cross-representation agreement (quantifier of the property)",
               "theorems: ring-generic (closed) for the Gram identities; stdlib Reals for the post-processing order/sign theorems"]
EXPLANATION = ("C14_gram_dense / _sparse / _kruskal / _tucker: the Gram matrix the code forms equals gram_spec of the denotation (any ring, "
               "shape, mode); C14_gram_dense_code / C14_gram_tucker_code / C14_gram_tucker_sparse_core: the same matrices built from the "
               "GENERATED gather_wrap_dims + C01's to_tenmat / to_sptenmat(+constructor) / double + tensor.ttm transliterations; "
               "C14_coo_product: the COO product model is the matrix product of the denotations; C14_sparse_rekey_bridge / "
               "C14_gram_sparse_code(_spec): sptensor.nvecs' reshape / second reshape (over the GENERATED tt_sub2ind / tt_ind2sub) / spmatrix / transpose "
               "yields exactly the triples of C14_gram_sparse, so the code path's product is gram_sp_impl = the matrix product of the denoted "
               "arrays = gram_spec — for every tensor (1-way included since /repo c11bcb2: C14_sparse_oneway_answered) and existing mode that is "
               "not only-singleton (after /repo f3d6beb); C14_sparse_mode_refused: modes that do not exist are refused by the range test "
               "of /repo 453f75b; C14_gram_dense_held: tensor.nvecs converts the holder to float64 BEFORE the product (/repo 08011d5), so the "
               "solver input is the Gram matrix of the converted entries for every holder element type; "
               "C14_sparse_singleton_answered / C14_sparse_all_singleton_refused: singleton mode n or singleton product of the others is answered, "
               "only-singleton shapes are refused; C14_sparse_post_dense_sorted / _iter_sorted / _iter_one, C14_argsort_sorted_id: the code's own "
               "post-processing on the sparse path (row permutation / no sort: finding A-38) is the postprocess of the other representations "
               "when the solver output has |w| non-increasing; "
               "C14_gram_sparse_held / C14_gram_tucker_held: sptensor.nvecs (tnt.astype(float64), /repo 6aef7c8) and ttensor.nvecs (float64 copies of "
               "core and factors, /repo 4b7dc0e) convert holders of another element type BEFORE any product, so the solver input is the Gram "
               "matrix of the converted entries (findings C14-F4 / C14-F5 repaired: one accepted behaviour, the float64 answer); "
               "C14_cp_as_tucker_den / C14_cp_tucker_same_gram: a CP model in Tucker form (superdiagonal core) denotes the Kruskal tensor, so the "
               "Tucker and the Kruskal code hand the same matrix to the solver; C14_captured_is_energy / C14_energy_of_eigenvectors / "
               "C14_max_energy / C14_kyfan_weights: eigenvectors of the r largest eigenvalues capture the maximal energy of the unfolding "
               "(Ky Fan); "
               "C14_sparse_ttm_chain / C14_gram_tucker_sparse_core_code(_spec): H = core.ttm(V) as the code computes it (sparse first step, "
               "tensor.ttm afterwards) is dense and holds core x_m V_m, so the sparse-core theorem needs no hypothesis about H; the COO matrix "
               "spmatrix() returns inside sptensor.nvecs and the tensor core.ttm(V) returns inside ttensor.nvecs are RECORDED and compared "
               "with these models; all executable code models are evaluated "
               "on every exact sampled input against the recorded solver input; op seq calls nvecs for every mode on ONE object (other "
               "operations between the calls) and checks each result against the original denotation; C14_postprocess / C14_sign_rule: "
               "argsort(-|w|) selection and sign rule for any solver output; correspondence: recorded solver input/output tie the model "
               "to the code, the result is certificate-checked in Qc.")


# ---------------------------------------------------------------- bundles: one tensor in four representations
def _full_tucker(shape, cshape, core, Us):
    subs = tgen.all_subs(shape)
    csubs = tgen.all_subs(cshape)
    out = []
    for s in subs:
        acc = 0
        for j, g in zip(csubs, core):
            if g:
                acc += g * math.prod(Us[n][s[n]][j[n]] for n in range(len(shape)))
        out.append(acc)
    return out


def _tucker_bundle_of(shape, cshape, core, Us):
    """the bundle (dense data, Kruskal weights / factors, Tucker core / factors) of the Tucker tensor [core; Us] (exact integers)"""
    d = len(shape)
    data = _full_tucker(shape, cshape, core, Us)
    weights, cols = [], [[] for _ in range(d)]
    for j, g in zip(tgen.all_subs(cshape), core):
        if g:
            weights.append(g)
            for n in range(d):
                cols[n].append([Us[n][i][j[n]] for i in range(shape[n])])
    kf = [[[cols[n][r][i] for r in range(len(weights))] for i in range(shape[n])] for n in range(d)]
    return {"shape": list(shape), "data": data, "kw": weights, "kf": kf, "tcs": list(cshape), "tcore": list(core), "tf": Us}


def _bundle_tucker(rng, shape, fkinds=None, mag=None):
    """fkinds[n] in generic | unit (signed unit vectors, repeated: unit norm, not orthogonal) | ortho (distinct signed unit vectors) |
    gridnorm (generic directions, norm 1 up to 2^-29, integers to be scaled by 2^-30: key fexp)"""
    d = len(shape)
    cshape = [rng.randint(1, min(s, 2 if d > 2 else 3)) for s in shape]
    if fkinds:
        cshape = [min(shape[n], 2) if fkinds[n] != "generic" else cshape[n] for n in range(d)]
    while True:
        core = tgen.rand_dense(rng, cshape, rng.choice([0.6, 1.0]), *(mag or (-2, 3)))
        if any(core):
            break
    Us = []
    for n in range(d):
        k = fkinds[n] if fkinds else "generic"
        if k == "unit":
            Us.append(cu.unit_factor(rng, shape[n], cshape[n], False))
        elif k == "ortho":
            Us.append(cu.unit_factor(rng, shape[n], cshape[n], True))
        elif k == "gridnorm":
            Us.append(cu.gridnorm_factor(rng, shape[n], cshape[n]))
        else:
            Us.append([[rng.randint(*(mag or (-2, 2))) for _ in range(cshape[n])] for _ in range(shape[n])])
    b = _tucker_bundle_of(shape, cshape, core, Us)
    if fkinds and "gridnorm" in fkinds:
        b["fexp"] = [-cu.GRID_BITS if k == "gridnorm" else 0 for k in fkinds]
    return b


def _bundle_cp_tucker(rng, shape, R, kind):
    """a CP model written in Tucker form: superdiagonal R x ... x R core holding the weights, every factor with R unit-norm columns that
    are NOT orthogonal — kind 'unit': signed unit vectors, two columns on the same row; kind 'gridnorm': generic directions normalised on
    the 2^-30 grid (numpy.allclose accepts the norms as 1; integers to be scaled by 2^-30: key fexp).  With R < I_n the mode-n factor is
    tall, so a shortcut through Un^T Y Un (valid for ORTHONORMAL Un only) would solve a different problem; r <= R"""
    d = len(shape)
    while True:
        w = [rng.choice([-3, -2, -1, 1, 2, 3, 4]) for _ in range(R)]
        Us = [cu.unit_factor(rng, shape[n], R, False) if kind == "unit" else cu.gridnorm_factor(rng, shape[n], R) for n in range(d)]
        subs = tgen.all_subs(shape)
        data = [sum(w[k] * math.prod(Us[n][sb[n]][k] for n in range(d)) for k in range(R)) for sb in subs]
        if any(data):
            break
    core = [0] * (R ** d)
    for k in range(R):
        core[sum(k * R ** m for m in range(d))] = w[k]
    b = {"shape": list(shape), "data": data, "kw": w, "kf": Us, "tcs": [R] * d, "tcore": core, "tf": Us,
         "order": rng.choice(["sorted", "reversed", "random"]), "sseed": rng.randrange(10 ** 6)}
    if kind == "gridnorm":
        b["fexp"] = [-cu.GRID_BITS] * d
    return b


CP_TUCKER_Q = [((4, 3, 3), 2)]
CP_TUCKER_T = CP_TUCKER_Q + [((5, 4, 4), 3), ((3, 4), 2), ((6, 3, 4), 2)]


def _gen_cp_tucker(rng, big):
    cases = []
    for shp, R in (CP_TUCKER_T if big else CP_TUCKER_Q):
        for kind in ("unit", "gridnorm"):
            b = _bundle_cp_tucker(rng, shp, R, kind)
            for n in range(len(shp)):
                for r in sorted({1, R}):
                    flip = rng.random() < 0.8
                    for rp in ("ttensor", "ttensor_sp", "ktensor", "dense"):
                        cases.append(Case("nvecs", dict(b, n=n, r=r, flip=flip, repr=rp), True))
                    cases.append(Case("agree", dict(b, n=n, r=r, flip=flip), True))
    return cases


def _bundle_dense(rng, shape, lo=-3, hi=4):
    d = len(shape)
    while True:
        data = tgen.rand_dense(rng, shape, rng.choice([0.5, 0.8, 1.0]), lo, hi)
        if any(data):
            break
    subs = tgen.all_subs(shape)
    nz = [(s, v) for s, v in zip(subs, data) if v]
    kf = [[[1 if s[n] == i else 0 for s, _ in nz] for i in range(shape[n])] for n in range(d)]
    eye = [[[1 if i == j else 0 for j in range(shape[n])] for i in range(shape[n])] for n in range(d)]
    return {"shape": list(shape), "data": data, "kw": [v for _, v in nz], "kf": kf, "tcs": list(shape), "tcore": data, "tf": eye}


SHAPES_Q = [(3, 2), (4, 3, 2), (2, 5, 2), (1, 3, 2), (2, 3, 2, 2)]
SHAPES_T = SHAPES_Q + [(5,), (2, 3), (4, 4), (3, 4, 2), (1, 4, 3), (3, 1, 2), (2, 2, 3, 2), (5, 2, 2), (3, 3, 3), (2, 4, 3, 2)]
REPRS = ("dense", "sparse", "ktensor", "ttensor", "ttensor_sp")
SEQ_REPRS = ("ktensor", "ttensor", "ttensor_sp", "dense")


def gen_cases(rng, tier):
    big = tier == "thorough"
    cases = _gen_large(rng, big)          # first: their failures are the ones with the plainest failing input
    for shp in (SHAPES_T if big else SHAPES_Q):
        for kind in ((_bundle_tucker, _bundle_dense) if (big or len(shp) < 3) else (rng.choice([_bundle_tucker, _bundle_dense]),)):
            if len(shp) == 1 and kind is _bundle_tucker:
                continue
            b = kind(rng, shp)
            b["order"] = rng.choice(["sorted", "reversed", "random"])
            b["sseed"] = rng.randrange(10 ** 6)
            for n in range(len(shp)):
                for r in range(1, shp[n] + 1):
                    flip = rng.random() < 0.8
                    for rp in REPRS:
                        a = dict(b, n=n, r=r, flip=flip, repr=rp)
                        if rp == "sparse":
                            if _sp_class(shp, n) == "refused":
                                cases.append(Case("sp_refused", a, False))
                                continue
                            # singleton mode n / all other modes singleton: answered since /repo f3d6beb (C14-F2 repaired);
                            # 1-way tensors: answered since /repo c11bcb2 (C14-F3 repaired)
                            for op in SP_OPS:
                                cases.append(Case(op, a, shp[n] >= 2))
                        else:
                            cases.append(Case("nvecs", a, shp[n] >= 2))
                    cases.append(Case("agree", dict(b, n=n, r=r, flip=flip), shp[n] >= 2))
                    if _sp_class(shp, n) == "answered":
                        cases.append(Case("sp_agree", dict(b, n=n, r=r, flip=flip), shp[n] >= 2))
            # sequences: nvecs for every mode on ONE object (as cp_als / tucker_als(init="nvecs") do), each result checked against
            # the Gram matrix of the ORIGINAL denotation; Kruskal operands get non-unit weights
            if len(shp) >= 2:
                for rp in SEQ_REPRS:
                    for rep in range(2 if (big or rp == "ktensor") else 1):
                        bs = kind(rng, shp)
                        for _ in range(20):
                            if rp != "ktensor" or any(abs(w) != 1 for w in bs["kw"]):
                                break
                            bs = kind(rng, shp)
                        bs["order"] = rng.choice(["sorted", "reversed", "random"])
                        bs["sseed"] = rng.randrange(10 ** 6)
                        modes = list(range(len(shp)))
                        if rep == 1:
                            rng.shuffle(modes)
                        rs = [rng.randint(1, shp[n]) for n in modes]
                        cases.append(Case("seq", dict(bs, repr=rp, modes=modes, rs=rs, flip=rng.random() < 0.8),
                                          any(shp[n] >= 2 for n in modes)))
    cases += _gen_variants(rng, big)
    cases += _regression_dtype_cases()
    cases += _gen_cp_tucker(rng, big)
    cases += _gen_all_singleton(rng, big)
    return cases


# ---------------------------------------------------------------- large modes: the iterative solvers really iterate
PATTERNS = ("sum0", "alt", "e1", "generic")


def _bundle_structured(rng, big_size, pos, pat, R=5):
    """a rank-R tensor with ONE large mode (size 24..40, at position pos) whose two leading mode-n eigenvectors are known exactly and are
    structured the way iterative eigen solvers are sensitive to: entries summing to exactly 0 (orthogonal to an all-ones start vector),
    orthogonal to the alternating-sign vector, first entry exactly 0 (orthogonal to e_1), or generic.  Component 0 and 1 sit alone in
    slab 0 / slab 1 of the second role mode and on rows 0..4 of the large mode, the other R-2 components (small random integers) on
    the remaining rows and slabs: the Gram matrix is block diagonal with the exact blocks l1 u1 u1^T, l2 u2 u2^T and a rank <= R-2
    remainder whose trace is <= l2 / 2, l2 + that <= l1 / 2 — a rich spectrum below two well separated, exactly known leading pairs, and
    the tail bound of the trace certificate (nvecs_trace_ok) holds for r = 1 and r = 2"""
    J, L = 4, 3
    u1 = {"sum0": {0: 1, 1: -1}, "alt": {0: 1, 1: 1}, "e1": {1: 1, 2: -2}, "generic": {0: 2, 1: 1, 2: -1}}[pat]
    u2 = {3: 1, 4: -1} if pat != "alt" else {3: 1, 4: 1}
    while True:
        A = [[0] * R for _ in range(big_size)]
        B = [[0] * R for _ in range(J)]
        C = [[rng.randint(-2, 2) for _ in range(R)] for _ in range(L)]
        for i, x in u1.items():
            A[i][0] = x
        for i, x in u2.items():
            A[i][1] = x
        B[0][0] = B[1][1] = 1
        for k in range(2, R):
            for i in range(5, big_size):
                A[i][k] = rng.randint(-2, 2)
            for j in range(2, J):
                B[j][k] = rng.randint(-2, 2)
        c0 = sum(C[l][0] ** 2 for l in range(L))
        c1 = sum(C[l][1] ** 2 for l in range(L))
        if not c0 or not c1:
            continue
        rest = 0                       # squared Frobenius norm of the remainder = trace of its Gram matrix
        for i in range(5, big_size):
            for j in range(2, J):
                for l in range(L):
                    rest += sum(A[i][k] * B[j][k] * C[l][k] for k in range(2, R)) ** 2
        if rest:
            break
    n1, n2 = sum(x * x for x in u1.values()) * c0, sum(x * x for x in u2.values()) * c1
    w2 = math.isqrt(2 * rest // n2) + 1
    w1 = math.isqrt(2 * (w2 * w2 * n2 + rest) // n1) + 1
    w = [w1 * rng.choice([1, -1]), w2 * rng.choice([1, -1])] + [1] * (R - 2)
    roles = [A, B, C]
    order = {0: [0, 1, 2], 1: [1, 0, 2], 2: [1, 2, 0]}[pos]      # role of each mode (0 = the large one at position pos)
    fac = [roles[q] for q in order]
    shape = [len(f) for f in fac]
    subs = tgen.all_subs(shape)
    data = [sum(w[k] * fac[0][sb[0]][k] * fac[1][sb[1]][k] * fac[2][sb[2]][k] for k in range(R)) for sb in subs]
    core = [0] * (R ** 3)
    for k in range(R):
        core[k + R * k + R * R * k] = w[k]
    return {"shape": shape, "data": data, "kw": w, "kf": fac, "tcs": [R, R, R], "tcore": core, "tf": fac,
            "order": rng.choice(["sorted", "reversed", "random"]), "sseed": rng.randrange(10 ** 6)}


def _gen_large(rng, big):
    cases = []
    sizes = (24, 28) + ((26, 32, 40) if big else ())
    for k, sz in enumerate(sizes):
        for q, pat in enumerate(PATTERNS):
            pos = (k + q) % 3
            b = _bundle_structured(rng, sz, pos, pat)
            for r in (1, 2):
                flip = rng.random() < 0.8
                for rp in REPRS:
                    cases.append(Case("sp_big" if rp == "sparse" else "big", dict(b, n=pos, r=r, flip=flip, repr=rp), True))
    return cases


# the facets of one sparse request; each is compared separately so that finding A-38 is attributed facet by facet (TRIGGERS below)
SP_OPS = ("sp_gram", "sp_real", "sp_eig", "sp_post", "sp_cols", "sp_set", "sp_code")


def _sp_class(shp, n):
    """what sptensor.nvecs does with (shape, n), n an existing mode: 'refused' (mode n AND the product of the other modes are 1 — the
    empty product of a 1-way tensor included: ValueError pinned by tests/test_sptensor.py; theorem C14_sparse_all_singleton_refused),
    else 'answered' (1-way tensors since /repo c11bcb2: theorem C14_sparse_oneway_answered)"""
    if shp[n] == 1 and all(s == 1 for k, s in enumerate(shp) if k != n):
        return "refused"
    return "answered"


def _gen_all_singleton(rng, big):
    """tensors with only singleton modes held sparse (one stored entry / nothing stored): the one request the code path refuses"""
    cases = []
    for shp in [(1,), (1, 1), (1, 1, 1)] + ([(1, 1, 1, 1)] if big else []):
        for v in (0, rng.choice([-3, 2, 5])):
            b = {"shape": list(shp), "data": [v], "order": "sorted", "sseed": 0}
            for n in range(len(shp)):
                cases.append(Case("sp_refused", dict(b, n=n, r=1, flip=True, repr="sparse"), False))
    # the witness of finding C14-F2 (repaired in /repo f3d6beb) as an ordinary regression case: 1x4x3, entries [0,1,2]=2, [0,3,0]=1, n=0
    data = [0] * 12
    data[9], data[3] = 2, 1
    b = {"shape": [1, 4, 3], "data": data, "order": "reversed", "sseed": 0}
    for op in SP_OPS:
        cases.append(Case(op, dict(b, n=0, r=1, flip=True, repr="sparse"), False))
    cases.append(Case("sp_agree", dict(b, n=0, r=1, flip=True), False))
    # the zero tensor (sparse: nothing stored — the `subs.size == 0` branch of both reshape calls; every eigenvalue 0: any orthonormal
    # set is right, the cross-representation agreement does not apply)
    for shp in [(3, 2), (2, 1, 3)] + ([(4, 2, 2)] if big else []):
        d = len(shp)
        z = [0] * math.prod(shp)
        eye = [[[1 if i == j else 0 for j in range(shp[m])] for i in range(shp[m])] for m in range(d)]
        b = {"shape": list(shp), "data": z, "kw": [], "kf": [[[] for _ in range(shp[m])] for m in range(d)], "tcs": list(shp), "tcore": z,
             "tf": eye, "order": "sorted", "sseed": 0}
        for n in range(d):
            for r in sorted({1, shp[n]}):
                flip = rng.random() < 0.8
                for rp in ("dense", "ttensor", "ttensor_sp"):
                    cases.append(Case("nvecs", dict(b, n=n, r=r, flip=flip, repr=rp), shp[n] >= 2))
                for op in SP_OPS:
                    cases.append(Case(op, dict(b, n=n, r=r, flip=flip, repr="sparse"), shp[n] >= 2))
    # 1-way tensors held sparse: ordinary requests since /repo c11bcb2 (finding C14-F3 repaired; the other representations of 1-way
    # tensors are in the thorough main stream); the first one is the witness of C14-F3 kept as a regression case
    wit = {"shape": [5], "data": [2, 0, 1, -3, 0], "order": "sorted", "sseed": 0}
    ones = [wit]
    for shp in [(4,), (2,)] + ([(6,), (3,)] if big else []):
        b = _bundle_dense(rng, shp)
        b["order"], b["sseed"] = rng.choice(["sorted", "reversed", "random"]), rng.randrange(10 ** 6)
        ones.append(b)
    for b in ones:
        I = b["shape"][0]
        for r in sorted({1, I - 1, I} - {0}):
            flip = rng.random() < 0.8
            for op in SP_OPS:
                cases.append(Case(op, dict(b, n=0, r=r, flip=flip, repr="sparse"), True))
            cases.append(Case("sp_agree", dict(b, n=0, r=r, flip=flip), True))
    # modes that do not exist (sparse holder): refused by the range test of /repo 453f75b (finding C19-N23 repaired; before, a 1 x 1
    # Gram matrix of the fully vectorised tensor was answered); outside the property's quantifier — the model tie only
    for shp in [(3, 2), (4,), (2, 3, 2)] + ([(1, 3), (2, 2, 2, 2)] if big else []):
        b = _bundle_dense(rng, shp)
        b["order"], b["sseed"] = rng.choice(["sorted", "reversed", "random"]), rng.randrange(10 ** 6)
        for n in (-1, -len(shp) - 1, len(shp), len(shp) + 2):
            cases.append(Case("sp_badmode", dict(b, n=n, r=1, flip=True, repr="sparse"), False))
    return cases


DTYPES = (("bool", 0, 1), ("float32", -3, 4), ("int64", -3, 4), ("int32", -80000, 80000), ("int16", -400, 400), ("int8", -50, 50), ("uint8", 0, 255), ("uint16", 0, 60000))
# element type of a sparse tensor's vals / of a Tucker tensor's core and factors (repaired findings C14-F4 / C14-F5), with magnitudes
VDTYPES = (("int64", -3, 4), ("int32", -80000, 80000), ("int16", -400, 400), ("uint8", 0, 255), ("int8", -50, 50), ("float32", -3, 4))
HDTYPES = (("int64", -2, 3), ("int32", -2, 3), ("float32", -2, 3), ("uint8", 0, 12), ("int8", -9, 9), ("int16", -60, 60))
NARROW = ("int8", "uint8", "int16")
SHAPES_VQ = [(4, 3, 2), (3, 1, 2), (5, 2), (2, 2, 3, 2)]
SHAPES_VT = SHAPES_VQ + [(1, 3, 2), (3, 4), (2, 5, 2), (4, 1, 1), (3, 3, 3), (6, 2, 2)]


def _pick_nr(rng, shp, cap=None):
    n = rng.randrange(len(shp))
    top = shp[n] if cap is None else max(1, min(shp[n], cap[n]))
    r = rng.choice([1, top, rng.randint(1, top)])
    return n, r


def _both_paths(rng, shp):
    """(n, r) pairs: one on the iterative path (r < I_n - 1) where the shape has a mode of size >= 3, one on the dense-solver path"""
    out = []
    its = [n for n in range(len(shp)) if shp[n] >= 3]
    if its:
        n = rng.choice(its)
        out.append((n, rng.randint(1, shp[n] - 2)))
    n = rng.randrange(len(shp))
    out.append((n, rng.choice([shp[n], max(1, shp[n] - 1)])))
    return out


def _emit(cases, b, rp, n, r, flip, shp):
    a = dict(b, n=n, r=r, flip=flip, repr=rp)
    if rp == "sparse":
        if _sp_class(shp, n) != "answered":
            return          # all-singleton: covered by the main stream (sp_refused)
        for op in ("sp_gram", "sp_cols", "sp_set", "sp_code"):
            cases.append(Case(op, a, shp[n] >= 2))
    else:
        cases.append(Case("nvecs", a, shp[n] >= 2))


# fixed regression inputs = the witnesses of the repaired findings C14-F4 (4x3 sparse tensor with int64 vals, iterative path) and C14-F5
# (4x3x2 Tucker tensor with uint8 core / factors whose intermediate products leave the uint8 range); ordinary cases, one accepted behaviour
_REGRESSION_F4 = dict(shape=[4, 3], data=[3, 0, 2, 0, 0, 1, 0, 0, 0, 0, 0, 1], order="sorted", sseed=0, vdtype="int64", n=0, r=1)
_REGRESSION_F5 = dict(shape=[4, 3, 2], cshape=[2, 2, 2], core=[5, 0, 7, 11, 3, 9, 0, 12],
                      Us=[[[1, 12], [9, 4], [0, 7], [11, 2]], [[3, 8], [10, 1], [6, 6]], [[2, 9], [12, 5]]], hdtype="uint8", n=0, r=2)


def _regression_dtype_cases():
    cases = []
    f4 = dict(_REGRESSION_F4)
    n, r = f4.pop("n"), f4.pop("r")
    for vd in ("int64", "int32", "uint8", "float32"):
        for r_ in (r, 4):       # iterative path (r < I_n - 1) and dense-solver path
            _emit(cases, dict(f4, vdtype=vd), "sparse", n, r_, True, tuple(f4["shape"]))
    f5 = _REGRESSION_F5
    b = _tucker_bundle_of(f5["shape"], f5["cshape"], f5["core"], f5["Us"])
    b["order"], b["sseed"] = "sorted", 0
    for hd in ("uint8", "int8", "int16", "float32"):
        for rp in ("ttensor", "ttensor_sp"):
            for r_ in (f5["r"], 4):
                _emit(cases, dict(b, hdtype=hd), rp, f5["n"], r_, True, tuple(f5["shape"]))
    return cases


def _gen_variants(rng, big):
    """holders in C order / as non-contiguous views, data scaled by 2^(+-24), narrow integer dtypes of a dense tensor, Tucker / Kruskal
    factors with unit-norm (orthogonal and not) columns, and sequences of nvecs calls on one object with other operations between"""
    cases = []
    for shp in (SHAPES_VT if big else SHAPES_VQ):
        d = len(shp)

        def fresh(kind=None):
            kind = kind or rng.choice([_bundle_tucker, _bundle_dense])
            b = kind(rng, shp)
            b["order"] = rng.choice(["sorted", "reversed", "random"])
            b["sseed"] = rng.randrange(10 ** 6)
            return b
        # memory layout of the holders
        for lay in ("C", "view"):
            for rp in REPRS:
                for _ in range(2 if big else 1):
                    b = fresh()
                    n, r = _pick_nr(rng, shp)
                    _emit(cases, dict(b, lay=lay), rp, n, r, rng.random() < 0.8, shp)
        # magnitudes
        for e in (24, -24) + ((7, -40) if big else ()):
            for rp in REPRS:
                b = fresh()
                n, r = _pick_nr(rng, shp)
                _emit(cases, dict(b, exp=e, kexp_in=rng.choice(["weights", "factor"]), lay=rng.choice(["F", "F", "C"])), rp, n, r,
                      rng.random() < 0.8, shp)
        # dtype of a dense tensor's data
        for dt, lo, hi in DTYPES:
            b = _bundle_dense(rng, shp, lo, hi)
            b["order"], b["sseed"] = "sorted", 0
            for _ in range(2 if big else 1):
                n, r = _pick_nr(rng, shp)
                _emit(cases, dict(b, dtype=dt), "dense", n, r, rng.random() < 0.8, shp)
        # element type of a sparse tensor's value array (the constructor keeps integer / float32 arrays; nvecs casts tnt to float64
        # since /repo 6aef7c8): both solver paths, ordinary cases
        for dt, lo, hi in VDTYPES:
            b = _bundle_dense(rng, shp, lo, hi)
            b["order"], b["sseed"] = rng.choice(["sorted", "reversed", "random"]), rng.randrange(10 ** 6)
            for n, r in _both_paths(rng, shp):
                _emit(cases, dict(b, vdtype=dt), "sparse", n, r, rng.random() < 0.8, shp)
        # element type of a Tucker tensor's core and factor matrices (the constructor keeps them; nvecs works on float64 copies since
        # /repo 4b7dc0e): narrow integer holders are generated with magnitudes at which an intermediate product WOULD leave the type's
        # range (cu.tucker_wraps, used by the generator only) — ordinary cases, the float64 answer is the one accepted behaviour
        for dt, lo, hi in HDTYPES:
            for rp in ("ttensor", "ttensor_sp"):
                for n, r in _both_paths(rng, shp)[:2 if big else 1]:
                    for att in range(60):       # second half: a third of the magnitude (4-way int16: products beyond 2^53 otherwise)
                        b = _bundle_tucker(rng, shp, None, (lo, hi) if att < 30 else (-(-lo // 3), hi // 3))
                        r_ = min(r, shp[n])
                        if (dt not in NARROW or cu.tucker_wraps(dict(b, n=n, hdtype=dt))) and cu.tucker_float_exact(dict(b, n=n)):
                            break       # float64 forms every product exactly: the recorded solver input is compared by equality
                    else:
                        continue
                    b["order"], b["sseed"] = rng.choice(["sorted", "reversed", "random"]), rng.randrange(10 ** 6)
                    _emit(cases, dict(b, hdtype=dt), rp, n, r_, rng.random() < 0.8, shp)
        # factor matrices held as scipy.sparse.coo_matrix (admitted by the ttensor constructor; ttensor.nvecs has its own branches for a
        # sparse factor n, a sparse XnT and a sparse Y): dense core and sparse core, all / some factors sparse
        for rp in ("ttensor_cf", "ttensor_spcf"):
            for k in range(3 if big else 2):
                b = fresh(_bundle_tucker)
                n, r = _pick_nr(rng, shp)
                mask = [True] * d if k == 0 else [rng.random() < 0.5 for _ in range(d)]
                if k == 1:
                    mask[n] = True
                if k == 2:
                    mask[n] = False
                _emit(cases, dict(b, cfmask=mask), rp, n, r, rng.random() < 0.8, shp)
        # structured factors: the requested mode's factor has unit-norm columns (orthogonal / not orthogonal / generic directions)
        for fk in ("unit", "ortho") + (("gridnorm",) if (big or shp == SHAPES_VQ[0]) else ()):
            for n in range(d):
                kinds = [rng.choice(["generic", fk]) for _ in range(d)]
                kinds[n] = fk
                if fk == "gridnorm":
                    kinds = ["gridnorm" if k == n else "generic" for k in range(d)]
                b = _bundle_tucker(rng, shp, kinds)
                b["order"] = rng.choice(["sorted", "reversed", "random"])
                b["sseed"] = rng.randrange(10 ** 6)
                for rp in ("ttensor", "ttensor_sp", "ktensor"):
                    for r in sorted({1, max(1, min(shp[n], b["tcs"][n]))}):
                        _emit(cases, b, rp, n, r, rng.random() < 0.8, shp)
        # sequences on one object with other operations between the calls
        for rp in ("ktensor", "ktensor", "ttensor", "ttensor_sp", "dense", "sparse"):
            for rep in range(2 if big else 1):
                b = fresh(_bundle_tucker if rp in ("ktensor", "ttensor", "ttensor_sp") else None)
                for _ in range(20):
                    if rp != "ktensor" or any(abs(w) != 1 for w in b["kw"]):
                        break
                    b = fresh(_bundle_tucker)
                modes = [k for k in range(d) if rp != "sparse" or _sp_class(shp, k) == "answered"]
                if not modes:
                    continue
                modes = modes + [rng.choice(modes)]
                rng.shuffle(modes)
                rs = [rng.choice([1, shp[n], rng.randint(1, shp[n])]) for n in modes]
                btw = [rng.choice(cu.BETWEEN[rp]) for _ in modes]
                cases.append(Case("sp_seq" if rp == "sparse" else "seq",
                                  dict(b, repr=rp, modes=modes, rs=rs, flip=rng.random() < 0.8, between=btw,
                                       lay=rng.choice(["F", "C"])), any(shp[n] >= 2 for n in modes)))
    return cases


AGREE_REPRS = ("dense", "ktensor", "ttensor", "ttensor_sp")


# ---------------------------------------------------------------- running pyttb with the solvers recorded
@contextlib.contextmanager
def _recorded(np, log, aux=None):
    """scipy's eigen solvers wrapped (record input and output); with aux: also the COO matrix sptensor.spmatrix() returns inside
    sptensor.nvecs and the result of the outermost sptensor.ttm call inside ttensor.nvecs (record only, pyttb untouched)"""
    import scipy.linalg
    import scipy.sparse
    import scipy.sparse.linalg
    import pyttb as ttb
    o_spm, o_ttm = ttb.sptensor.spmatrix, ttb.sptensor.ttm
    depth = [0]

    def spm(self):
        out = o_spm(self)
        if aux is not None and "tnt" not in aux:
            c = out.tocoo(False) if not isinstance(out, scipy.sparse.coo_matrix) else out
            aux["tnt"] = {"shape": [int(x) for x in c.shape], "rows": [int(x) for x in c.row], "cols": [int(x) for x in c.col],
                          "data": [tgen.exact(x) for x in c.data]}
        return out

    def ttm(self, *a, **k):
        depth[0] += 1
        try:
            out = o_ttm(self, *a, **k)
        finally:
            depth[0] -= 1
        if aux is not None and depth[0] == 0 and "H" not in aux:
            aux["H"] = ({"kind": "tensor", **tgen.obs_dense(np, out)} if isinstance(out, ttb.tensor)
                        else {"kind": "sptensor", **tgen.obs_sparse(np, out)} if isinstance(out, ttb.sptensor)
                        else {"kind": type(out).__name__})
        return out
    saved = [(scipy.linalg, "eigh"), (scipy.linalg, "eig"), (scipy.sparse.linalg, "eigsh"), (scipy.sparse.linalg, "eigs")]
    orig = [(m, nm, getattr(m, nm)) for m, nm in saved]

    def wrap(nm, f):
        def g(y, *a, **k):
            out = f(y, *a, **k)
            yd = y.toarray() if scipy.sparse.issparse(y) else np.asarray(y)
            call = {"pos": [int(x) if isinstance(x, (int, np.integer)) else type(x).__name__ for x in a], "kw": sorted(k)}
            log.append((nm, np.array(yd, dtype=float), np.array(out[0]), np.array(out[1]), call))
            return out
        return g
    try:
        for m, nm, f in orig:
            setattr(m, nm, wrap(nm, f))
        if aux is not None:
            ttb.sptensor.spmatrix, ttb.sptensor.ttm = spm, ttm
        yield
    finally:
        for m, nm, f in orig:
            setattr(m, nm, f)
        ttb.sptensor.spmatrix, ttb.sptensor.ttm = o_spm, o_ttm


_mk = cu.mk


def _run_one(ttb, np, a, rp, X=None):
    if X is None:
        X = _mk(ttb, np, a, rp)
    log, aux = [], {}
    with _recorded(np, log, aux):
        v = X.nvecs(a["n"], a["r"], flipsign=a["flip"])
    v = np.asarray(v)
    o = {"is_real": not np.iscomplexobj(v), "vshape": [int(x) for x in v.shape],
         "V": [[rq(x) for x in row] for row in np.real(v).reshape((v.shape[0], -1))],
         "Vx": [[tgen.exact(x) for x in np.real(v)[:, j]] for j in range(v.shape[1])] if v.ndim == 2 else [],
         "imag": float(np.max(np.abs(np.imag(v)))) if v.size else 0.0, "ncalls": len(log)}
    if log:
        nm, y, w, vv, call = log[-1]
        o["solver"] = nm
        o["call"] = call        # positional arguments after the matrix, names of keyword arguments (v0=, sigma=, which=, ...)
        o["Y"] = [[tgen.exact(x) for x in row] for row in y]
        o["w"] = [tgen.exact(x) for x in np.real(w)]
        o["cols"] = [[tgen.exact(x) for x in np.real(vv)[:, j]] for j in range(vv.shape[1])]
    o.update(aux)          # "tnt": spmatrix() inside sptensor.nvecs;  "H": core.ttm(V) inside ttensor.nvecs (sparse core)
    return o


def _cert(np, a):
    """full eigen-decomposition (numpy) of the exact Gram matrix: certificate-checked in Coq"""
    X = np.array(a["data"], dtype=float).reshape(tuple(a["shape"]), order="F")
    Xn = np.moveaxis(X, a["n"], 0).reshape((a["shape"][a["n"]], -1))
    w, W = np.linalg.eigh(Xn @ Xn.T)
    o = np.argsort(-w, kind="stable")
    w, W = w[o], W[:, o]
    r = a["r"]
    gap = float("inf") if r >= len(w) else float(w[r - 1] - w[r]) / max(1.0, float(w[0]))
    return {"W": [[rq(x) for x in row] for row in W], "mu": [rq(x) for x in w], "gap": gap}


def run_impl(c):
    import numpy as np
    import pyttb as ttb
    a = c.args
    try:
        if c.op in ("seq", "sp_seq"):
            X = _mk(ttb, np, a, a["repr"])           # ONE object for the whole sequence
            steps = []
            btw = a.get("between") or [None] * len(a["modes"])
            for k, (n, r, bo) in enumerate(zip(a["modes"], a["rs"], btw)):
                an = dict(a, n=n, r=r)
                st = _run_one(ttb, np, an, a["repr"], X)
                st["cert"] = _cert(np, an)
                steps.append(st)
                if bo is not None:
                    cu.apply_between(ttb, np, X, bo, k)
            return {"steps": steps}
        if c.op in ("agree", "sp_agree"):
            o = {"cert": _cert(np, a)}
            for rp in (AGREE_REPRS if c.op == "agree" else ("dense", "sparse")):
                o[rp] = _run_one(ttb, np, a, rp)
            return o
        o = _run_one(ttb, np, a, a["repr"])
        if c.op not in ("big", "sp_big"):        # large modes are certified by the trace bound, not by a full decomposition
            o["cert"] = _cert(np, a)
        return o
    except Exception as ex:
        return {"exc": type(ex).__name__, "msg": str(ex)[:200]}


# ---------------------------------------------------------------- Coq side
def _grepr(a, rp):
    import random
    if rp == "dense":
        return f"(RDense {tgen.gdense(a['shape'], a['data'])})"
    if rp == "sparse":
        subs, vals = tgen.dense_to_sparse(a["shape"], a["data"], random.Random(a["sseed"]), a["order"])
        return f"(RSparse {tgen.gsparse(a['shape'], subs, vals)})"
    if rp == "ktensor":
        return f"(RKruskal {tgen.gktensor(a['kw'], a['kf'])})"
    return f"(RTucker {tgen.gttensor(a['tcs'], a['tcore'], a['tf'])})"       # ttensor and ttensor_sp: same denotation


def _gmats(ms):
    return "[" + "; ".join(tgen.gmatrix(m) for m in ms) + "]"


def _all_int(m):
    return all(isinstance(x, int) for row in m for x in row)


def _e_gram(a, o, rp, inexact=False):
    """recorded solver input (divided exactly by 4^(total exponent)) against the Gram matrix of the integer denotation: equal when
    every product the code forms is exact, otherwise within 1e-12 * trace"""
    if "Y" not in o or any(isinstance(x, str) for row in o["Y"] for x in row):
        return "false"
    Y = cu.unscale_exact(o["Y"], 2 * cu.total_exp(a))
    if inexact or not cu.is_exact(a):
        return f"gram_recorded_close {_grepr(a, rp)} {a['n']} {gqmat(Y)}"
    if not _all_int(Y):
        return "false"
    o = dict(o, Y=Y)
    e = f"gram_recorded_ok {_grepr(a, rp)} {a['n']} {gzmat(o['Y'])}"
    if rp == "dense":
        e += f" && mat_eqb (gram_dense_code {tgen.gdense(a['shape'], a['data'])} {a['n']}) {gzmat(o['Y'])}"
        e += f" && omat_eqb (gram_dense_tm_code {tgen.gdense(a['shape'], a['data'])} {a['n']}) {gzmat(o['Y'])}"
    if rp == "ktensor":
        e += f" && mat_eqb (gram_k_code {tgen.gktensor(a['kw'], a['kf'])} {a['n']}) {gzmat(o['Y'])}"
    if rp == "sparse":          # the COO-product model of C14_gram_sparse on the stored subscripts/values as given
        import random
        subs, vals = tgen.dense_to_sparse(a["shape"], a["data"], random.Random(a["sseed"]), a["order"])
        gs = tgen.gsparse(a['shape'], subs, vals)
        e += f" && mat_eqb (gram_sp_code {gs} {a['n']}) {gzmat(o['Y'])}"
        # the code path itself (C14_gram_sparse_code): reshape and second reshape over the generated tt_sub2ind/tt_ind2sub, spmatrix,
        # transpose — on the whole domain of the theorem (at least two modes, not all singleton: singleton mode n and singleton product
        # of the other modes included, C14_sparse_singleton_answered)
        if _sp_class(a["shape"], a["n"]) == "answered":
            e += f" && omat_eqb (gram_sp_path_code {gs} {a['n']}) {gzmat(o['Y'])}"
            e += " && " + _e_tnt(a, o, gs)
    if rp.startswith("ttensor"):      # the through-the-core model of C14_gram_tucker (ttensor_cf / ttensor_spcf: coo factor matrices)
        e += f" && mat_eqb (gram_t_code {tgen.gttensor(a['tcs'], a['tcore'], a['tf'])} {a['n']}) {gzmat(o['Y'])}"
        if rp == "ttensor":
            e += f" && omat_eqb (gram_t_tm_code {tgen.gttensor(a['tcs'], a['tcore'], a['tf'])} {a['n']}) {gzmat(o['Y'])}"
        elif rp == "ttensor_sp":                   # sparse core as stored
            import random
            subs, vals = tgen.dense_to_sparse(a["tcs"], a["tcore"], random.Random(a["sseed"]), a["order"])
            gs = tgen.gsparse(a['tcs'], subs, vals)
            e += f" && gram_tsp_code {gs} {_gmats(a['tf'])} {a['n']} {gzmat(o['Y'])}"
            # with the H the code computes (C14_gram_tucker_sparse_core_code): the sptensor.ttm chain, and H as recorded
            e += f" && gram_tsp_chain_code {gs} {_gmats(a['tf'])} {a['n']} {gzmat(o['Y'])}"
            e += " && " + _e_chain(a, o, gs)
    return e


def _e_tnt(a, o, gs):
    """the COO matrix spmatrix() returned inside sptensor.nvecs (stored order, values divided exactly by 2^exp) = the model's tnt^T"""
    t = o.get("tnt")
    if not t or any(isinstance(x, str) for x in t["data"]):
        return "false"
    data = cu.unscale_exact([t["data"]], cu.total_exp(a))[0]
    if not all(isinstance(x, int) for x in data):
        return "false"
    return f"sp_tnt_recorded_ok {gs} {a['n']} {gnlist(t['shape'])} {gnlist(t['rows'])} {gnlist(t['cols'])} {gzlist(data)}"


def _e_chain(a, o, gs):
    """H = core.ttm(V) recorded inside ttensor.nvecs (sparse core) against the chain model (values divided exactly by 2^exp: the
    factors are unscaled on this path).  The current code returns a dense tensor (compared entry by entry); a well-formed sptensor with
    the same denotation is the other container C14_gram_tucker_sparse_core admits."""
    h = o.get("H")
    if not h or h.get("kind") not in ("tensor", "sptensor"):
        return "false"
    raw = h["data"] if h["kind"] == "tensor" else h["vals"]
    if any(isinstance(x, str) for x in raw):
        return "false"
    data = cu.unscale_exact([raw], a.get("exp", 0))[0]
    if not all(isinstance(x, int) for x in data):
        return "false"
    if h["kind"] == "sptensor":
        return f"sp_denotes {tgen.gsparse(h['shape'], h['subs'], data)} (sp_chain_code {gs} {_gmats(a['tf'])} {a['n']})"
    return f"sp_chain_recorded_ok {gs} {_gmats(a['tf'])} {a['n']} {tgen.gdense(h['shape'], data)}"


def _e_eig(a, o, rp):
    ct = o["cert"]
    if o["vshape"] != [a["shape"][a["n"]], a["r"]]:
        return "false"
    return (f"nvecs_ok eps8 (zq (rgram {_grepr(a, rp)} {a['n']})) {gqmat(ct['W'])} {gqlist(ct['mu'])} {gqmat(o['V'])} "
            f"{a['r']} {gbool(a['flip'])}")


def _e_post(a, o):
    if "w" not in o:
        return "false"
    if any(isinstance(x, str) for x in o["w"]) or any(isinstance(x, str) for cl in o["cols"] + o["Vx"] for x in cl):
        return "false"     # non-finite solver output / result
    cols = "[" + "; ".join(gqlist(cl) for cl in o["cols"]) + "]"
    got = "[" + "; ".join(gqlist(cl) for cl in o["Vx"]) + "]" if o["Vx"] else "(@nil (list Qc))"
    if len({abs(x) for x in o["w"]}) < len(o["w"]):
        # exactly equal |w|: numpy's default argsort is not stable, the order among ties is unspecified — every returned column must be
        # the (flipped) recorded column of SOME index whose |w| is the k-th largest (decided in Coq, Model/C14Check.v qpost_tie_ok)
        return f"qpost_tie_ok {gqlist(o['w'])} {cols} {a['r']} {gbool(a['flip'])} {got}"
    return f"qcols_eqb (qpost {gqlist(o['w'])} {cols} {a['r']} {gbool(a['flip'])}) {got}"


def _gsp(a):
    import random
    subs, vals = tgen.dense_to_sparse(a["shape"], a["data"], random.Random(a["sseed"]), a["order"])
    return tgen.gsparse(a["shape"], subs, vals)


def _e_facts(a, o, sym=False):
    """result shape, exactly one solver call, the solver of the path the request selects (r < I_n - 1: iterative; sptensor.nvecs calls
    eigs / eig, the other three representations eigsh / eigh)"""
    it = a["r"] < a["shape"][a["n"]] - 1
    want = ("eigs" if it else "eig") + ("h" if sym else "")
    # the call itself: solver(y, r) on the iterative path, solver(y) on the dense path, no keyword argument (start vector, shift,
    # which-end, tolerance are the library defaults in all four implementations)
    call_ok = o.get("call") == {"pos": [a["r"]] if it else [], "kw": []}
    if not call_ok:
        return "false"
    return f"shape_is {gnlist(o['vshape'])} {a['shape'][a['n']]} {a['r']} && {gbool(o.get('solver') == want and o['ncalls'] == 1)}"


def _e_imag0(o):
    return f"qleb {gq(rq(o['imag']))} q0"


def _e_spcode(a, o):
    """the returned matrix = sptensor.nvecs' OWN post-processing (Model/C14SpPost.v: row permutation on the dense-solver path, eigs'
    order kept on the iterative path, flip loop) of the recorded solver output, exactly — the code-path tie of the sparse representation;
    theorems C14_sparse_post_dense_sorted / _iter_sorted say on which solver outputs this is the post-processing the property asks for"""
    if "w" not in o:
        return "false"
    if any(isinstance(x, str) for x in o["w"]) or any(isinstance(x, str) for cl in o["cols"] + o["Vx"] for x in cl):
        return "false"
    I, r = a["shape"][a["n"]], a["r"]
    cols = "[" + "; ".join(gqlist(cl) for cl in o["cols"]) + "]" if o["cols"] else "(@nil (list Qc))"
    got = "[" + "; ".join(gqlist(cl) for cl in o["Vx"]) + "]" if o["Vx"] else "(@nil (list Qc))"
    if r < I - 1:
        return f"qcols_eqb (qsp_post_iter {cols} {gbool(a['flip'])}) {got}"
    if len({abs(x) for x in o["w"]}) < len(o["w"]):      # order among exactly equal |w| unspecified (numpy's default argsort)
        return f"shape_is {gnlist(o['vshape'])} {I} {r}"
    return f"qcols_eqb (qsp_post_dense {gqlist(o['w'])} {cols} {r} {gbool(a['flip'])}) {got}"


def coq_check(c, o):
    a = c.args
    if c.op == "sp_refused":       # only singleton modes: the code path refuses (ValueError pinned by tests/), and so does its model
        return f"{gbool(o.get('exc') == 'ValueError' and 'only singleton' in (o.get('msg') or ''))} && sp_path_refused {_gsp(a)} {a['n']}"
    if c.op == "sp_badmode":       # a mode that does not exist: refused by the range test (/repo 453f75b), and so does the model
        return (f"{gbool(o.get('exc') == 'AssertionError')} && "
                f"sp_path_refused_z {_gsp(a)} ({a['n']})%Z")
    if "exc" in o:
        return "false"
    if c.op in ("big", "sp_big"):
        # large modes: the recorded solver input against the exact Gram matrix of the (dense) denotation, this representation denotes the
        # same tensor, the solver call, and the trace certificate; the code-path models are evaluated on the small streams (their
        # cost grows with the fourth power of the mode size)
        rp = a["repr"]
        if o["vshape"] != [a["shape"][a["n"]], a["r"]] or "Y" not in o or not _all_int(o["Y"]):
            return "false"
        gd = _grepr(a, "dense")
        base = (f"gram_recorded_ok {gd} {a['n']} {gzmat(o['Y'])} && rsame {gd} {_grepr(a, rp)} && "
                f"nvecs_trace_ok eps8 (zq (rgram {gd} {a['n']})) {gqmat(o['V'])} {a['r']} {gbool(a['flip'])} {gbool(c.op == 'big')}")
        if c.op == "sp_big":     # dtype / order of the sparse path: finding A-38 (facets sp_real, sp_eig of the small stream)
            return f"{base} && {_e_facts(a, o)} && {_e_imag0(o)} && {_e_spcode(a, o)}"
        return f"{gbool(o['is_real'])} && {base} && {_e_facts(a, o, True)} && {_e_post(a, o)}"
    if c.op == "nvecs":
        rp = a["repr"]
        return f"{gbool(o['is_real'])} && {_e_gram(a, o, rp)} && {_e_eig(a, o, rp)} && {_e_post(a, o)} && {_e_facts(a, o, True)}"
    if c.op in ("seq", "sp_seq"):
        rp = a["repr"]
        parts = []
        btw = a.get("between") or [None] * len(a["modes"])
        inexact = False
        for n, r, st, bo in zip(a["modes"], a["rs"], o["steps"], btw):
            an = dict(a, n=n, r=r)
            if c.op == "sp_seq":        # eigenvectors of the sparse path: known finding A-38; the Gram matrix is checked at every call
                parts.append(_e_gram(an, st, rp) + " && " + _e_facts(an, st))
            else:
                parts.append(f"{gbool(st['is_real'])} && {_e_gram(an, st, rp, inexact)} && {_e_eig(an, st, rp)} && {_e_post(an, st)} && "
                             f"{_e_facts(an, st, True)}")
            inexact = inexact or bo in cu.INEXACT_OPS
        return " && ".join(f"({p_})" for p_ in parts)
    if c.op == "sp_gram":
        return _e_gram(a, o, "sparse") + " && " + _e_facts(a, o)
    if c.op == "sp_real":
        return gbool(o["is_real"])
    if c.op == "sp_eig":
        return _e_eig(a, o, "sparse") + " && " + _e_imag0(o)
    if c.op == "sp_post":
        return _e_post(a, o)
    if c.op == "sp_code":
        return _e_spcode(a, o)
    if c.op == "sp_cols":      # orthonormal columns, sign rule, no imaginary parts
        return f"cols_ok eps8 {gqmat(o['V'])} {a['shape'][a['n']]} {a['r']} {gbool(a['flip'])} && {_e_imag0(o)}"
    if c.op == "sp_set":       # eigenvectors belonging to the r largest eigenvalues, in any order
        ct = o["cert"]
        return (f"eigset_ok eps8 (zq (rgram {_grepr(a, 'sparse')} {a['n']})) {gqmat(ct['W'])} {gqlist(ct['mu'])} {gqmat(o['V'])} "
                f"{a['r']} && {_e_imag0(o)}")
    if o["cert"]["gap"] < 1e-3:
        return None
    if c.op == "agree":
        same = f"rsame {_grepr(a, 'dense')} {_grepr(a, 'ktensor')} && rsame {_grepr(a, 'dense')} {_grepr(a, 'ttensor')}"
        return same + " && all_same_subspace eps6 [" + "; ".join(gqmat(o[rp]["V"]) for rp in AGREE_REPRS) + "]"
    if c.op == "sp_agree":
        # (the dtype of the sparse result is facet sp_real)
        return (f"rsame {_grepr(a, 'dense')} {_grepr(a, 'sparse')} && {_e_imag0(o['sparse'])} && "
                f"same_subspace eps6 {gqmat(o['dense']['V'])} {gqmat(o['sparse']['V'])}")
    raise ValueError(c.op)


# ---------------------------------------------------------------- brute-force oracle (pure Python floats)
def _py_gram(a):
    shp, n = a["shape"], a["n"]
    subs = tgen.all_subs(shp)
    G = [[0.0] * shp[n] for _ in range(shp[n])]
    byrest = {}
    for s, v in zip(subs, a["data"]):
        byrest.setdefault(tuple(s[:n] + s[n + 1:]), {})[s[n]] = v
    for fib in byrest.values():
        for p, x in fib.items():
            for q, y in fib.items():
                G[p][q] += x * y
    return G


def _oracle_one(a, o, what):
    if not o["is_real"]:
        return f"{what}: result is {'complex-typed' if o['imag'] == 0 else 'complex'} (max |imag| = {o['imag']})"
    n, r = a["shape"][a["n"]], a["r"]
    if o["vshape"] != [n, r]:
        return f"{what}: result has shape {o['vshape']}, expected {[n, r]}"
    V = [[float(x) for x in row] for row in o["V"]]
    G = _py_gram(a)
    sc = max(1.0, sum(G[i][i] for i in range(n)))
    mu = [float(x) for x in o["cert"]["mu"]]
    for j in range(r):
        for k in range(r):
            g = sum(V[i][j] * V[i][k] for i in range(n))
            if abs(g - (1.0 if j == k else 0.0)) > 1e-7:
                return f"{what}: columns {j},{k} have inner product {g}"
        Gv = [sum(G[i][k] * V[k][j] for k in range(n)) for i in range(n)]
        lam = sum(V[i][j] * Gv[i] for i in range(n))
        if max(abs(Gv[i] - lam * V[i][j]) for i in range(n)) > 1e-7 * sc:
            return f"{what}: column {j} is not an eigenvector of the mode-{a['n']} Gram matrix"
        if abs(lam - mu[j]) > 1e-7 * sc:
            return f"{what}: column {j} belongs to eigenvalue {lam}, the {j}-th largest is {mu[j]}"
        if a["flip"]:
            m = max(abs(V[i][j]) for i in range(n))
            if m > 1e-7 and not any(V[i][j] > 0 and V[i][j] >= m - 1e-7 for i in range(n)):
                return f"{what}: column {j}: entry of largest magnitude is negative"
    return None


def _oracle_big(a, o, what, inorder):
    """large modes, pure Python floats: orthonormal eigenvectors of the brute-force Gram matrix whose Rayleigh quotients are
    non-increasing and leave a remainder trace(G) - sum(lam) that is no larger than the smallest of them (G is positive semi-definite:
    no uncaptured eigenvalue can then exceed a captured one)"""
    n, r = a["shape"][a["n"]], a["r"]
    if o["vshape"] != [n, r]:
        return f"{what}: result has shape {o['vshape']}, expected {[n, r]}"
    if inorder and not o["is_real"]:
        return f"{what}: result is complex-typed"
    if o["imag"] != 0:
        return f"{what}: result has imaginary parts (max {o['imag']})"
    V = [[float(x) for x in row] for row in o["V"]]
    G = _py_gram(a)
    tr = sum(G[i][i] for i in range(n))
    sc = max(1.0, tr)
    lam = []
    for j in range(r):
        for k in range(r):
            g = sum(V[i][j] * V[i][k] for i in range(n))
            if abs(g - (1.0 if j == k else 0.0)) > 1e-7:
                return f"{what}: columns {j},{k} have inner product {g}"
        Gv = [sum(G[i][k] * V[k][j] for k in range(n)) for i in range(n)]
        lj = sum(V[i][j] * Gv[i] for i in range(n))
        if max(abs(Gv[i] - lj * V[i][j]) for i in range(n)) > 1e-7 * sc:
            return f"{what}: column {j} is not an eigenvector of the mode-{a['n']} Gram matrix"
        lam.append(lj)
        if a["flip"]:
            m = max(abs(V[i][j]) for i in range(n))
            if m > 1e-7 and not any(V[i][j] > 0 and V[i][j] >= m - 1e-7 for i in range(n)):
                return f"{what}: column {j}: entry of largest magnitude is negative"
    ls = lam if inorder else sorted(lam, reverse=True)
    if any(ls[j + 1] > ls[j] + 1e-7 * sc for j in range(r - 1)):
        return f"{what}: eigenvalues {lam} are not in decreasing order"
    if tr - sum(lam) > ls[-1] + 1e-7 * sc:
        return (f"{what}: the columns belong to eigenvalues {lam}, but the rest of the spectrum carries {tr - sum(lam)} > {ls[-1]}: "
                f"a larger eigenvalue was left out (the generator builds spectra whose tail beyond r is smaller than the r-th value)")
    return None


def oracle(c, o):
    a = c.args
    if c.op in ("sp_refused", "sp_badmode"):
        return None
    if "exc" in o:
        return f"admissible request raised {o['exc']}: {o.get('msg')}"
    if c.op in ("big", "sp_big"):
        return _oracle_big(a, o, a["repr"], c.op == "big")
    if c.op == "sp_seq":
        return None
    if c.op == "seq":
        for k, (n, r, st) in enumerate(zip(a["modes"], a["rs"], o["steps"])):
            w = _oracle_one(dict(a, n=n, r=r), st, f"{a['repr']} call {k + 1} of {len(o['steps'])} on the same object (mode {n}, r={r})")
            if w:
                return w
        return None
    if c.op in ("agree", "sp_agree"):
        names = [k for k in o if k != "cert"]
        for nm in names:
            w = _oracle_one(a, dict(o[nm], cert=o["cert"]), nm)
            if w:
                return w
        n = a["shape"][a["n"]]
        Ps = []
        for nm in names:
            V = [[float(x) for x in row] for row in o[nm]["V"]]
            Ps.append([[sum(V[i][k] * V[j][k] for k in range(a["r"])) for j in range(n)] for i in range(n)])
        for P in Ps[1:]:
            if max(abs(P[i][j] - Ps[0][i][j]) for i in range(n) for j in range(n)) > 1e-5:
                return f"representations {names} span different subspaces"
        return None
    return _oracle_one(a, o, a["repr"])


# ---------------------------------------------------------------- known findings
# A-38 (sptensor.nvecs uses the UNSYMMETRIC solvers eigs / eig and mis-sorts their output) — exactly what it breaks, per facet:
#   iterative path (r < I_n - 1):  `_, v = eigs(y, r)` is returned as it comes: complex128 dtype ALWAYS (facet sp_real); the r dominant
#       eigenpairs but in ARPACK's order, so with r >= 2 the columns may be out of order (sp_eig, sp_post); when two of the r leading
#       eigenvalues coincide the unsymmetric solver's vectors need not be orthogonal / real (sp_cols, sp_agree, sp_eig, sp_post);
#       with a simple spectrum the SET of eigenpairs is right (sp_set is attributed on this path only for coinciding eigenvalues, where
#       the unsymmetric solver returns a complex-conjugate pair: observed on a 4x4 tensor with eigenvalues 648, 0, 0, 0 and r = 2)
#   dense path (r >= I_n - 1):  `w, v = eig(y.toarray()); v = v[(-abs(w)).argsort()]` permutes ROWS: wrong unless that permutation is
#       the identity — decided here by replaying LAPACK's eig on the exact Gram matrix of the request (deterministic) — or, when an
#       eigenvalue of the whole spectrum is repeated, geev's vectors inside the eigenspace need not be orthogonal (sp_cols too);
#       the dtype is real on this path unless an eigenvalue is repeated (eig then may return a complex-conjugate pair: observed on a
#       2x2x3x2 tensor with two eigenvalues ~6.8e-14); sp_real is attributed on this path for repeated eigenvalues only
#   sp_code (the returned matrix is the code's own post-processing of the recorded solver output, Model/C14SpPost.v) is attributed only
#       where the unsymmetric solver may return complex-valued vectors (coinciding eigenvalues): the model works on real parts
# Everything else — the Gram matrix handed to the solver, the code-path model, shape, solver choice, and each facet outside its class
# above — is compared unattributed.
def _spectrum(a):
    import numpy as np
    G = np.array(_py_gram(a), dtype=float)
    mu = sorted((float(x) for x in np.linalg.eigvalsh(G)), reverse=True)
    return G, mu


def _degenerate(mu, k):
    sc = max(1.0, mu[0]) if mu else 1.0
    return any(abs(mu[i] - mu[i + 1]) <= 1e-7 * sc for i in range(min(k, len(mu) - 1)))


def _a38(c):
    if c.op not in ("sp_real", "sp_eig", "sp_post", "sp_cols", "sp_set", "sp_agree", "sp_code"):
        return False
    a = c.args
    I, r = a["shape"][a["n"]], a["r"]
    iterative = r < I - 1
    if c.op == "sp_real" and iterative:
        return True
    G, mu = _spectrum(a)
    if iterative:
        dtop = _degenerate(mu, r)        # pairs (mu_i, mu_i+1), i < r: includes the r-th against the (r+1)-th
        if c.op in ("sp_eig", "sp_post"):
            return r >= 2 or dtop
        return dtop                      # sp_cols, sp_agree, sp_code, sp_set: only through complex / non-orthogonal vectors
    dall = _degenerate(mu, I)
    if c.op in ("sp_cols", "sp_code", "sp_real") or dall:
        return dall
    import numpy as np
    import scipy.linalg
    w, _ = scipy.linalg.eig(np.ldexp(G, 2 * cu.total_exp(a)))
    return [int(k) for k in (-np.abs(w)).argsort()] != list(range(I))


# C14-F4 (sptensor.nvecs formed y = tnt^T tnt in the dtype of vals) and C14-F5 (ttensor.nvecs multiplied core and factors in their own
#   dtype) are repaired in /repo (6aef7c8: tnt cast to float64; 4b7dc0e: float64 copies of core and factors at the top of nvecs): holders
#   of an integer / float32 element type (keys vdtype / hdtype) are ORDINARY cases with one accepted behaviour, the float64 answer
#   (theorems C14_gram_sparse_held, C14_gram_tucker_held); no trigger, no witness attribution.  The former witnesses are the fixed
#   regression inputs _REGRESSION_F4 / _REGRESSION_F5 of the variants stream.
TRIGGERS = {"sparse_nvecs": _a38}


def _wit_a38():
    import numpy as np
    import pyttb as ttb
    data = [3, 0, 1, 2, 0, 1, 0, 4, 0, 1, 2, 0, 1, 0, 0, 2, 5, 0, 0, 1, 0, 3, 1, 0]
    shape = (4, 3, 2)
    X = ttb.tensor(np.array(data, dtype=float).reshape(shape, order="F"))
    S = X.to_sptensor()
    msgs = []
    vd, vs = X.nvecs(0, 3), np.asarray(S.nvecs(0, 3))
    dP = float(np.max(np.abs(vd @ vd.T - np.real(vs) @ np.real(vs).T)))
    if dP > 1e-6:
        msgs.append(f"sptensor.nvecs(0,3) on a 4x3x2 tensor: projector differs from the dense tensor's by {dP:.3g}")
    v1 = np.asarray(S.nvecs(0, 1))
    if np.iscomplexobj(v1):
        msgs.append("sptensor.nvecs(0,1) returns complex128")
    return "; ".join(msgs) or None


WITNESSES = {"A-38": _wit_a38}
