(* Proofs/C18GenPrint.v — C18, clause "whatever the printing / verbosity settings", over the translator-GENERATED control-flow
   skeletons of the five drivers (tools/pyx2v_skel.py regenerates them from /repo on every run):

     Gen/GenCpAls.v      cp_als           region `U = init.copy().factor_matrices` .. `return (M, init, output)`
     Gen/GenTuckerAls.v  tucker_als       region `U = Uinit.copy()` .. `return (solution, Uinit, output)`
     Gen/GenCpAprMu.v    tt_cp_apr_mu     region `kktViolations = -np.ones((maxiters,))` .. `return (M, output)`
     Gen/GenSolver.v     StochasticSolver.solve (whole method)
     Gen/GenHosvd.v      hosvd            the mode loop `for k in dimorder:` (see Proofs/C18GenPrintHosvd.v)

   The skeleton translator drops a statement only when it assigns nothing (a call of print / logging.info / warnings.warn, or an
   `if` / `for` whose whole body is of that kind, or an assignment to a declared print-only variable); every other statement under an
   `if printitn > 0 ...` is translated and makes the generated function READ its parameter v_printitn.  So the theorems below are
   obligations on the current source: the generated functions, for ALL instantiations of the numeric kernels, all inputs and all
   option values, return the same result for any two printing settings.  An edit of /repo that lets a printing branch assign to a
   variable of the algorithm (state, trace, counter, the model) changes the generated text so that these proofs no longer check.

   What stays trusted (the translator's drop rule, not a theorem): the ARGUMENTS of a dropped print call and the right-hand sides of
   assignments to print-only variables are not translated, so an argument expression with a side effect on its operands (such as the
   in-place normalisation by tt_loglikelihood of findings C05-N11 / C18-PQNR-PRINT, repaired in /repo c01a61b) is invisible here; that
   part of the clause is covered by the print.* metamorphic pairs of real runs (tools/props/c18.py).

   cp_als is the one driver whose generated text does read v_printitn: `if printitn > 0:` recomputes normresidual and fit from
   innerprod after arrange / fixsigns (finding A-43).  gen_cp_als_print_factor says exactly what that does: a printing run returns the
   silent run's model, start and iteration count, and REPLACES (normresidual, fit) by the recomputation `refit` on the returned model. *)
From Coq Require Import String List Arith Bool.
From PV Require Import Model.W4SPrelude Gen.GenCpAls Gen.GenTuckerAls Gen.GenCpAprMu Gen.GenSolver.
Import ListNotations.
Local Open Scope nat_scope.

(* ============================================================================================== *)
(* 1. tucker_als                                                                                    *)
(* ============================================================================================== *)
Section Tucker.
Variables T_F T_Mat T_X T_TT : Type.
Variable c_leF : T_F -> T_F -> bool.
Variable c_zeroF : T_F.
Variable k_ttm_excl : T_X -> list T_Mat -> nat -> bool -> T_X.
Variable k_nvecs : T_X -> nat -> nat -> T_Mat.
Variable k_ttm_core : T_X -> list T_Mat -> nat -> bool -> T_X.
Variable k_resid : T_F -> T_X -> T_F.
Variable k_fit : T_F -> T_F -> T_F.
Variable k_absdiff : T_F -> T_F -> T_F.
Variable k_ttensor : T_X -> list T_Mat -> bool -> T_TT.

Notation gmain := (GenTuckerAls.tucker_als_main T_F T_Mat T_X T_TT c_leF c_zeroF k_ttm_excl k_nvecs k_ttm_core k_resid k_fit k_absdiff k_ttensor).

(* solution, returned start, iters, normresidual, fit - or the exception - are the same for any two values of printitn *)
Theorem gen_tucker_als_print_indep : forall X Uinit normX rank dimorder maxiters stoptol (p1 p2 : nat),
  gmain X Uinit normX rank dimorder maxiters stoptol p1 = gmain X Uinit normX rank dimorder maxiters stoptol p2.
Proof. intros. reflexivity. Qed.
End Tucker.

(* ============================================================================================== *)
(* 2. cp_apr, multiplicative updates (both verbosity settings: printitn and printinneritn)          *)
(* ============================================================================================== *)
Section Mu.
Variables T_W T_F T_Mat T_Mask T_K T_X T_Pi : Type.
Variable c_leF : T_F -> T_F -> bool.
Variable c_zeroF : T_F.
Variable c_m1F : T_F.
Variable c_subF : T_F -> T_F -> T_F.
Variable k_normalize : T_K -> nat -> T_K.
Variable k_zeros_like_factor : T_K -> nat -> T_Mat.
Variable k_time : T_W -> T_W * T_F.
Variable k_violation_mask : list T_Mat -> nat -> T_K -> T_F -> T_Mask.
Variable k_any : T_Mask -> bool.
Variable k_add_kappa : T_K -> nat -> T_Mask -> T_F -> T_K.
Variable k_redistribute : T_K -> nat -> T_K.
Variable k_calculate_pi : T_X -> T_K -> nat -> nat -> nat -> T_Pi.
Variable k_calculate_phi : T_W -> T_X -> T_K -> nat -> nat -> T_Pi -> T_F -> T_W * T_Mat.
Variable k_kkt_mode : T_K -> nat -> list T_Mat -> T_F.
Variable k_mult_update : T_K -> nat -> list T_Mat -> T_K.
Variable k_normalize_mode : T_K -> nat -> nat -> T_K.
Variable k_max : list T_F -> T_F.
Variable k_normalize_sort : T_K -> nat -> bool -> T_K.
Variable k_loglikelihood : T_X -> T_K -> T_F.

Notation gmu := (GenCpAprMu.cp_apr_mu T_W T_F T_Mat T_Mask T_K T_X T_Pi c_leF c_zeroF c_m1F c_subF k_normalize k_zeros_like_factor k_time
  k_violation_mask k_any k_add_kappa k_redistribute k_calculate_pi k_calculate_phi k_kkt_mode k_mult_update k_normalize_mode k_max
  k_normalize_sort k_loglikelihood).

(* model, every field of `output` (KKT trace, inner-iteration and violation counts, times, objective) and the world (clock reads)
   - or the exception - are the same for any two pairs (printitn, printinneritn) *)
Theorem gen_cp_apr_mu_print_indep : forall w X rank init stoptol stoptime maxiters maxinneriters epsDivZero kappa kappatol N
                                           (p1 q1 p2 q2 : nat),
  gmu w X rank init stoptol stoptime maxiters maxinneriters epsDivZero p1 q1 kappa kappatol N =
  gmu w X rank init stoptol stoptime maxiters maxinneriters epsDivZero p2 q2 kappa kappatol N.
Proof. intros. reflexivity. Qed.
End Mu.

(* ============================================================================================== *)
(* 3. StochasticSolver.solve (gcp_opt with SGD / Adam / Adagrad)                                    *)
(* ============================================================================================== *)
Section Solver.
Variables T_W T_M T_E T_Data T_FH T_LB T_Sampler T_Subs T_Vals T_Wgts T_G T_FM T_Step T_Crng : Type.
Variable c_leE : T_E -> T_E -> bool.
Variable c_zeroE : T_E.
Variable c_zeroStep : T_Step.
Variable k_GCPSampler : T_Data -> T_Sampler.
Variable k_function_sample : T_W -> T_Sampler -> T_Data -> T_W * (T_Subs * T_Vals * T_Wgts).
Variable k_estimate_f : T_M -> T_Subs -> T_Vals -> T_Wgts -> T_FH -> bool -> T_E.
Variable k_reset_state : T_W -> T_W.
Variable k_gradient_sample : T_W -> T_Sampler -> T_Data -> T_W * (T_Subs * T_Vals * T_Wgts).
Variable k_crng : T_Sampler -> T_Crng.
Variable k_estimate_g : T_W -> T_M -> T_Subs -> T_Vals -> T_Wgts -> option T_FH -> T_Crng -> T_FH -> bool -> T_W * T_G.
Variable k_any_inf : T_G -> bool.
Variable k_update_step : T_W -> nat -> T_M -> T_G -> T_LB -> T_W * (T_FM * T_Step).
Variable k_set_factor_matrices : T_M -> T_FM -> T_M.
Variable k_set_failed_epoch : T_W -> T_W.

Notation gsolve := (GenSolver.solve T_W T_M T_E T_Data T_FH T_LB T_Sampler T_Subs T_Vals T_Wgts T_G T_FM T_Step T_Crng c_leE c_zeroE
  c_zeroStep k_GCPSampler k_function_sample k_estimate_f k_reset_state k_gradient_sample k_crng k_estimate_g k_any_inf k_update_step
  k_set_factor_matrices k_set_failed_epoch).

(* model, info (f_est / step traces, epoch count), failure counter, best model and the world (random stream, optimizer state)
   - or the exception - are the same for any two values of self._printitn *)
Theorem gen_solver_print_indep : forall w max_iters epoch_iters max_fails f_est_tol init data fh gh lb sampler (p1 p2 : nat),
  gsolve w max_iters epoch_iters max_fails f_est_tol p1 init data fh gh lb sampler =
  gsolve w max_iters epoch_iters max_fails f_est_tol p2 init data fh gh lb sampler.
Proof. intros. reflexivity. Qed.
End Solver.

(* ============================================================================================== *)
(* 4. cp_als                                                                                        *)
(* ============================================================================================== *)
Section CpAls.
Variables T_F T_Mat T_UtU T_Wt T_K T_X : Type.
Variable c_leF : T_F -> T_F -> bool.
Variable c_zeroF : T_F.
Variable k_init_factors : T_K -> list T_Mat.
Variable k_restrict_dims : list nat -> list nat -> list nat.
Variable k_zeros_mttkrp : T_X -> list nat -> nat -> T_Mat.
Variable k_zeros_utu : nat -> nat -> T_UtU.
Variable k_set_gram : T_UtU -> nat -> list T_Mat -> T_UtU.
Variable k_ktensor_init : list T_Mat -> T_K -> T_K.
Variable k_innerprod : T_X -> T_K -> T_F.
Variable k_is_zero : T_F -> bool.
Variable k_resid0 : T_K -> T_F -> T_F.
Variable k_resid : T_F -> T_K -> T_F -> T_F.
Variable k_fit : T_F -> T_F -> T_F.
Variable k_mttkrp : T_X -> list T_Mat -> nat -> T_Mat.
Variable k_hadamard_others : T_UtU -> nat -> nat -> T_Mat.
Variable k_all_zero_mat : T_Mat -> bool.
Variable k_zeros_like : T_Mat -> T_Mat.
Variable k_solve : T_Mat -> T_Mat -> T_Mat.
Variable k_norm2_cols : T_Mat -> T_Wt.
Variable k_normmax_cols : T_Mat -> T_Wt.
Variable k_all_zero_wt : T_Wt -> bool.
Variable k_scale_cols : T_Mat -> T_Wt -> T_Mat.
Variable k_ktensor : list T_Mat -> T_Wt -> T_K.
Variable k_iprod : T_K -> list nat -> T_Mat -> T_Wt -> T_F.
Variable k_absdiff : T_F -> T_F -> T_F.
Variable k_arrange : T_K -> T_K.
Variable k_fixsigns : T_K -> T_K.

Notation gcp := (GenCpAls.cp_als_main T_F T_Mat T_UtU T_Wt T_K T_X c_leF c_zeroF k_init_factors k_restrict_dims k_zeros_mttkrp k_zeros_utu
  k_set_gram k_ktensor_init k_innerprod k_is_zero k_resid0 k_resid k_fit k_mttkrp k_hadamard_others k_all_zero_mat k_zeros_like k_solve
  k_norm2_cols k_normmax_cols k_all_zero_wt k_scale_cols k_ktensor k_iprod k_absdiff k_arrange k_fixsigns).

(* the block under the final `if printitn > 0:` of cp_als: (fit, normresidual) recomputed on the RETURNED model from innerprod *)
Definition refit (X : T_X) (normX : T_F) (M : T_K) : T_F * T_F :=
  if k_is_zero normX
  then let r := k_resid0 M (k_innerprod X M) in (r, r)
  else let r := k_resid normX M (k_innerprod X M) in (k_fit r normX, r).

(* what a run with printing p makes of the silent run's result *)
Definition with_print (X : T_X) (normX : T_F) (p : nat) (r : T_K * T_K * (nat * T_F * T_F)) : T_K * T_K * (nat * T_F * T_F) :=
  let '(M, ini, (it, nr, fit)) := r in
  if 0 <? p then (M, ini, (it, snd (refit X normX M), fst (refit X normX M))) else r.

Notation gloop2 := (GenCpAls.cp_als_main_loop2 T_F T_Mat T_UtU T_Wt T_K T_X c_leF k_set_gram k_is_zero k_resid0 k_resid k_fit k_mttkrp
  k_hadamard_others k_all_zero_mat k_zeros_like k_solve k_norm2_cols k_normmax_cols k_all_zero_wt k_scale_cols k_ktensor k_iprod k_absdiff).

(* `iteration` and `normresidual` are bound together (both by the zero-iteration prologue or by an executed sweep) *)
Definition both {A B} (a : option A) (b : option B) : Prop :=
  match a, b with Some _, Some _ => True | None, None => True | _, _ => False end.

Lemma loop2_both N dimorder X normX stoptol : forall fuel i M U Um UtU fit ip it n nr M' U' Um' UtU' fit' ip' it' n' nr',
  gloop2 N dimorder X normX stoptol fuel i (M, U, Um, UtU, fit, ip, it, n, nr) = Some (M', U', Um', UtU', fit', ip', it', n', nr') ->
  both it nr -> both it' nr'.
Proof.
  induction fuel as [|fuel IH]; intros * H Hb.
  - cbn in H. inversion H; subst. exact Hb.
  - cbn [GenCpAls.cp_als_main_loop2] in H.
    match type of H with match ?e with Some _ => _ | None => _ end = _ => destruct e as [[[[[U1 Um1] UtU1] n1] [w1|]]|]; try discriminate end.
    destruct (k_is_zero normX).
    + match type of H with (if ?c then _ else _) = _ => destruct c end.
      * inversion H; subst. exact I.
      * eapply IH; [exact H|exact I].
    + match type of H with (if ?c then _ else _) = _ => destruct c end.
      * inversion H; subst. exact I.
      * eapply IH; [exact H|exact I].
Qed.

(* every run = the silent run, then (only when printitn > 0) normresidual and fit replaced by the recomputation *)
Theorem gen_cp_als_print_factor : forall X init normX N rank dimorder optdims maxiters stoptol (p : nat) fixsigns,
  gcp X init normX N rank dimorder optdims maxiters stoptol p fixsigns =
  option_map (with_print X normX p) (gcp X init normX N rank dimorder optdims maxiters stoptol 0 fixsigns).
Proof.
  intros. unfold GenCpAls.cp_als_main, with_print, refit.
  destruct (GenCpAls.cp_als_main_loop1 _ _ _ _ _ _ _) as [[UtU n]|]; [|reflexivity].
  match goal with |- context [match ?e with Some _ => _ | None => _ end] =>
    lazymatch e with (if _ =? 0 then _ else _) =>
      assert (Hb : match e with Some (_, _, _, it, nr) => both it nr | None => True end)
        by (destruct (maxiters =? 0); [destruct (k_is_zero normX)|]; exact I);
      destruct e as [[[[[M0 f0] ip0] it0] nr0]|]; [|reflexivity]
    end
  end.
  match goal with |- context [match ?e with Some _ => _ | None => _ end] =>
    lazymatch e with context [GenCpAls.cp_als_main_loop2] =>
      destruct e as [[[[[[[[[M U] Um] UtU'] fit] ip] it] n'] nr]|] eqn:E2; [|reflexivity]
    end
  end.
  apply loop2_both in E2; [|exact Hb].
  destruct M as [M|]; [|reflexivity].
  change (0 <? 0) with false.
  destruct it as [it|]; destruct nr as [nr|]; try contradiction; [|destruct (0 <? p); destruct (k_is_zero normX); reflexivity].
  destruct (0 <? p); destruct (k_is_zero normX); reflexivity.
Qed.

Definition model_part (r : T_K * T_K * (nat * T_F * T_F)) : T_K * T_K * nat := let '(M, ini, (it, _, _)) := r in (M, ini, it).

Lemma model_part_with_print X normX p r : model_part (with_print X normX p r) = model_part r.
Proof. destruct r as [[M ini] [[it nr] fit]]. unfold with_print, model_part. destruct (0 <? p); reflexivity. Qed.

(* the returned model, the returned start and the iteration count - or the exception - do not depend on printitn *)
Theorem gen_cp_als_print_model : forall X init normX N rank dimorder optdims maxiters stoptol (p1 p2 : nat) fixsigns,
  option_map model_part (gcp X init normX N rank dimorder optdims maxiters stoptol p1 fixsigns) =
  option_map model_part (gcp X init normX N rank dimorder optdims maxiters stoptol p2 fixsigns).
Proof.
  intros. rewrite (gen_cp_als_print_factor _ _ _ _ _ _ _ _ _ p1), (gen_cp_als_print_factor _ _ _ _ _ _ _ _ _ p2).
  destruct (gcp X init normX N rank dimorder optdims maxiters stoptol 0 fixsigns) as [r|]; [|reflexivity].
  cbn [option_map]. now rewrite !model_part_with_print.
Qed.

(* any two printing intervals on the same side of 0 (both silent / both printing): the whole result is the same *)
Theorem gen_cp_als_print_interval : forall X init normX N rank dimorder optdims maxiters stoptol (p1 p2 : nat) fixsigns,
  (0 <? p1) = (0 <? p2) ->
  gcp X init normX N rank dimorder optdims maxiters stoptol p1 fixsigns =
  gcp X init normX N rank dimorder optdims maxiters stoptol p2 fixsigns.
Proof.
  intros * H. rewrite (gen_cp_als_print_factor _ _ _ _ _ _ _ _ _ p1), (gen_cp_als_print_factor _ _ _ _ _ _ _ _ _ p2).
  unfold with_print. rewrite H. reflexivity.
Qed.

(* silent vs printing: the whole result is the same exactly when the recomputation on the returned model reproduces the loop's
   (fit, normresidual) - the kernel contract "innerprod(X, M) after arrange / fixsigns = the cached-MTTKRP inner product of the last
   sweep" (holds up to rounding on real runs: finding A-43; the print.cp_als pairs compare fit at 1e-8) *)
Theorem gen_cp_als_print_fit : forall X init normX N rank dimorder optdims maxiters stoptol (p : nat) fixsigns M ini it nr fit,
  gcp X init normX N rank dimorder optdims maxiters stoptol 0 fixsigns = Some (M, ini, (it, nr, fit)) ->
  refit X normX M = (fit, nr) ->
  gcp X init normX N rank dimorder optdims maxiters stoptol p fixsigns = Some (M, ini, (it, nr, fit)).
Proof.
  intros * H0 Hr. rewrite gen_cp_als_print_factor, H0. cbn [option_map]. unfold with_print. rewrite Hr.
  destruct (0 <? p); reflexivity.
Qed.
End CpAls.
