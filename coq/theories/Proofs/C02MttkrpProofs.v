(* Proofs/C02MttkrpProofs.v — dense mttkrp (tensor.py), all three branches (n = 0, n = N-1, 0 < n < N-1):
   impl_mttkrp_dense equals spec_mttkrp on the denotation of the operand, for all shapes, ranks and ring values.
   This discharges impl_mttkrp_dense_correct_stmt of Proofs/C02DenseProofs.v. *)
From Coq Require Import List Arith Lia Bool Permutation Ring.
From PV Require Import Base.Index Base.Perm Base.Sum Np.Array Model.Sparse Model.Repr Model.C02Spec Model.C02Dense
                       Proofs.C02DenseProofs.
Import ListNotations.

(* ---------------------------------------------------------------- list / index helpers *)
Lemma split_at {A} (d : A) n (l : list A) : n < length l -> l = firstn n l ++ nth n l d :: skipn (S n) l.
Proof.
  intros H. rewrite <- (firstn_skipn n l) at 1. f_equal. now apply skipn_nth_cons.
Qed.

Lemma app_inv_len {A} (a b c e : list A) : length a = length c -> a ++ b = c ++ e -> a = c /\ b = e.
Proof.
  revert c; induction a as [|x a IH]; intros [|y c] HL H; cbn in *; try lia; auto.
  inversion H; subst. destruct (IH c ltac:(lia) H2) as [-> ->]. auto.
Qed.

Lemma ind2sub_app s1 s2 l c : l < size s1 -> c < size s2 ->
  ind2sub (s1 ++ s2) (l + size s1 * c) = ind2sub s1 l ++ ind2sub s2 c.
Proof.
  intros Hl Hc.
  rewrite <- (sub2ind_ind2sub s1 l Hl) at 1. rewrite <- (sub2ind_ind2sub s2 c Hc) at 1.
  rewrite <- sub2ind_app by apply ind2sub_length.
  apply ind2sub_sub2ind. rewrite inb_app by apply ind2sub_length.
  now rewrite !inb_ind2sub.
Qed.

Lemma insert_at_app n x (jl jr : idx) : length jl = n -> insert_at n x (jl ++ jr) = jl ++ x :: jr.
Proof.
  intros <-. unfold insert_at. rewrite firstn_app, Nat.sub_diag, firstn_all. cbn [firstn]. rewrite app_nil_r.
  rewrite skipn_app, Nat.sub_diag, skipn_all. reflexivity.
Qed.

Lemma firstn_app_len {A} n (a b : list A) : length a = n -> firstn n (a ++ b) = a.
Proof. intros <-. rewrite firstn_app, Nat.sub_diag, firstn_all. cbn [firstn]. apply app_nil_r. Qed.

Lemma skipn_S_app_len {A} n (a b : list A) x : length a = n -> skipn (S n) (a ++ x :: b) = b.
Proof.
  intros <-. rewrite skipn_app. rewrite skipn_all2 by lia.
  replace (Nat.sub (S (length a)) (length a)) with 1 by lia. reflexivity.
Qed.

Section P.
Variable V : Type.
Variables (v0 v1 : V) (vadd vmul vsub : V -> V -> V) (vopp : V -> V).
Hypothesis Vring : ring_theory v0 v1 vadd vmul vsub vopp (@eq V).
Add Ring Vr5 : Vring.

Local Notation "x + y" := (vadd x y).
Local Notation "x * y" := (vmul x y).
Local Notation den := (den_dense v0).
Local Notation Sn := (sum_n v0 vadd).
Local Notation kp := (kprod v0 v1 vmul).
Local Notation wfc := (wf_cols V).

Lemma sum_allsubs_app s1 s2 (g : idx -> V) :
  sum_over v0 vadd (allsubs (s1 ++ s2)) g =
  Sn (size s2) (fun c => Sn (size s1) (fun l => g (ind2sub s1 l ++ ind2sub s2 c))).
Proof.
  unfold allsubs. rewrite sum_over_map, size_app. fold (Sn (Nat.mul (size s1) (size s2)) (fun a => g (ind2sub (s1 ++ s2) a))).
  rewrite (sum_n_mul _ _ _ _ _ _ _ Vring). apply sum_n_ext. intros c Hc. apply sum_n_ext. intros l Hl.
  now rewrite ind2sub_app.
Qed.

Lemma kprod_app (A1 A2 : list (@matrix V)) : forall i1 i2 r, length i1 = length A1 ->
  kp (A1 ++ A2) (i1 ++ i2) r = kp A1 i1 r * kp A2 i2 r.
Proof.
  induction A1 as [|A A1 IH]; intros [|x i1] i2 r HL; cbn in HL; try lia.
  - cbn [app kprod]. ring.
  - cbn [app kprod]. rewrite IH by lia. ring.
Qed.

Lemma den_reshape2 (X : dense V) a b p q : p < a -> q < b ->
  den (np_reshapeF v0 X [a; b]) [p; q] = nth (Nat.add p (Nat.mul a q)) (ddata X) v0.
Proof.
  intros Hp Hq. unfold np_reshapeF. rewrite den_tabulate.
  - now rewrite sub2ind_2.
  - cbn [inb]. apply Nat.ltb_lt in Hp, Hq. now rewrite Hp, Hq.
Qed.

Lemma dshape_of_matrix (U : @matrix V) m n : dshape (of_matrix v0 U m n) = [m; n].
Proof. unfold of_matrix. apply dshape_tabulate. Qed.

Lemma den_split (sl sr : shape) In data l x c :
  l < size sl -> x < In -> c < size sr ->
  den (mkDense (sl ++ In :: sr) data) (ind2sub sl l ++ x :: ind2sub sr c) =
  nth (Nat.add l (Nat.mul (size sl) (Nat.add x (Nat.mul In c)))) data v0.
Proof.
  intros Hl Hx Hc. unfold den_dense. cbn [dshape ddata].
  rewrite inb_app by apply ind2sub_length. cbn [inb].
  rewrite !inb_ind2sub by auto. apply Nat.ltb_lt in Hx. rewrite Hx. cbn [andb].
  rewrite sub2ind_app by apply ind2sub_length. cbn [sub2ind].
  now rewrite !sub2ind_ind2sub by auto.
Qed.

Lemma mget_kr_rev_lin R (Us : list (@matrix V)) l r : Us <> [] -> Forall (wfc R) Us ->
  l < size (map (@length _) Us) -> r < R ->
  mget v0 (kr_rev vmul Us) l r = kp Us (ind2sub (map (@length _) Us) l) r.
Proof.
  intros Hne HW Hl Hr. rewrite <- (sub2ind_ind2sub _ l Hl) at 1.
  apply (mget_kr_rev V v0 v1 vadd vmul vsub vopp Vring R); auto. now apply inb_ind2sub.
Qed.

Lemma mget_kr_rev_sh R (Us : list (@matrix V)) sh l r : Us <> [] -> Forall (wfc R) Us ->
  map (@length _) Us = sh -> l < size sh -> r < R ->
  mget v0 (kr_rev vmul Us) l r = kp Us (ind2sub sh l) r.
Proof. intros Hne HW <- Hl Hr. now apply (mget_kr_rev_lin R). Qed.

(* the defining sum, split along the modes left and right of n *)
Lemma spec_mttkrp_split (f : idx -> V) (sl sr : shape) In (Usl Usr : list (@matrix V)) Un R x r :
  length Usl = length sl -> r < R ->
  spec_mttkrp v0 v1 vadd vmul f (sl ++ In :: sr) (length sl) (repeat v1 R) (Usl ++ Un :: Usr) x r =
  Sn (size sr) (fun c => Sn (size sl) (fun l =>
     f (ind2sub sl l ++ x :: ind2sub sr c) * (kp Usl (ind2sub sl l) r * kp Usr (ind2sub sr c) r))).
Proof.
  intros HL Hr. unfold spec_mttkrp, remove_at.
  rewrite (firstn_app_len (length sl) sl) by reflexivity.
  rewrite (firstn_app_len (length sl) Usl) by exact HL.
  rewrite (skipn_S_app_len (length sl) sl) by reflexivity.
  rewrite (skipn_S_app_len (length sl) Usl) by exact HL.
  rewrite sum_allsubs_app. apply sum_n_ext. intros c Hc. apply sum_n_ext. intros l Hl.
  rewrite insert_at_app by apply ind2sub_length.
  rewrite kprod_app by (rewrite ind2sub_length; lia).
  rewrite nth_indep with (d' := v1) by (now rewrite repeat_length). rewrite nth_repeat. ring.
Qed.

Theorem impl_mttkrp_dense_correct : impl_mttkrp_dense_correct_stmt V v0 v1 vadd vmul.
Proof.
  unfold impl_mttkrp_dense_correct_stmt.
  intros X Us R n W HN Hn HL HW Hrows.
  destruct (Nat.eq_dec n 0) as [->|Hn0].
  { apply (impl_mttkrp_dense_n0_correct V v0 v1 vadd vmul vsub vopp Vring); auto. }
  destruct X as [s data]. cbn [dshape] in *.
  set (sl := firstn n s). set (sr := skipn (S n) s). set (In := nth n s 0).
  set (Usl := firstn n Us). set (Usr := skipn (S n) Us). set (Un := nth n Us []).
  assert (Es : s = sl ++ In :: sr) by (now apply split_at).
  assert (EU : Us = Usl ++ Un :: Usr) by (apply split_at; lia).
  assert (Lsl : length sl = n) by (unfold sl; rewrite firstn_length; lia).
  assert (LUl : length Usl = n) by (unfold Usl; rewrite firstn_length; lia).
  assert (Lsr : length sr = Nat.sub (length s) (S n)) by (unfold sr; apply skipn_length).
  assert (LUr : length Usr = Nat.sub (length Us) (S n)) by (unfold Usr; apply skipn_length).
  unfold remove_at in HW, Hrows. fold Usl Usr sl sr in HW, Hrows.
  apply Forall_app in HW as [HWl HWr].
  rewrite map_app in Hrows. apply app_inv_len in Hrows as [Hrl Hrr]; [|rewrite map_length; lia].
  clearbody sl sr In Usl Usr Un. subst s Us n. clear W.
  rewrite app_length in *. cbn [length] in *.
  assert (HneL : Usl <> []) by (intros E; rewrite E in LUl; cbn in LUl; lia).
  unfold impl_mttkrp_dense. cbn [dshape].
  destruct (Nat.eqb_spec (length sl) 0) as [|_]; [lia|].
  rewrite (firstn_app_len (length sl) sl) by reflexivity.
  rewrite (skipn_S_app_len (length sl) sl) by reflexivity.
  rewrite (skipn_S_app_len (length sl) Usl) by exact LUl.
  rewrite (firstn_app_len (length sl) Usl) by exact LUl.
  rewrite nth_middle.
  rewrite app_length. cbn [length].
  destruct (Nat.eqb_spec (length sl) (Nat.sub (Nat.add (length sl) (S (length sr))) 1)) as [Elast|Hmid].
  - (* n = N-1:  Y.T @ Ul *)
    assert (Esr : sr = []) by (destruct sr; [reflexivity|cbn [length] in Elast; lia]).
    assert (EUr : Usr = []) by (destruct Usr; [reflexivity|rewrite Esr in Hrr; discriminate Hrr]).
    replace (Nat.sub (Nat.add (length sl) (S (length sr))) 1) with (length sl) by lia.
    rewrite (firstn_app_len (length sl) Usl) by exact LUl.
    cbn zeta. split; [reflexivity|]. split; [apply wf_tabulate|].
    intros x r Hx Hr.
    rewrite den_matmul.
    2:{ unfold np_T, np_transpose, np_reshapeF. rewrite !dshape_tabulate. exact Hx. }
    2:{ unfold of_matrix. now rewrite dshape_tabulate. }
    replace (nth 1 (dshape (np_T v0 (np_reshapeF v0 {| dshape := sl ++ In :: sr; ddata := data |} [size sl; In]))) 0) with (size sl)
      by (unfold np_T, np_transpose, np_reshapeF; now rewrite !dshape_tabulate).
    rewrite (spec_mttkrp_split _ sl sr In Usl Usr Un R x r) by (auto; lia).
    rewrite Esr, EUr. change (size []) with 1. unfold sum_n at 2. cbn [seq]. rewrite sum_over_cons, sum_over_nil.
    match goal with |- ?a = ?b + v0 => transitivity b; [|ring] end.
    apply sum_n_ext. intros l Hl.
    cbn [ind2sub kprod]. f_equal.
    + unfold np_T, np_transpose. unfold np_reshapeF at 1. rewrite dshape_tabulate. rewrite den_tabulate.
      2:{ cbn [pick map nth inb]. apply Nat.ltb_lt in Hx, Hl. now rewrite Hx, Hl. }
      change (pick 0 (invperm [1; 0]) [x; l]) with [l; x].
      rewrite den_reshape2 by auto. cbn [ddata].
      change (@nil nat) with (ind2sub [] 0) at 2. rewrite den_split; auto.
      f_equal. lia.
    + rewrite den_of_matrix by auto.
      rewrite (mget_kr_rev_sh R Usl sl) by auto. ring.
  - (* 0 < n < N-1 *)
    assert (HneR : Usr <> []).
    { intros E. rewrite E in Hrr. cbn in Hrr. subst sr. cbn [length] in Hmid. lia. }
    cbn zeta. split; [reflexivity|]. split; [apply wf_tabulate|].
    intros x r Hx Hr.
    rewrite den_tabulate.
    2:{ cbn [inb]. apply Nat.ltb_lt in Hx, Hr. now rewrite Hx, Hr. }
    cbn [nth].
    rewrite (spec_mttkrp_split _ sl sr In Usl Usr Un R x r) by (auto; lia).
    unfold sum_n at 2. unfold sum_n at 2. rewrite (sum_over_swap _ _ _ _ _ _ _ Vring). fold (Sn (size sl)).
    apply sum_n_ext. intros l Hl.
    assert (HlIn : Nat.add l (Nat.mul (size sl) x) < Nat.mul (size sl) In) by nia.
    (* Y3[l, x, r] = Y2[l + szl x, r] *)
    set (Y2 := matmul v0 vadd vmul (np_reshapeF v0 {| dshape := sl ++ In :: sr; ddata := data |} [Nat.mul (size sl) In; size sr])
                 (of_matrix v0 (kr_rev vmul Usr) (size sr) R)).
    assert (E3 : den (np_reshapeF v0 Y2 [size sl; In; R]) [l; x; r] = den Y2 [Nat.add l (Nat.mul (size sl) x); r]).
    { rewrite den_reshapeF.
      - unfold Y2, matmul. rewrite dshape_tabulate. unfold np_reshapeF at 1. rewrite dshape_tabulate. cbn [nth].
        unfold of_matrix at 1. rewrite dshape_tabulate. cbn [nth].
        replace (sub2ind [size sl; In; R] [l; x; r]) with
                (sub2ind [Nat.mul (size sl) In; R] [Nat.add l (Nat.mul (size sl) x); r]) by (cbn [sub2ind]; nia).
        rewrite ind2sub_sub2ind; [reflexivity|].
        cbn [inb]. apply Nat.ltb_lt in HlIn, Hr. now rewrite HlIn, Hr.
      - apply wf_tabulate.
      - unfold Y2, matmul. rewrite dshape_tabulate. unfold np_reshapeF at 1. rewrite dshape_tabulate. cbn [nth].
        unfold of_matrix at 1. rewrite dshape_tabulate. cbn [nth]. cbn [size fold_right]. nia.
      - cbn [inb]. apply Nat.ltb_lt in Hl, Hx, Hr. now rewrite Hl, Hx, Hr. }
    rewrite E3.
    assert (EUr : den (np_reshapeF v0 (of_matrix v0 (kr_rev vmul Usl) (size sl) R) [size sl; 1; R]) [l; 0; r]
                  = mget v0 (kr_rev vmul Usl) l r).
    { rewrite den_reshapeF.
      - rewrite dshape_of_matrix.
        replace (sub2ind [size sl; 1; R] [l; 0; r]) with (sub2ind [size sl; R] [l; r]) by (cbn [sub2ind]; nia).
        rewrite ind2sub_sub2ind; [now rewrite den_of_matrix|].
        cbn [inb]. apply Nat.ltb_lt in Hl, Hr. now rewrite Hl, Hr.
      - apply wf_tabulate.
      - rewrite dshape_of_matrix. cbn [size fold_right]. nia.
      - cbn [inb]. apply Nat.ltb_lt in Hl, Hr. rewrite Hl, Hr. reflexivity. }
    rewrite EUr.
    unfold Y2. rewrite den_matmul.
    2:{ unfold np_reshapeF. rewrite dshape_tabulate. exact HlIn. }
    2:{ unfold of_matrix. now rewrite dshape_tabulate. }
    unfold np_reshapeF at 1. rewrite dshape_tabulate. cbn [nth].
    unfold sum_n. rewrite <- (sum_over_scale_r _ _ _ _ _ _ _ Vring).
    apply sum_over_ext. intros c Hc. apply in_seq in Hc. cbn [Nat.add] in Hc.
    rewrite den_reshape2 by (auto; lia). cbn [ddata].
    rewrite den_of_matrix by (auto; lia).
    rewrite den_split by (auto; lia).
    rewrite (mget_kr_rev_sh R Usl sl) by auto.
    rewrite (mget_kr_rev_sh R Usr sr) by (auto; lia).
    replace (Nat.add (Nat.add l (Nat.mul (size sl) x)) (Nat.mul (Nat.mul (size sl) In) c))
       with (Nat.add l (Nat.mul (size sl) (Nat.add x (Nat.mul In c)))) by nia.
    ring.
Qed.

End P.
