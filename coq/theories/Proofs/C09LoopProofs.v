(* C09 bookkeeping / C18 printing-independence of the cp_als outer loop (Model/C09Loop.v).
   All statements hold for every state type, fit type, sweep, fit formulas, comparison, arrange, fixsigns. *)
From Coq Require Import List Arith Bool Lia.
Import ListNotations.
From PV Require Import Model.C09Loop.

(* ---------- list helpers ---------- *)

Lemma c09l_firstn_seq : forall a s n, firstn a (seq s n) = seq s (Nat.min a n).
Proof.
  induction a as [|a IH]; intros s n; [reflexivity|].
  destruct n as [|n]; [reflexivity|].
  cbn [firstn seq Nat.min]. simpl. f_equal. apply IH.
Qed.

Lemma c09l_nth_map_seq : forall (A : Type) (f : nat -> A) (d : A) n j,
  j < n -> nth j (map f (seq 0 n)) d = f j.
Proof.
  intros A f d n j Hj.
  rewrite (nth_indep _ d (f 0)) by (rewrite map_length, seq_length; exact Hj).
  rewrite map_nth. rewrite seq_nth by exact Hj. reflexivity.
Qed.

Lemma c09l_nth_error_map_seq : forall (A : Type) (f : nat -> A) n j,
  j < n -> nth_error (map f (seq 0 n)) j = Some (f j).
Proof.
  intros A f n j Hj.
  rewrite (nth_error_nth' _ (f 0)) by (rewrite map_length, seq_length; exact Hj).
  rewrite map_nth. rewrite seq_nth by exact Hj. reflexivity.
Qed.

Section Proofs.

Variable St : Type.
Variable F : Type.
Variable sweep : nat -> St -> St.
Variable fit_mttkrp : St -> F * F.
Variable fit_innerprod : St -> F * F.
Variable fchange_lt : F -> F -> F -> bool.
Variable fit0 : F.
Variable arrange : St -> St.
Variable fixsigns : St -> St.

Local Notation run := (cpals_run sweep fit_mttkrp fit_innerprod fchange_lt fit0 arrange fixsigns).
Local Notation loop := (cpals_loop sweep fit_mttkrp fchange_lt).
Local Notation finish := (cpals_finish arrange fixsigns).
Local Notation isw := (iter_sweep sweep).
Local Notation fitat := (fit_at sweep fit_mttkrp).
Local Notation fitbefore := (fit_before sweep fit_mttkrp fit0).
Local Notation trig := (cpals_trig sweep fit_mttkrp fchange_lt fit0).
Local Notation stopfrom := (cpals_stop_from sweep fit_mttkrp fchange_lt fit0).
Local Notation stopidx := (cpals_stop_index sweep fit_mttkrp fchange_lt fit0).
Local Notation iterlog := (cpals_iter_log sweep fit_mttkrp fchange_lt fit0).

(* ---------- the stop index ---------- *)

Lemma c09l_stop_ge : forall s0 tol rem k, k - 1 <= stopfrom s0 tol rem k.
Proof.
  intros s0 tol rem; induction rem as [|rem IH]; intros k; simpl.
  - lia.
  - destruct (cpals_trig _ _ _ _ _ _ _); [lia|]. specialize (IH (S k)). fold stopfrom. lia.
Qed.

Lemma c09l_stop_range : forall s0 tol rem k, 0 < rem ->
  k <= stopfrom s0 tol rem k < k + rem.
Proof.
  intros s0 tol rem; induction rem as [|rem IH]; intros k Hr; [lia|].
  simpl. destruct (cpals_trig _ _ _ _ _ _ _); [lia|]. fold stopfrom.
  destruct rem as [|rem].
  - simpl. lia.
  - specialize (IH (S k)). lia.
Qed.

Lemma c09l_stop_trig : forall s0 tol rem k,
  stopfrom s0 tol rem k < k + rem - 1 -> trig s0 tol (stopfrom s0 tol rem k) = true.
Proof.
  intros s0 tol rem; induction rem as [|rem IH]; intros k H.
  - simpl in H. lia.
  - simpl in *. fold trig in *. destruct (trig s0 tol k) eqn:E; [exact E|].
    fold stopfrom in *. apply IH. lia.
Qed.

Lemma c09l_stop_first : forall s0 tol rem k j,
  k <= j < stopfrom s0 tol rem k -> trig s0 tol j = false.
Proof.
  intros s0 tol rem; induction rem as [|rem IH]; intros k j H.
  - simpl in H. lia.
  - simpl in H. fold trig in H. destruct (trig s0 tol k) eqn:E; [lia|].
    fold stopfrom in H.
    destruct (Nat.eq_dec j k) as [->|Hne]; [exact E|].
    apply (IH (S k)). lia.
Qed.

Lemma c09l_stop_trunc : forall s0 tol r1 r2 k, 0 < r1 -> r1 <= r2 ->
  stopfrom s0 tol r1 k = Nat.min (stopfrom s0 tol r2 k) (k + r1 - 1).
Proof.
  intros s0 tol r1; induction r1 as [|r1 IH]; intros r2 k H1 H12; [lia|].
  destruct r2 as [|r2]; [lia|].
  simpl. fold trig. destruct (trig s0 tol k); [lia|]. fold stopfrom.
  destruct r1 as [|r1].
  - simpl. pose proof (c09l_stop_ge s0 tol r2 (S k)). lia.
  - rewrite (IH r2 (S k)) by lia. lia.
Qed.

(* ---------- closed form of the loop ---------- *)

Definition c09l_last_of (s0 : St) (k : nat) : option (nat * F) :=
  match k with 0 => None | S j => Some (j, fst (fit_mttkrp (isw (S j) s0))) end.

Definition c09l_evs (s0 : St) (tol : F) (p : nat) (j : nat) : list (event F) :=
  cpals_iter_events p j (fitat s0 j) (fitbefore s0 j) (trig s0 tol j).

Lemma c09l_loop_S : forall tol p rem k s fit last,
  loop tol p (S rem) k s fit last
  = if (0 <? k) && fchange_lt fit (snd (fit_mttkrp (sweep k s))) tol
    then Some (mkLoopout (sweep k s) k (fst (fit_mttkrp (sweep k s))) (snd (fit_mttkrp (sweep k s)))
                 (cpals_iter_events p k (snd (fit_mttkrp (sweep k s))) fit
                    ((0 <? k) && fchange_lt fit (snd (fit_mttkrp (sweep k s))) tol))
                 [snd (fit_mttkrp (sweep k s))])
    else match loop tol p rem (S k) (sweep k s) (snd (fit_mttkrp (sweep k s)))
                 (Some (k, fst (fit_mttkrp (sweep k s)))) with
         | None => None
         | Some o => Some (mkLoopout (lo_state o) (lo_iter o) (lo_nr o) (lo_fit o)
                       (cpals_iter_events p k (snd (fit_mttkrp (sweep k s))) fit
                          ((0 <? k) && fchange_lt fit (snd (fit_mttkrp (sweep k s))) tol) ++ lo_log o)
                       (snd (fit_mttkrp (sweep k s)) :: lo_trace o))
         end.
Proof. reflexivity. Qed.

Lemma c09l_stop_S : forall s0 tol rem k,
  stopfrom s0 tol (S rem) k = if trig s0 tol k then k else stopfrom s0 tol rem (S k).
Proof. reflexivity. Qed.

Lemma c09l_loop_closed : forall s0 tol p rem k, 0 < rem + k ->
  loop tol p rem k (isw k s0) (fitbefore s0 k) (c09l_last_of s0 k)
  = let n := stopfrom s0 tol rem k in
    Some (mkLoopout (isw (S n) s0) n (fst (fit_mttkrp (isw (S n) s0))) (fitat s0 n)
                    (flat_map (c09l_evs s0 tol p) (seq k (S n - k)))
                    (map (fitat s0) (seq k (S n - k)))).
Proof.
  intros s0 tol p rem; induction rem as [|rem IH]; intros k Hk; cbv zeta.
  - destruct k as [|j]; [lia|]. cbn -[Nat.sub].
    replace (S j - 1) with j by lia. rewrite Nat.sub_diag. reflexivity.
  - rewrite c09l_loop_S, c09l_stop_S.
    change (sweep k (isw k s0)) with (isw (S k) s0).
    change (snd (fit_mttkrp (isw (S k) s0))) with (fitat s0 k).
    change ((0 <? k) && fchange_lt (fitbefore s0 k) (fitat s0 k) tol) with (trig s0 tol k).
    destruct (trig s0 tol k) eqn:E.
    + replace (S k - k) with 1 by lia. cbn [seq flat_map map].
      unfold c09l_evs. rewrite E, app_nil_r. reflexivity.
    + specialize (IH (S k)). cbv zeta in IH.
      change (fitat s0 k) with (fitbefore s0 (S k)) at 1.
      change (Some (k, fst (fit_mttkrp (isw (S k) s0)))) with (c09l_last_of s0 (S k)).
      rewrite IH by lia. cbn [lo_state lo_iter lo_nr lo_fit lo_log lo_trace].
      pose proof (c09l_stop_ge s0 tol rem (S k)) as Hge.
      replace (S (stopfrom s0 tol rem (S k)) - k) with (S (S (stopfrom s0 tol rem (S k)) - S k)) by lia.
      cbn [seq flat_map map]. unfold c09l_evs at 2. rewrite E. reflexivity.
Qed.

Theorem cpals_run_closed : forall tol p s0 m dofix, 0 < m ->
  run tol p s0 m dofix
  = let n := stopidx s0 tol m in
    let pre := isw (S n) s0 in
    let fin := finish dofix pre in
    Some (if 0 <? p
          then mkResult fin n (fst (fit_innerprod fin)) (snd (fit_innerprod fin))
                        (EvHeader :: iterlog s0 tol p n ++ [EvFinal (snd (fit_innerprod fin))])
                        (map (fitat s0) (seq 0 (S n)))
          else mkResult fin n (fst (fit_mttkrp pre)) (snd (fit_mttkrp pre)) []
                        (map (fitat s0) (seq 0 (S n)))).
Proof.
  intros tol p s0 m dofix Hm. cbv zeta.
  unfold cpals_run.
  assert (En : cpals_entry fit_innerprod fit0 s0 m = (fit0, None)) by (destruct m; [lia|reflexivity]).
  rewrite En. cbn [fst snd].
  pose proof (c09l_loop_closed s0 tol p m 0) as H. cbv zeta in H.
  change (isw 0 s0) with s0 in H. change (fitbefore s0 0) with fit0 in H.
  change (c09l_last_of s0 0) with (@None (nat * F)) in H.
  rewrite H by lia. clear H.
  cbn [lo_state lo_iter lo_nr lo_fit lo_log lo_trace]. rewrite Nat.sub_0_r.
  unfold cpals_stop_index.
  destruct p as [|p].
  - change (0 <? 0) with false. cbv iota. f_equal. f_equal.
    rewrite app_nil_l.
    induction (seq 0 (S (stopfrom s0 tol m 0))) as [|a l IH]; [reflexivity|].
    cbn [flat_map]. rewrite IH, app_nil_r. reflexivity.
  - change (0 <? S p) with true. cbv iota. reflexivity.
Qed.

(* ---------- the requested theorems ---------- *)

(* maxiters = 0 (repaired code): closed form — no sweep, the start is arranged / sign-fixed; silent runs report the innerprod
   formula evaluated on the start itself, printing runs re-evaluate it on the arranged model *)
Theorem cpals_run_zero : forall tol p s0 dofix,
  run tol p s0 0 dofix
  = let fin := finish dofix s0 in
    Some (if 0 <? p
          then mkResult fin 0 (fst (fit_innerprod fin)) (snd (fit_innerprod fin))
                        [EvHeader; EvFinal (snd (fit_innerprod fin))] []
          else mkResult fin 0 (fst (fit_innerprod s0)) (snd (fit_innerprod s0)) [] []).
Proof.
  intros tol p s0 dofix. unfold cpals_run. cbn [cpals_entry cpals_loop fst snd lo_state lo_iter lo_nr lo_fit lo_log lo_trace].
  destruct p as [|p]; reflexivity.
Qed.

(* every admissible iteration limit (0 included) yields a result *)
Theorem cpals_run_total : forall tol p s0 m dofix, exists r, run tol p s0 m dofix = Some r.
Proof.
  intros tol p s0 m dofix. destruct m as [|m].
  - rewrite cpals_run_zero. eexists; reflexivity.
  - rewrite cpals_run_closed by lia. eexists; reflexivity.
Qed.

(* projections of a run with maxiters = 0 *)
Lemma c09l_run_zero_proj : forall tol p s0 dofix r,
  run tol p s0 0 dofix = Some r ->
  r_iters r = 0 /\ r_trace r = [] /\ r_state r = finish dofix s0 /\
  (p = 0 -> (r_normres r, r_fit r) = fit_innerprod s0 /\ r_log r = []) /\
  (p > 0 -> (r_normres r, r_fit r) = fit_innerprod (r_state r) /\ r_log r = [EvHeader; EvFinal (r_fit r)]).
Proof.
  intros tol p s0 dofix r H. rewrite cpals_run_zero in H. cbv zeta in H. injection H as H.
  destruct p as [|p];
    [change (0 <? 0) with false in H | change (0 <? S p) with true in H];
    cbv iota in H; subst r; cbn [r_iters r_trace r_state r_normres r_fit r_log];
    (split; [reflexivity|]); (split; [reflexivity|]); (split; [reflexivity|]); split; intros Hp;
    try lia; (split; [symmetry; apply surjective_pairing | reflexivity]).
Qed.

(* projections of a successful run *)
Lemma c09l_run_proj : forall tol p s0 m dofix r, 0 < m ->
  run tol p s0 m dofix = Some r ->
  r_iters r = stopidx s0 tol m /\
  r_trace r = map (fitat s0) (seq 0 (S (r_iters r))) /\
  r_state r = finish dofix (isw (S (r_iters r)) s0) /\
  (p = 0 -> (r_normres r, r_fit r) = fit_mttkrp (isw (S (r_iters r)) s0) /\ r_log r = []) /\
  (p > 0 -> (r_normres r, r_fit r) = fit_innerprod (r_state r)
            /\ r_log r = EvHeader :: iterlog s0 tol p (r_iters r) ++ [EvFinal (r_fit r)]).
Proof.
  intros tol p s0 m dofix r Hm H.
  rewrite cpals_run_closed in H by exact Hm. cbv zeta in H.
  injection H as H.
  destruct p as [|p];
    [change (0 <? 0) with false in H | change (0 <? S p) with true in H];
    cbv iota in H; subst r; cbn [r_iters r_trace r_state r_normres r_fit r_log];
    (split; [reflexivity|]); (split; [reflexivity|]); (split; [reflexivity|]); split; intros Hp;
    try lia; (split; [symmetry; apply surjective_pairing | reflexivity]).
Qed.

Theorem cpals_iters_bound : forall tol p s0 m dofix r, 0 < m ->
  run tol p s0 m dofix = Some r ->
  r_iters r < m /\ length (r_trace r) = S (r_iters r).
Proof.
  intros tol p s0 m dofix r Hm H.
  destruct (c09l_run_proj _ _ _ _ _ _ Hm H) as (Hi & Ht & _).
  split.
  - rewrite Hi. pose proof (c09l_stop_range s0 tol m 0 Hm). unfold stopidx, cpals_stop_index. fold stopfrom. lia.
  - rewrite Ht, map_length, seq_length. reflexivity.
Qed.

(* ... for every admissible limit, 0 included: the reported index of the last iteration is at most maxiters - 1 (0 when
   nothing ran) and exactly min(maxiters, iters + 1) fits were computed *)
Theorem cpals_iters_bound_all : forall tol p s0 m dofix r,
  run tol p s0 m dofix = Some r ->
  r_iters r <= m - 1 /\ length (r_trace r) = Nat.min m (S (r_iters r)).
Proof.
  intros tol p s0 m dofix r H. destruct m as [|m].
  - destruct (c09l_run_zero_proj _ _ _ _ _ H) as (Hi & Ht & _). rewrite Hi, Ht. split; reflexivity.
  - assert (Hm : 0 < S m) by lia. destruct (cpals_iters_bound _ _ _ _ _ _ Hm H) as (Hlt & Hlen). rewrite Hlen. lia.
Qed.

Theorem cpals_trace_eq : forall tol p s0 m dofix r, 0 < m ->
  run tol p s0 m dofix = Some r ->
  r_trace r = map (fun k => snd (fit_mttkrp (isw (S k) s0))) (seq 0 (S (r_iters r))).
Proof.
  intros tol p s0 m dofix r Hm H.
  destruct (c09l_run_proj _ _ _ _ _ _ Hm H) as (_ & Ht & _). exact Ht.
Qed.

Theorem cpals_trace_sweeps : forall tol p s0 m dofix r, 0 < m ->
  run tol p s0 m dofix = Some r ->
  (forall k, k <= r_iters r ->
     nth_error (r_trace r) k = Some (snd (fit_mttkrp (isw (S k) s0)))) /\
  r_state r = finish dofix (isw (S (r_iters r)) s0).
Proof.
  intros tol p s0 m dofix r Hm H.
  destruct (c09l_run_proj _ _ _ _ _ _ Hm H) as (_ & Ht & Hs & _).
  split; [|exact Hs].
  intros k Hk. rewrite Ht. rewrite c09l_nth_error_map_seq by lia. reflexivity.
Qed.

(* for every limit (0 included): the returned model is arrange / fixsigns of the state after exactly as many sweeps FROM THE
   GIVEN START as fits were computed, and the k-th fit is the one of the k-th sweep *)
Theorem cpals_state_all : forall tol p s0 m dofix r,
  run tol p s0 m dofix = Some r ->
  r_state r = finish dofix (isw (length (r_trace r)) s0) /\
  (forall k, k < length (r_trace r) -> nth_error (r_trace r) k = Some (fitat s0 k)).
Proof.
  intros tol p s0 m dofix r H. destruct m as [|m].
  - destruct (c09l_run_zero_proj _ _ _ _ _ H) as (_ & Ht & Hs & _). rewrite Ht, Hs. split; [reflexivity|].
    intros k Hk. cbn in Hk. lia.
  - assert (Hm : 0 < S m) by lia.
    destruct (cpals_iters_bound _ _ _ _ _ _ Hm H) as (_ & Hlen).
    destruct (cpals_trace_sweeps _ _ _ _ _ _ Hm H) as (Hk & Hs).
    rewrite Hlen. split; [exact Hs|]. intros k Hlt. apply Hk. lia.
Qed.

Lemma c09l_trace_nth : forall tol p s0 m dofix r k, 0 < m ->
  run tol p s0 m dofix = Some r -> k <= r_iters r ->
  nth k (r_trace r) fit0 = fitat s0 k.
Proof.
  intros tol p s0 m dofix r k Hm H Hk.
  destruct (c09l_run_proj _ _ _ _ _ _ Hm H) as (_ & Ht & _).
  rewrite Ht. apply c09l_nth_map_seq. lia.
Qed.

Lemma c09l_trig_pos : forall s0 tol k, 0 < k ->
  trig s0 tol k = fchange_lt (fitat s0 (k - 1)) (fitat s0 k) tol.
Proof.
  intros s0 tol k Hk. destruct k as [|j]; [lia|].
  unfold trig, cpals_trig. cbn [Nat.ltb Nat.leb andb fit_before].
  replace (S j - 1) with j by lia. reflexivity.
Qed.

Lemma c09l_trig_zero : forall s0 tol, trig s0 tol 0 = false.
Proof. reflexivity. Qed.

Theorem cpals_stop_rule : forall tol p s0 m dofix r,
  run tol p s0 m dofix = Some r ->
  let t := r_trace r in
  (r_iters r < m - 1 ->
     r_iters r > 0 /\
     fchange_lt (nth (r_iters r - 1) t fit0) (nth (r_iters r) t fit0) tol = true) /\
  (forall k, 0 < k < r_iters r ->
     fchange_lt (nth (k - 1) t fit0) (nth k t fit0) tol = false).
Proof.
  intros tol p s0 m dofix r H t. subst t.
  destruct m as [|m'].
  { destruct (c09l_run_zero_proj _ _ _ _ _ H) as (Hi & _). rewrite Hi. split; [intros Hlt|intros k Hk]; lia. }
  set (m := S m') in *. assert (Hm : 0 < m) by (unfold m; lia).
  destruct (c09l_run_proj _ _ _ _ _ _ Hm H) as (Hi & _).
  unfold stopidx, cpals_stop_index in Hi. fold stopfrom in Hi.
  split.
  - intros Hlt.
    assert (Ht : trig s0 tol (r_iters r) = true).
    { rewrite Hi. apply c09l_stop_trig. rewrite <- Hi. lia. }
    assert (Hpos : r_iters r > 0).
    { destruct (r_iters r); [rewrite c09l_trig_zero in Ht; discriminate Ht | lia]. }
    split; [exact Hpos|].
    rewrite (c09l_trace_nth _ _ _ _ _ _ _ Hm H) by lia.
    rewrite (c09l_trace_nth _ _ _ _ _ _ _ Hm H) by lia.
    rewrite <- c09l_trig_pos by lia. exact Ht.
  - intros k Hk.
    rewrite (c09l_trace_nth _ _ _ _ _ _ _ Hm H) by lia.
    rewrite (c09l_trace_nth _ _ _ _ _ _ _ Hm H) by lia.
    rewrite <- c09l_trig_pos by lia.
    apply (c09l_stop_first s0 tol m 0). rewrite <- Hi. lia.
Qed.

(* the stop index is the least k >= 1 whose fit change is below stoptol, capped at maxiters - 1 *)
Theorem cpals_stop_least : forall tol p s0 m dofix r,
  run tol p s0 m dofix = Some r ->
  (r_iters r = m - 1 \/
   (0 < r_iters r /\ fchange_lt (fitat s0 (r_iters r - 1)) (fitat s0 (r_iters r)) tol = true)) /\
  (forall k, 0 < k < r_iters r -> fchange_lt (fitat s0 (k - 1)) (fitat s0 k) tol = false).
Proof.
  intros tol p s0 m dofix r H.
  destruct m as [|m'].
  { destruct (c09l_run_zero_proj _ _ _ _ _ H) as (Hi & _). rewrite Hi. split; [left; reflexivity|intros k Hk; lia]. }
  set (m := S m') in *. assert (Hm : 0 < m) by (unfold m; lia).
  pose proof (cpals_stop_rule _ _ _ _ _ _ H) as (Ha & Hb).
  pose proof (cpals_iters_bound _ _ _ _ _ _ Hm H) as (Hlt & _).
  split.
  - destruct (Nat.eq_dec (r_iters r) (m - 1)) as [E|E]; [left; exact E|right].
    destruct Ha as (Hp & Hc); [lia|]. split; [lia|].
    rewrite !(c09l_trace_nth _ _ _ _ _ _ _ Hm H) in Hc by lia. exact Hc.
  - intros k Hk. specialize (Hb k Hk).
    rewrite !(c09l_trace_nth _ _ _ _ _ _ _ Hm H) in Hb by lia. exact Hb.
Qed.

Theorem cpals_truncation : forall tol p1 p2 d1 d2 s0 m1 m2 r1 r2,
  m1 <= m2 ->
  run tol p1 s0 m1 d1 = Some r1 ->
  run tol p2 s0 m2 d2 = Some r2 ->
  r_trace r1 = firstn m1 (r_trace r2) /\
  r_iters r1 = Nat.min (r_iters r2) (m1 - 1).
Proof.
  intros tol p1 p2 d1 d2 s0 m1 m2 r1 r2 Hle H1 H2.
  destruct m1 as [|m1'].
  { destruct (c09l_run_zero_proj _ _ _ _ _ H1) as (Hi & Ht & _). rewrite Hi, Ht. split; [reflexivity|lia]. }
  set (m1 := S m1') in *. assert (Hm1 : 0 < m1) by (unfold m1; lia). assert (Hm2 : 0 < m2) by lia.
  destruct (c09l_run_proj _ _ _ _ _ _ Hm1 H1) as (Hi1 & Ht1 & _).
  destruct (c09l_run_proj _ _ _ _ _ _ Hm2 H2) as (Hi2 & Ht2 & _).
  assert (Hmin : r_iters r1 = Nat.min (r_iters r2) (m1 - 1)).
  { rewrite Hi1, Hi2. unfold stopidx, cpals_stop_index. fold stopfrom.
    rewrite (c09l_stop_trunc s0 tol m1 m2 0) by lia. f_equal. }
  split; [|exact Hmin].
  rewrite Ht1, Ht2, firstn_map, c09l_firstn_seq. f_equal. f_equal. lia.
Qed.

(* printing never touches the model state, the iteration count or the fit trace (no hypothesis; every limit, 0 included) *)
Theorem cpals_print_indep_state : forall tol p1 p2 s0 m dofix r1 r2,
  run tol p1 s0 m dofix = Some r1 ->
  run tol p2 s0 m dofix = Some r2 ->
  r_state r1 = r_state r2 /\ r_iters r1 = r_iters r2 /\ r_trace r1 = r_trace r2.
Proof.
  intros tol p1 p2 s0 m dofix r1 r2 H1 H2.
  destruct m as [|m'].
  { destruct (c09l_run_zero_proj _ _ _ _ _ H1) as (Hi1 & Ht1 & Hs1 & _).
    destruct (c09l_run_zero_proj _ _ _ _ _ H2) as (Hi2 & Ht2 & Hs2 & _).
    rewrite Hi1, Hi2, Ht1, Ht2, Hs1, Hs2. repeat split. }
  assert (Hm : 0 < S m') by lia.
  destruct (c09l_run_proj _ _ _ _ _ _ Hm H1) as (Hi1 & Ht1 & Hs1 & _).
  destruct (c09l_run_proj _ _ _ _ _ _ Hm H2) as (Hi2 & Ht2 & Hs2 & _).
  assert (E : r_iters r1 = r_iters r2) by congruence.
  rewrite Hs1, Hs2, Ht1, Ht2, E. repeat split.
Qed.

(* with the fit identity at the states the loop can reach (and, for maxiters = 0, arrange / fixsigns not changing what the
   innerprod formula sees of the start), the reported numbers agree too *)
Theorem cpals_print_indep_reach : forall tol p1 p2 s0 m dofix r1 r2,
  (forall k, fit_innerprod (finish dofix (isw (S k) s0)) = fit_mttkrp (isw (S k) s0)) ->
  (m = 0 -> fit_innerprod (finish dofix s0) = fit_innerprod s0) ->
  run tol p1 s0 m dofix = Some r1 ->
  run tol p2 s0 m dofix = Some r2 ->
  r_state r1 = r_state r2 /\ r_iters r1 = r_iters r2 /\
  r_normres r1 = r_normres r2 /\ r_fit r1 = r_fit r2 /\ r_trace r1 = r_trace r2.
Proof.
  intros tol p1 p2 s0 m dofix r1 r2 Hfit Hzero H1 H2.
  destruct (cpals_print_indep_state _ _ _ _ _ _ _ _ H1 H2) as (Es & Ei & Et).
  destruct m as [|m'].
  { assert (Hrep : forall p r, run tol p s0 0 dofix = Some r -> (r_normres r, r_fit r) = fit_innerprod s0).
    { intros p r H. destruct (c09l_run_zero_proj _ _ _ _ _ H) as (_ & _ & Hs & H0 & Hp).
      destruct p as [|p]; [apply H0; reflexivity|].
      destruct Hp as (Hp & _); [lia|]. rewrite Hp, Hs. apply Hzero. reflexivity. }
    pose proof (Hrep _ _ H1) as R1. pose proof (Hrep _ _ H2) as R2.
    rewrite <- R2 in R1. injection R1 as En Ef. repeat split; assumption. }
  assert (Hm : 0 < S m') by lia.
  assert (Hrep : forall p r, run tol p s0 (S m') dofix = Some r ->
            (r_normres r, r_fit r) = fit_mttkrp (isw (S (r_iters r)) s0)).
  { intros p r H.
    destruct (c09l_run_proj _ _ _ _ _ _ Hm H) as (_ & _ & Hs & H0 & Hp).
    destruct p as [|p].
    - apply H0. reflexivity.
    - destruct Hp as (Hp & _); [lia|]. rewrite Hp, Hs. apply Hfit. }
  pose proof (Hrep _ _ H1) as R1. pose proof (Hrep _ _ H2) as R2.
  rewrite Ei in R1. rewrite <- R2 in R1. injection R1 as En Ef.
  repeat split; assumption.
Qed.

Theorem cpals_print_indep : forall tol p1 p2 s0 m dofix r1 r2,
  (forall s, fit_innerprod (finish dofix s) = fit_mttkrp s) ->
  (m = 0 -> fit_innerprod (finish dofix s0) = fit_innerprod s0) ->
  run tol p1 s0 m dofix = Some r1 ->
  run tol p2 s0 m dofix = Some r2 ->
  r_state r1 = r_state r2 /\ r_iters r1 = r_iters r2 /\
  r_normres r1 = r_normres r2 /\ r_fit r1 = r_fit r2 /\ r_trace r1 = r_trace r2.
Proof.
  intros tol p1 p2 s0 m dofix r1 r2 Hfit.
  apply cpals_print_indep_reach. intros k. apply Hfit.
Qed.

Theorem cpals_log_silent : forall tol s0 m dofix r,
  run tol 0 s0 m dofix = Some r -> r_log r = [].
Proof.
  intros tol s0 m dofix r H. destruct m as [|m'].
  - destruct (c09l_run_zero_proj _ _ _ _ _ H) as (_ & _ & _ & H0 & _). apply H0. reflexivity.
  - assert (Hm : 0 < S m') by lia. destruct (c09l_run_proj _ _ _ _ _ _ Hm H) as (_ & _ & _ & H0 & _).
    apply H0. reflexivity.
Qed.

Theorem cpals_log_printing : forall tol p s0 m dofix r, p > 0 ->
  run tol p s0 m dofix = Some r ->
  r_log r = EvHeader :: (if m =? 0 then [] else iterlog s0 tol p (r_iters r)) ++ [EvFinal (r_fit r)].
Proof.
  intros tol p s0 m dofix r Hp H. destruct m as [|m'].
  - destruct (c09l_run_zero_proj _ _ _ _ _ H) as (_ & _ & _ & _ & H1). apply H1. exact Hp.
  - assert (Hm : 0 < S m') by lia. destruct (c09l_run_proj _ _ _ _ _ _ Hm H) as (_ & _ & _ & _ & H1).
    apply H1. exact Hp.
Qed.

Theorem cpals_report_consistent : forall tol p s0 m dofix r,
  run tol p s0 m dofix = Some r ->
  (p = 0 -> 0 < m -> (r_normres r, r_fit r) = fit_mttkrp (isw (S (r_iters r)) s0)) /\
  (p = 0 -> m = 0 -> (r_normres r, r_fit r) = fit_innerprod s0) /\
  (p > 0 -> (r_normres r, r_fit r) = fit_innerprod (r_state r)).
Proof.
  intros tol p s0 m dofix r H. destruct m as [|m'].
  - destruct (c09l_run_zero_proj _ _ _ _ _ H) as (_ & _ & _ & H0 & H1).
    split; [intros _ Hm; lia|]. split; [intros Hp _; apply H0; exact Hp|intros Hp; apply H1; exact Hp].
  - assert (Hm : 0 < S m') by lia. destruct (c09l_run_proj _ _ _ _ _ _ Hm H) as (_ & _ & _ & H0 & H1).
    split; [intros Hp _; apply H0; exact Hp|]. split; [intros _ Hm0; lia|intros Hp; apply H1; exact Hp].
Qed.

End Proofs.

(* ---------- the theorems on a concrete run (non-vacuity of the hypotheses) ---------- *)
From Coq Require Import ZArith.

Module C09LoopProofExamples.
Import C09LoopExamples.
Local Open Scope Z_scope.

(* an innerprod formula that does satisfy the fit identity through arrange (s + 10000), no sign fixing *)
Definition ex_fit_ip_ok (s : Z) : Z * Z := ex_fit (s - 10000).

Lemma ex_fit_identity : forall s,
  ex_fit_ip_ok (cpals_finish (fun s => s + 10000) (fun s => - s) false s) = ex_fit s.
Proof. intros s. unfold ex_fit_ip_ok, cpals_finish, id. f_equal. lia. Qed.

Definition ex_run_ok := cpals_run ex_sweep ex_fit ex_fit_ip_ok ex_lt 0 (fun s => s + 10000) (fun s => - s).

Example ex_print_indep_applies : forall p1 p2 r1 r2,
  ex_run_ok 5 p1 80 10%nat false = Some r1 ->
  ex_run_ok 5 p2 80 10%nat false = Some r2 ->
  r_state r1 = r_state r2 /\ r_iters r1 = r_iters r2 /\
  r_normres r1 = r_normres r2 /\ r_fit r1 = r_fit r2 /\ r_trace r1 = r_trace r2.
Proof. intros p1 p2 r1 r2. apply cpals_print_indep; [exact ex_fit_identity|intros H; discriminate H]. Qed.

Example ex_print_indep_values :
  ex_run_ok 5 0%nat 80 10%nat false = Some (mkResult 10006 3%nat 6 94 [] [60; 79; 90; 94]) /\
  ex_run_ok 5 3%nat 80 10%nat false
  = Some (mkResult 10006 3%nat 6 94 [EvHeader; EvIter 0 60 0; EvIter 3 94 90; EvFinal 94] [60; 79; 90; 94]).
Proof. split; vm_compute; reflexivity. Qed.

(* without the identity only state / iters / trace agree (A-43): ex_fit_ip differs from ex_fit *)
Example ex_print_dep_values :
  option_map (@r_fit Z Z) (ex_run 5 0%nat 80 10%nat false) = Some 94 /\
  option_map (@r_fit Z Z) (ex_run 5 1%nat 80 10%nat false) = Some (-8906).
Proof. split; vm_compute; reflexivity. Qed.

(* truncated runs reproduce the prefix of the long run *)
Example ex_truncation_values :
  option_map (@r_trace Z Z) (ex_run 5 0%nat 80 2%nat false) = Some [60; 79] /\
  option_map (@r_trace Z Z) (ex_run 5 0%nat 80 10%nat false) = Some [60; 79; 90; 94] /\
  option_map (@r_iters Z Z) (ex_run 5 0%nat 80 2%nat false) = Some (Nat.min 3 (2 - 1)).
Proof. repeat split; vm_compute; reflexivity. Qed.

Example ex_stop_index :
  cpals_stop_index ex_sweep ex_fit ex_lt 0 80 5 10%nat = 3%nat /\
  cpals_stop_index ex_sweep ex_fit ex_lt 0 80 5 3%nat = 2%nat.
Proof. split; vm_compute; reflexivity. Qed.

End C09LoopProofExamples.

Print Assumptions cpals_run_closed.
Print Assumptions cpals_run_zero.
Print Assumptions cpals_run_total.
Print Assumptions cpals_iters_bound_all.
Print Assumptions cpals_state_all.
Print Assumptions cpals_iters_bound.
Print Assumptions cpals_trace_eq.
Print Assumptions cpals_trace_sweeps.
Print Assumptions cpals_stop_rule.
Print Assumptions cpals_stop_least.
Print Assumptions cpals_truncation.
Print Assumptions cpals_print_indep_state.
Print Assumptions cpals_print_indep_reach.
Print Assumptions cpals_print_indep.
Print Assumptions cpals_log_silent.
Print Assumptions cpals_log_printing.
Print Assumptions cpals_report_consistent.
