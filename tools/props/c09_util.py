"""c09_util — helpers shared by the C09 / C18 property modules: exact-rational reference ALS (pure Python, Fractions,
loops over all subscripts: no numpy / pyttb kernels), data-holder builders, Gallina literal writers for Qc models."""
import itertools
from fractions import Fraction as F

from vcheck import gz, gzlist, gnlist, gnmat, gq


# ------------------------------------------------------------------------------------------ pure-Python reference
def all_subs(shape):
    return [list(x)[::-1] for x in itertools.product(*[range(d) for d in shape[::-1]])]


def dense_of(data_spec):
    """F-order integer value list denoted by a data spec (brute force, independent of pyttb)"""
    kind = data_spec["kind"]
    shape = data_spec["shape"]
    if kind == "dense":
        return list(data_spec["data"])
    if kind == "sparse":
        d = {}
        for s, v in zip(data_spec["subs"], data_spec["vals"]):
            d[tuple(s)] = v
        return [d.get(tuple(i), 0) for i in all_subs(shape)]
    if kind == "ttensor":
        cs = data_spec["core_shape"]
        core = data_spec["core"]
        csubs = all_subs(cs)
        out = []
        for i in all_subs(shape):
            tot = 0
            for j, g in zip(csubs, core):
                if g:
                    p = g
                    for n in range(len(shape)):
                        p *= data_spec["factors"][n][i[n]][j[n]]
                    tot += p
            out.append(tot)
        return out
    if kind == "ktensor":
        out = []
        for i in all_subs(shape):
            tot = 0
            for r, w in enumerate(data_spec["weights"]):
                p = w
                for n in range(len(shape)):
                    p *= data_spec["factors"][n][i[n]][r]
                tot += p
            out.append(tot)
        return out
    if kind == "sum":
        parts = [dense_of(p) for p in data_spec["parts"]]
        return [sum(col) for col in zip(*parts)]
    raise ValueError(kind)


def mttkrp(shape, X, U, n, R):
    P = [[F(0)] * R for _ in range(shape[n])]
    for i, x in zip(all_subs(shape), X):
        if x == 0:
            continue
        for r in range(R):
            p = F(x)
            for m in range(len(shape)):
                if m != n:
                    p *= U[m][i[m]][r]
            P[i[n]][r] += p
    return P


def gram(A, R):
    return [[sum((row[r] * row[s] for row in A), F(0)) for s in range(R)] for r in range(R)]


def ymat(U, n, R):
    Y = [[F(1)] * R for _ in range(R)]
    for m in range(len(U)):
        if m != n:
            G = gram(U[m], R)
            Y = [[Y[r][s] * G[r][s] for s in range(R)] for r in range(R)]
    return Y


def det(Y):
    n = len(Y)
    M = [row[:] for row in Y]
    d = F(1)
    for c in range(n):
        piv = next((r for r in range(c, n) if M[r][c] != 0), None)
        if piv is None:
            return F(0)
        if piv != c:
            M[c], M[piv] = M[piv], M[c]
            d = -d
        d *= M[c][c]
        for r in range(c + 1, n):
            f = M[r][c] / M[c][c]
            M[r] = [a - f * b for a, b in zip(M[r], M[c])]
    return d


def solve(Y, P, R):
    """A with A.Y = P; None if singular; zeros if Y == 0 (the branch in cp_als)"""
    if all(y == 0 for row in Y for y in row):
        return [[F(0)] * R for _ in P]
    M = [[Y[c][r] for c in range(R)] + [P[i][r] for i in range(len(P))] for r in range(R)]
    for c in range(R):
        piv = next((r for r in range(c, R) if M[r][c] != 0), None)
        if piv is None:
            return None
        M[c], M[piv] = M[piv], M[c]
        pv = M[c][c]
        M[c] = [x / pv for x in M[c]]
        for r in range(R):
            if r != c and M[r][c] != 0:
                f = M[r][c]
                M[r] = [a - f * b for a, b in zip(M[r], M[c])]
    return [[M[r][R + i] for r in range(R)] for i in range(len(P))]


def mat_rank(M):
    M = [[F(x) for x in row] for row in M]
    rk = 0
    rows, cols = len(M), (len(M[0]) if M else 0)
    for c in range(cols):
        piv = next((r for r in range(rk, rows) if M[r][c] != 0), None)
        if piv is None:
            continue
        M[rk], M[piv] = M[piv], M[rk]
        for r in range(rows):
            if r != rk and M[r][c] != 0:
                f = M[r][c] / M[rk][c]
                M[r] = [a - f * b for a, b in zip(M[r], M[rk])]
        rk += 1
    return rk


def unfolding_ranks(shape, X):
    """exact rank of every mode-n unfolding of the F-order value list X"""
    subs = all_subs(shape)
    out = []
    for n in range(len(shape)):
        cols = {}
        for i, x in zip(subs, X):
            key = tuple(i[:n] + i[n + 1:])
            cols.setdefault(key, [0] * shape[n])[i[n]] = x
        out.append(mat_rank([list(v) for v in cols.values()]))
    return out


def cond_ratio(Y):
    """|det Y| / prod diag(Y) in [0,1] for a Gram-type matrix (1 = orthogonal columns); 0 if some diagonal is 0"""
    dg = F(1)
    for r in range(len(Y)):
        dg *= Y[r][r]
    if dg == 0:
        return F(0)
    return abs(det(Y)) / dg


def exact_sweep(shape, X, U, dims, R):
    """one exact ALS sweep without column scaling; returns (new U, min conditioning ratio, ok)"""
    U = [[row[:] for row in A] for A in U]
    worst = F(1)
    for n in dims:
        P = mttkrp(shape, X, U, n, R)
        Y = ymat(U, n, R)
        worst = min(worst, cond_ratio(Y))
        A = solve(Y, P, R)
        if A is None:
            return U, F(0), False
        U[n] = A
    return U, worst, True


def kfull(shape, w, U):
    out = []
    for i in all_subs(shape):
        tot = F(0)
        for r in range(len(w)):
            p = F(w[r])
            for n in range(len(shape)):
                p *= U[n][i[n]][r]
            tot += p
        out.append(tot)
    return out


# ------------------------------------------------------------------------------------------ pyttb builders
def mk_data(ttb, np, spec):
    kind = spec["kind"]
    shape = tuple(spec["shape"])
    if kind == "dense":
        # optional storage dtype of the dense data (wave 4: the same integer values held as uint8 ... float64); default float64
        return ttb.tensor(np.array(spec["data"], dtype=spec.get("dtype", float)).reshape(shape, order="F"), shape, copy=True)
    if kind == "sparse":
        s = np.array(spec["subs"], dtype=int).reshape((len(spec["subs"]), len(shape)))
        v = np.array(spec["vals"], dtype=float).reshape((len(spec["vals"]), 1))
        return ttb.sptensor(s, v, shape, copy=True)
    if kind == "ttensor":
        cs = tuple(spec["core_shape"])
        core = ttb.tensor(np.array(spec["core"], dtype=float).reshape(cs, order="F"), cs, copy=True)
        return ttb.ttensor(core, [np.array(f, dtype=float) for f in spec["factors"]], copy=True)
    if kind == "ktensor":
        return ttb.ktensor([np.array(f, dtype=float) for f in spec["factors"]], np.array(spec["weights"], dtype=float), copy=True)
    if kind == "sum":
        return ttb.sumtensor([mk_data(ttb, np, p) for p in spec["parts"]], copy=True)
    raise ValueError(kind)


def obs_data(np, ttb, X):
    """raw stored content of a data holder (to check it was not written to)"""
    if isinstance(X, ttb.tensor):
        return {"k": "dense", "d": [float(x) for x in np.ravel(X.data, order="F")]}
    if isinstance(X, ttb.sptensor):
        return {"k": "sparse", "s": [[int(x) for x in r] for r in np.asarray(X.subs).reshape((-1, len(X.shape)))],
                "v": [float(x) for x in np.asarray(X.vals).ravel()]}
    if isinstance(X, ttb.ttensor):
        return {"k": "ttensor", "c": [float(x) for x in np.ravel(X.core.data, order="F")],
                "f": [[[float(x) for x in row] for row in f] for f in X.factor_matrices]}
    if isinstance(X, ttb.ktensor):
        return {"k": "ktensor", "w": [float(x) for x in X.weights], "f": [[[float(x) for x in row] for row in f] for f in X.factor_matrices]}
    if isinstance(X, ttb.sumtensor):
        return {"k": "sum", "p": [obs_data(np, ttb, p) for p in X.parts]}
    return {"k": "?"}


# ------------------------------------------------------------------------------------------ Gallina literals
def gqrow(r):
    return "(@nil Qc)" if not r else "[" + "; ".join(gq(x) for x in r) + "]"


def gqmx(m):
    return "(@nil (list Qc))" if not m else "[" + "; ".join(gqrow(r) for r in m) + "]"


def gqk(weights, factors):
    return f"(mkK {gqrow(weights)} [" + "; ".join(gqmx(f) for f in factors) + "])"


def gzmx(m):
    return "(@nil (list Z))" if not m else "[" + "; ".join(gzlist(r) for r in m) + "]"


def gxden(spec):
    """Gallina expression of type idx -> Qc: the denotation of an integer-valued data holder"""
    kind = spec["kind"]
    shp = gnlist(spec["shape"])
    if kind == "dense":
        return f"(xden_dense (mkDense {shp} {gzlist(spec['data'])}))"
    if kind == "sparse":
        return f"(xden_sparse (mkSp {shp} {gnmat(spec['subs'])} {gzlist(spec['vals'])}))"
    if kind == "ttensor":
        return (f"(xden_tucker (mkT (mkDense {gnlist(spec['core_shape'])} {gzlist(spec['core'])}) ["
                + "; ".join(gzmx(f) for f in spec["factors"]) + "]))")
    if kind == "ktensor":
        return f"(xden_kruskal (mkK {gzlist(spec['weights'])} [" + "; ".join(gzmx(f) for f in spec["factors"]) + "]))"
    if kind == "sum":
        return "(xden_sum [" + "; ".join(gxden(p) for p in spec["parts"]) + "])"
    raise ValueError(kind)


def gparts(spec):
    """Gallina expression of type list part (Model/C09InnerExec.v): the holder itself, or the parts of a sum tensor — the stored
    representation (not the denotation), for the algorithm models of innerprod / norm"""
    kind = spec["kind"]
    shp = gnlist(spec["shape"])
    if kind == "dense":
        return f"[PDense (mkDense {shp} {gzlist(spec['data'])})]"
    if kind == "sparse":
        return f"[PSparse (mkSp {shp} {gnmat(spec['subs'])} {gzlist(spec['vals'])})]"
    if kind == "ttensor":
        return (f"[PTucker (mkT (mkDense {gnlist(spec['core_shape'])} {gzlist(spec['core'])}) ["
                + "; ".join(gzmx(f) for f in spec["factors"]) + "])]")
    if kind == "ktensor":
        return f"[PKruskal (mkK {gzlist(spec['weights'])} [" + "; ".join(gzmx(f) for f in spec["factors"]) + "])]"
    if kind == "sum":
        return "(" + " ++ ".join(gparts(q) for q in spec["parts"]) + ")"
    raise ValueError(kind)


def frac(x):
    """float -> exact Fraction"""
    return F(float(x))
