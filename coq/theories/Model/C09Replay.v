(* Model/C09Replay.v — wave 4: per-iteration tie of pyttb.cp_als to the executable sweep model (Model/C09Als.v als_update / als_sweep).
   The harness records every factor list that cp_als passes to the data object's mttkrp (one record per mode update, ALL sweeps).
   Each record k = (U_k, n_k) is replayed through the model's update in exact rational arithmetic:
     P = MTTKRP of the data's denotation with U_k, Y = Hadamard product of the Gram matrices, A = Gauss-Jordan solution of A . Y = P,
     column scaling of cp_als.py (2-norm in sweep 0, max(max|.|, 1) in later sweeps),
   and the result is compared FORWARD with the next record U_{k+1} (entrywise; for the 2-norm of sweep 0, which is not rational, the
   recorded column must be the exact column divided by a non-negative number and have unit 2-norm), the last update of the run with the
   returned model.  `sweep_replay_ok` chains a whole sweep (als_sweep) from the recorded start of the sweep to the recorded start of
   the next one.  Definitions only (proofs: Proofs/C09ReplayProofs.v). *)
From Coq Require Import List Arith Bool ZArith QArith Qabs Qcanon.
From PV Require Import Base.Index Base.Sum Np.Array Model.Sparse Model.Repr Model.Harness Model.C09Als Model.C09Loop Model.C09Exec.
Import ListNotations.
Local Open Scope Qc_scope.

Definition qcol (A : qmx) (r : nat) : list Qc := map (fun row => nth r row q0) A.
Definition qdot (a b : list Qc) : Qc := fold_right Qcplus q0 (zipw Qcmult a b).

(* cp_als.py (iteration > 0):  weights = np.maximum(np.max(np.abs(Unew), 0), 1);  Unew = Unew / weights
   (the weights are >= 1, so the guard `if not (weights == 0).all()` always divides) *)
Definition maxnorm_weights (R : nat) (A : qmx) : list Qc := map (fun r => qmax (qmaxl (qcol A r)) q1) (seq 0 R).
Definition div_cols (A : qmx) (w : list Qc) : qmx := map (fun row => zipw Qcdiv row w) A.
Definition maxnorm_scale (R : nat) (A : qmx) : list Qc * qmx := let w := maxnorm_weights R A in (w, div_cols A w).
(* scaling used by the replay: the exact rule for sweeps after the first; no scaling in sweep 0 (the 2-norm is not rational: the
   comparison below is up to the non-negative column factor, and C09_scaling_indep says the denoted model does not depend on it) *)
Definition replay_scale (R : nat) (it : nat) (A : qmx) : list Qc * qmx :=
  match it with O => noscale R it A | S _ => maxnorm_scale R A end.

Definition q_state (R : nat) (U : list qmx) : als_state Qc := mkAls (ones R) U [].
Definition q_update (s : shape) (X : idx -> Qc) (R : nat) (it : nat) (U : list qmx) (n : nat) : als_state Qc :=
  als_update q0 q1 Qcplus Qcmult (fun U n => q_mttkrp_mat s X U n R) (qsolve R) (replay_scale R) R it (q_state R U) n.
Definition q_sweep (s : shape) (X : idx -> Qc) (R : nat) (it : nat) (dims : list nat) (U : list qmx) : als_state Qc :=
  als_sweep q0 q1 Qcplus Qcmult (fun U n => q_mttkrp_mat s X U n R) (qsolve R) (replay_scale R) R it dims (q_state R U).

(* ---- comparisons (relative to the largest entry of the exact column; an exactly zero column must be reproduced exactly) ---- *)
Definition col_close (tol : Qc) (a e : list Qc) : bool :=
  let sc := qmaxl e in
  Nat.eqb (length a) (length e) && forallb (fun p => qcl tol sc (fst p) (snd p)) (combine a e).
(* a = e / ||e||_2 :  a.a = 1,  c := a.e >= 0,  c * a = e   (then c = ||e||_2);  e = 0: cp_als leaves the zero matrix undivided *)
Definition col_unit_of (tol : Qc) (a e : list Qc) : bool :=
  let sc := qmaxl e in
  let c := qdot a e in
  Nat.eqb (length a) (length e) &&
  (if forallb qisz e then forallb qisz a
   else qcl tol q1 (qdot a a) q1 && qleb q0 c && forallb (fun p => qcl tol sc (c * fst p) (snd p)) (combine a e)).
Definition mx_cols_ok (cmp : list Qc -> list Qc -> bool) (R : nat) (A E : qmx) : bool :=
  Nat.eqb (length A) (length E) && forallb (fun row => Nat.eqb (length row) R) A &&
  forallb (fun r => cmp (qcol A r) (qcol E r)) (seq 0 R).
(* recorded factor of a mode that was updated in sweep `it` against the exact one *)
Definition factor_ok (tol : Qc) (R it : nat) (A E : qmx) : bool :=
  match it with
  | O => mx_cols_ok (col_unit_of tol) R A E
  | S _ => mx_cols_ok (col_close tol) R A E
  end.

(* ONE recorded update replayed: record (Ub, n) of sweep `it`, next record Ua.  Modes other than n are passed on untouched. *)
Definition update_replay_ok (tol : Qc) (s : shape) (X : idx -> Qc) (R it : nat) (Ub Ua : list qmx) (n : nat) : bool :=
  let st := q_update s X R it Ub n in
  Nat.eqb (length Ua) (length s) &&
  forallb (fun m => if Nat.eqb m n then factor_ok tol R it (nth m Ua []) (nth m (st_U st) [])
                    else qmx_eqb (nth m Ua []) (nth m Ub [])) (seq 0 (length s)).

(* a WHOLE sweep replayed from the recorded start of sweep `it` to the recorded start of sweep it+1 *)
Definition sweep_replay_ok (tol : Qc) (s : shape) (X : idx -> Qc) (R it : nat) (dims : list nat) (Ub Ua : list qmx) : bool :=
  let st := q_sweep s X R it dims Ub in
  Nat.eqb (length Ua) (length s) &&
  forallb (fun m => if existsb (Nat.eqb m) dims then factor_ok tol R it (nth m Ua []) (nth m (st_U st) [])
                    else qmx_eqb (nth m Ua []) (nth m Ub [])) (seq 0 (length s)).

(* denotations agree relative to the largest entry of the reference (no floor at 1: data of any magnitude) *)
Definition den_close_rel (tol : Qc) (s : shape) (obs ref : idx -> Qc) : bool :=
  let refs := map ref (allsubs s) in
  let sc := qmaxl refs in
  forallb (fun p => qcl tol sc (fst p) (snd p)) (combine (map obs (allsubs s)) refs).
(* the LAST recorded update (resp. the last sweep) against the model that cp_als returned (after arrange / fixsigns: same denotation) *)
Definition last_update_replay_ok (tol : Qc) (s : shape) (X : idx -> Qc) (R it : nat) (Ub : list qmx) (n : nat) (K : ktensor Qc) : bool :=
  den_close_rel tol s (qden_k K) (qden_k (st_model (q_update s X R it Ub n))).
Definition last_sweep_replay_ok (tol : Qc) (s : shape) (X : idx -> Qc) (R it : nat) (dims : list nat) (Ub : list qmx) (K : ktensor Qc) : bool :=
  den_close_rel tol s (qden_k K) (qden_k (st_model (q_sweep s X R it dims Ub))).

(* ---- the backward certificate of one recorded update (Model/C09Exec.v update_ok) with a tolerance relative to the magnitudes that
   actually occur (no floor at 1): |(A_n diag(w)) . Y - P| <= tol * max(max|P|, max|A_n diag(w)| * max|Y|) on data of any scale ---- *)
Definition normal_eq_ok_rel (tol : Qc) (s : shape) (X : idx -> Qc) (K : ktensor Qc) (n : nat) : bool :=
  let R := krank K in
  let As := kfactors K in
  let A := nth n As [] in
  let I := nth n s 0%nat in
  let P := q_mttkrp_mat s X As n R in
  let Y := q_ymat n As R in
  let wa := tabmx I R (fun j r => nth r (kweights K) q0 * q_mg A j r) in
  let sc := qmax (qmaxmx P) (qmaxmx wa * qmaxmx Y) in
  forallb (fun jt => qcl tol sc (matmul_ent q0 Qcplus Qcmult R wa Y (fst jt) (snd jt)) (q_mg P (fst jt) (snd jt))) (range2 I R).
Definition update_ok_rel (tol : Qc) (s : shape) (X : idx -> Qc) (R : nat) (Ub Ua : list qmx) (n : nat) (w : list Qc) : bool :=
  normal_eq_ok_rel tol s X (mkK w (upd Ub n (nth n Ua []))) n &&
  forallb (fun m => Nat.eqb m n || qmx_eqb (nth m Ub []) (nth m Ua [])) (seq 0 (length s)) &&
  forallb (fun x => qleb q0 x) w.
