(* Props/W4SC13.v — C13 (stochastic solver bookkeeping) stated over the GENERATED control-flow skeleton Gen/GenSolver.v
   (tools/pyx2v_skel.py regenerates it from /repo/pyttb/gcp/optimizers.py::StochasticSolver.solve on every run).  All numeric
   kernels (sampler, estimate, update_step, set_failed_epoch, reset_state, ...) are arbitrary: the statements hold for every
   instantiation.  `gsolve ... = Some r` = the Python function returns r without raising.  Only statements, `exact`, Print Assumptions. *)
From Coq Require Import String List Arith Bool.
From PV Require Import Model.W4SPrelude Gen.GenSolver Alg.C13Solver Proofs.W4SSolver.
Import ListNotations.
Local Open Scope nat_scope.

Section W4SC13.
Variables T_W T_M T_E T_Data T_FH T_LB T_Sampler T_Subs T_Vals T_Wgts T_G T_FM T_Step T_Crng : Type.
Variable c_leE : T_E -> T_E -> bool.
Hypothesis leE_total : forall a b, c_leE a b = true \/ c_leE b a = true.
Hypothesis leE_trans : forall a b c, c_leE a b = true -> c_leE b c = true -> c_leE a c = true.
Variable c_zeroE : T_E.
Variable c_zeroStep : T_Step.
Variable k_GCPSampler : T_Data -> T_Sampler.
Variable k_function_sample : T_W -> T_Sampler -> T_Data -> T_W * (T_Subs * T_Vals * T_Wgts).
Variable k_estimate_f : T_M -> T_Subs -> T_Vals -> T_Wgts -> T_FH -> bool -> T_E.
Variable k_reset_state : T_W -> T_W.
Variable k_gradient_sample : T_W -> T_Sampler -> T_Data -> T_W * (T_Subs * T_Vals * T_Wgts).
Variable k_crng : T_Sampler -> T_Crng.
Variable k_estimate_g : T_W -> T_M -> T_Subs -> T_Vals -> T_Wgts -> option T_FH -> T_Crng -> T_FH -> bool -> T_W * T_G.
Variable k_any_inf : T_G -> bool.
Variable k_update_step : T_W -> nat -> T_M -> T_G -> T_LB -> T_W * (T_FM * T_Step).
Variable k_set_factor_matrices : T_M -> T_FM -> T_M.
Variable k_set_failed_epoch : T_W -> T_W.

Notation gsolve := (GenSolver.solve T_W T_M T_E T_Data T_FH T_LB T_Sampler T_Subs T_Vals T_Wgts T_G T_FM T_Step T_Crng
  c_leE c_zeroE c_zeroStep k_GCPSampler k_function_sample k_estimate_f k_reset_state k_gradient_sample k_crng k_estimate_g k_any_inf
  k_update_step k_set_factor_matrices k_set_failed_epoch).
Notation sampler_of := (the_sampler T_Data T_Sampler k_GCPSampler).
Notation fest_of := (gen_fest T_W T_M T_E T_Data T_FH T_Sampler T_Subs T_Vals T_Wgts k_GCPSampler k_function_sample k_estimate_f).
Notation hfest := (h_fest T_M T_E T_FH T_Subs T_Vals T_Wgts k_estimate_f).
Notation hepoch := (h_epoch T_W T_M T_Data T_FH T_LB T_Sampler T_Subs T_Vals T_Wgts T_G T_FM T_Step T_Crng
  k_gradient_sample k_crng k_estimate_g k_any_inf k_update_step k_set_factor_matrices).

(* BRIDGE: the generated solve computes what the hand state machine Alg/C13Solver.v computes (returned model, best model, _nfails,
   world, info["n_epoch"], info["f_est_trace"]) *)
Theorem W4S_C13_solve_bridge : forall w0 max_iters epoch_iters max_fails tol printitn m0 data fh gh lb smp
                                      model ftrace strace nep nf bestm w,
  gsolve w0 max_iters epoch_iters max_fails tol printitn m0 data fh gh lb smp = Some (model, (ftrace, strace, nep), nf, bestm, w) ->
  let sampler := sampler_of data smp in
  let '(w1, (fs, fv, fw)) := k_function_sample w0 sampler data in
  let fest := hfest fs fv fw fh in
  let s := C13Solver.solve T_M T_W T_E c_leE fest (hepoch data gh lb sampler epoch_iters) k_set_failed_epoch max_fails (Some tol)
                           max_iters m0 (k_reset_state w1) in
  model = cur _ _ _ s /\ bestm = best _ _ _ s /\ nf = nfails _ _ _ s /\ w = opt _ _ _ s /\
  nep = reported_n_epoch _ _ _ s /\ ftrace = reported_trace T_M T_W T_E fest c_zeroE max_iters m0 s.
Proof. exact (solve_bridge T_W T_M T_E T_Data T_FH T_LB T_Sampler T_Subs T_Vals T_Wgts T_G T_FM T_Step T_Crng c_leE c_zeroE c_zeroStep
  k_GCPSampler k_function_sample k_estimate_f k_reset_state k_gradient_sample k_crng k_estimate_g k_any_inf k_update_step
  k_set_factor_matrices k_set_failed_epoch). Qed.

(* C13_best_model over the generated code *)
Theorem W4S_C13_best_model : forall w0 max_iters epoch_iters max_fails tol printitn m0 data fh gh lb smp model ftrace strace nep nf bestm w,
  gsolve w0 max_iters epoch_iters max_fails tol printitn m0 data fh gh lb smp = Some (model, (ftrace, strace, nep), nf, bestm, w) ->
  let fest := fest_of w0 data fh smp in
  model = bestm /\ is_min T_E c_leE (fest model) ftrace /\ c_leE (fest model) (fest m0) = true /\
  exists hist, In model (m0 :: hist) /\ map fest (m0 :: hist) = ftrace.
Proof. exact (gen_best_model T_W T_M T_E T_Data T_FH T_LB T_Sampler T_Subs T_Vals T_Wgts T_G T_FM T_Step T_Crng c_leE c_zeroE c_zeroStep
  k_GCPSampler k_function_sample k_estimate_f k_reset_state k_gradient_sample k_crng k_estimate_g k_any_inf k_update_step
  k_set_factor_matrices k_set_failed_epoch leE_total leE_trans). Qed.

(* C13_trace_len over the generated code *)
Theorem W4S_C13_trace_len : forall w0 max_iters epoch_iters max_fails tol printitn m0 data fh gh lb smp model ftrace strace nep nf bestm w,
  gsolve w0 max_iters epoch_iters max_fails tol printitn m0 data fh gh lb smp = Some (model, (ftrace, strace, nep), nf, bestm, w) ->
  1 <= length ftrace <= S max_iters /\ nep = pred (pred (length ftrace)) /\ (length ftrace = 1 -> max_iters = 0).
Proof. exact (gen_trace_len T_W T_M T_E T_Data T_FH T_LB T_Sampler T_Subs T_Vals T_Wgts T_G T_FM T_Step T_Crng c_leE c_zeroE c_zeroStep
  k_GCPSampler k_function_sample k_estimate_f k_reset_state k_gradient_sample k_crng k_estimate_g k_any_inf k_update_step
  k_set_factor_matrices k_set_failed_epoch leE_total leE_trans). Qed.

(* C13_reported_trace_full over the generated code *)
Theorem W4S_C13_reported_trace_full : forall w0 max_iters epoch_iters max_fails tol printitn m0 data fh gh lb smp model ftrace strace nep nf bestm w,
  gsolve w0 max_iters epoch_iters max_fails tol printitn m0 data fh gh lb smp = Some (model, (ftrace, strace, nep), nf, bestm, w) ->
  let '(w1, (fs, fv, fw)) := k_function_sample w0 (sampler_of data smp) data in
  let fest := hfest fs fv fw fh in
  let s := C13Solver.solve T_M T_W T_E c_leE fest (hepoch data gh lb (sampler_of data smp) epoch_iters) k_set_failed_epoch max_fails
                           (Some tol) max_iters m0 (k_reset_state w1) in
  ftrace = full_trace T_M T_W T_E fest m0 s /\ length ftrace = S (epochs _ _ _ s).
Proof. exact (gen_reported_trace_full T_W T_M T_E T_Data T_FH T_LB T_Sampler T_Subs T_Vals T_Wgts T_G T_FM T_Step T_Crng c_leE c_zeroE c_zeroStep
  k_GCPSampler k_function_sample k_estimate_f k_reset_state k_gradient_sample k_crng k_estimate_g k_any_inf k_update_step
  k_set_factor_matrices k_set_failed_epoch). Qed.

End W4SC13.

Print Assumptions W4S_C13_solve_bridge.
Print Assumptions W4S_C13_best_model.
Print Assumptions W4S_C13_trace_len.
Print Assumptions W4S_C13_reported_trace_full.
