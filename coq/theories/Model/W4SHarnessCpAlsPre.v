(* Model/W4SHarnessCpAlsPre.v — REPLAY instantiation of Gen/GenCpAlsPre.v (prologue of cp_als): the input tensor is (number of
   modes, is-a-sumtensor), the world is the number of np.random.uniform draws so far, a factor matrix is a tag (100 + n: drawn for
   mode n; 200 + n: nvecs of mode n), the initial guess is a `zinit` (a ktensor with its ndims / ncomponents / list of modes whose
   factor has the wrong shape — computed by the harness from the shapes —, a string by its lower-cased name, something else, or the
   ktensor the prologue builds).  The permutation test and the optdims test are computed. *)
From Coq Require Import String List Arith Bool.
From PV Require Import Model.W4SPrelude Gen.GenCpAlsPre Model.W4SHarnessBase.
Import ListNotations.
Local Open Scope nat_scope.

Inductive zinit :=
| ZK (ndims ncomp : nat) (bad_modes : list nat) (id : nat)     (* a caller's ktensor *)
| ZStr (name : nat)                                            (* 0 = "random", 1 = "nvecs", 2 = any other string (after lower()) *)
| ZOther                                                       (* neither a ktensor nor a string *)
| ZBuilt (factors : list nat).                                 (* ttb.ktensor(factor_matrices) built by the prologue *)
Definition zinit_eqb (a b : zinit) : bool :=
  match a, b with
  | ZK n c bm i, ZK n' c' bm' i' => (n =? n') && (c =? c') && list_eqb Nat.eqb bm bm' && (i =? i')
  | ZStr s, ZStr s' => s =? s'
  | ZOther, ZOther => true
  | ZBuilt f, ZBuilt f' => list_eqb Nat.eqb f f'
  | _, _ => false
  end.
Definition zp_is_perm (d : nat) (o : list nat) : bool := (length o =? d) && forallb (fun i => existsb (Nat.eqb i) o) (seq 0 d).
Fixpoint zp_nodup (l : list nat) : bool := match l with [] => true | x :: r => negb (existsb (Nat.eqb x) r) && zp_nodup r end.
Definition zp_optdims_invalid (od : list nat) (N : nat) : bool := negb (forallb (fun x => x <? N) od) || negb (zp_nodup od).

Definition zsk_cpals_pre (X : nat * bool) (rank : nat) (dimorder optdims : option (list nat)) (init : zinit) :=
  GenCpAlsPre.cp_als_prologue nat unit nat zinit (nat * bool)
    fst (fun _ => tt) (fun d o => negb (zp_is_perm d o)) zp_optdims_invalid
    (fun i => match i with ZK _ _ _ _ => true | _ => false end)
    (fun i => match i with ZK n _ _ _ => n | _ => 0 end)
    (fun i => match i with ZK _ c _ _ => c | _ => 0 end)
    (fun i n _ _ => match i with ZK _ _ bm _ => existsb (Nat.eqb n) bm | _ => false end)
    (fun i => match i with ZStr _ => true | _ => false end)
    (fun i => match i with ZStr 0 => true | _ => false end)
    (fun w fm _ n _ => (S w, fm ++ [100 + n]))
    ZBuilt
    (fun i => match i with ZStr 1 => true | _ => false end)
    snd
    (fun _ n _ => 200 + n)
    0 X rank tt 0 dimorder optdims init 0 true.

(* observation: dimorder / optdims as reported in output["params"], the initial guess handed on, the number of random draws *)
Definition zsk_cpals_pre_ok (X : nat * bool) (rank : nat) (dimorder optdims : option (list nat)) (init : zinit)
           (order_obs optdims_obs : list nat) (init_obs : zinit) (draws_obs : nat) : bool :=
  match zsk_cpals_pre X rank dimorder optdims init with
  | None => false
  | Some (N, _, o, od, i', w') => (N =? fst X) && list_eqb Nat.eqb o order_obs && list_eqb Nat.eqb od optdims_obs && zinit_eqb i' init_obs &&
                                  (w' =? draws_obs)
  end.
Definition zsk_cpals_pre_raises (X : nat * bool) (rank : nat) (dimorder optdims : option (list nat)) (init : zinit) : bool :=
  match zsk_cpals_pre X rank dimorder optdims init with None => true | Some _ => false end.

Example zsk_cpals_pre_example :
  zsk_cpals_pre (3, false) 2 None (Some [2; 0]) (ZStr 0) = Some (3, tt, [0; 1; 2], [2; 0], ZBuilt [100; 101; 102], 3) /\
  zsk_cpals_pre (2, false) 2 (Some [1; 0]) None (ZStr 1) = Some (2, tt, [1; 0], [0; 1], ZBuilt [200; 201], 0) /\
  zsk_cpals_pre (2, false) 2 None None (ZK 2 2 [] 7) = Some (2, tt, [0; 1], [0; 1], ZK 2 2 [] 7, 0) /\
  zsk_cpals_pre (2, false) 2 None None (ZK 2 2 [1] 7) = None /\
  zsk_cpals_pre (2, false) 0 None None (ZStr 0) = None /\
  zsk_cpals_pre (2, true) 1 None None (ZStr 1) = None /\
  zsk_cpals_pre (2, false) 1 (Some [0; 0]) None (ZStr 0) = None /\
  zsk_cpals_pre (2, false) 1 None (Some [0; 0]) (ZStr 0) = None /\
  zsk_cpals_pre (2, false) 1 None None (ZStr 2) = None /\
  zsk_cpals_pre (2, false) 1 None None ZOther = None.
Proof. repeat split; vm_compute; reflexivity. Qed.
