(* Proofs/W3Methods.v — the generated simple methods (Gen/GenMethods.v) against the record primitives of Np/NpZ3.v:
   the primitive `spt_nnz` that other generated functions call for `t.nnz` is exactly the generated `sptensor.nnz`. *)
From Coq Require Import List ZArith Bool.
From PV Require Import Np.NpZ Np.NpZ2 Np.NpZ3 Gen.GenMethods.
Import ListNotations.
Local Open Scope Z_scope.

Lemma sptensor_nnz_prim t : sptensor_nnz t = Ok (spt_nnz t).
Proof. unfold sptensor_nnz, spt_nnz. destruct (np_size2 (spt_subs t) =? 0); reflexivity. Qed.

(* nnz counts the stored rows; it is 0 exactly when nothing is stored (rows of an N-way tensor, N >= 1, are non-empty) *)
Lemma sptensor_nnz_rows t : (forall r, In r (spt_subs t) -> r <> []) -> sptensor_nnz t = Ok (zlen (spt_subs t)).
Proof.
  intros H. rewrite sptensor_nnz_prim. f_equal. unfold spt_nnz.
  destruct (spt_subs t) as [|r m] eqn:E; [reflexivity|].
  assert (Hr : r <> []) by (apply H; left; reflexivity).
  assert (Hn : 0 <= np_size2 m) by (clear; induction m as [|x m IH]; [cbn; apply Z.le_refl|
    change (np_size2 (x :: m)) with (zlen x + np_size2 m); unfold zlen; apply Z.add_nonneg_nonneg; [apply Zle_0_nat|exact IH]]).
  change (np_size2 (r :: m)) with (zlen r + np_size2 m).
  destruct (Z.eqb_spec (zlen r + np_size2 m) 0) as [E0|_]; [|reflexivity].
  exfalso. destruct r; [congruence|]. unfold zlen in E0. cbn [length] in E0.
  rewrite Nat2Z.inj_succ in E0. pose proof (Zle_0_nat (length r)). apply (Z.lt_irrefl 0).
  rewrite <- E0 at 2. apply Z.add_pos_nonneg; [apply Z.lt_succ_r; assumption|assumption].
Qed.

Lemma sptensor_ndims_spec t : sptensor_ndims t = Ok (zlen (spt_shape t)).
Proof. reflexivity. Qed.
Lemma ktensor_ndims_spec k : ktensor_ndims k = Ok (zlen (kt_factors k)).
Proof. reflexivity. Qed.
Lemma ktensor_ncomponents_spec k : ktensor_ncomponents k = Ok (zlen (kt_weights k)).
Proof. reflexivity. Qed.
