"""C15 — symmetrisation averages over mode permutations and the symmetry test is exact (DESIGN §C15).

Correspondence: pyttb.tensor.symmetrize / issymmetric (new and old version, with/without details) and ktensor.symmetrize
against the executable spec of Model/C15Sym.v on NON-symmetric integer data; the averages are exact rationals (Qc), pyttb's
floats must be within 1e-9; the symmetry test is compared exactly over Z."""
import itertools
import math
from fractions import Fraction

from vcheck import Case, gnlist, gnmat, gq, gzlist
import tgen

PROP = "C15"
LEVEL = "proof"
GEN_UNITS = []
COQ_TARGETS = ["Props/C15.vo", "Model/C15Inst.vo", "Model/C08Inst.vo", "Model/Harness.vo"]
THEOREM_FILES = ["Props/C15.v"]
COQ_IMPORTS = ("From Coq Require Import List ZArith QArith Qcanon Bool.\n"
               "From PV Require Import Base.Index Np.Array Model.Repr Model.Harness Model.C15Sym Model.C15Inst Model.C08Inst.\n")
RULE = ("shapes (2,3,3), (3,2,3,2), (2,2,2,2), (3,3,3), (2,2), (3,3), (2,2,3), (3,2,2,3) ...; EVERY choice of one group (>= 2 "
        "modes of equal size) or two disjoint equal-sized groups, proper subsets included; non-symmetric integer data, plus "
        "exactly symmetric and almost-symmetric (one entry changed) data for the test; both versions; with/without details; "
        "non-trivial = data not symmetric in the groups or the group is a proper subset")
CORRESPONDENCE_ONLY = ["tensor.symmetrize new version = spec_sym", "tensor.symmetrize old version = spec_sym",
                       "tensor.issymmetric new/old version = spec_issym", "spec_sym result is symmetric / idempotent (evaluated per case, statement kept as C15_result_symmetric_stmt)",
                       "ktensor.symmetrize: identical factors (then symmetric by theorem C15_kruskal_sym), tensor preserved when the input was symmetric"]
ASSUMPTIONS = ["the average is taken in exact rational arithmetic; pyttb's float result must lie within 1e-9 relative",
               "old-version symmetrize's final max-fix is the identity on an exactly symmetric array (not modelled separately)"]
EXPLANATION = ("Theorems: adjacent transpositions generate all rearrangements; symmetrising fixes symmetric tensors; the boolean "
               "test is exact; Kruskal tensors with identical factors are symmetric. The two pyttb algorithms are tied to the spec by "
               "the correspondence stream.")


# ----------------------------------------------------------------------------------------------------------------
def group_choices(shape):
    """every single group (>=2 modes, equal sizes) and every pair of disjoint groups of equal length"""
    N = len(shape)
    singles = []
    for k in range(2, N + 1):
        for g in itertools.combinations(range(N), k):
            if len({shape[m] for m in g}) == 1:
                singles.append(list(g))
    out = [[g] for g in singles]
    for a, b in itertools.combinations(singles, 2):
        if len(a) == len(b) and not set(a) & set(b):
            out.append([a, b])
    return out


def sym_int(shape, data, groups):
    """integer-valued symmetric data: SUM over all within-group rearrangements (pure python)"""
    subs = tgen.all_subs(shape)
    pos = {tuple(s): k for k, s in enumerate(subs)}
    cur = list(data)
    for g in groups:
        new = []
        for s in subs:
            tot = 0
            for p in itertools.permutations([s[m] for m in g]):
                t = list(s)
                for m, v in zip(g, p):
                    t[m] = v
                tot += cur[pos[tuple(t)]]
            new.append(tot)
        cur = new
    return cur


def is_sym(shape, data, groups):
    subs = tgen.all_subs(shape)
    pos = {tuple(s): k for k, s in enumerate(subs)}
    for g in groups:
        if len({shape[m] for m in g}) != 1:
            return False
        for s in subs:
            for a, b in zip(g, g[1:]):
                t = list(s)
                t[a], t[b] = s[b], s[a]
                if data[pos[tuple(t)]] != data[pos[tuple(s)]]:
                    return False
    return True


def gen_cases(rng, tier):
    big = tier == "thorough"
    shapes = [(2, 3, 3), (3, 2, 3, 2), (2, 2, 2, 2), (3, 3, 3), (2, 2), (3, 3), (2, 2, 3), (3, 3, 2), (2, 2, 2), (2, 3, 2)]
    if big:
        shapes += [(3, 2, 2, 3), (2, 3, 3, 2), (4, 4), (2, 4, 4), (3, 3, 3, 2), (2, 2, 2, 2, 2)]
    cases = []
    for shape in shapes:
        n = math.prod(shape)
        for groups in group_choices(shape):
            proper = sum(len(g) for g in groups) < len(shape) or len(groups) > 1
            for rep in range(3 if big else 1):
                data = [rng.randint(-4, 5) for _ in range(n)]
                for version in (None, 1):
                    cases.append(Case("symmetrize", {"shape": list(shape), "data": data, "grps": groups, "version": version}, True))
                # symmetry test: non-symmetric, symmetric, almost symmetric
                sdata = sym_int(shape, [rng.randint(-2, 3) for _ in range(n)], groups)
                adata = list(sdata)
                adata[rng.randrange(n)] += 1
                for d in (data, sdata, adata):
                    for version, details in ((None, False), (1, False), (None, True), (1, True)):
                        if not big and details and version == 1 and rng.random() < 0.5:
                            continue
                        cases.append(Case("issymmetric", {"shape": list(shape), "data": d, "grps": groups, "version": version,
                                                          "details": details}, proper or not is_sym(shape, d, groups)))
        # default grps (all modes) on cubical shapes
        if len(set(shape)) == 1:
            data = [rng.randint(-4, 5) for _ in range(n)]
            for version in (None, 1):
                cases.append(Case("symmetrize", {"shape": list(shape), "data": data, "grps": None, "version": version}, True))
                cases.append(Case("issymmetric", {"shape": list(shape), "data": data, "grps": None, "version": version, "details": False}, True))
    # Kruskal symmetrize: cubical shapes, ranks 1-3; symmetric inputs (identical factors) and arbitrary ones
    for m, N in ((2, 2), (3, 2), (2, 3), (3, 3), (2, 4)):
        for R in (1, 2, 3):
            for kind in ("symmetric", "random"):
                A = [[rng.randint(-3, 3) for _ in range(R)] for _ in range(m)]
                if kind == "symmetric":
                    f = [A for _ in range(N)]
                    w = [rng.randint(1, 3) for _ in range(R)]
                else:
                    f = [[[rng.randint(-3, 3) for _ in range(R)] for _ in range(m)] for _ in range(N)]
                    w = [rng.choice([-2, -1, 1, 2, 3]) for _ in range(R)]
                cases.append(Case("ksymmetrize", {"w": w, "f": f, "kind": kind}, True))
    return cases


# ----------------------------------------------------------------------------------------------------------------
def run_impl(c):
    import numpy as np
    import pyttb as ttb
    a = c.args
    try:
        if c.op == "ksymmetrize":
            R = len(a["w"])
            K = ttb.ktensor([np.array(A, dtype=float).reshape((len(A), R)) for A in a["f"]], np.array(a["w"], dtype=float), copy=True)
            S = K.symmetrize()
            return {"ok": tgen.obs_ktensor(np, S), "issym": bool(S.issymmetric())}
        T = tgen.mk_tensor(ttb, np, a["shape"], a["data"])
        grps = None if a["grps"] is None else (np.array(a["grps"][0]) if len(a["grps"]) == 1 else np.array(a["grps"]))
        if c.op == "symmetrize":
            S = T.symmetrize(grps, a["version"]) if grps is not None else T.symmetrize(version=a["version"])
            S2 = S.copy().symmetrize(grps, a["version"]) if grps is not None else S.copy().symmetrize(version=a["version"])
            return {"ok": tgen.obs_dense(np, S), "again": tgen.obs_dense(np, S2)}
        if c.op == "issymmetric":
            r = T.issymmetric(grps, a["version"], a["details"])
            if a["details"]:
                return {"ok": bool(r[0]), "ndiffs": int(np.asarray(r[1]).size), "perms_shape": [int(x) for x in np.asarray(r[2]).shape]}
            return {"ok": bool(r)}
    except Exception as ex:
        return {"exc": type(ex).__name__, "msg": str(ex)[:200]}
    raise ValueError(c.op)


def groups_of(a):
    return a["grps"] if a["grps"] is not None else [list(range(len(a["shape"])))]


def finite(vals):
    return all(not isinstance(x, str) for x in vals)


def coq_check(c, o):
    a = c.args
    if "exc" in o:
        return "false"
    if c.op == "ksymmetrize":
        ob = o["ok"]
        if not (finite(ob["weights"]) and all(finite(r) for A in ob["factors"] for r in A)):
            return "false"
        import props.c08 as c08
        O = c08.gqk(ob["weights"], ob["factors"])
        shp = gnlist([len(A) for A in a["f"]])
        keep = f" && qk_den_close {shp} {c08.gqk(a['w'], a['f'])} O" if a["kind"] == "symmetric" else ""
        return (f"let O := {O} in q_mats_identical (kfactors O) && Nat.eqb (length (kfactors O)) {len(a['f'])} && "
                f"nvec_eqb (kshape O) {shp} && {'true' if o['issym'] else 'false'}{keep}")
    G = gnmat(groups_of(a))
    if c.op == "symmetrize":
        if not (finite(o["ok"]["data"]) and finite(o["again"]["data"])):
            return "false"
        T = tgen.gqdense(a["shape"], a["data"])
        O = tgen.gqdense(o["ok"]["shape"], o["ok"]["data"])
        O2 = tgen.gqdense(o["again"]["shape"], o["again"]["data"])
        return (f"let T := {T} in let O := {O} in q_sym_matches T {G} O && q_same O {O2} && q_sym_result_symmetric T {G}")
    if c.op == "issymmetric":
        T = tgen.gdense(a["shape"], a["data"])
        return f"Bool.eqb (z_issym {T} {G}) {'true' if o['ok'] else 'false'}"
    raise ValueError(c.op)


# ----------------------------------------------------------------------------------------------------------------
# independent brute force (pure python)
def oracle(c, o):
    a = c.args
    if "exc" in o:
        return f"admissible request raised {o['exc']}: {o.get('msg')}"
    if c.op == "ksymmetrize":
        fs = o["ok"]["factors"]
        if any(A != fs[0] for A in fs):
            return "factors of the symmetrised Kruskal tensor are not identical"
        if not o["issym"]:
            return "result does not pass ktensor.issymmetric"
        if a["kind"] == "symmetric":        # a symmetric input keeps its value
            def kden(w, f, i):
                t = Fraction(0)
                for r in range(len(w)):
                    p_ = Fraction(w[r])
                    for n_, A in enumerate(f):
                        p_ *= Fraction(A[i[n_]][r])
                    t += p_
                return t
            for i in tgen.all_subs([len(A) for A in a["f"]]):
                x, y = kden(o["ok"]["weights"], fs, i), kden(a["w"], a["f"], i)
                if abs(x - y) > Fraction(1, 10 ** 9) * max(1, abs(y)):
                    return f"symmetric Kruskal tensor changed value at {i}: {float(x)} instead of {float(y)}"
        return None
    groups = groups_of(a)
    shape = a["shape"]
    if c.op == "issymmetric":
        want = is_sym(shape, a["data"], groups)
        return None if want == o["ok"] else f"issymmetric answered {o['ok']}, the tensor is {'symmetric' if want else 'not symmetric'} in {groups}"
    tot = sym_int(shape, a["data"], groups)
    denom = math.prod(math.factorial(len(g)) for g in groups)
    for k, (s, got) in enumerate(zip(tot, o["ok"]["data"])):
        want = Fraction(s, denom)
        if abs(Fraction(got) - want) > Fraction(1, 10 ** 9) * max(1, abs(want)):
            return f"entry {tgen.all_subs(shape)[k]} is {float(Fraction(got))}, the average over the group permutations is {float(want)}"
    if any(abs(Fraction(x) - Fraction(y)) > Fraction(1, 10 ** 9) * max(1, abs(Fraction(y))) for x, y in zip(o["again"]["data"], o["ok"]["data"])):
        return "symmetrising twice differs from symmetrising once"
    return None


# ----------------------------------------------------------------------------------------------------------------
# known findings
def _full(a):
    gs = groups_of(a)
    return len(gs) == 1 and sorted(gs[0]) == list(range(len(a["shape"])))


def _reversal_closed(a):
    """every mode m lies in the same group as its mirror image N-1-m (then C-order and F-order enumeration visit the
    same symmetry classes and the defect A-39 is invisible)"""
    N = len(a["shape"])
    gs = groups_of(a)
    return all(m == N - 1 - m or any(m in g and (N - 1 - m) in g for g in gs) for m in range(N))


def trig_a39(c):
    a = c.args
    if c.op == "symmetrize":
        return a["version"] is None and not _reversal_closed(a)
    return c.op == "issymmetric" and a["version"] is None and not a["details"] and not _reversal_closed(a)


def trig_a40(c):
    a = c.args
    return c.op == "issymmetric" and (a["version"] is not None or a["details"]) and not _full(a)


TRIGGERS = {"new_version_groups_not_closed_under_mode_reversal": trig_a39,
            "old_issymmetric_groups_not_all_modes": trig_a40}


def _witness_a39():
    import numpy as np
    import pyttb as ttb
    X = np.zeros((2, 2, 2))
    X[1, 0, 0] = 4.0            # average over swapping modes 1,2 leaves X unchanged (X is symmetric in modes 1,2)
    T = ttb.tensor(X.copy())
    S = T.symmetrize(np.array([1, 2]))
    ok1 = np.array_equal(S.data, X)
    ok2 = bool(T.issymmetric(np.array([1, 2])))
    if ok1 and ok2:
        return None
    return f"tensor symmetric in modes (1,2): symmetrize changed it: {not ok1}; issymmetric answered {ok2}"


def _witness_a40():
    import numpy as np
    import pyttb as ttb
    T = ttb.tensor(np.ones((2, 2, 2)))
    try:
        r = T.issymmetric(np.array([1, 2]), version=1)
    except Exception as ex:
        return f"issymmetric(grps=[1,2], version=1) on the all-ones 2x2x2 tensor raised {type(ex).__name__}"
    return None if r is True or r == True else f"answered {r}"  # noqa: E712


WITNESSES = {"A-39": _witness_a39, "A-40": _witness_a40}
