(* Np/NpZ4c.v — primitives for the classmethod ktensor.from_vector (Gen/GenKtensor4b.v): the quotient of two Python ints
   under true division (only asked whether it is a whole number, then converted with int()), a 1-d float array handed
   to the shape predicates of pyttb_utils.  Definitions only; validated by tools/props/w4gen.py (ops prim4c_...). *)
From Coq Require Import List ZArith Bool Lia.
From PV Require Import Np.NpZ Np.NpZ2 Np.NpZ3.
Import ListNotations.
Local Open Scope Z_scope.

(* a / b for Python ints (b <> 0: the caller guards ZeroDivisionError), kept as the pair *)
Definition pyrat := (Z * Z)%type.
Definition rat_div (a b : Z) : pyrat := (a, b).
(* round(q) != q  is  negb (rat_is_int q) *)
Definition rat_is_int (q : pyrat) : bool := fst q mod snd q =? 0.
(* int(q) for a whole q *)
Definition rat_int (q : pyrat) : Z := fst q / snd q.

(* a 1-d float ndarray as the helpers of pyttb_utils see it (shape, dtype kind, entries) *)
Definition nd_of_vec (v : vec) : ndarr := mknd [zlen v] DFloat (map NFin v).
