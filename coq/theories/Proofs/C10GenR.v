(* Proofs/C10GenR.v — the hosvd error bound over the translator-GENERATED mode loop (Gen/GenHosvd.v) with real tensors (wave 4).
   The generated skeleton is instantiated with T_Tensor := dense R, T_Mat := matrix R, T_V := R; its numeric kernels stay arbitrary
   functions constrained only by their CONTRACTS:
     spec_ok  (LAPACK / numpy contract, required of every eigen-decomposition PERFORMED DURING THE RUN: run_ok): with (D, V) = k_eigh (k_gram (k_unfold Y k)), p = k_argsort_desc D,
              eig = k_take D p, W = k_select_cols V p:  W is an orthogonal I_k x I_k matrix, G W = W diag(eig) for the mode-k Gram matrix G
              of Y, and selecting the first r sorted columns gives W[:, 0:r];
     shrink   k_shrink Y factor_matrices k = Y x_k factor_matrices[k]^T  (reads entry k only).
   gen_hosvd_error_bound: if the generated hosvd_modes, started with ranks = 0 (automatic), threshold tol^2 ||X||^2 / d and a dimorder that is
   a permutation of range(d), returns (factor_matrices, ranks, Y), then the Tucker tensor with these factors and core X x_n U_n^T is within
   tol of X — sequential (through Proofs/C10Seq.v: the eigen-equations are those of the SHRUNK tensors) and non-sequential.
   The rank expression, the column slice, the order of factor assignment and shrink are those of the CURRENT /repo source. *)
From Coq Require Import String List Arith Lia Bool ZArith Reals Lra Permutation.
From PV Require Import Base.Index Base.Sum Np.Array Np.NpR Model.Sparse Model.Repr Model.W4SPrelude Gen.GenHosvd Model.C10Tucker Model.C10Loop Model.C14Nvecs
                       Proofs.C10Proofs Proofs.C10Spectral Proofs.C10Proj Proofs.C10ProjR Proofs.C10LoopProofs Proofs.C10Recon Proofs.C10Concrete
                       Proofs.C10Rayleigh Proofs.C10Isometry Proofs.C10Seq Proofs.W4SHosvd Proofs.W4SHosvdR Proofs.C10Gen.
Import ListNotations.

(* Y.ttm(U.transpose(), k) *)
Definition shrink1R (Y : dense R) (U : @matrix R) (k : nat) : dense R :=
  ttm 0%R Rplus Rmult Y k (mtrans 0%R U (nth k (dshape Y) 0) (ncols U)).

Section GenR.
Variable k_unfold : dense R -> nat -> @matrix R.
Variable k_gram : @matrix R -> @matrix R.
Variable k_eigh : @matrix R -> list R * @matrix R.
Variable k_argsort_desc : list R -> list nat.
Variable k_take : list R -> list nat -> list R.
Variable k_select_cols : @matrix R -> list nat -> @matrix R.
Variable k_shrink : dense R -> list (@matrix R) -> nat -> dense R.

Notation spectrum := (mode_spectrum R (dense R) (@matrix R) k_unfold k_gram k_eigh k_argsort_desc k_take).
Notation eigvals := (g_eigvals R (dense R) (@matrix R) k_unfold k_gram k_eigh k_argsort_desc k_take).
Notation leadingG := (g_leading R (dense R) (@matrix R) k_unfold k_gram k_eigh k_argsort_desc k_take k_select_cols).
Notation gmodes := (GenHosvd.hosvd_modes R (dense R) (@matrix R) Rleb 0%R Rplus k_unfold k_gram k_eigh k_argsort_desc k_take
  k_select_cols k_shrink).

(* the eigen-solver / sort / column-selection contract at tensor Y, mode k *)
Definition spec_ok (Y : dense R) (k : nat) : Prop :=
  let '(eig, p, Vm) := spectrum Y k in
  let I := nth k (dshape Y) 0 in
  let W := k_select_cols Vm p in
  orthocolsR I I W /\ orthorowsR I W /\ length eig = I /\ eigen_eq (dshape Y) k Y W eig /\ nrows W = I /\
  forall r, 0 < r <= I -> k_select_cols Vm (keep_cols r p) = leading R r W /\ ncols (leading R r W) = r.

(* every eigen-decomposition performed DURING THE RUN is valid: mode k of `order` looks at Y, then (when sequential) Y is shrunk by the
   FINAL factor of mode k — the per-call certificate the correspondence checks on every sampled run *)
Fixpoint run_ok (sq : bool) (fm : list (@matrix R)) (order : list nat) (Y : dense R) : Prop :=
  match order with
  | [] => True
  | k :: o' => spec_ok Y k /\ run_ok sq fm o' (if sq then shrink1R Y (nth k fm []) k else Y)
  end.
Hypothesis shrink_reads_k : forall Y fm k U, nth_error fm k = Some U -> k_shrink Y fm k = shrink1R Y U k.

Notation hloop := (hosvd_loop (dense R) (@matrix R) R 0%R Rplus (lt_of Rleb) eigvals leadingG shrink1R).

Lemma hloop_modes (sq : bool) (t : R) (d : nat) : (0 <= t)%R -> forall order ranks fm Y ranks' fm' Y',
  NoDup order -> (forall k, In k order -> k < d) -> length ranks = d -> length fm = d -> length (dshape Y) = d ->
  (forall k, In k order -> nth k ranks 0 = 0) ->
  hloop sq t order ranks fm Y = Some (ranks', fm', Y') -> run_ok sq fm' order Y ->
  exists es, map em_k es = order /\
    (if sq then sseq_ok t Y es else enonseq_ok (dshape Y) t Y es) /\
    forall e, In e es -> nth (em_k e) fm' [] = em_U e /\ nrows (cm_W (em_c e)) = nth (em_k e) (dshape Y) 0 /\
                         ncols (em_U e) = cm_r (em_c e).
Proof.
  intros Ht. induction order as [|k order IH]; intros ranks fm Y ranks' fm' Y' Hnd Hin Hr Hf HY Hz H Hrun.
  - exists []. split; [reflexivity|]. split; [destruct sq; [exact I|constructor]|]. intros e [].
  - cbn [hosvd_loop] in H. rewrite (Hz k (or_introl eq_refl)) in H.
    assert (Hk : k < d) by (apply Hin; now left).
    cbn [run_ok] in Hrun. destruct Hrun as (Hs & Hrun). unfold spec_ok in Hs.
    unfold g_eigvals, g_leading in H.
    destruct (spectrum Y k) as [[eig p] Vm] eqn:Esp. cbn [fst] in H.
    destruct Hs as (Hoc & Hor & Hlen & Heq & Hrows & Hsel).
    rewrite (auto_rank_ext 0%R Rplus (lt_of Rleb) Rltb lt_of_Rleb) in H.
    destruct (auto_rank 0%R Rplus Rltb eig t) as [r|] eqn:Er; [|discriminate].
    set (W := k_select_cols Vm p) in *. set (Ik := nth k (dshape Y) 0) in *.
    set (e := MkEMode (MkCMode k W r) eig).
    assert (He : emode_ok (dshape Y) t Y e).
    { unfold emode_ok, e. cbn [em_c em_mu cm_k cm_W cm_r]. fold Ik. repeat split; auto. lia. }
    pose proof (cmode_ok_rank (dshape Y) t Y _ Ht (emode_ok_cmode_ok (dshape Y) t Y e He)) as Hrk.
    cbn [e em_c cm_k cm_r] in Hrk. fold Ik in Hrk.
    destruct (Hsel r Hrk) as (HU & Hnc).
    rewrite HU in H. set (U := leading R r W) in *.
    set (Y1 := if sq then shrink1R Y U k else Y) in *.
    apply NoDup_cons_iff in Hnd. destruct Hnd as (Hk' & Hnd').
    assert (HY1 : length (dshape Y1) = length (dshape Y)).
    { unfold Y1. destruct sq; [|reflexivity]. unfold shrink1R. apply (ndims_ttm R 0%R Rplus Rmult). lia. }
    assert (Hsame : forall m, m <> k -> nth m (dshape Y1) 0 = nth m (dshape Y) 0).
    { intros m Hm. unfold Y1. destruct sq; [|reflexivity]. unfold shrink1R.
      apply (nth_dshape_ttm_other R 0%R Rplus Rmult); [lia|exact Hm]. }
    destruct (hosvd_loop_inv (dense R) (@matrix R) R 0%R Rplus (lt_of Rleb) eigvals leadingG shrink1R [] sq t
                  order (upd ranks k r) (upd fm k U) Y1 ranks' fm' Y' d Hnd'
                  (fun k0 Hk0 => Hin k0 (or_intror Hk0)) ltac:(rewrite upd_length; lia) ltac:(rewrite upd_length; lia) H)
        as (_ & _ & Hunt & _ & _).
    destruct (Hunt k Hk') as (_ & HUk). rewrite nth_upd in HUk by lia. rewrite Nat.eqb_refl in HUk.
    rewrite HUk in Hrun. fold Y1 in Hrun.
    destruct (IH (upd ranks k r) (upd fm k U) Y1 ranks' fm' Y' Hnd') as (es & Hmap & Hseq & Hside).
    + intros k0 Hk0. apply Hin. now right.
    + now rewrite upd_length.
    + now rewrite upd_length.
    + lia.
    + intros k0 Hk0. rewrite nth_upd by lia. destruct (Nat.eqb_spec k0 k) as [->|_]; [contradiction|]. apply Hz. now right.
    + exact H.
    + exact Hrun.
    + exists (e :: es). split; [cbn [map]; now rewrite Hmap|]. split.
      * destruct sq.
        -- cbn [sseq_ok]. split; [exact He|].
           replace (shrinkR Y e) with Y1; [exact Hseq|].
           unfold Y1, shrinkR, shrink1R, em_k, em_U, e. cbn [em_c cm_k cm_r cm_W]. fold U. now rewrite Hnc.
        -- constructor; [exact He|exact Hseq].
      * intros e' [<-|He'].
        -- unfold em_k, em_U, e. cbn [em_c cm_k cm_r cm_W]. fold U. split; [exact HUk|]. split; [exact Hrows|exact Hnc].
        -- destruct (Hside e' He') as (S1 & S2 & S3). split; [exact S1|]. split; [|exact S3].
           rewrite S2. apply Hsame. intros Heq'. apply Hk'. rewrite <- Hmap, <- Heq'. now apply in_map.
Qed.

(* the error bound for what the GENERATED loop returns *)
Theorem gen_hosvd_error_bound (sq : bool) (X : dense R) (dimorder : list nat) (fm0 fm : list (@matrix R)) (ranks' : list nat) (Y' : dense R)
    (tolsq : R) :
  let s := dshape X in let d := length s in
  Permutation dimorder (seq 0 d) -> 0 < d -> length fm0 = d -> (0 <= tolsq)%R ->
  gmodes dimorder (repeat 0 d) (tolsq * nrm2 (dense R) (innerR s) X / INR d)%R X fm0 sq = Some (fm, ranks', Y') ->
  run_ok sq fm dimorder X ->
  let T := mkT (ttm_all 0%R Rplus Rmult X (transposed 0%R fm)) fm in
  (nrm2 (dense R) (innerR s) (subR s X (tfull_ttm 0%R Rplus Rmult T)) <= tolsq * nrm2 (dense R) (innerR s) X)%R.
Proof.
  intros s d Hp Hd Hf Htol H Hrun T. set (t := (tolsq * nrm2 (dense R) (innerR s) X / INR d)%R) in *.
  assert (Hb : (0 <= t)%R) by (apply (budget_nonneg (dense R) (innerR s) (innerR_pos s)); assumption).
  destruct (perm_range d dimorder Hp) as (Hnd & Hin & Hlen).
  unfold GenHosvd.hosvd_modes in H.
  rewrite (gen_loop_is_hand_loop R (dense R) (@matrix R) Rleb 0%R Rplus k_unfold k_gram k_eigh k_argsort_desc k_take k_select_cols
             k_shrink shrink1R shrink_reads_k) in H
    by (rewrite ?repeat_length; try lia; intros k Hk; now apply Hin).
  destruct (hloop sq t dimorder (repeat 0 d) fm0 X) as [[[r1 U1] Y1]|] eqn:E; cbn [swap3] in H; [|discriminate].
  inversion H; subst U1 r1 Y1. clear H.
  destruct (hloop_modes sq t d Hb dimorder (repeat 0 d) fm0 X ranks' fm Y' Hnd (fun k Hk => proj1 (Hin k) Hk)
              (repeat_length _ _) Hf eq_refl) as (es & Hmap & Hok & Hside).
  { intros k _. apply nth_repeat. }
  { exact E. }
  { exact Hrun. }
  destruct (hosvd_loop_inv (dense R) (@matrix R) R 0%R Rplus (lt_of Rleb) eigvals leadingG shrink1R [] sq t
              dimorder (repeat 0 d) fm0 X ranks' fm Y' d Hnd (fun k Hk => proj1 (Hin k) Hk) (repeat_length _ _) Hf E) as (_ & Lfm & _).
  assert (Hles : length es = d) by (rewrite <- (map_length em_k), Hmap; exact Hlen).
  assert (Hne : es <> []) by (intros ->; cbn in Hles; lia).
  destruct sq.
  - apply (concrete_hosvd_seq_bound X es fm tolsq); auto.
    + now rewrite Hmap.
    + rewrite Hles. exact Hok.
  - apply (concrete_hosvd_eigen_bound false X es fm tolsq); auto.
    + change (fun e => cm_k (em_c e)) with em_k. now rewrite Hmap.
    + cbv zeta. rewrite Hles. exact Hok.
Qed.
End GenR.

(* ---------------------------------------------------------------------------------------- *)
(* non-vacuity: example kernels for the sequential run on the 2 x 3 array [[3,0,0],[0,1,0]], dimorder (1, 0), tol^2 = 1/2     *)
(* ---------------------------------------------------------------------------------------- *)
Definition exk_unfold (Y : dense R) (k : nat) : @matrix R := repeat [] (nth k (dshape Y) 0).   (* only the row count matters below *)
Definition exk_gram (M : @matrix R) : @matrix R := M.
Definition exk_eigh (M : @matrix R) : list R * @matrix R :=
  match length M with 3 => ([9; 1; 0]%R, exI3) | _ => ([9; 0]%R, exI2) end.
Definition exk_argsort (D : list R) : list nat := seq 0 (length D).
Definition exk_take (D : list R) (p : list nat) : list R := D.
Definition exk_select (Vm : @matrix R) (p : list nat) : @matrix R := leading R (length p) Vm.
Definition exk_shrink (Y : dense R) (fm : list (@matrix R)) (k : nat) : dense R := shrink1R Y (nth k fm []) k.

Lemma exk_shrink_reads_k : forall Y fm k U, nth_error fm k = Some U -> exk_shrink Y fm k = shrink1R Y U k.
Proof. intros Y fm k U H. unfold exk_shrink. now rewrite (nth_error_nth _ _ _ H). Qed.

Example gen_hosvd_example :
  let s := [2; 3]%nat in
  exists ranks' Y',
  GenHosvd.hosvd_modes R (dense R) (@matrix R) Rleb 0%R Rplus exk_unfold exk_gram exk_eigh exk_argsort exk_take exk_select exk_shrink
    [1; 0] (repeat 0 2) (1 / 2 * nrm2 (dense R) (innerR s) exX / INR 2)%R exX [[]; []] true = Some (exUs, ranks', Y') /\
  ranks' = [1; 1] /\ dshape Y' = [1; 1] /\
  run_ok exk_unfold exk_gram exk_eigh exk_argsort exk_take exk_select true exUs [1; 0] exX /\
  (nrm2 (dense R) (innerR s) (subR s exX (tfull_ttm 0%R Rplus Rmult (mkT (ttm_all 0%R Rplus Rmult exX (transposed 0%R exUs)) exUs)))
   <= 1 / 2 * nrm2 (dense R) (innerR s) exX)%R.
Proof.
  intros s.
  assert (Hn : nrm2 (dense R) (innerR s) exX = 10%R) by (unfold nrm2, innerR, dinner; cbn; lra).
  assert (Hrun : exists ranks' Y',
    GenHosvd.hosvd_modes R (dense R) (@matrix R) Rleb 0%R Rplus exk_unfold exk_gram exk_eigh exk_argsort exk_take exk_select exk_shrink
      [1; 0] (repeat 0 2) (1 / 2 * nrm2 (dense R) (innerR s) exX / INR 2)%R exX [[]; []] true = Some (exUs, ranks', Y') /\
    ranks' = [1; 1] /\ dshape Y' = [1; 1]).
  { rewrite Hn. replace (1 / 2 * 10 / INR 2)%R with (5 / 2)%R by (cbn; lra).
    unfold GenHosvd.hosvd_modes.
    rewrite (gen_loop_is_hand_loop R (dense R) (@matrix R) Rleb 0%R Rplus exk_unfold exk_gram exk_eigh exk_argsort exk_take exk_select
               exk_shrink shrink1R exk_shrink_reads_k) by (cbn; intuition lia).
    cbn [hosvd_loop repeat nth].
    change (g_eigvals R (dense R) (@matrix R) exk_unfold exk_gram exk_eigh exk_argsort exk_take exX 1) with [9; 1; 0]%R.
    rewrite (auto_rank_ext 0%R Rplus (lt_of Rleb) Rltb lt_of_Rleb).
    rewrite (auto_rank_1 [1; 0]%R 9 (5 / 2)) by (cbn; try lra; repeat constructor; lra).
    change (g_leading R (dense R) (@matrix R) exk_unfold exk_gram exk_eigh exk_argsort exk_take exk_select exX 1 1)
      with ([[1]; [0]; [0]]%R : @matrix R).
    cbn [upd nth].
    set (Y1 := shrink1R exX [[1]; [0]; [0]]%R 1).
    change (g_eigvals R (dense R) (@matrix R) exk_unfold exk_gram exk_eigh exk_argsort exk_take Y1 0) with [9; 0]%R.
    rewrite (auto_rank_ext 0%R Rplus (lt_of Rleb) Rltb lt_of_Rleb).
    rewrite (auto_rank_1 [0]%R 9 (5 / 2)) by (cbn; try lra; repeat constructor; lra).
    change (g_leading R (dense R) (@matrix R) exk_unfold exk_gram exk_eigh exk_argsort exk_take exk_select Y1 0 1)
      with ([[1]; [0]]%R : @matrix R).
    cbn [upd swap3]. eexists. eexists. split; [reflexivity|]. split; reflexivity. }
  destruct Hrun as (ranks' & Y' & Hg & Hr & Hs).
  assert (Hok : run_ok exk_unfold exk_gram exk_eigh exk_argsort exk_take exk_select true exUs [1; 0] exX).
  { cbn [run_ok]. split; [|split; [|exact I]].
    - unfold spec_ok. change (mode_spectrum R (dense R) (@matrix R) exk_unfold exk_gram exk_eigh exk_argsort exk_take exX 1)
        with ([9; 1; 0]%R, [0; 1; 2], exI3).
      change (exk_select exI3 [0; 1; 2]) with exI3. change (nth 1 (dshape exX) 0) with 3.
      split; [|split; [|split; [reflexivity|split; [|split; [reflexivity|]]]]].
      + intros j l Hj Hl. destruct j as [|[|[|j]]], l as [|[|[|l]]]; try lia; cbn; lra.
      + intros j l Hj Hl. destruct j as [|[|[|j]]], l as [|[|[|l]]]; try lia; cbn; lra.
      + intros a j Ha Hj. cbn in Ha, Hj. destruct a as [|[|[|a]]], j as [|[|[|j]]]; try lia; unfold gramR, gram_spec; cbn; lra.
      + intros r Hr'. assert (r = 1 \/ r = 2 \/ r = 3) as [->|[->| ->]] by lia; split; reflexivity.
    - change (nth 1 exUs []) with ([[1]; [0]; [0]]%R : @matrix R). set (Y1 := shrink1R exX [[1]; [0]; [0]]%R 1).
      unfold spec_ok. change (mode_spectrum R (dense R) (@matrix R) exk_unfold exk_gram exk_eigh exk_argsort exk_take Y1 0)
        with ([9; 0]%R, [0; 1], exI2).
      change (exk_select exI2 [0; 1]) with exI2. change (nth 0 (dshape Y1) 0) with 2. change (dshape Y1) with [2; 1].
      split; [|split; [|split; [reflexivity|split; [|split; [reflexivity|]]]]].
      + intros j l Hj Hl. destruct j as [|[|j]], l as [|[|l]]; try lia; cbn; lra.
      + intros j l Hj Hl. destruct j as [|[|j]], l as [|[|l]]; try lia; cbn; lra.
      + intros a j Ha Hj. cbn in Ha, Hj. destruct a as [|[|a]], j as [|[|j]]; try lia; unfold gramR, gram_spec; cbn; lra.
      + intros r Hr'. assert (r = 1 \/ r = 2) as [->| ->] by lia; split; reflexivity. }
  exists ranks', Y'. split; [exact Hg|]. split; [exact Hr|]. split; [exact Hs|]. split; [exact Hok|].
  pose proof (gen_hosvd_error_bound exk_unfold exk_gram exk_eigh exk_argsort exk_take exk_select exk_shrink exk_shrink_reads_k
                true exX [1; 0] [[]; []] exUs ranks' Y' (1 / 2)%R) as B.
  cbv zeta in B. apply B; auto.
  - apply perm_swap.
  - cbn; lia.
  - lra.
Qed.
