(* Proofs/C12Lambda.v — fg_est.estimate with lambda_check (pyttb/gcp/fg_est.py):
     if lambda_check and any(model.weights != 1.0): model = model.normalize(0)
     model_vals, Zexp = estimate_helper(model.factor_matrices, data_subs)
   estimate_helper only reads the factor matrices, so the component weights are taken into account exactly when the model
   handed to it has them absorbed into its factor matrices.  normalize(0) rescales column r of factor k by a number c_k[r]
   (1/norm for k >= 1, weight * product of the other norms for k = 0) whose product over k is the weight of component r.
   Ring-generic theorems for EVERY such column rescaling (all shapes, ranks, numbers of modes, sample sets):
     - the values estimate_helper computes from the rescaled factors are the values of the WEIGHTED model (lambda_values);
     - hence the estimated objective is the weighted sample sum of the loss at the weighted model's values (lambda_est_F), and on
       every subscript once with unit sample weights it is the exact objective of the weighted model (lambda_exact_F);
     - the gradient matrices are the exact-evaluation gradients of the rescaled unit-weight model (lambda_exact_G) and relate to
       the MTTKRPs with the original factors by the complementary column factors (mttkrp_scale).
   Absorbing the weights into mode 0 (what Model/C12Harness.v uses, exact over Z) is the instance c_0 = weights, c_k = 1. *)
From Coq Require Import List Arith Lia Bool Ring ZArith.
From PV Require Import Base.Index Base.Sum Np.Array Model.Sparse Model.Repr Model.C12Gcp Proofs.C12Tensor.
Import ListNotations.
Local Open Scope nat_scope.

Section Lambda.
Variable V : Type.
Variables (v0 v1 : V) (vadd vmul vsub : V -> V -> V) (vopp : V -> V).
Hypothesis Vring : ring_theory v0 v1 vadd vmul vsub vopp (@eq V).
Add Ring Vr5 : Vring.

Notation mat := (list (list V)).
Notation msum := (sum_over v0 vadd).
Notation mg := (mget v0).
Notation kp := (kprod v0 v1 vmul).
Notation ks := (kprod_skip v0 v1 vmul).
Notation dk := (den_k v0 v1 vadd vmul).
Notation SO_ext := (sum_over_ext V v0 vadd).
Notation SN_ext := (sum_n_ext V v0 vadd).

(* column r of A multiplied by c[r] *)
Fixpoint mul_row (row c : list V) : list V :=
  match row, c with x :: row', y :: c' => vmul x y :: mul_row row' c' | _, _ => [] end.
Definition scale_cols (c : list V) (A : mat) : mat := map (fun row => mul_row row c) A.
Fixpoint scale_all (cs : list (list V)) (As : list mat) : list mat :=
  match cs, As with c :: cs', A :: As' => scale_cols c A :: scale_all cs' As' | _, _ => [] end.

(* product over the modes of the column factors of component r; the same leaving out mode k *)
Fixpoint cprod (cs : list (list V)) (r : nat) : V :=
  match cs with [] => v1 | c :: cs' => vmul (nth r c v0) (cprod cs' r) end.
Fixpoint cskip (cs : list (list V)) (r k : nat) : V :=
  match cs with
  | [] => v1
  | c :: cs' => match k with O => cprod cs' r | S k' => vmul (nth r c v0) (cskip cs' r k') end
  end.

Lemma nth_mul_row : forall row c r, nth r (mul_row row c) v0 = vmul (nth r row v0) (nth r c v0).
Proof.
  induction row as [|x row IH]; intros [|y c] [|r]; cbn [mul_row nth]; try ring. apply IH.
Qed.

Lemma mget_scale_cols c (A : mat) j r : mg (scale_cols c A) j r = vmul (mg A j r) (nth r c v0).
Proof.
  unfold mget, scale_cols. destruct (lt_dec j (length A)) as [Hj|Hj].
  - rewrite (nth_indep _ [] (mul_row [] c)) by (now rewrite map_length).
    rewrite (map_nth (fun row => mul_row row c) A [] j). apply nth_mul_row.
  - rewrite (nth_overflow (map _ A)) by (rewrite map_length; lia). rewrite (nth_overflow A) by lia.
    destruct r; cbn [nth]; ring.
Qed.

Lemma scale_all_length : forall cs (As : list mat), length cs = length As -> length (scale_all cs As) = length As.
Proof. induction cs as [|c cs IH]; intros [|A As] H; cbn in *; try lia; auto. Qed.

Lemma scale_all_nrows : forall cs (As : list mat), length cs = length As ->
  map (@nrows V) (scale_all cs As) = map (@nrows V) As.
Proof.
  induction cs as [|c cs IH]; intros [|A As] H; cbn in *; try lia; auto.
  f_equal; [unfold nrows, scale_cols; apply map_length|apply IH; lia].
Qed.

Lemma kprod_scale : forall cs (As : list mat) i r, length cs = length As -> length i = length As ->
  kp (scale_all cs As) i r = vmul (kp As i r) (cprod cs r).
Proof.
  induction cs as [|c cs IH]; intros [|A As] [|x i] r H1 H2; cbn in H1, H2; try lia.
  - cbn. ring.
  - cbn [scale_all kprod cprod]. rewrite IH by lia. rewrite mget_scale_cols. ring.
Qed.

Lemma kprod_skip_scale : forall cs (As : list mat) i r k, length cs = length As -> length i = length As ->
  ks (scale_all cs As) i r k = vmul (ks As i r k) (cskip cs r k).
Proof.
  induction cs as [|c cs IH]; intros [|A As] [|x i] r k H1 H2; cbn in H1, H2; try lia.
  - cbn. ring.
  - cbn [scale_all kprod_skip cskip]. destruct k as [|k].
    + apply kprod_scale; lia.
    + rewrite IH by lia. rewrite mget_scale_cols. ring.
Qed.

(* the model values estimate_helper computes from the rescaled factor matrices are those of the weighted model *)
Theorem lambda_values : forall cs (As : list mat) (lam : list V) i,
  length cs = length As -> (forall r, r < length lam -> cprod cs r = nth r lam v0) ->
  inb (map (@nrows V) As) i = true ->
  fac_val v0 v1 vadd vmul (scale_all cs As) (length lam) i = dk (mkK lam As) i.
Proof.
  intros cs As lam i Hc Hp Hi. unfold fac_val, den_k, kshape, krank. cbn [kfactors kweights]. rewrite Hi.
  apply SN_ext. intros r Hr. rewrite kprod_scale; auto.
  - rewrite Hp by auto. ring.
  - apply inb_length in Hi. now rewrite map_length in Hi.
Qed.

Section Est.
Variables (f g : V -> V -> V) (cs : list (list V)) (As : list mat) (lam : list V).
Hypothesis Hc : length cs = length As.
Hypothesis Hp : forall r, r < length lam -> cprod cs r = nth r lam v0.
Let K := mkK lam As.
Let As' := scale_all cs As.
Let R := length lam.

(* every sample set (repeats, any sample weights, any correction range) whose subscripts lie in the model's shape:
   the estimated objective is the weighted sample sum of the loss at the WEIGHTED model's values *)
Theorem lambda_est_F : forall (subs : list idx) (xs ws : list V) (crng : list nat),
  Forall (fun i => inb (kshape K) i = true) subs ->
  est_F v0 v1 vadd vmul vsub f As' R subs xs ws crng =
  msum (seq 0 (length subs)) (fun q =>
    let m := dk K (nth q subs []) in
    vmul (nth q ws v0) (if inl q crng then vsub (f (nth q xs v0) m) (f v0 m) else f (nth q xs v0) m)).
Proof.
  intros subs xs ws crng Hin. unfold est_F. apply SO_ext. intros q Hq. apply in_seq in Hq. cbv zeta.
  assert (E : est_m v0 v1 vadd vmul As' R subs q = dk K (nth q subs [])).
  { unfold est_m. apply (lambda_values cs As lam); auto.
    rewrite Forall_forall in Hin. apply (Hin (nth q subs [])). apply nth_In. lia. }
  now rewrite E.
Qed.

Lemma den_k_scaled i : inb (map (@nrows V) As) i = true -> dk (mkK (repeat v1 R) As') i = dk K i.
Proof.
  intros Hi. rewrite <- (lambda_values cs As lam) by auto.
  symmetry. apply (fac_val_den_k V v0 v1 vadd vmul vsub vopp Vring).
  unfold As'. now rewrite scale_all_nrows.
Qed.

(* on every subscript once with unit sample weights: the exact objective of the weighted model *)
Theorem lambda_exact_F : forall (X : dense V), wf_dense X -> dshape X = map (@nrows V) As ->
  est_F v0 v1 vadd vmul vsub f As' R (allsubs (dshape X)) (ddata X) (repeat v1 (size (dshape X))) [] =
  eval_F v0 v1 vadd vmul f K X None.
Proof.
  intros X HX Hs.
  rewrite (estimate_exact_F V v0 v1 vadd vmul vsub vopp Vring f As' R X HX)
    by (unfold As'; now rewrite scale_all_nrows).
  unfold eval_F. apply SO_ext. intros i Hi. apply in_allsubs in Hi.
  rewrite den_k_scaled by (now rewrite <- Hs). reflexivity.
Qed.

(* the gradient matrices are the exact-evaluation gradients of the rescaled (unit-weight) model, whose element-wise
   derivative array is the one of the weighted model *)
Theorem lambda_exact_G : forall (X : dense V), wf_dense X -> dshape X = map (@nrows V) As ->
  est_G v0 v1 vadd vmul vsub g As' R (allsubs (dshape X)) (ddata X) (repeat v1 (size (dshape X))) [] (dshape X) =
  map (mttkrp_den v0 v1 vadd vmul (dshape X) (eval_Y v0 v1 vadd vmul g K X None) As' R) (seq 0 (length (dshape X))).
Proof.
  intros X HX Hs.
  rewrite (estimate_exact_G V v0 v1 vadd vmul vsub vopp Vring g As' R X HX)
    by (unfold As'; now rewrite scale_all_nrows).
  unfold eval_G, krank. cbn [kfactors kweights]. rewrite repeat_length.
  apply map_ext. intros k. unfold mttkrp_den. apply map_ext. intros j. apply map_ext. intros r.
  apply SO_ext. intros i Hi. apply filter_In in Hi as [Hi _]. apply in_allsubs in Hi.
  unfold eval_Y. rewrite den_k_scaled by (now rewrite <- Hs). reflexivity.
Qed.

(* MTTKRP with the rescaled factors = MTTKRP with the original ones times the complementary column factor *)
Theorem mttkrp_scale : forall (s : shape) (Y : idx -> V) k j r, length s = length As ->
  j < nth k s 0 -> r < R ->
  mg (mttkrp_den v0 v1 vadd vmul s Y As' R k) j r =
  vmul (mg (mttkrp_den v0 v1 vadd vmul s Y As R k) j r) (cskip cs r k).
Proof.
  intros s Y k j r Hs Hj Hr.
  rewrite !(mget_mttkrp_den V v0 v1 vadd vmul) by auto.
  rewrite <- (sum_over_scale_r V v0 v1 vadd vmul vsub vopp Vring).
  apply SO_ext. intros i Hi. apply filter_In in Hi as [Hi _]. apply in_allsubs in Hi. apply inb_length in Hi.
  unfold As'. rewrite kprod_skip_scale by lia. ring.
Qed.
End Est.

(* the instance used by the executable harness: weights absorbed into mode 0 *)
Definition absorb_cs (lam : list V) (N : nat) : list (list V) :=
  match N with O => [] | S n => lam :: repeat (repeat v1 (length lam)) n end.

Lemma cprod_ones n R r : r < R -> cprod (repeat (repeat v1 R) n) r = v1.
Proof.
  intros Hr. induction n as [|n IH]; [reflexivity|]. cbn [repeat cprod]. rewrite IH.
  rewrite (nth_repeat_lt v1 v0 R r Hr). ring.
Qed.

Theorem absorb_cs_prod lam N r : 1 <= N -> r < length lam -> cprod (absorb_cs lam N) r = nth r lam v0.
Proof.
  intros HN Hr. destruct N as [|n]; [lia|]. cbn [absorb_cs cprod]. rewrite cprod_ones by auto. ring.
Qed.

Lemma absorb_cs_length lam N : length (absorb_cs lam N) = N.
Proof. destruct N; cbn; [reflexivity|]. now rewrite repeat_length. Qed.

End Lambda.

(* non-vacuity over Z: weights (2, -3), column factors c_0 = (2, 3), c_1 = (1, -1): products (2, -3) *)
Section Example.
Local Open Scope Z_scope.
Let As : list (list (list Z)) := [ [[1; 2]; [-3; 4]]; [[2; 0]; [1; 3]; [-1; 1]] ].
Let lam : list Z := [2; -3].
Let cs : list (list Z) := [[2; 3]; [1; -1]].
Let X : dense Z := mkDense [2; 3]%nat [1; -2; 0; 4; 3; -1].
Let f (x m : Z) : Z := (m - x) * (m - x).
Example lambda_example :
  est_F 0 1 Z.add Z.mul Z.sub f (scale_all Z Z.mul cs As) 2 (allsubs [2; 3]%nat) (ddata X) (repeat 1 6) [] =
    eval_F 0 1 Z.add Z.mul f (mkK lam As) X None /\
  eval_F 0 1 Z.add Z.mul f (mkK lam As) X None <> eval_F 0 1 Z.add Z.mul f (mkK [1; 1] As) X None /\
  est_F 0 1 Z.add Z.mul Z.sub f As 2 (allsubs [2; 3]%nat) (ddata X) (repeat 1 6) [] <>
    eval_F 0 1 Z.add Z.mul f (mkK lam As) X None.
Proof. timeout 60 (vm_compute; repeat split; try reflexivity; discriminate). Qed.
End Example.

Print Assumptions lambda_values.
Print Assumptions lambda_est_F.
Print Assumptions lambda_exact_F.
Print Assumptions lambda_exact_G.
Print Assumptions mttkrp_scale.
Print Assumptions absorb_cs_prod.
