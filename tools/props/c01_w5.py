"""C01, fifth wave: Tucker tensors whose factor matrices are scipy coo matrices (an ordinary input class since /repo 9d096f6
repaired N-C01-5) and `ttm` over mode lists, as executed — Model/C01W5.v, theorems in Props/C01w5.v.

ops
  tfull_fac   ttb.ttensor(core, factors, copy).full() / .double() / .to_tensor() with a dense or sparse core and factors that are
              ndarrays or coo matrices GIVEN AS RAW TRIPLES (any stored order, split positions = duplicates that scipy sums,
              explicitly stored zeros, empty), copy=True / copy=False, memory layouts of the ndarray factors (the copy=False path
              asks every factor for its layout until the first that is not Fortran-contiguous: the former N-C01-5 witness is
              the first explicit case).  Compared with ttensor_full_fac (route as executed, scipy's sparse product = spdot_ref)
              and with the Tucker denotation of (densified core, toarray of the factors).
  ttm_list    X.ttm(matrices, dims | exclude_dims, transpose) for a dense or sparse receiver X, ndarray / coo matrices, modes in
              any order, the forms {one matrix per listed mode, one matrix per mode of X with a sub-list of modes, exclude_dims,
              a single matrix and mode}.  The harness applies tt_dimscheck's reordering (modes ascending) itself; the returned
              object (tensor or sptensor — raw stored lists) must be well-formed and densify to ttm_chain / ttm_pairs.
The brute-force oracle evaluates sum_j G[j] prod_n U_n[i_n, j_n] with pure Python loops.
  sum_hist    ttb.sumtensor(parts, copy) followed by a HISTORY of `S + part` / `part + S` / `S + [parts]` / `[parts] + S` / `-S` /
              `+S` / `S.copy()` (parts dense, sparse, Kruskal of rank 0..3, Tucker with dense or sparse core), then full() /
              double() / a second full(); some histories add a part of ANOTHER shape (the constructor behind `+` must refuse).
              Compared with sum_history_full (Model/C01W5Sum.v) and with the value hist_val prescribes at every subscript.
Imported by props/c01.py."""
import copy as _copy
import math
from vcheck import Case, gnlist, gnmat, gzlist
import tgen
from props.c01_conv import (LAYOUTS, relayout, rand_matrix, rand_k, rand_t, rand_sp, _rand_req, _mk_k, _mk_t, mk_dense_opt, mk_sparse_opt,
                            _gk, _gt, _gmat_list, _den_k, _den_t)

OPS5 = {"tfull_fac", "ttm_list", "sum_hist"}


# ------------------------------------------------------------------------------------------------ generators
def _rand_coo(rng, d, j, style=None):
    """a d x j coo matrix as raw triples [i, j, v]; style: plain (row-major nonzeros, as coo_matrix(dense) stores them), shuffled,
    split (a position stored twice or three times), zeros (explicitly stored zeros, cancelling pairs), empty, dense"""
    style = style or rng.choice(["plain", "shuffled", "split", "zeros", "sparse", "empty", "dense"])
    fill = {"empty": 0.0, "dense": 1.0, "sparse": 0.25}.get(style, 0.6)
    trip = []
    for a in range(d):
        for b in range(j):
            if rng.random() < fill:
                v = rng.choice([-2, -1, 1, 2, 3])
                if style == "split" and rng.random() < 0.5:
                    w = rng.choice([-3, 1, 2])
                    trip += [[a, b, v - w], [a, b, w]]
                else:
                    trip.append([a, b, v])
            elif style == "zeros" and rng.random() < 0.5:
                trip += rng.choice([[[a, b, 0]], [[a, b, 2], [a, b, -2]]])
    if style != "plain":
        rng.shuffle(trip)
    return {"kind": "c", "shape": [d, j], "trip": trip}


def _rand_fac(rng, d, j, pcoo=0.6):
    if rng.random() < pcoo:
        return _rand_coo(rng, d, j)
    return {"kind": "d", "rows": rand_matrix(rng, d, j)}


def _rand_holder(rng, shp, sparse, fill=None):
    fill = rng.choice([0.0, 0.15, 0.3, 0.6, 1.0]) if fill is None else fill
    data = tgen.rand_dense(rng, shp, fill)
    if sparse:
        subs, vals = tgen.dense_to_sparse(shp, data, rng, rng.choice(["sorted", "reversed", "random"]))
        return {"kind": "s", "subs": subs, "vals": vals}
    return {"kind": "d", "data": data}


def gen_cases_w5(rng, tier):
    big = tier == "thorough"
    cases = []
    # the former witness of N-C01-5: 2 x 2 dense core, factors [coo 3 x 2, F-ordered ndarray 2 x 2], copy=False — and its variants
    wit_core = {"kind": "d", "data": [1, 3, 2, 4]}
    wit_c = {"kind": "c", "shape": [3, 2], "trip": [[0, 0, 1], [1, 0, 2], [1, 1, 1], [2, 1, 3]]}
    wit_d = {"kind": "d", "rows": [[1, 1], [0, 2]]}
    for cp in (False, True):
        for lay in (["F"], ["C"], ["F", "C"]):
            cases.append(Case("tfull_fac", {"shape": [3, 2], "cshape": [2, 2], "core": wit_core, "factors": [wit_c, wit_d],
                                            "copy": cp, "lay": lay}, True))
            cases.append(Case("tfull_fac", {"shape": [2, 3], "cshape": [2, 2], "core": wit_core, "factors": [wit_d, wit_c],
                                            "copy": cp, "lay": lay}, True))
    # Tucker: cores up to 3 cells per mode (so that the sparse product stays sparse on some and not on others)
    tshapes = [[3], [2, 3], [4, 1], [1, 4], [2, 3, 4], [4, 1, 3], [3, 2, 2, 2], [5, 4], [2, 2, 2, 2, 2]]
    tshapes += [tgen.rand_shape(rng, maxn=4, maxcells=60) for _ in range(60 if big else 14)]
    for shp in tshapes:
        for sc in (False, True, True):
            cshape = [rng.randint(1, 3) for _ in shp]
            if math.prod(cshape) * math.prod(shp) > 1500:
                cshape = [min(c, 2) for c in cshape]
            core = _rand_holder(rng, cshape, sc)
            facs = [_rand_fac(rng, d, j) for d, j in zip(shp, cshape)]
            if all(f["kind"] == "d" for f in facs):
                k = rng.randrange(len(facs))
                facs[k] = _rand_coo(rng, shp[k], cshape[k])
            nt = math.prod(shp) > 1 and any(core.get("data", core.get("vals")))
            cases.append(Case("tfull_fac", {"shape": list(shp), "cshape": cshape, "core": core, "factors": facs,
                                            "copy": rng.random() < 0.5,
                                            "fdt": [rng.choice([None, None, "f4", "i8", "i4", "i2"]) for _ in range(rng.randint(1, 3))],
                                            "lay": [rng.choice(LAYOUTS + ["F", "F", "F"]) for _ in range(rng.randint(1, 3))]}, nt))
    # Kruskal shapes whose cheapest split puts THREE OR MORE factor matrices on one side (skewed 4-way shapes split 1|3 and 3|1,
    # 6 modes): the Khatri-Rao chain then folds a running product that is already 3-dimensional
    for shp in [[7, 2, 2, 2], [2, 2, 2, 7], [9, 2, 3, 2], [2, 3, 2, 12], [2, 2, 2, 2, 2, 2], [3, 2, 1, 2, 2, 2]]:
        for R in ([1, 2, 3] if big else [1, rng.choice([2, 3])]):
            cases.append(Case("kfull", {"shape": shp, "K": rand_k(rng, shp, R), "treq": _rand_req(rng, len(shp))}, True))
    # ttm over mode lists
    lshapes = [[3], [2, 3], [3, 2], [2, 3, 4], [4, 1, 3], [2, 1, 2, 3], [3, 2, 2, 2]]
    lshapes += [tgen.rand_shape(rng, maxn=4, maxcells=48) for _ in range(50 if big else 12)]
    for shp in lshapes:
        N = len(shp)
        for sparse in (False, True, True):
            recv = _rand_holder(rng, shp, sparse)
            form = rng.choice(["dims", "dims", "all", "exclude", "single"])
            k = 1 if form == "single" else rng.randint(1, N)
            modes = rng.sample(range(N), k)
            if form == "all" and k == N:     # N matrices for N listed modes: tt_dimscheck reads the list in the order of dims
                form = "dims"
            if form == "exclude":
                modes = sorted(modes)
            pairs = [[m, _rand_fac(rng, rng.randint(1, 3), shp[m], pcoo=0.5)] for m in modes]
            nt = any(recv.get("data", recv.get("vals")))
            cases.append(Case("ttm_list", {"shape": list(shp), "recv": recv, "pairs": pairs, "form": form,
                                           "transpose": rng.random() < 0.3,
                                           "fdt": [rng.choice([None, None, "f4", "i8", "i4"]) for _ in range(rng.randint(1, 2))],
                                           "lay": [rng.choice(LAYOUTS + ["F", "F"]) for _ in range(rng.randint(1, 2))]}, nt))
    # sumtensor histories: first every part class negated (even and odd number of modes, singleton mode), then random histories
    for shp in [[2, 3], [3], [2, 1, 2], [2, 2, 2, 2], [1, 1]]:
        def one(kind, sc=False):
            if kind == "d":
                return {"kind": "d", "data": tgen.rand_dense(rng, shp, 1.0)}
            if kind == "s":
                subs, vals = rand_sp(rng, shp, 0.6)
                return {"kind": "s", "subs": subs, "vals": vals}
            if kind == "k":
                return {"kind": "k", "K": rand_k(rng, shp, 2)}
            return {"kind": "t", "T": rand_t(rng, shp, sc)}
        every = [one("d"), one("s"), one("k"), one("t"), one("t", True)]
        cases.append(Case("sum_hist", {"shape": list(shp), "parts": every, "ops": [{"op": "neg"}], "copy": True, "bad": False}, True))
        for p in every:
            cases.append(Case("sum_hist", {"shape": list(shp), "parts": [p], "ops": [{"op": "neg"}, {"op": "add", "part": one("d"), "side": "r"}],
                                           "copy": False, "bad": False}, True))
        cases.append(Case("sum_hist", {"shape": list(shp), "parts": [one("s")], "copy": False, "bad": False,
                                       "ops": [{"op": "add", "part": one("k"), "side": "l"}, {"op": "neg"},
                                               {"op": "addlist", "parts": [one("t", True), one("k")], "side": "r"}, {"op": "neg"},
                                               {"op": "copy"}, {"op": "neg"}, {"op": "pos"}]}, True))
    for _ in range(120 if big else 30):
        shp = tgen.rand_shape(rng, maxn=4, maxcells=36)
        parts = [_rand_part(rng, shp) for _k in range(rng.randint(0, 3))]
        ops, bad = [], False
        for _k in range(rng.randint(1, 5)):
            kind = rng.choice(["add", "add", "addlist", "neg", "neg", "pos", "copy"])
            if kind == "add":
                ops.append({"op": "add", "part": _rand_part(rng, shp), "side": rng.choice("lr")})
            elif kind == "addlist":
                ops.append({"op": "addlist", "parts": [_rand_part(rng, shp) for _j in range(rng.randint(0, 2))], "side": rng.choice("lr")})
            else:
                ops.append({"op": kind})
        if rng.random() < 0.12 and parts:       # a part of another shape somewhere in the history
            other = list(shp)
            other[rng.randrange(len(other))] += 1
            q = _rand_part(rng, other)
            q["shape"] = other
            ops.insert(rng.randint(0, len(ops)), {"op": "add", "part": q, "side": rng.choice("lr")})
            bad = True
        if not parts and ops[0]["op"] not in ("add", "addlist"):
            ops.insert(0, {"op": "add", "part": _rand_part(rng, shp), "side": "l"})
        cases.append(Case("sum_hist", {"shape": list(shp), "parts": parts, "ops": ops, "copy": rng.random() < 0.5, "bad": bad}, True))
    return cases


def _rand_part(rng, shp):
    kind = rng.choice(["d", "s", "k", "t", "t"])
    if kind == "d":
        return {"kind": "d", "data": tgen.rand_dense(rng, shp, rng.choice([0.5, 1.0]))}
    if kind == "s":
        subs, vals = rand_sp(rng, shp, rng.choice([0.0, 0.3, 0.6]))
        return {"kind": "s", "subs": subs, "vals": vals}
    if kind == "k":
        return {"kind": "k", "K": rand_k(rng, shp, rng.choice([0, 1, 1, 2, 3]))}
    return {"kind": "t", "T": rand_t(rng, shp, rng.random() < 0.5)}


# ------------------------------------------------------------------------------------------------ pyttb runner
def _mk_holder(ttb, np, shape, h):
    if h["kind"] == "d":
        return ttb.tensor(np.asfortranarray(tgen.np_dense(np, shape, h["data"]).astype(float)), tuple(shape), copy=True)
    return tgen.mk_sptensor(ttb, np, shape, h["subs"], h["vals"])


_FDT = {None: "float64", "f8": "float64", "f4": "float32", "i8": "int64", "i4": "int32", "i2": "int16"}


def _mk_fac(np, f, lay=None, transpose=False, dt=None):
    """dt: element type of the ndarray / of the coo data array (signed integer or float; the values are small integers)"""
    if f["kind"] == "d":
        d = len(f["rows"])
        A = np.array(f["rows"], dtype=float).reshape((d, len(f["rows"][0]) if d else 0)).astype(_FDT[dt])
        return relayout(np, A.T if transpose else A, lay)
    from scipy import sparse as sps
    t = f["trip"]
    rows, cols = np.array([x[0] for x in t], dtype=int), np.array([x[1] for x in t], dtype=int)
    vals = np.array([x[2] for x in t], dtype=float).astype(_FDT[dt])
    if transpose:
        return sps.coo_matrix((vals, (cols, rows)), shape=(f["shape"][1], f["shape"][0]))
    return sps.coo_matrix((vals, (rows, cols)), shape=tuple(f["shape"]))


def _sub(fn):
    try:
        return fn()
    except Exception as ex:
        return {"exc": type(ex).__name__, "msg": str(ex)[:200]}


def run_w5(c):
    import numpy as np
    import pyttb as ttb
    a = c.args
    try:
        if c.op == "tfull_fac":
            core = _mk_holder(ttb, np, a["cshape"], a["core"])
            fdt = a.get("fdt") or [None]
            fs = [_mk_fac(np, f, a["lay"][n % len(a["lay"])], dt=fdt[n % len(fdt)]) for n, f in enumerate(a["factors"])]
            T = ttb.ttensor(core, fs, copy=a["copy"])
            return {"ok": tgen.obs_dense(np, T.full()), "double": _sub(lambda: tgen.obs_dense(np, T.double())),
                    "to_tensor": _sub(lambda: tgen.obs_dense(np, T.to_tensor())), "tshape": [int(d) for d in T.shape]}
        if c.op == "ttm_list":
            X = _mk_holder(ttb, np, a["shape"], a["recv"])
            N, tr = len(a["shape"]), a["transpose"]
            lay, fdt = a.get("lay") or [None], a.get("fdt") or [None]
            mats = [_mk_fac(np, f, lay[n % len(lay)], tr, dt=fdt[n % len(fdt)]) for n, (_, f) in enumerate(a["pairs"])]
            modes = [m for m, _ in a["pairs"]]
            if a["form"] == "single":
                Y = X.ttm(mats[0], modes[0], transpose=tr)
            elif a["form"] == "dims":
                Y = X.ttm(mats, dims=np.array(modes), transpose=tr)
            elif a["form"] == "exclude":
                Y = X.ttm(mats, exclude_dims=np.array([m for m in range(N) if m not in modes]), transpose=tr)
            else:        # one matrix per mode of X, only the listed modes are multiplied (the others are never read)
                every = [np.zeros((1, 7)) for _ in range(N)]
                for m, A in zip(modes, mats):
                    every[m] = A
                Y = X.ttm(every, dims=np.array(modes), transpose=tr)
            if isinstance(Y, ttb.sptensor):
                return {"ok": {"kind": "s", "s": tgen.obs_sparse(np, Y)}}
            return {"ok": {"kind": "d", "d": tgen.obs_dense(np, Y)}}
        if c.op == "sum_hist":
            def mk(p):
                shp = p.get("shape", a["shape"])
                if p["kind"] == "d":
                    return mk_dense_opt(ttb, np, shp, p["data"])
                if p["kind"] == "s":
                    return mk_sparse_opt(ttb, np, shp, p["subs"], p["vals"])
                if p["kind"] == "k":
                    return _mk_k(ttb, np, p["K"], shp)
                return _mk_t(ttb, np, p["T"], shp)
            S = ttb.sumtensor([mk(p) for p in a["parts"]], copy=a["copy"])
            for o in a["ops"]:
                if o["op"] == "add":
                    S = (S + mk(o["part"])) if o["side"] == "l" else (mk(o["part"]) + S)
                elif o["op"] == "addlist":
                    S = (S + [mk(p) for p in o["parts"]]) if o["side"] == "l" else ([mk(p) for p in o["parts"]] + S)
                elif o["op"] == "neg":
                    S = -S
                elif o["op"] == "pos":
                    S = +S
                else:
                    S = S.copy()
            if not isinstance(S, ttb.sumtensor):
                return {"exc": "NotASumtensor", "msg": type(S).__name__}
            first = S.full()
            return {"ok": tgen.obs_dense(np, first), "double": _sub(lambda: tgen.obs_dense(np, S.double())),
                    "again": _sub(lambda: tgen.obs_dense(np, S.full())), "nparts": len(S.parts)}
    except Exception as ex:
        return {"exc": type(ex).__name__, "msg": str(ex)[:200]}
    raise ValueError(c.op)


# ------------------------------------------------------------------------------------------------ Coq side
def _gholder(shape, h):
    if h["kind"] == "d":
        return f"(HD {tgen.gdense(shape, h['data'])})"
    return f"(HS {tgen.gsparse(shape, h['subs'], h['vals'])})"


def _gfac(f):
    if f["kind"] == "d":
        return f"(FDense {tgen.gmatrix(f['rows'])})"
    return (f"(FCoo (mkCoo {gnlist(f['shape'])} {gnmat([[t[0], t[1]] for t in f['trip']])} "
            f"{gzlist([t[2] for t in f['trip']])}))")


def _gpart4(shape, p):
    shp = p.get("shape", shape)
    if p["kind"] == "d":
        return f"(QD {tgen.gdense(shp, p['data'])})"
    if p["kind"] == "s":
        return f"(QS {tgen.gsparse(shp, p['subs'], p['vals'])})"
    if p["kind"] == "k":
        return f"(QK {_gk(p['K'])})"
    T = p["T"]
    if "csubs" in T:
        return f"(QTS {tgen.gsparse(T['cshape'], T['csubs'], T['cvals'])} {_gmat_list(T['factors'])})"
    return f"(QT {_gt(T)})"


def _gsop(shape, o):
    if o["op"] == "add":
        return f"(OAdd {_gpart4(shape, o['part'])})"
    if o["op"] == "addlist":
        return "(OAddList [" + "; ".join(_gpart4(shape, p) for p in o["parts"]) + "])"
    return "ONeg" if o["op"] == "neg" else "OCopy"


def _ints(ob):
    return isinstance(ob, dict) and "data" in ob and tgen.all_int(ob["data"])


def check_w5(c, o):
    a = c.args
    if c.op == "tfull_fac":
        core = _gholder(a["cshape"], a["core"])
        Fs = "[" + "; ".join(_gfac(f) for f in a["factors"]) + "]"
        if "exc" in o:
            return "false"               # every request generated here is admissible
        if not _ints(o["ok"]) or o.get("double") != o["ok"] or o.get("to_tensor") != o["ok"] or o["tshape"] != a["shape"]:
            return "false"
        return f"tfull_fac_ok {core} {Fs} (Some {tgen.gdense(o['ok']['shape'], o['ok']['data'])})"
    if c.op == "ttm_list":
        if "exc" in o:
            return "false"
        recv = _gholder(a["shape"], a["recv"])
        ps = "[" + "; ".join(f"({m}%nat, {_gfac(f)})" for m, f in sorted(a["pairs"], key=lambda p: p[0])) + "]"
        ob = o["ok"]
        if ob["kind"] == "s":
            s = ob["s"]
            if not tgen.all_int(s["vals"]) or s["nnz"] != len(s["subs"]) or len(s["subs"]) != len(s["vals"]):
                return "false"
            h = f"(HS {tgen.gsparse(s['shape'], s['subs'], s['vals'])})"
        else:
            if not _ints(ob["d"]):
                return "false"
            h = f"(HD {tgen.gdense(ob['d']['shape'], ob['d']['data'])})"
        return f"ttm_list_ok {recv} {ps} (Some {h})"
    if c.op == "sum_hist":
        P = "[" + "; ".join(_gpart4(a["shape"], p) for p in a["parts"]) + "]"
        O = "[" + "; ".join(_gsop(a["shape"], o_) for o_ in a["ops"]) + "]"
        nparts = len(a["parts"]) + sum(1 if o_["op"] == "add" else len(o_["parts"]) if o_["op"] == "addlist" else 0 for o_ in a["ops"])
        if "exc" in o:
            if not a["bad"] and nparts > 0:
                return "false"           # an admissible history was refused
            return f"sum_hist_ok {gnlist(a['shape'])} {P} {O} None"     # refused shape, or full() of a sumtensor without parts
        if not _ints(o["ok"]) or o.get("double") != o["ok"] or o.get("again") != o["ok"] or o["nparts"] != nparts:
            return "false"
        return f"sum_hist_ok {gnlist(a['shape'])} {P} {O} (Some {tgen.gdense(o['ok']['shape'], o['ok']['data'])})"
    raise ValueError(c.op)


# ------------------------------------------------------------------------------------------------ brute-force oracle
def _lin(shape, i):
    k, m = 0, 1
    for d, x in zip(shape, i):
        k += x * m
        m *= d
    return k


def _fac_get(f):
    """the array a factor stands for, as a dict-free nested list (triples summed per position)"""
    if f["kind"] == "d":
        return f["rows"]
    A = [[0] * f["shape"][1] for _ in range(f["shape"][0])]
    for i, j, v in f["trip"]:
        A[i][j] += v
    return A


def _holder_get(shape, h):
    if h["kind"] == "d":
        return list(h["data"])
    out = [0] * math.prod(shape)
    for s, v in zip(h["subs"], h["vals"]):
        out[_lin(shape, s)] = v
    return out


def _ttm_brute(shape, data, m, A):
    """mode-m product of an F-order value list with the J x shape[m] array A, pure loops"""
    new = list(shape)
    new[m] = len(A)
    out = []
    for i in tgen.all_subs(new):
        tot = 0
        for k in range(shape[m]):
            src = list(i)
            src[m] = k
            tot += A[i[m]][k] * data[_lin(shape, src)]
        out.append(tot)
    return new, out


def _part_vals(shape, p):
    if p["kind"] == "d":
        return list(p["data"])
    if p["kind"] == "s":
        return _holder_get(shape, p)
    if p["kind"] == "k":
        return [_den_k(p["K"], i) for i in tgen.all_subs(shape)]
    return [_den_t(p["T"], i) for i in tgen.all_subs(shape)]


def oracle_w5(c, o):
    a = c.args
    if c.op == "sum_hist" and a["bad"]:
        return None if "exc" in o else "a part of another shape was accepted into a sumtensor"
    if c.op == "sum_hist" and "exc" in o and not a["parts"] and all(
            o_["op"] not in ("add", "addlist") or (o_["op"] == "addlist" and not o_["parts"]) for o_ in a["ops"]):
        return None                      # a sumtensor without parts has nothing to convert
    if "exc" in o:
        return f"admissible request raised {o['exc']}: {o.get('msg')}"
    if c.op == "sum_hist":
        n = math.prod(a["shape"])
        tot = [0] * n
        for p in a["parts"]:
            tot = [x + y for x, y in zip(tot, _part_vals(a["shape"], p))]
        for o_ in a["ops"]:
            if o_["op"] == "add":
                tot = [x + y for x, y in zip(tot, _part_vals(a["shape"], o_["part"]))]
            elif o_["op"] == "addlist":
                for p in o_["parts"]:
                    tot = [x + y for x, y in zip(tot, _part_vals(a["shape"], p))]
            elif o_["op"] == "neg":
                tot = [-x for x in tot]
        if o["ok"]["shape"] != a["shape"] or o["ok"]["data"] != tot:
            return "full() after the history is not the sum the history prescribes"
        if o.get("double") != o["ok"] or o.get("again") != o["ok"]:
            return "double() / a second full() differs from full()"
        return None
    if c.op == "tfull_fac":
        shape, data = list(a["cshape"]), _holder_get(a["cshape"], a["core"])
        for m, f in enumerate(a["factors"]):
            shape, data = _ttm_brute(shape, data, m, _fac_get(f))
        if o["ok"]["shape"] != shape or o["ok"]["data"] != data or o["tshape"] != a["shape"] or shape != a["shape"]:
            return "full(T) differs from sum_j G[j] prod_n U_n[i_n,j_n] (coo factors read as toarray())"
        if o.get("double") != o["ok"] or o.get("to_tensor") != o["ok"]:
            return "double(T) / to_tensor(T) differs from full(T)"
        return None
    if c.op == "ttm_list":
        shape, data = list(a["shape"]), _holder_get(a["shape"], a["recv"])
        for m, f in a["pairs"]:             # distinct modes: the order is immaterial for the value
            shape, data = _ttm_brute(shape, data, m, _fac_get(f))
        ob = o["ok"]
        if ob["kind"] == "d":
            if ob["d"]["shape"] != shape or ob["d"]["data"] != data:
                return "X.ttm(list, dims) (dense result) is not the sequence of mode products"
            return None
        s = ob["s"]
        got = {}
        for sub, v in zip(s["subs"], s["vals"]):
            if tuple(sub) in got or v == 0:
                return f"sparse ttm result stores {sub} twice or a zero"
            got[tuple(sub)] = v
        want = {tuple(i): v for i, v in zip(tgen.all_subs(shape), data) if v != 0}
        if s["shape"] != shape or got != want or s["nnz"] != len(want):
            return "X.ttm(list, dims) (sparse result) is not the sequence of mode products"
        return None
    return None
