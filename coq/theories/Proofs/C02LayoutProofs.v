(* Proofs/C02LayoutProofs.v — tensor.innerprod(tensor) is the sum over indices of the products of the entries for EVERY pair of memory orders of the
   two data arrays (Model/C02Layout.v); a Fortran-ordered array is the `dense` of the other models. *)
From Coq Require Import List Arith Lia Bool.
From PV Require Import Base.Index Base.Sum Np.Array Model.C02Spec Model.C02Dense Model.C02Layout Proofs.C02DenseProofs.
Import ListNotations.

Section P.
Variable V : Type.
Variables (v0 : V) (vadd vmul : V -> V -> V).

Lemma dotv_map2 {A} (f g : A -> V) (l : list A) :
  dotv v0 vadd vmul (map f l) (map g l) = sum_over v0 vadd l (fun a => vmul (f a) (g a)).
Proof. induction l as [|a l IH]; cbn; auto. unfold sum_over in *. cbn. now rewrite IH. Qed.

Theorem impl_innerprod_l_correct (X Y : larr (V := V)) : lshape X = lshape Y ->
  impl_innerprod_l v0 vadd vmul X Y = spec_innerprod v0 vadd vmul (den_l v0 X) (den_l v0 Y) (lshape X).
Proof.
  intros Hs. unfold impl_innerprod_l, ravelF_l, spec_innerprod. rewrite <- Hs, dotv_map2.
  apply sum_over_ext. intros i Hi. apply in_allsubs in Hi. unfold den_l. now rewrite <- Hs, Hi.
Qed.

(* Fortran-ordered data: the ordinary dense tensor *)
Theorem den_l_F (s : shape) (d : list V) i : den_l v0 (mkL s LF d) i = den_dense v0 (mkDense s d) i.
Proof. reflexivity. Qed.

(* C-ordered data: the reversed-mode dense tensor read at the reversed subscript *)
Theorem den_l_C (s : shape) (d : list V) i : inb s i = true ->
  den_l v0 (mkL s LC d) i = den_dense v0 (mkDense (rev s) d) (rev i).
Proof.
  intros Hi. unfold den_l, lget, lpos, den_dense. cbn [lshape llay lbuf dshape ddata]. rewrite Hi.
  assert (H : inb (rev s) (rev i) = true).
  { clear d. revert i Hi. induction s as [|d s IH]; intros [|x i] Hi; cbn in *; try discriminate; auto.
    apply andb_true_iff in Hi as [Hx Hi].
    assert (G : forall s1 i1 d1 x1, inb s1 i1 = true -> (x1 <? d1) = true -> inb (s1 ++ [d1]) (i1 ++ [x1]) = true).
    { induction s1 as [|e s1 IH1]; intros [|y i1] d1 x1 H1 H2; cbn in *; try discriminate.
      - now rewrite H2.
      - apply andb_true_iff in H1 as [Hy H1]. rewrite Hy. cbn. now apply IH1. }
    apply G; auto. }
  now rewrite H.
Qed.
End P.
