(* Proofs/W4KtensorVecLaws.v — laws of the GENERATED ktensor.tovec / ktensor.update (Gen/GenKtensor4.v) through the bridges
   of Proofs/W4KtensorVec.v: tovec computes the hand model k_tovec of Model/C08Kruskal.v and is total on well-formed
   tensors; update rejects unsorted modes, replaces the weights for mode -1, is the identity for no modes. *)
From Coq Require Import List ZArith Arith Bool Lia.
From PV Require Import Base.Index Base.Perm Np.NpZ Np.NpZ2 Np.NpZ3 Np.NpZ3c Np.NpZ3d Np.NpZ3e Np.NpZ4 Proofs.NpZProofs Model.Repr
  Model.C08Kruskal Model.W4Ktensor Model.W4KtensorVec Proofs.W4Loops Proofs.W4Slices Proofs.W3Laws Proofs.W4KtensorVec Gen.GenKtensor4.
Import ListNotations.
Local Open Scope Z_scope.

Lemma np_col_is_col (f : mat) (r : nat) : np_col f (Z.of_nat r) = col 0 f r.
Proof. unfold np_col, col. apply map_ext. intros row. apply znth_nat. Qed.

Lemma H_vec_factor_model (R : nat) (f : mat) : H_vec_factor (Z.of_nat R) f = vec_factor 0 R f.
Proof.
  unfold H_vec_factor, vec_factor, cols. rewrite w4_np_arange_0, map_map. f_equal. apply map_ext. intros r. apply np_col_is_col.
Qed.

Theorem gen_tovec_model (self : ktz) (incl : bool) (v : vec) :
  ktensor_tovec self incl = Ok v -> v = k_tovec 0 incl (to_K self).
Proof.
  rewrite tovec_bridge. unfold H_tovec. destruct (H_cols_ok self); [|discriminate]. intros E. injection E as <-.
  unfold k_tovec, to_K, krank. cbn [kweights kfactors]. f_equal. f_equal. apply map_ext. intros f. unfold zlen. apply H_vec_factor_model.
Qed.

(* on a well-formed tensor (every row of every factor has one entry per weight) tovec does not raise *)
Theorem gen_tovec_total (self : ktz) (incl : bool) :
  (forall f row, In f (kt_factors self) -> In row f -> zlen row = zlen (kt_weights self)) ->
  ktensor_tovec self incl = Ok (k_tovec 0 incl (to_K self)).
Proof.
  intros Hwf. assert (C : H_cols_ok self = true).
  { unfold H_cols_ok. apply forallb_forall. intros f Hf. apply forallb_forall. intros r Hr. apply in_np_arange in Hr.
    unfold np_col_ok. apply forallb_forall. intros row Hrow. apply w4_idx_ok_range. rewrite (Hwf f row Hf Hrow). lia. }
  destruct (ktensor_tovec self incl) as [v|] eqn:E.
  - f_equal. now apply gen_tovec_model.
  - rewrite tovec_bridge in E. unfold H_tovec in E. rewrite C in E. discriminate.
Qed.

Lemma zlen_cols_concat (f : mat) (l : vec) : zlen (concat (map (fun r => np_col f r) l)) = zlen l * np_nrows f.
Proof.
  induction l as [|r l IH]; cbn [map concat]; [reflexivity|]. rewrite zlen_app, zlen_np_col, IH, zlen_cons. lia.
Qed.

Theorem gen_tovec_length (self : ktz) (incl : bool) (v : vec) :
  (forall f row, In f (kt_factors self) -> In row f -> zlen row = zlen (kt_weights self)) ->
  ktensor_tovec self incl = Ok v ->
  zlen v = zlen (kt_weights self) * (zsum (kt_shape self) + (if incl then 1 else 0)).
Proof.
  intros Hwf E. rewrite tovec_bridge in E. unfold H_tovec in E. destruct (H_cols_ok self); [|discriminate]. injection E as <-.
  set (R := zlen (kt_weights self)). assert (HR : 0 <= R) by apply zlen_nonneg.
  assert (L : forall fs, zlen (concat (map (H_vec_factor R) fs)) = R * zsum (map np_nrows fs)).
  { induction fs as [|f fs IH]; cbn [map concat]; [unfold zsum; cbn; lia|].
    rewrite zlen_app, IH. change (zsum (np_nrows f :: map np_nrows fs)) with (np_nrows f + zsum (map np_nrows fs)).
    assert (Lf : zlen (H_vec_factor R f) = R * np_nrows f)
      by (unfold H_vec_factor; rewrite zlen_cols_concat, zlen_arange by exact HR; reflexivity).
    rewrite Lf. lia. }
  rewrite zlen_app, L. unfold kt_shape. destruct incl; [fold R|unfold zlen at 1; cbn [length]]; lia.
Qed.

(* ---- update ---- (two-pass text of /repo b9311d6) *)
Lemma zlen_ltb_0 {A} (l : list A) : (zlen l <? 0) = false.
Proof. apply Z.ltb_ge. apply zlen_nonneg. Qed.

Theorem gen_update_nil (self : ktz) (data : vec) : ktensor_update self [] data = Ok self.
Proof. rewrite update_bridge. unfold H_update. cbn [asc H_needed bind]. rewrite zlen_ltb_0. reflexivity. Qed.

Theorem gen_update_rejects_unsorted (self : ktz) (modes data : vec) : asc modes = false -> ktensor_update self modes data = Err.
Proof. intros H. rewrite update_bridge. unfold H_update. now rewrite H. Qed.

(* asc is STRICT since b9311d6: a repeated mode is rejected as well *)
Lemma asc_false_iff_descent (l : vec) : asc l = false <-> exists pre x y post, l = pre ++ x :: y :: post /\ y <= x.
Proof.
  split.
  - induction l as [|x l IH]; [discriminate|]. destruct l as [|y t]; [discriminate|]. cbn [asc].
    destruct (Z.ltb_spec x y) as [H|H]; cbn [andb].
    + intros E. destruct (IH E) as (pre & a & b & post & -> & Hab). exists (x :: pre), a, b, post. split; [reflexivity|exact Hab].
    + intros _. exists [], x, y, t. split; [reflexivity|exact H].
  - intros (pre & x & y & post & -> & H). induction pre as [|a pre IH]; cbn [app asc].
    + replace (x <? y) with false by (symmetry; apply Z.ltb_ge; exact H). reflexivity.
    + destruct (pre ++ x :: y :: post) eqn:E; [destruct pre; discriminate|]. rewrite IH. apply andb_false_r.
Qed.

(* mode -1: the weights become the first R entries of the data, the factors stay *)
Theorem gen_update_weights (self : ktz) (data : vec) : zlen (kt_weights self) <= zlen data ->
  ktensor_update self [-1] data = Ok (mkkt (firstn (length (kt_weights self)) data) (kt_factors self)).
Proof.
  intros H. rewrite update_bridge. unfold H_update, H_needed, H_need_step, H_update_loop, H_update_step, H_chunk. cbn [asc fst snd bind].
  replace (-1 =? -1) with true by reflexivity. cbn [bind].
  replace (zlen data <? 0 + zlen (kt_weights self)) with false by (symmetry; apply Z.ltb_ge; lia).
  cbn [bind fst]. unfold kt_set_weights. f_equal. f_equal.
  rewrite py_slice_in by (pose proof (zlen_nonneg (kt_weights self)); lia).
  cbn [Z.to_nat skipn]. f_equal. unfold zlen. lia.
Qed.

(* one factor: F-order reshape of the first m * R entries of the data *)
Theorem gen_update_factor (self : ktz) (k : nat) (data : vec) : (k < length (kt_factors self))%nat ->
  let m := np_nrows (nth k (kt_factors self) []) in let R := zlen (kt_weights self) in
  m * R <= zlen data ->
  ktensor_update self [Z.of_nat k] data =
  Ok (mkkt (kt_weights self) (upd (kt_factors self) k (np_reshape2 OrdF (firstn (Z.to_nat (m * R)) data) m R))).
Proof.
  intros Hk m R H. subst m R. rewrite update_bridge. unfold H_update, H_needed, H_need_step, H_update_loop, H_update_step, H_chunk. cbn [asc fst snd bind].
  replace (Z.of_nat k =? -1) with false by (symmetry; apply Z.eqb_neq; lia).
  replace (0 <=? Z.of_nat k) with true by (symmetry; apply Z.leb_le; lia).
  replace (Z.of_nat k <? zlen (kt_factors self)) with true by (symmetry; apply Z.ltb_lt; unfold zlen; lia).
  cbn [andb bind].
  rewrite w4_idx_ok_nat. replace (k <? length (kt_factors self))%nat with true by (symmetry; apply Nat.ltb_lt; exact Hk).
  rewrite znth_nat. set (m := np_nrows (nth k (kt_factors self) [])) in *. set (R := zlen (kt_weights self)) in *.
  match goal with |- context [zlen data <? 0 + ?mm * _] => assert (Em : mm = m) by reflexivity; rewrite !Em; clear Em end.
  assert (Hm : 0 <= m) by apply zlen_nonneg. assert (HR : 0 <= R) by apply zlen_nonneg.
  replace (zlen data <? 0 + m * R) with false by (symmetry; apply Z.ltb_ge; lia).
  rewrite py_slice_in by nia. cbn [Z.to_nat skipn]. replace (0 + m * R - 0) with (m * R) by lia.
  assert (Ok_ : np_reshape2_ok (firstn (Z.to_nat (m * R)) data) m R = true).
  { unfold np_reshape2_ok. apply andb_true_intro. split; [apply andb_true_intro; split; apply Z.leb_le; lia|].
    apply Z.eqb_eq. unfold zlen in *. rewrite firstn_length. nia. }
  rewrite Ok_. cbn [bind fst]. unfold kt_set_factor. now rewrite w4_np_set_nat.
Qed.

(* ---- two-pass update (/repo b9311d6): the validation pass decides alone (proof by w5-C19, Proofs/C19W5K.v, ported here so that
   C08 can use it without importing C19's models) ---- *)
(* two records with the same dimensions: as many weights, the same row counts factor by factor *)
Definition w4_same_dims (a b : ktz) : Prop :=
  zlen (kt_weights a) = zlen (kt_weights b) /\ map np_nrows (kt_factors a) = map np_nrows (kt_factors b).

Lemma w4_same_dims_nfactors a b : w4_same_dims a b -> zlen (kt_factors a) = zlen (kt_factors b).
Proof. intros [_ H]. apply (f_equal (@length Z)) in H. rewrite !map_length in H. unfold zlen. lia. Qed.

Lemma w4_same_dims_nrows a b k : w4_same_dims a b -> np_nrows (znth [] (kt_factors a) k) = np_nrows (znth [] (kt_factors b) k).
Proof.
  intros [_ H]. rewrite <- !(znth_map0 np_nrows [] _ k eq_refl). now rewrite H.
Qed.

Lemma gen_update_needed_mono (k : ktz) modes a n : H_needed k modes a = Ok n -> a <= n.
Proof.
  revert a. induction modes as [|m ms IH]; intros a; cbn [H_needed]; [intros H; inversion H; lia|].
  unfold H_need_step. pose proof (zlen_nonneg (kt_weights k)) as HR.
  destruct (m =? -1); cbn [bind]; [intros H; apply IH in H; lia|].
  destruct ((0 <=? m) && (m <? zlen (kt_factors k))); cbn [bind]; [|discriminate].
  intros H. apply IH in H. pose proof (zlen_nonneg (znth [] (kt_factors k) m)) as Hm. unfold np_nrows in *. nia.
Qed.

Lemma w4_map_upd_same {A B} (f : A -> B) (d : A) : forall l n x, f x = f (nth n l d) -> map f (upd l n x) = map f l.
Proof.
  induction l as [|a l IH]; intros [|n] x H; cbn in *; try reflexivity; [now rewrite H|f_equal; now apply IH].
Qed.

Lemma w4_chunk_len (data : vec) (a b : Z) : 0 <= a <= b -> b <= zlen data -> zlen (H_chunk data a b) = b - a.
Proof.
  intros H1 H2. unfold H_chunk. rewrite py_slice_in by assumption. unfold zlen in *.
  rewrite firstn_length, skipn_length. lia.
Qed.

Lemma w4_nrows_reshape2 o v m R : 0 <= m -> np_nrows (np_reshape2 o v m R) = m.
Proof. intros H. unfold np_nrows, np_reshape2, zlen. rewrite map_length. fold (zlen (np_arange 0 m)). now apply zlen_arange. Qed.

(* pass 2 cannot raise once pass 1 has accepted the rest of the request and the data vector is long enough *)
Lemma gen_update_loop_total (data : vec) (k0 : ktz) : forall modes s loc n,
  w4_same_dims s k0 -> 0 <= loc -> H_needed k0 modes loc = Ok n -> n <= zlen data ->
  exists st, H_update_loop data modes (s, loc) = Ok st.
Proof.
  induction modes as [|m ms IH]; intros s loc n Hs Hloc Hn Hlen; cbn [H_update_loop]; [eexists; reflexivity|].
  cbn [H_needed] in Hn. unfold H_need_step in Hn. unfold H_update_step. cbn [fst snd].
  pose proof (zlen_nonneg (kt_weights k0)) as HR. destruct Hs as [HsW HsF]. pose proof (conj HsW HsF : w4_same_dims s k0) as Hs.
  destruct (m =? -1); cbn [bind] in Hn.
  - pose proof (gen_update_needed_mono _ _ _ _ Hn) as Hmono. rewrite HsW.
    replace (zlen data <? loc + zlen (kt_weights k0)) with false by (symmetry; apply Z.ltb_ge; lia). cbn [bind].
    apply (IH _ _ n); try assumption; try lia.
    split; [|exact HsF]. unfold kt_set_weights. cbn [kt_weights]. rewrite w4_chunk_len by lia. lia.
  - destruct ((0 <=? m) && (m <? zlen (kt_factors k0))) eqn:Hm; cbn [bind] in Hn; [|discriminate].
    apply andb_true_iff in Hm as [Hm0 Hm1]. apply Z.leb_le in Hm0. apply Z.ltb_lt in Hm1.
    pose proof (gen_update_needed_mono _ _ _ _ Hn) as Hmono.
    rewrite (w4_same_dims_nfactors _ _ Hs). replace (m <? zlen (kt_factors k0)) with true by (symmetry; apply Z.ltb_lt; lia).
    replace (idx_ok (kt_factors s) m) with true
      by (symmetry; unfold idx_ok; rewrite (w4_same_dims_nfactors _ _ Hs); apply andb_true_iff; split; [apply Z.leb_le|apply Z.ltb_lt]; lia).
    rewrite (w4_same_dims_nrows _ _ m Hs), HsW.
    set (rows := np_nrows (znth [] (kt_factors k0) m)) in *. set (R := zlen (kt_weights k0)) in *.
    assert (Hrows : 0 <= rows) by (unfold rows, np_nrows; apply zlen_nonneg).
    assert (Hprod : 0 <= rows * R) by nia.
    replace (zlen data <? loc + rows * R) with false by (symmetry; apply Z.ltb_ge; lia).
    replace (np_reshape2_ok (H_chunk data loc (loc + rows * R)) rows R) with true.
    2:{ symmetry. unfold np_reshape2_ok. rewrite w4_chunk_len by lia. apply andb_true_iff. split; [apply andb_true_iff; split; apply Z.leb_le; lia|apply Z.eqb_eq; lia]. }
    cbn [bind]. apply (IH _ _ n); try assumption; try lia.
    split; [exact HsW|]. unfold kt_set_factor. cbn [kt_factors]. rewrite <- HsF.
    rewrite np_set_nonneg by lia. apply (w4_map_upd_same np_nrows []).
    rewrite w4_nrows_reshape2 by assumption. unfold rows. rewrite <- (w4_same_dims_nrows _ _ m Hs). now rewrite znth_nonneg' by lia.
Qed.

Theorem gen_update_pass2_total (k : ktz) (modes data : vec) (n : Z) :
  H_needed k modes 0 = Ok n -> n <= zlen data -> exists st, H_update_loop data modes (k, 0) = Ok st.
Proof. intros H1 H2. apply (gen_update_loop_total data k modes k 0 n); try assumption; [split; reflexivity|lia]. Qed.

(* a rejected request leaves the receiver as it was: in the functional model the receiver is the argument `k`, a rejected call
   returns Err and no record at all — the in-place reading is: every assignment of the generated text happens in pass 2, and pass 2
   is entered only by requests that are answered *)
Theorem gen_update_rejected_before_store (k : ktz) (modes data : vec) :
  ktensor_update k modes data = Err ->
  asc modes = false \/ H_needed k modes 0 = Err \/ exists n, H_needed k modes 0 = Ok n /\ zlen data < n.
Proof.
  rewrite update_bridge. unfold H_update. destruct (asc modes); [|now left]. right.
  destruct (H_needed k modes 0) as [n|] eqn:Hn; [|now left]. right. exists n. split; [reflexivity|].
  cbn [bind] in H. destruct (Z.ltb_spec (zlen data) n) as [Hlt|Hge]; [assumption|].
  destruct (gen_update_pass2_total k modes data n Hn Hge) as [st Hst]. rewrite Hst in H. discriminate.
Qed.


(* the generated method answers exactly when: modes strictly ascending, every mode in {-1} u [0, ndims), data long enough *)
Theorem gen_update_ok_iff (self : ktz) (modes data : vec) :
  (exists t, ktensor_update self modes data = Ok t) <->
  asc modes = true /\ exists n, H_needed self modes 0 = Ok n /\ n <= zlen data.
Proof.
  rewrite update_bridge. unfold H_update. split.
  - intros [t E]. destruct (asc modes); [|discriminate]. split; [reflexivity|].
    destruct (H_needed self modes 0) as [n|]; [|discriminate]. exists n. split; [reflexivity|]. cbn [bind] in E.
    destruct (Z.ltb_spec (zlen data) n); [discriminate|assumption].
  - intros (Ha & n & Hn & Hle). rewrite Ha, Hn. cbn [bind].
    replace (zlen data <? n) with false by (symmetry; apply Z.ltb_ge; exact Hle).
    destruct (gen_update_pass2_total self modes data n Hn Hle) as [st Hst]. rewrite Hst. eexists. reflexivity.
Qed.
