(* Proofs/C06Diag.v — wave 5: the generator sptendiag (Model/C06W5.v impl_sptendiag: N rows [k; ...; k] handed to from_aggregator with the
   constructed shape): the result is well-formed (no explicit zero for zero elements), has the constructed shape and denotes the
   super-diagonal of the elements.  Values: any type with a decidable zero and an addition with x + 0 = x. *)
From Coq Require Import List Arith ZArith Lia Bool Permutation.
From PV Require Import Base.Index Np.Array Model.Sparse Model.Harness Model.C03Ops Model.C06Ops Model.C06Stm Model.C06W5
                       Proofs.C03Lemmas Proofs.C03Proofs.
Import ListNotations.

Lemma repeat_eqb k a M : M <> 0 -> idx_eqb (repeat k M) (repeat a M) = Nat.eqb k a.
Proof.
  intros HM. destruct (Nat.eqb k a) eqn:E.
  - apply Nat.eqb_eq in E. subst. apply idx_eqb_refl.
  - destruct (idx_eqb (repeat k M) (repeat a M)) eqn:E'; auto. apply idx_eqb_spec in E'.
    destruct M; [contradiction|]. cbn in E'. injection E' as H _. subst. now rewrite Nat.eqb_refl in E.
Qed.

Lemma forallb_eqb_repeat k r : forallb (Nat.eqb k) r = true -> r = repeat k (length r).
Proof.
  induction r as [|x r IH]; cbn; auto. intros H. apply andb_true_iff in H as [H1 H2]. apply Nat.eqb_eq in H1. subst. f_equal. auto.
Qed.
Lemma forallb_eqb_of_repeat k M : forallb (Nat.eqb k) (repeat k M) = true.
Proof. induction M; cbn; auto. now rewrite Nat.eqb_refl. Qed.

Section DiagP.
Variable V : Type.
Variable v0 : V.
Variable vadd : V -> V -> V.
Hypothesis vadd_0_r : forall x, vadd x v0 = x.
Variable isz : V -> bool.
Hypothesis isz_spec : forall v, isz v = true <-> v = v0.

Lemma collect_diag M k : M <> 0 -> forall n a (els : list V), length els = n ->
  collect (repeat k M) (@combine idx V (map (fun k' => repeat k' M) (seq a n)) els) =
  if (a <=? k) && (k <? a + n) then [nth (k - a) els v0] else [].
Proof.
  intros HM. induction n as [|n IH]; intros a [|x els] H; cbn in H; try discriminate.
  - cbn [seq map combine collect]. destruct (a <=? k) eqn:E1, (k <? a + 0) eqn:E2; auto.
    apply Nat.leb_le in E1. apply Nat.ltb_lt in E2. lia.
  - injection H as H. cbn [seq map combine collect]. rewrite (repeat_eqb k a M HM). rewrite (IH (S a) els H).
    destruct (Nat.eqb k a) eqn:E.
    + apply Nat.eqb_eq in E. subst k.
      replace (S a <=? a) with false by (symmetry; apply Nat.leb_gt; lia). cbn [andb].
      rewrite Nat.leb_refl. replace (a <? a + S n) with true by (symmetry; apply Nat.ltb_lt; lia). cbn [andb].
      now rewrite Nat.sub_diag.
    + apply Nat.eqb_neq in E.
      destruct (S a <=? k) eqn:E1.
      * apply Nat.leb_le in E1. replace (a <=? k) with true by (symmetry; apply Nat.leb_le; lia). cbn [andb].
        replace (k <? a + S n) with (k <? S a + n) by (f_equal; lia).
        destruct (k <? S a + n); auto. replace (k - a) with (S (k - S a)) by lia. reflexivity.
      * apply Nat.leb_gt in E1. replace (a <=? k) with false by (symmetry; apply Nat.leb_gt; lia). reflexivity.
Qed.

Theorem impl_sptendiag_correct (els : list V) (req : option shape) : diag_cshape (length els) req <> [] \/ els = [] ->
  let R := impl_sptendiag v0 vadd isz els req in
  wf_sp isz R /\ sshape R = diag_cshape (length els) req /\
  forall i, inb (diag_cshape (length els) req) i = true -> den_sp v0 R i = gdiag v0 els i.
Proof.
  intros Hne R. set (n := length els) in *. set (cs := diag_cshape n req) in *. set (M := length cs).
  set (rows := map (fun k => repeat k M) (seq 0 n)).
  assert (Hcs : forall d, In d cs -> n <= d).
  { unfold cs, diag_cshape. destruct req as [s|]; intros d Hd.
    - apply in_map_iff in Hd as (x & <- & _). lia.
    - apply repeat_spec in Hd. lia. }
  assert (Hb : forall i, In i rows -> inb cs i = true).
  { intros i Hi. unfold rows in Hi. apply in_map_iff in Hi as (k & <- & Hk). apply in_seq in Hk. unfold M.
    clear - Hcs Hk. induction cs as [|d cs' IH]; cbn; auto. apply andb_true_iff. split.
    - apply Nat.ltb_lt. specialize (Hcs d (or_introl eq_refl)). lia.
    - apply IH. intros d' Hd'. apply Hcs. now right. }
  destruct (from_aggregator_correct v0 isz isz_spec (vsum v0 vadd) cs rows els Hb) as (W & Hs & D).
  split; [exact W|]. split; [exact Hs|]. intros i Hi. unfold R, impl_sptendiag. fold n cs M rows. rewrite D.
  assert (HL : length i = M) by (unfold M; now apply inb_length).
  destruct Hne as [Hne|Hne].
  2:{ (* no element: nothing stored *)
      subst els. cbn in n. subst n. cbn in rows. subst rows. cbn [mem existsb]. destruct i as [|k r]; cbn [gdiag]; auto.
      destruct (forallb (Nat.eqb k) r); auto. now destruct k. }
  assert (HM : M <> 0) by (unfold M; destruct cs; [contradiction|discriminate]).
  destruct i as [|k r]; [cbn in HL; lia|]. cbn [gdiag].
  destruct (forallb (Nat.eqb k) r) eqn:Ef.
  - assert (Ei : k :: r = repeat k M).
    { rewrite (forallb_eqb_repeat k r Ef). cbn in HL. rewrite <- HL. reflexivity. }
    rewrite Ei. unfold rows. rewrite (collect_diag M k HM n 0 els eq_refl). cbn [Nat.leb andb]. rewrite Nat.sub_0_r, Nat.add_0_l.
    destruct (k <? n) eqn:Ek.
    + apply Nat.ltb_lt in Ek. replace (mem (repeat k M) (map (fun k0 => repeat k0 M) (seq 0 n))) with true.
      * cbn. apply vadd_0_r.
      * symmetry. apply mem_spec. apply in_map_iff. exists k. split; auto. apply in_seq. lia.
    + apply Nat.ltb_ge in Ek. rewrite nth_overflow by (fold n; lia). now destruct (mem _ _).
  - replace (mem (k :: r) rows) with false; auto. symmetry. apply mem_false. intros Hin. unfold rows in Hin.
    apply in_map_iff in Hin as (k' & E & _). destruct M; [contradiction|]. cbn in E. injection E as E1 E2. subst k'.
    rewrite <- E2 in Ef. now rewrite forallb_eqb_of_repeat in Ef.
Qed.
End DiagP.

(* over Z: the checker's diag_den is gdiag *)
Lemma diag_den_gdiag els i : diag_den els i = gdiag 0%Z els i.
Proof. reflexivity. Qed.
