"""c05_w4 — wave-4 table sections of property C05 (registered into tools/props/c05.py's TABLE by `register`).

(a) parameter classes that came with the repaired tree: maxiters=0 / maxiter=0 (no sweep: the model returned IS built from
    the start), the optimizer classes of pyttb.gcp.optimizers called directly (solve / update_step / set_failed_epoch /
    reset_state: "algorithms start from init.copy()", anchors optimizers.py:137, 479), the likelihood helpers of cp_apr,
    the gcp samplers and fg evaluation (value / index arrays handed in by the caller);
(b) second-use histories: every documented in-place method applied a SECOND time to the same receiver, every algorithm
    run a SECOND time on the very same data / init / optimizer objects (the first run's result is an operand of the
    second row: it must stay untouched and unshared);
(d) the rows of the open findings A-24 / A-26 / C05-N08 / C05-N10 are split so that the finding's trigger is exactly
    (operation, parameter class, operand buffer set, aspect) and everything else about the same call is judged by
    sibling rows that carry no trigger.
"""
import re

try:
    import numpy as np
except ImportError:
    np = None

# finding id -> [(op, pclass)] of the rows that show exactly the finding (filled by register)
FINDING_CLASSES = {}
OPT_CLASSES = ["LBFGSB", "SGD", "Adam", "Adagrad"]
# optimizer attributes the stochastic solvers are known to leave their run state in (finding C05-N10)
N10_STATE = re.compile(r"^opt\._(nfails|m|v|m_prev|v_prev|total_iterations|gnormsum)(\b|\[|#|$)")


def register(G):
    reg, TABLE, X, AD, _M, _E = G["reg"], G["TABLE"], G["X"], G["AD"], G["_M"], G["_E"]
    _invoke = lambda f, ops, b: G["_invoke"](f, ops, b)          # defined later in c05.py: resolve at call time
    ALG1 = [(2, 3, 4)]
    ALG = [(2, 3, 4), (3, 2, 2)]

    def entry(ns, name, pclass):
        return next(x for x in TABLE[(ns, name)] if x["pclass"] == pclass)

    # ------------------------------------------------------------------------------------------------------------
    # (d) rows split along the open findings
    # ------------------------------------------------------------------------------------------------------------
    def split(fid, ns, name, pclass, parts):
        """replace the row by sibling rows; parts = [(suffix, is_finding_part, reg-kwargs)]"""
        ents = TABLE[(ns, name)]
        e = next(x for x in ents if x["pclass"] == pclass)
        ents.remove(e)
        for suffix, is_f, kw in parts:
            pc = pclass + " | " + suffix
            reg(ns, name, pc, e["build"], e["call"], kind=e["kind"], shapes=e["shapes"], recv=e["recv"],
                thorough_shapes=e["tshapes"], allow=e["allow"], layouts=e["layouts"], **kw)
            if is_f:
                FINDING_CLASSES.setdefault(fid, []).append((f"{ns}.{name}", pc))

    # A-24: gcp_opt normalises the caller's init ktensor in place.  Exactly: operand `init`, aspect "changed".
    for pc in ("lbfgsb,init=ktensor", "lbfgsb,init=ktensor,mask", "adam,init=ktensor,dense"):
        split("A-24", "ttb", "gcp_opt", pc, [
            ("init:changed", True, dict(only=("init",), aspects=("changed",))),
            ("init:result-independent", False, dict(only=("init",), aspects=("shared",))),
            ("other-operands", False, dict(but=("init",)))])
    # A-26: sumtensor + x shares the receiver's parts and the added tensor.  Exactly: aspect "shared"; nothing is modified.
    for nm, pcs in (("__add__", ("tensor", "ktensor", "list")), ("__radd__", ("tensor", "sptensor"))):
        for pc in pcs:
            split("A-26", "sumtensor", nm, pc, [
                ("parts:shared", True, dict(aspects=("shared",))),
                ("operands-unchanged", False, dict(aspects=("changed",)))])
    # C05-N08: the echoed initial guess IS the caller's init.  Exactly: operand init, aspect "shared".
    for nm, pc in (("cp_als", "echo,init=ktensor"), ("cp_apr", "echo,init=ktensor"), ("tucker_als", "echo,init=list")):
        split("C05-N08", "ttb", nm, pc, [
            ("init:shared", True, dict(only=("init",), aspects=("shared",))),
            ("init:unchanged", False, dict(only=("init",), aspects=("changed",))),
            ("other-operands", False, dict(but=("init",)))])
    # C05-N10: a stochastic solve leaves its run state in the caller's optimizer object.  Exactly: operand opt, aspect
    # "changed", attributes _nfails / _m / _v / _m_prev / _v_prev / _total_iterations / _gnormsum.
    n10 = lambda p: bool(N10_STATE.match(p))
    for on in ("sgd", "adam", "adagrad"):
        split("C05-N10", "ttb", "gcp_opt", f"{on},optimizer-tracked,init=list", [
            ("opt:run-state", True, dict(only=("opt",), aspects=("changed",), chg=n10)),
            ("opt:other-attributes", False, dict(only=("opt",), aspects=("changed",), chg=lambda p: not n10(p))),
            ("opt:result-independent", False, dict(only=("opt",), aspects=("shared",))),
            ("other-operands", False, dict(but=("opt",)))])

    # ------------------------------------------------------------------------------------------------------------
    # (a) new parameter classes of the repaired tree; the optimizer classes called directly
    # ------------------------------------------------------------------------------------------------------------
    c = "ttb"
    reg(c, "cp_als", "init=ktensor,maxiters=0(no-sweep)", lambda b: dict(X=b.T(), init=b.K()),
        lambda o, b: _M(b.ttb.cp_als, o.X, 2, init=o.init, maxiters=0, printitn=0), shapes=ALG)
    reg(c, "cp_als", "init=ktensor,maxiters=0,sparse", lambda b: dict(X=b.S(), init=b.K()),
        lambda o, b: _M(b.ttb.cp_als, o.X, 2, init=o.init, maxiters=0, printitn=0), shapes=ALG1)
    reg(c, "cp_als", "init=ktensor,optdims=strict-subset", lambda b: dict(X=b.T(), init=b.K(), od=np.array([0])),
        lambda o, b: _M(b.ttb.cp_als, o.X, 2, init=o.init, optdims=o.od, maxiters=2, printitn=0), shapes=ALG)
    reg(c, "cp_als", "init=ktensor,optdims=strict-subset,last", lambda b: dict(X=b.T(), init=b.K(), od=[b.N - 1]),
        lambda o, b: _M(b.ttb.cp_als, o.X, 2, init=o.init, optdims=o.od, maxiters=1, printitn=0), shapes=ALG)
    # (tucker_als(maxiters=0) passes the argument check and then raises UnboundLocalError('core'): not a C05 matter, reported)
    reg(c, "tucker_als", "init=list,rank=list", lambda b: dict(X=b.T(), rank=b.ranks(), init=b.TT().factor_matrices),
        lambda o, b: _M(b.ttb.tucker_als, o.X, o.rank, init=o.init, maxiters=1, printitn=0), shapes=ALG1)
    reg(c, "hosvd", "ranks=ndarray,sequential=False", lambda b: dict(X=b.T(), ranks=np.array([1] * b.N)),
        lambda o, b: b.ttb.hosvd(o.X, 1e-4, verbosity=0, ranks=o.ranks, sequential=False), shapes=ALG1)

    def objective(b):
        from pyttb.gcp.fg_setup import Objectives, setup
        return setup(Objectives.GAUSSIAN)          # (function handle, gradient handle, lower bound)

    def mkopt(name, **kw):
        import pyttb.gcp.optimizers as O
        if name == "LBFGSB":
            return O.LBFGSB(**dict(dict(maxiter=2, iprint=-1), **kw))
        return getattr(O, name)(**dict(dict(max_iters=1, epoch_iters=2, printitn=0), **kw))

    def gcp0(b, X, init, opt):
        from pyttb.gcp.fg_setup import Objectives
        return _M(b.ttb.gcp_opt, X, 2, Objectives.GAUSSIAN, opt, init=init, printitn=0)
    reg(c, "gcp_opt", "lbfgsb,maxiter=0,init=list", lambda b: dict(X=b.T(), init=b.fm(), opt=mkopt("LBFGSB", maxiter=0)),
        lambda o, b: gcp0(b, o.X, o.init, o.opt), shapes=ALG1)
    for on in ("SGD", "Adam", "Adagrad"):
        # max_iters=0: no epoch, nothing is written to the solver's state -> the optimizer object must be bit-for-bit unchanged
        reg(c, "gcp_opt", f"{on.lower()},max_iters=0,optimizer-tracked,init=list", lambda b, on=on: dict(X=b.T(), init=b.fm(), opt=mkopt(on, max_iters=0)),
            lambda o, b: gcp0(b, o.X, o.init, o.opt), shapes=ALG1)
    reg(c, "gcp_opt", "lbfgsb,init=list-of-C-and-F-factors", lambda b: dict(X=b.T(), init=[np.ascontiguousarray(f) if k % 2 else np.asfortranarray(f) for k, f in enumerate(b.fm())]),
        lambda o, b: gcp0(b, o.X, o.init, mkopt("LBFGSB")), shapes=ALG1)
    # (gcp_opt / StochasticSolver.solve on sptensor data with the default sampler raise a broadcast ValueError inside pyttb on
    #  every input tried — not a C05 matter, reported to the lead; no sparse rows for the stochastic solvers)

    # the optimizer classes themselves (enumerated by public_surface as namespace "gcpopt": an unlisted method fails closed)
    g = "gcpopt"
    for on in OPT_CLASSES:
        stoch = on != "LBFGSB"

        def solve(o, b, keep=None):
            f, gr, lb = objective(b)
            res = o.opt.solve(o.init, o.X, f, gr, lb)
            return (res[0], {k: v for k, v in res[1].items() if k != "callback"})
        bld = lambda b, on=on: dict(init=b.K(), X=b.T(), opt=mkopt(on))
        if stoch:
            # finding C05-N10 seen from the solver itself: the run state stays in the object; everything else is clean
            reg(g, f"{on}.solve", "dense | opt:run-state", bld, solve, shapes=ALG1, only=("opt",), aspects=("changed",), chg=n10, layouts=False)
            FINDING_CLASSES.setdefault("C05-N10", []).append((f"{g}.{on}.solve", "dense | opt:run-state"))
            reg(g, f"{on}.solve", "dense | opt:other-attributes", bld, solve, shapes=ALG1, only=("opt",), aspects=("changed",), chg=lambda p: not n10(p), layouts=False)
            reg(g, f"{on}.solve", "dense | opt:result-independent", bld, solve, shapes=ALG1, only=("opt",), aspects=("shared",), layouts=False)
            reg(g, f"{on}.solve", "dense | initial-model-and-data", bld, solve, shapes=ALG, but=("opt",))
            reg(g, f"{on}.solve", "max_iters=0 | everything", lambda b, on=on: dict(init=b.K(), X=b.T(), opt=mkopt(on, max_iters=0)), solve, shapes=ALG1)
            reg(g, f"{on}.solve", "max_fails=0,two-epochs | initial-model-and-data", lambda b, on=on: dict(init=b.K(), X=b.T(), opt=mkopt(on, max_iters=2, epoch_iters=1, max_fails=0)),
                solve, shapes=ALG1, but=("opt",))
            # update_step(model, gradient, lower_bound) -> (new factor matrices, step): reads the model, may keep moments in self
            def ustep(o, b):
                return o.opt.update_step(o.M, o.g, 0.0)
            ub = lambda b, on=on: dict(M=b.K(), g=[f * 0.5 for f in b.fm()], opt=mkopt(on))
            reg(g, f"{on}.update_step", "default | model-and-gradient", ub, ustep, but=("opt",))
            reg(g, f"{on}.update_step", "second-step | model-and-gradient", ub, lambda o, b: (ustep(o, b), ustep(o, b))[1], but=("opt",), layouts=False)
            reg(g, f"{on}.update_step", "default | result-independent-of-optimizer", ub, ustep, only=("opt",), aspects=("shared",), layouts=False, shapes=ALG1)
            reg(g, f"{on}.set_failed_epoch", "after-one-step", lambda b, on=on: (lambda d: (d["opt"].update_step(d["M"], d["g"], 0.0), d)[1])(dict(M=b.K(), g=[f * 0.5 for f in b.fm()], opt=mkopt(on))),
                lambda o: o.opt.set_failed_epoch(), kind="inplace", recv="opt", layouts=False, shapes=ALG1)
            reg(g, f"{on}.reset_state", "after-a-solve", lambda b, on=on: (lambda d: (solve(AD(d), b), d)[1])(dict(init=b.K(), X=b.T(), opt=mkopt(on))),
                lambda o: o.opt.reset_state(), kind="inplace", recv="opt", layouts=False, shapes=ALG1)
            reg(g, f"{on}.reset_state", "fresh-object", lambda b, on=on: dict(opt=mkopt(on)), lambda o: o.opt.reset_state(), kind="inplace", recv="opt", layouts=False, shapes=ALG1)
        else:
            reg(g, f"{on}.solve", "dense | everything", bld, solve, shapes=ALG)
            reg(g, f"{on}.solve", "maxiter=0 | everything", lambda b, on=on: dict(init=b.K(), X=b.T(), opt=mkopt(on, maxiter=0)), solve, shapes=ALG1)
            reg(g, f"{on}.solve", "maxls=1 | everything", lambda b, on=on: dict(init=b.K(), X=b.T(), opt=mkopt(on, maxls=1)), solve, shapes=ALG1)
            reg(g, f"{on}.solve", "mask | everything", lambda b, on=on: dict(init=b.K(), X=b.T(), W=b.W().data, opt=mkopt(on)),
                lambda o, b: (lambda f, gr, lb: o.opt.solve(o.init, o.X, f, gr, lb, mask=o.W)[0])(*objective(b)), shapes=ALG1)
            reg(g, f"{on}.solve", "second-solve-same-objects | everything",
                lambda b, on=on: (lambda d: dict(d, prev=solve(AD(d), b)))(dict(init=b.K(), X=b.T(), opt=mkopt(on))), solve, shapes=ALG1, layouts=False)
    # the helpers the anchors name: cp_apr likelihood evaluation, gcp function / gradient evaluation and samplers
    h = "helpers"
    reg(h, "gcp.fg.evaluate", "dense,function+gradient", lambda b: dict(M=b.K(), X=b.T()),
        lambda o, b: (lambda f, gr, lb: __import__("pyttb").gcp.fg.evaluate(o.M, o.X, None, f, gr))(*objective(b)))
    reg(h, "gcp.fg.evaluate", "dense,mask", lambda b: dict(M=b.K(), X=b.T(), W=b.W().data),
        lambda o, b: (lambda f, gr, lb: __import__("pyttb").gcp.fg.evaluate(o.M, o.X, o.W, f, gr))(*objective(b)))
    # gcp.fg_est.estimate(model, ...) with lambda_check (default) and non-unit weights works on a normalised COPY of the caller's
    # model since dc891f8 (was finding C05-N12, repaired): ordinary rows, every operand judged in full
    est_b = lambda b, unit=False: dict(M=(b.ttb.ktensor(b.fm()) if unit else b.K()), s=b.subs(), v=b.vals()[:, 0].copy(), w=np.ones(len(b.subs_list())))
    est_c = lambda o, b, **kw: (lambda f, gr, lb: __import__("pyttb").gcp.fg_est.estimate(o.M, o.s, o.v, o.w, f, gr, **kw))(*objective(b))
    reg(h, "gcp.fg_est.estimate", "samples,lambda_check,non-unit-weights | everything", est_b, est_c)
    reg(h, "gcp.fg_est.estimate", "samples,lambda_check,non-unit-weights,second-evaluation-same-model | everything",
        lambda b: (lambda d: (est_c(AD(d), b), d)[1])(est_b(b)), est_c, shapes=ALG1, layouts=False)
    reg(h, "gcp.fg_est.estimate", "samples,lambda_check,unit-weights | everything", lambda b: est_b(b, True), est_c)
    reg(h, "gcp.fg_est.estimate", "samples,lambda_check=False | everything", est_b, lambda o, b: est_c(o, b, lambda_check=False))
    reg(h, "gcp.samplers.uniform", "dense", lambda b: dict(X=b.T()), lambda o, b: __import__("pyttb").gcp.samplers.uniform(o.X, 4))
    reg(h, "gcp.samplers.stratified", "sparse", lambda b: dict(X=b.S()),
        lambda o, b: __import__("pyttb").gcp.samplers.stratified(o.X, np.sort(__import__("pyttb").pyttb_utils.tt_sub2ind(o.X.shape, o.X.subs)), 2, 2))
    reg(h, "gcp.samplers.stratified", "sparse,caller-index-array", lambda b: dict(X=b.S(), nz=np.sort(__import__("pyttb").pyttb_utils.tt_sub2ind(b.shape, b.subs()))),
        lambda o, b: __import__("pyttb").gcp.samplers.stratified(o.X, o.nz, 2, 2))
    reg(h, "gcp.samplers.zeros", "sparse,caller-index-array", lambda b: dict(X=b.S(), nz=np.sort(__import__("pyttb").pyttb_utils.tt_sub2ind(b.shape, b.subs()))),
        lambda o, b: __import__("pyttb").gcp.samplers.zeros(o.X, o.nz, 2))
    reg(h, "gcp.samplers.semistrat", "sparse", lambda b: dict(X=b.S()), lambda o, b: __import__("pyttb").gcp.samplers.semistrat(o.X, 2, 2))
    reg(h, "gcp.samplers.nonzeros", "sparse", lambda b: dict(X=b.S()), lambda o, b: __import__("pyttb").gcp.samplers.nonzeros(o.X, 2))
    reg(h, "gcp.samplers.nonzeros", "sparse,all(with_replacement=False)", lambda b: dict(X=b.S()),
        lambda o, b: __import__("pyttb").gcp.samplers.nonzeros(o.X, o.X.nnz, with_replacement=False))
    # cp_apr.tt_loglikelihood(Data, Model) evaluates on a normalised COPY of the caller's Model since c01a61b (was finding C05-N11,
    # repaired): ordinary rows, every operand judged in full
    import importlib
    CA = importlib.import_module("pyttb.cp_apr")          # (the attribute pyttb.cp_apr is the FUNCTION of that name)
    ll = lambda b, sparse=False: dict(X=(b.S() if sparse else b.T()), M=b.K())
    for dn, sp in (("dense", False), ("sparse", True)):
        reg(h, "cp_apr.tt_loglikelihood", f"{dn} | everything", lambda b, sp=sp: ll(b, sp), lambda o: CA.tt_loglikelihood(o.X, o.M), kind="scalar")
        reg(h, "cp_apr.tt_loglikelihood", f"{dn},second-evaluation-same-model | everything", lambda b, sp=sp: (lambda d: (CA.tt_loglikelihood(d["X"], d["M"]), d)[1])(ll(b, sp)),
            lambda o: CA.tt_loglikelihood(o.X, o.M), kind="scalar", shapes=ALG1, layouts=False)
        reg(h, "cp_apr.tt_loglikelihood", f"{dn},model-built-copy=False-on-caller-arrays | everything",
            lambda b, sp=sp: (lambda f, w: dict(X=(b.S() if sp else b.T()), f=f, w=w, M=b.ttb.ktensor(f, w, copy=False)))([np.asfortranarray(x) for x in b.fm()], np.array([2.0, 3.0])),
            lambda o: CA.tt_loglikelihood(o.X, o.M), kind="scalar", shapes=ALG1, layouts=False)
    reg(h, "cp_apr.calculate_pi", "dense", lambda b: dict(X=b.T(), M=b.K()), lambda o, b: CA.calculate_pi(o.X, o.M, 2, 0, b.N))
    reg(h, "cp_apr.calculate_pi", "sparse", lambda b: dict(X=b.S(), M=b.K()), lambda o, b: CA.calculate_pi(o.X, o.M, 2, 0, b.N))
    reg(h, "cp_apr.calculate_phi", "dense", lambda b: dict(X=b.T(), M=b.K()),
        lambda o, b: CA.calculate_phi(o.X, o.M, 2, 0, CA.calculate_pi(o.X, o.M, 2, 0, b.N), 1e-10))
    reg(h, "cp_apr.calculate_phi", "sparse", lambda b: dict(X=b.S(), M=b.K()),
        lambda o, b: CA.calculate_phi(o.X, o.M, 2, 0, CA.calculate_pi(o.X, o.M, 2, 0, b.N), 1e-10))
    # reshape helper ("vectorize matrix into a single column vector"): hands back a VIEW of its argument when numpy can (like
    # parse_one_d / tt_subsubsref in the utils table: pass-through accessor); the argument must stay unchanged
    reg(h, "cp_apr.vectorize_for_mu", "matrix", lambda b: dict(A=b.fm()[0]), lambda o: CA.vectorize_for_mu(o.A), kind="nocopy")

    # 1-way tenmat (order.size == 1: the un-permutation step of to_tensor is skipped)
    tm1 = lambda b: dict(X=b.ttb.tenmat(b.arr().reshape((b.n, 1), order="F"), np.array([0]), np.array([], dtype=int), (b.n,), copy=True))
    reg("tenmat", "to_tensor", "copy=True,1-way", tm1, lambda o: o.X.to_tensor(), shapes=[(4,)])
    reg("tenmat", "to_tensor", "copy=False,1-way", tm1, lambda o: o.X.to_tensor(copy=False), kind="nocopy", allow=G["same_pos"](data="X.data"), shapes=[(4,)])
    reg("tenmat", "copy", "1-way", tm1, lambda o: o.X.copy(), shapes=[(4,)])
    reg("tenmat", "double", "1-way", tm1, lambda o: o.X.double(), shapes=[(4,)])
    reg("tenmat", "ctranspose", "1-way", tm1, lambda o: o.X.ctranspose(), shapes=[(4,)])

    # no-copy conversions whose parameters force (or permit) a re-layout; no-copy constructions on a sparse core
    sp = G["same_pos"]
    reg("tensor", "to_tenmat", "copy=False,rdims=last(must-re-lay-out)", lambda b: dict(X=b.T(), r=np.array([b.N - 1])), lambda o: o.X.to_tenmat(o.r, copy=False),
        kind="nocopy", allow=sp(data="X.data"))
    reg("tensor", "to_tenmat", "copy=False,all-rows(identity-layout)", lambda b: dict(X=b.T(), r=np.arange(b.N)), lambda o: o.X.to_tenmat(o.r, copy=False),
        kind="nocopy", allow=sp(data="X.data"))
    reg("tensor", "to_tenmat", "copy=False,cyclic-fc", lambda b: dict(X=b.T(), r=np.array([1])), lambda o: o.X.to_tenmat(o.r, cdims_cyclic="fc", copy=False),
        kind="nocopy", allow=sp(data="X.data"))
    reg("tenmat", "to_tensor", "copy=False,permuted(must-re-lay-out)", lambda b: dict(X=b.T().to_tenmat(np.array([1]))), lambda o: o.X.to_tensor(copy=False),
        kind="nocopy", allow=sp(data="X.data"))
    reg("tenmat", "to_tensor", "copy=False,all-rows", lambda b: dict(X=b.T().to_tenmat(np.arange(b.N))), lambda o: o.X.to_tensor(copy=False),
        kind="nocopy", allow=sp(data="X.data"))
    reg("ttensor", "__init__", "copy=False,sparse-core", lambda b: dict(core=b.TT().core.to_sptensor(), f=b.TT().factor_matrices), lambda o, b: b.ttb.ttensor(o.core, o.f, copy=False),
        kind="nocopy", allow=sp(core="core", factor_matrices="f"))
    reg("ttensor", "copy", "sparse-core", lambda b: dict(X=b.ttb.ttensor(b.TT().core.to_sptensor(), b.TT().factor_matrices)), lambda o: o.X.copy())
    reg("ttensor", "full", "sparse-core", lambda b: dict(X=b.ttb.ttensor(b.TT().core.to_sptensor(), b.TT().factor_matrices)), lambda o: o.X.full())
    # permutations / matricisations that move ONLY singleton modes (the re-laid-out array is then still F-contiguous: numpy may hand back a view)
    SING = [(1, 3, 2), (3, 1, 2), (2, 3, 1), (1, 1, 3), (2, 1, 1)]
    s_first = lambda b: [m for m in range(b.N) if b.shape[m] == 1] + [m for m in range(b.N) if b.shape[m] != 1]
    s_last = lambda b: [m for m in range(b.N) if b.shape[m] != 1] + [m for m in range(b.N) if b.shape[m] == 1]
    for cls, mk in (("tensor", "T"), ("sptensor", "S"), ("ktensor", "K"), ("ttensor", "TT")):
        reg(cls, "permute", "singleton-modes-first", lambda b, mk=mk: dict(X=getattr(b, mk)(), order=np.array(s_first(b))), lambda o: o.X.permute(o.order), shapes=SING)
        reg(cls, "permute", "singleton-modes-last", lambda b, mk=mk: dict(X=getattr(b, mk)(), order=np.array(s_last(b))), lambda o: o.X.permute(o.order), shapes=SING)
    for r in ([1], [2], [0, 2], [1, 2]):
        reg("tensor", "to_tenmat", f"singleton-shapes,rdims={r}", lambda b, r=r: dict(X=b.T(), r=np.array(r)), lambda o: o.X.to_tenmat(o.r), shapes=SING)
        reg("sptensor", "to_sptenmat", f"singleton-shapes,rdims={r}", lambda b, r=r: dict(X=b.S(), r=np.array(r)), lambda o: o.X.to_sptenmat(o.r), shapes=SING)
        reg("tenmat", "to_tensor", f"copy=True,singleton-shapes,rdims={r}", lambda b, r=r: dict(X=b.T().to_tenmat(np.array(r))), lambda o: o.X.to_tensor(), shapes=SING)
    reg("tensor", "to_tenmat", "singleton-shapes,cdims-first", lambda b: dict(X=b.T(), cd=np.array([0])), lambda o: o.X.to_tenmat(cdims=o.cd), shapes=SING)
    # all modes but one multiplied away: the result is a 1-way object
    for cls, mk in (("tensor", "T"), ("sptensor", "S"), ("ktensor", "K"), ("ttensor", "TT")):
        reg(cls, "ttv", "all-but-first", lambda b, mk=mk: dict(X=getattr(b, mk)(), v=b.vecs(range(1, b.N)), d=np.arange(1, b.N)), lambda o: o.X.ttv(o.v, o.d), shapes=G["NOSINGLE"])
        reg(cls, "ttv", "all-but-last,exclude", lambda b, mk=mk: dict(X=getattr(b, mk)(), v=b.vecs(), ex=np.array([b.N - 1])), lambda o: o.X.ttv(o.v, exclude_dims=o.ex), shapes=G["NOSINGLE"])
    # the caller's arrays -> ktensor(copy=False) -> algorithm: three owners of the same buffers; the algorithm must leave the arrays alone
    def shared_init(b):
        f = [np.asfortranarray(x) for x in b.fm()]
        w = np.array([2.0, 3.0])
        return dict(f=f, w=w, init=b.ttb.ktensor(f, w, copy=False))
    kw2 = dict(maxiters=2, printitn=0)
    reg("ttb", "cp_als", "init=ktensor-built-copy=False-on-caller-arrays", lambda b: dict(shared_init(b), X=b.T()),
        lambda o, b: _M(b.ttb.cp_als, o.X, 2, init=o.init, **kw2), shapes=ALG, layouts=False)
    reg("ttb", "cp_als", "init=ktensor-built-copy=False-on-caller-arrays,maxiters=0", lambda b: dict(shared_init(b), X=b.T()),
        lambda o, b: _M(b.ttb.cp_als, o.X, 2, init=o.init, maxiters=0, printitn=0), shapes=ALG1, layouts=False)
    akw2 = dict(maxiters=2, printitn=0, printinneritn=0, maxinneriters=2)
    for alg in ("mu", "pdnr"):          # (pqnr asserts "L-BFGS first iterate is bad" on this generic data: its rows use the 2x2 data of the main table)
        reg("ttb", "cp_apr", f"{alg},init=ktensor-built-copy=False-on-caller-arrays", lambda b: dict(shared_init(b), X=b.S()),
            lambda o, b, alg=alg: _M(b.ttb.cp_apr, o.X, 2, algorithm=alg, init=o.init, **akw2), shapes=ALG1, layouts=False)
    # (gcp_opt normalises init in place — finding A-24 — and with it the caller's arrays: the same finding seen one owner further)
    pcg = "lbfgsb,init=ktensor-built-copy=False-on-caller-arrays"
    reg("ttb", "gcp_opt", pcg + " | init-and-arrays:changed", lambda b: dict(shared_init(b), X=b.T()), lambda o, b: gcp0(b, o.X, o.init, mkopt("LBFGSB")),
        shapes=ALG1, layouts=False, only=("init", "f", "w"), aspects=("changed",))
    FINDING_CLASSES["A-24"].append(("ttb.gcp_opt", pcg + " | init-and-arrays:changed"))
    reg("ttb", "gcp_opt", pcg + " | result-independent", lambda b: dict(shared_init(b), X=b.T()), lambda o, b: gcp0(b, o.X, o.init, mkopt("LBFGSB")),
        shapes=ALG1, layouts=False, only=("init", "f", "w"), aspects=("shared",))
    reg("ttb", "gcp_opt", pcg + " | data", lambda b: dict(shared_init(b), X=b.T()), lambda o, b: gcp0(b, o.X, o.init, mkopt("LBFGSB")),
        shapes=ALG1, layouts=False, but=("init", "f", "w"))

    # ------------------------------------------------------------------------------------------------------------
    # (b) second-use histories, generated from the table itself
    # ------------------------------------------------------------------------------------------------------------
    def twice_inplace(e):
        def build(b, e=e):
            ops = e["build"](b)
            _invoke(e["call"], AD(ops), b)          # first application, on the very objects the row then measures
            return ops
        return build
    for (ns, name), ents in list(TABLE.items()):
        for e in list(ents):
            if e["kind"] != "inplace" or "second-time" in e["pclass"] or ",again" in e["pclass"] or e["pclass"].startswith("second"):
                continue
            if ns == "gcpopt":
                continue
            reg(ns, name, e["pclass"] + " | second-application-same-receiver", twice_inplace(e), e["call"], kind="inplace", recv=e["recv"],
                shapes=(e["shapes"] or G["SHAPES"])[:1], layouts=False)

    def twice_alg(e):
        def build(b, e=e):
            ops = e["build"](b)
            ops = dict(ops)
            ops["prev"] = _invoke(e["call"], AD(ops), b)     # the first run's result: an operand of the second run
            return ops
        return build
    for name in ("cp_als", "cp_apr", "gcp_opt", "hosvd", "tucker_als"):
        for e in list(TABLE[("ttb", name)]):
            pc = e["pclass"]
            if e["kind"] != "pure" or "second-run" in pc or "previous-run" in pc or "reused" in pc or "result-of" in pc or pc.startswith("echo"):
                continue          # (echo rows: the first run's echo IS the caller's init object — finding C05-N08 — so it cannot serve as an operand)
            kw = dict(only=e["only"], but=e["but"], aspects=e["aspects"], chg=e["chg"])
            if e["only"] is not None:
                kw["only"] = tuple(e["only"]) + (() if e["aspects"] == ("changed",) else ("prev",))
            pc2 = pc + " | second-run-same-objects"
            reg("ttb", name, pc2, twice_alg(e), e["call"], shapes=(e["shapes"] or ALG)[:1], layouts=False, **kw)
            for fid, rows in FINDING_CLASSES.items():
                if (f"ttb.{name}", pc) in rows:
                    rows.append((f"ttb.{name}", pc2))
