(* Props/C09.v — CP-ALS returns a model consistent with everything it reports (PARTIAL: exact-arithmetic theorems).
   Only statements, `exact`, Print Assumptions and non-vacuity examples. *)
From Coq Require Import List Arith Bool ZArith Ring Lia.
From PV Require Import Base.Index Base.Perm Base.Sum Np.Array Model.Sparse Model.Repr Model.C08Kruskal Model.C09Als Model.C09Loop
  Proofs.C09Identity Proofs.C09Monotone Proofs.C09Scaling Proofs.C09LoopProofs Proofs.C09Reported Proofs.C09Norm
  Proofs.C09NormalForm Proofs.C09NormalRun.
Import ListNotations.

Section C09.
Variable V : Type.
Variables (v0 v1 : V) (vadd vmul vsub : V -> V -> V) (vopp : V -> V).
Hypothesis Vring : ring_theory v0 v1 vadd vmul vsub vopp (@eq V).

(* (1) the reported residual.  For every data array X (the denotation of a dense / sparse / Tucker / sum tensor on shape s),
   every Kruskal model K of that shape (any rank, weights, factors) and EVERY mode n (cp_als uses the mode updated last):
   normX^2 + ||K||^2 - 2 * sum_r w_r sum_j A_n[j,r] * MTTKRP_n(X;A)[j,r]  =  ||X - K||^2 *)
Theorem C09_fit_identity : forall (s : shape) (X : idx -> V) (K : ktensor V) (n : nat),
  kshape K = s -> n < length s ->
  let iprod := iprod_saved v0 vadd vmul (krank K) (nth n s 0) (kweights K) (nth n (kfactors K) [])
                 (mttkrp_den v0 v1 vadd vmul s X (kfactors K) n) in
  vsub (vadd (normsq_den v0 vadd vmul s X) (normsq_den v0 vadd vmul s (den_k v0 v1 vadd vmul K))) (vadd iprod iprod)
  = resid_den v0 vadd vmul vsub s X (den_k v0 v1 vadd vmul K).
Proof. exact (fit_identity V v0 v1 vadd vmul vsub vopp Vring). Qed.

(* sum-tensor data (its norm is reported as 0): the reported value is ||K||^2 - 2 <X,K> *)
Theorem C09_fit_identity_sum : forall (s : shape) (X : idx -> V) (K : ktensor V) (n : nat),
  kshape K = s -> n < length s ->
  let iprod := iprod_saved v0 vadd vmul (krank K) (nth n s 0) (kweights K) (nth n (kfactors K) [])
                 (mttkrp_den v0 v1 vadd vmul s X (kfactors K) n) in
  vsub (normsq_den v0 vadd vmul s (den_k v0 v1 vadd vmul K)) (vadd iprod iprod)
  = vsub (normsq_den v0 vadd vmul s (den_k v0 v1 vadd vmul K))
         (vadd (innerprod_den v0 vadd vmul s X (den_k v0 v1 vadd vmul K)) (innerprod_den v0 vadd vmul s X (den_k v0 v1 vadd vmul K))).
Proof. exact (fit_identity_sum V v0 v1 vadd vmul vsub vopp Vring). Qed.

(* (1') the same identity INSIDE the executable sweep model: after the update of mode n, the value computed from the SAVED mttkrp
   (st_P, taken before mode n was overwritten), the new factor and the new weights is the residual of the new state's model —
   this is cp_als.py:237-250 with n = dimorder[-1] (als_sweep it (ds ++ [n]) st = als_update it (als_sweep it ds st) n) *)
Theorem C09_reported_residual : forall (solve : @matrix V -> @matrix V -> @matrix V) (scale : nat -> @matrix V -> list V * @matrix V)
    (R : nat) (X : idx -> V) (s : shape) (it : nat) (st : als_state V) (n : nat),
  let mkX := fun U m => mttkrp_mat v0 v1 vadd vmul s X U m R in
  st_wf V R s st -> n < length s ->
  length (st_w (als_update v0 v1 vadd vmul mkX solve scale R it st n)) = R ->
  nrows (nth n (st_U (als_update v0 v1 vadd vmul mkX solve scale R it st n)) []) = nth n s 0 ->
  let st' := als_update v0 v1 vadd vmul mkX solve scale R it st n in
  let ip := iprod_saved v0 vadd vmul R (nth n s 0) (st_w st') (nth n (st_U st') []) (fun j r => mget v0 (st_P st') j r) in
  vsub (vadd (normsq_den v0 vadd vmul s X) (normsq_den v0 vadd vmul s (st_den V v0 v1 vadd vmul st'))) (vadd ip ip)
  = resid_den v0 vadd vmul vsub s X (st_den V v0 v1 vadd vmul st').
Proof. exact (reported_residual V v0 v1 vadd vmul vsub vopp Vring). Qed.

(* (1'') ktensor.norm as coded (coefMatrix = w w^T; for f in factors: coefMatrix *= f.T @ f; sum) is the sum of squares of the
   denoted array, for every Kruskal tensor ... *)
Theorem C09_knorm_gram : forall (K : ktensor V),
  normsq_den v0 vadd vmul (kshape K) (den_k v0 v1 vadd vmul K) = knormsq_code V v0 vadd vmul K.
Proof. exact (knorm_gram V v0 v1 vadd vmul vsub vopp Vring). Qed.

(* ... so the reported residual is covered END TO END with the code's own formulas: normX^2 + M.norm()^2 (Gram/Hadamard form)
   - 2 * iprod (saved mttkrp of the mode updated last, new factor, new weights) = ||X - M||^2 of the new state's model *)
Theorem C09_reported_residual_code : forall (solve : @matrix V -> @matrix V -> @matrix V) (scale : nat -> @matrix V -> list V * @matrix V)
    (R : nat) (X : idx -> V) (s : shape) (it : nat) (st : als_state V) (n : nat),
  let mkX := fun U m => mttkrp_mat v0 v1 vadd vmul s X U m R in
  st_wf V R s st -> n < length s ->
  length (st_w (als_update v0 v1 vadd vmul mkX solve scale R it st n)) = R ->
  nrows (nth n (st_U (als_update v0 v1 vadd vmul mkX solve scale R it st n)) []) = nth n s 0 ->
  let st' := als_update v0 v1 vadd vmul mkX solve scale R it st n in
  let ip := iprod_saved v0 vadd vmul R (nth n s 0) (st_w st') (nth n (st_U st') []) (fun j r => mget v0 (st_P st') j r) in
  vsub (vadd (normsq_den v0 vadd vmul s X) (knormsq_code V v0 vadd vmul (st_model st'))) (vadd ip ip)
  = resid_den v0 vadd vmul vsub s X (st_den V v0 v1 vadd vmul st').
Proof. exact (reported_residual_code V v0 v1 vadd vmul vsub vopp Vring). Qed.

(* (2a) why Y = Hadamard product of the Grams: the mode-n MTTKRP of the Kruskal model itself is  a . Y *)
Theorem C09_mttkrp_of_model : forall (As : list (@matrix V)) (n R : nat) (a : nat -> nat -> V) (j t : nat),
  n < length As -> j < nth n (map (@nrows V) As) 0 ->
  mttkrp_den v0 v1 vadd vmul (map (@nrows V) As) (kmodel v0 v1 vadd vmul n As R a) As n j t
  = sum_n v0 vadd R (fun r => vmul (a j r) (gramhad v0 v1 vadd vmul n As r t)).
Proof. exact (mttkrp_of_model V v0 v1 vadd vmul vsub vopp Vring). Qed.

(* (2b) block-wise exact minimisation: if a' solves the normal equations  a' . Y = MTTKRP_n(X)  then for EVERY other factor a
   ||X - M(a)||^2 = ||X - M(a')||^2 + ||M(a - a')||^2 *)
Theorem C09_ls_step_identity : forall (X : idx -> V) (As : list (@matrix V)) (n R : nat) (a' a : nat -> nat -> V),
  n < length As ->
  normal_eq v0 v1 vadd vmul (map (@nrows V) As) X n As R a' ->
  resid_den v0 vadd vmul vsub (map (@nrows V) As) X (kmodel v0 v1 vadd vmul n As R a) =
  vadd (resid_den v0 vadd vmul vsub (map (@nrows V) As) X (kmodel v0 v1 vadd vmul n As R a'))
       (normsq_den v0 vadd vmul (map (@nrows V) As) (kmodel v0 v1 vadd vmul n As R (fun j r => vsub (a j r) (a' j r)))).
Proof. exact (ls_step_identity V v0 v1 vadd vmul vsub vopp Vring). Qed.

(* (2c) C09_normal_eq: in the executable sweep model, after the update of mode n (oracles meeting their contracts) the
   weight-absorbed factor of mode n satisfies its normal equations w.r.t. the state's own factors — in particular the factor
   updated LAST in the returned state *)
Theorem C09_normal_eq : forall (mk : list (@matrix V) -> nat -> @matrix V) (solve : @matrix V -> @matrix V -> @matrix V)
    (scale : nat -> @matrix V -> list V * @matrix V) (R : nat) (X : idx -> V) (s : shape) (it : nat) (st : als_state V) (n : nat),
  st_wf V R s st ->
  update_contract V v0 v1 vadd vmul mk solve scale R X s it st n ->
  normal_eq v0 v1 vadd vmul s X n (st_U (als_update v0 v1 vadd vmul mk solve scale R it st n)) R
    (fun j r => vmul (nth r (st_w (als_update v0 v1 vadd vmul mk solve scale R it st n)) v0)
                     (mget v0 (nth n (st_U (als_update v0 v1 vadd vmul mk solve scale R it st n)) []) j r)).
Proof. exact (last_update_normal_eq V v0 v1 vadd vmul). Qed.

(* (3) C09_scaling_indep: two runs on the same data from the same factor list that differ ONLY in the column-scaling oracle
   (2-norm / max-norm / anything with invertible weights) denote the same model after every sequence of k+1 sweeps
   (contracts of the oracles at every update; normal equations of run 1 uniquely solvable = the rank condition) *)
Theorem C09_scaling_indep : forall (R : nat) (X : idx -> V) (mk : list (@matrix V) -> nat -> @matrix V)
    (solve : @matrix V -> @matrix V -> @matrix V) (scale1 scale2 : nat -> @matrix V -> list V * @matrix V)
    (s : shape) (dims : list nat) (st1 st2 : als_state V) (k : nat),
  st_wf V R s st1 -> st_wf V R s st2 -> st_U st1 = st_U st2 -> dims <> [] ->
  iter_hyps V v0 v1 vadd vmul R X X mk mk solve solve scale1 scale2 s (S k) dims st1 st2 ->
  forall i, inb s i = true ->
    st_den V v0 v1 vadd vmul (als_iter v0 v1 vadd vmul mk solve scale2 R (S k) dims st2) i
    = st_den V v0 v1 vadd vmul (als_iter v0 v1 vadd vmul mk solve scale1 R (S k) dims st1) i.
Proof.
  intros R X mk solve scale1 scale2 s dims st1 st2 k W1 W2 E Hne Hh i Hi.
  assert (K1 : vmul v1 v1 = v1) by (apply (Rmul_1_l Vring)).
  pose proof (proj2 (iter_equiv V v0 v1 vadd vmul vsub vopp Vring R X X v1 v1 K1 mk mk solve solve scale1 scale2 s dims st1 st2 k
                (related_same_factors V v0 v1 vadd vmul vsub vopp Vring R s st1 st2 W1 W2 E)
                (fun i _ => eq_sym (Rmul_1_l Vring (X i))) Hne Hh) i Hi) as H.
  rewrite H. apply (Rmul_1_l Vring).
Qed.
End C09.

(* ---- (2d) monotonicity over an ordered ring ---- *)
Section C09ord.
Variable V : Type.
Variables (v0 v1 : V) (vadd vmul vsub : V -> V -> V) (vopp : V -> V).
Hypothesis Vring : ring_theory v0 v1 vadd vmul vsub vopp (@eq V).
Variable vle : V -> V -> Prop.
Hypothesis le_refl : forall x, vle x x.
Hypothesis le_trans : forall x y z, vle x y -> vle y z -> vle x z.
Hypothesis le_add_nonneg : forall x y, vle v0 y -> vle x (vadd x y).
Hypothesis add_nonneg : forall x y, vle v0 x -> vle v0 y -> vle v0 (vadd x y).
Hypothesis sq_nonneg : forall x, vle v0 (vmul x x).

(* C09_monotone: consecutive iterations of the sweep model never increase ||X - M||^2 (so the fit 1 - ||X-M||/||X|| never
   decreases when ||X|| <> 0), for all data, starts, mode orders / subsets `dims`, ranks, and all oracles meeting their contracts *)
Theorem C09_monotone : forall (mk : list (@matrix V) -> nat -> @matrix V) (solve : @matrix V -> @matrix V -> @matrix V)
    (scale : nat -> @matrix V -> list V * @matrix V) (R : nat) (X : idx -> V) (s : shape) (dims : list nat)
    (st : als_state V) (k : nat),
  st_wf V R s st ->
  iter_contract V v0 v1 vadd vmul mk solve scale R X s (S k) dims st ->
  st_wf V R s (als_iter v0 v1 vadd vmul mk solve scale R (S k) dims st) /\
  vle (resid_den v0 vadd vmul vsub s X (st_den V v0 v1 vadd vmul (als_iter v0 v1 vadd vmul mk solve scale R (S k) dims st)))
      (resid_den v0 vadd vmul vsub s X (st_den V v0 v1 vadd vmul (als_iter v0 v1 vadd vmul mk solve scale R k dims st))).
Proof. exact (iter_monotone V v0 v1 vadd vmul vsub vopp Vring vle le_refl le_trans le_add_nonneg add_nonneg sq_nonneg). Qed.

(* a single mode update to any solution of the normal equations, whatever the previous factor a was *)
Theorem C09_ls_step_monotone : forall (X : idx -> V) (As : list (@matrix V)) (n R : nat) (a' a : nat -> nat -> V),
  n < length As ->
  normal_eq v0 v1 vadd vmul (map (@nrows V) As) X n As R a' ->
  vle (resid_den v0 vadd vmul vsub (map (@nrows V) As) X (kmodel v0 v1 vadd vmul n As R a'))
      (resid_den v0 vadd vmul vsub (map (@nrows V) As) X (kmodel v0 v1 vadd vmul n As R a)).
Proof. exact (ls_step_monotone V v0 v1 vadd vmul vsub vopp Vring vle le_refl le_add_nonneg add_nonneg sq_nonneg). Qed.
End C09ord.

(* ---- (3') normal form of the returned model: the final M.arrange() (executable Kruskal model of C08: k_arrange None =
   normalize columns mode by mode, flip negative weights into factor 0, gather by np.argsort(weights)[::-1]) ----
   Oracles: nrm (np.linalg.norm of a column), pos/neg (sign tests), vinv (1/x), srt (argsort descending), with the contracts below
   (the norm-oracle contract of C08 plus nrm_spec "the oracle returns the 2-norm" and the sort contract) *)
Section C09nf.
Variable V : Type.
Variables (v0 v1 : V) (vadd vmul vsub : V -> V -> V) (vopp vinv : V -> V).
Hypothesis Vring : ring_theory v0 v1 vadd vmul vsub vopp (@eq V).
Variables (nrm : list V -> V) (pos neg : V -> bool) (root : V -> V) (srt : list V -> list nat) (negcol : list V -> bool).
Variable vle : V -> V -> Prop.
Hypothesis vinv_r : forall x, x <> v0 -> vmul x (vinv x) = v1.
Hypothesis pos_nz : forall x, pos x = true -> x <> v0.
Hypothesis nrm_pos : forall l, pos (nrm l) = false -> Forall (fun y => y = v0) l.
Hypothesis nrm_spec : forall l, vmul (nrm l) (nrm l) = dot v0 vadd vmul l l.
Hypothesis neg_opp : forall x, neg x = true -> neg (vopp x) = false.
Hypothesis srt_perm : forall l, is_perm (srt l) (length l).
Hypothesis srt_desc : forall l r, S r < length l -> vle (nth (nth (S r) (srt l) 0) l v0) (nth (nth r (srt l) 0) l v0).

(* C09_normal_form: for EVERY ktensor with at least one factor matrix, arrange gives the same rank and shape, columns of squared
   2-norm 1 (or identically zero), no negative weight, weights in descending order *)
Theorem C09_normal_form : forall K : ktensor V, kfactors K <> [] ->
  let K' := k_arrange v0 v1 vmul vopp vinv nrm pos neg root srt None K in
  (krank K' = krank K /\ kshape K' = kshape K) /\
  (forall n r, n < length (kfactors K) -> r < krank K ->
     let c := col v0 (nth n (kfactors K') []) r in dot v0 vadd vmul c c = v1 \/ Forall (fun y => y = v0) c) /\
  (forall r, r < krank K -> neg (nth r (kweights K') v0) = false) /\
  (forall r, S r < krank K -> vle (nth (S r) (kweights K') v0) (nth r (kweights K') v0)).
Proof. exact (normal_form_arrange_nowf V v0 v1 vadd vmul vsub vopp vinv Vring nrm pos neg root srt vle
                vinv_r pos_nz nrm_pos nrm_spec neg_opp srt_perm srt_desc). Qed.

(* ... and for the model RETURNED by the cp_als loop model whose arrange / fixsigns are k_arrange None / k_fixsigns: every limit
   (0 included), printing interval, tolerance, start *)
Theorem C09_normal_form_run : forall (F : Type) (sweep : nat -> ktensor V -> ktensor V) (fit_mttkrp fit_innerprod : ktensor V -> F * F)
    (fchange_lt : F -> F -> F -> bool) (fit0 : F) tol p s0 m dofix (r : result (ktensor V) F),
  cpals_run sweep fit_mttkrp fit_innerprod fchange_lt fit0 (k_arrange v0 v1 vmul vopp vinv nrm pos neg root srt None)
            (k_fixsigns v0 v1 vmul vopp negcol) tol p s0 m dofix = Some r ->
  let last := iter_sweep sweep (length (r_trace r)) s0 in
  kfactors last <> [] ->
  (forall q, q < krank last -> neg (nth q (kweights (r_state r)) v0) = false) /\
  (forall q, S q < krank last -> vle (nth (S q) (kweights (r_state r)) v0) (nth q (kweights (r_state r)) v0)) /\
  (dofix = false ->
     (krank (r_state r) = krank last /\ kshape (r_state r) = kshape last) /\
     forall n q, n < length (kfactors last) -> q < krank last ->
       let c := col v0 (nth n (kfactors (r_state r)) []) q in dot v0 vadd vmul c c = v1 \/ Forall (fun y => y = v0) c).
Proof. exact (run_normal_form V v0 v1 vadd vmul vsub vopp vinv Vring nrm pos neg root srt negcol vle
                vinv_r pos_nz nrm_pos nrm_spec neg_opp srt_perm srt_desc). Qed.
End C09nf.

(* ---- (4) bookkeeping of the outer loop (Model/C09Loop.v: statement-by-statement transliteration of cp_als.py:199-298) ---- *)
Section C09book.
Variables (St F : Type) (sweep : nat -> St -> St) (fit_mttkrp fit_innerprod : St -> F * F)
          (fchange_lt : F -> F -> F -> bool) (fit0 : F) (arrange fixsigns : St -> St).
Local Notation RUN := (cpals_run sweep fit_mttkrp fit_innerprod fchange_lt fit0 arrange fixsigns).

(* iteration count within the limit; one fit per executed iteration *)
Theorem C09_bookkeeping_iters : forall tol p s0 m dofix (r : result St F), 0 < m ->
  RUN tol p s0 m dofix = Some r -> r_iters r < m /\ length (r_trace r) = S (r_iters r).
Proof. exact (@cpals_iters_bound St F sweep fit_mttkrp fit_innerprod fchange_lt fit0 arrange fixsigns). Qed.
(* ... every admissible limit, maxiters = 0 included: iters <= maxiters - 1 (0 when nothing ran), min(maxiters, iters+1) fits computed *)
Theorem C09_bookkeeping_iters_all : forall tol p s0 m dofix (r : result St F),
  RUN tol p s0 m dofix = Some r -> r_iters r <= m - 1 /\ length (r_trace r) = Nat.min m (S (r_iters r)).
Proof. exact (@cpals_iters_bound_all St F sweep fit_mttkrp fit_innerprod fchange_lt fit0 arrange fixsigns). Qed.

(* stop rule: early exit only at an iteration k >= 1 whose fit change is below stoptol, and never past such an iteration *)
Theorem C09_bookkeeping_stop : forall tol p s0 m dofix (r : result St F),
  RUN tol p s0 m dofix = Some r ->
  let t := r_trace r in
  (r_iters r < m - 1 -> r_iters r > 0 /\ fchange_lt (nth (r_iters r - 1) t fit0) (nth (r_iters r) t fit0) tol = true) /\
  (forall k, 0 < k < r_iters r -> fchange_lt (nth (k - 1) t fit0) (nth k t fit0) tol = false).
Proof. exact (@cpals_stop_rule St F sweep fit_mttkrp fit_innerprod fchange_lt fit0 arrange fixsigns). Qed.

(* the returned model is arrange/fixsigns of the state after exactly iters+1 sweeps FROM THE GIVEN START s0 (the guess that is
   returned is the one used), and the trace lists the fits of those sweeps *)
Theorem C09_bookkeeping_state : forall tol p s0 m dofix (r : result St F), 0 < m ->
  RUN tol p s0 m dofix = Some r ->
  (forall k, k <= r_iters r -> nth_error (r_trace r) k = Some (snd (fit_mttkrp (iter_sweep sweep (S k) s0)))) /\
  r_state r = cpals_finish arrange fixsigns dofix (iter_sweep sweep (S (r_iters r)) s0).
Proof. exact (@cpals_trace_sweeps St F sweep fit_mttkrp fit_innerprod fchange_lt fit0 arrange fixsigns). Qed.
(* ... every limit, 0 included: the model is arrange/fixsigns of the state after as many sweeps from s0 as fits were computed *)
Theorem C09_bookkeeping_state_all : forall tol p s0 m dofix (r : result St F),
  RUN tol p s0 m dofix = Some r ->
  r_state r = cpals_finish arrange fixsigns dofix (iter_sweep sweep (length (r_trace r)) s0) /\
  (forall k, k < length (r_trace r) -> nth_error (r_trace r) k = Some (fit_at sweep fit_mttkrp s0 k)).
Proof. exact (@cpals_state_all St F sweep fit_mttkrp fit_innerprod fchange_lt fit0 arrange fixsigns). Qed.

(* what is reported: the in-loop formula when silent (the innerprod formula on the start when no sweep ran), the innerprod
   formula on the final model when printing *)
Theorem C09_bookkeeping_report : forall tol p s0 m dofix (r : result St F),
  RUN tol p s0 m dofix = Some r ->
  (p = 0 -> 0 < m -> (r_normres r, r_fit r) = fit_mttkrp (iter_sweep sweep (S (r_iters r)) s0)) /\
  (p = 0 -> m = 0 -> (r_normres r, r_fit r) = fit_innerprod s0) /\
  (p > 0 -> (r_normres r, r_fit r) = fit_innerprod (r_state r)).
Proof. exact (@cpals_report_consistent St F sweep fit_mttkrp fit_innerprod fchange_lt fit0 arrange fixsigns). Qed.

(* truncated runs expose the per-iteration trace (this justifies the correspondence harness) *)
Theorem C09_bookkeeping_truncation : forall tol p1 p2 d1 d2 s0 m1 m2 (r1 r2 : result St F), m1 <= m2 ->
  RUN tol p1 s0 m1 d1 = Some r1 -> RUN tol p2 s0 m2 d2 = Some r2 ->
  r_trace r1 = firstn m1 (r_trace r2) /\ r_iters r1 = Nat.min (r_iters r2) (m1 - 1).
Proof. exact (@cpals_truncation St F sweep fit_mttkrp fit_innerprod fchange_lt fit0 arrange fixsigns). Qed.

(* maxiters = 0 (A-30, repaired in /repo: the loop model follows the repaired source): no sweep is executed, the start model is
   arranged / sign-fixed and reported with iters = 0; silent runs evaluate the innerprod formula on the start itself, printing
   runs on the arranged model.  With that block the run is TOTAL: every admissible limit yields a result *)
Theorem C09_maxiters0 : forall tol p s0 dofix,
  RUN tol p s0 0 dofix
  = let fin := cpals_finish arrange fixsigns dofix s0 in
    Some (if 0 <? p
          then mkResult fin 0 (fst (fit_innerprod fin)) (snd (fit_innerprod fin)) [EvHeader; EvFinal (snd (fit_innerprod fin))] []
          else mkResult fin 0 (fst (fit_innerprod s0)) (snd (fit_innerprod s0)) [] []).
Proof. exact (@cpals_run_zero St F sweep fit_mttkrp fit_innerprod fchange_lt fit0 arrange fixsigns). Qed.
Theorem C09_run_total : forall tol p s0 m dofix, exists r, RUN tol p s0 m dofix = Some r.
Proof. exact (@cpals_run_total St F sweep fit_mttkrp fit_innerprod fchange_lt fit0 arrange fixsigns). Qed.
End C09book.

Print Assumptions C09_fit_identity.
Print Assumptions C09_fit_identity_sum.
Print Assumptions C09_reported_residual.
Print Assumptions C09_knorm_gram.
Print Assumptions C09_reported_residual_code.
Print Assumptions C09_normal_form.
Print Assumptions C09_normal_form_run.
Print Assumptions C09_mttkrp_of_model.
Print Assumptions C09_ls_step_identity.
Print Assumptions C09_normal_eq.
Print Assumptions C09_scaling_indep.
Print Assumptions C09_monotone.
Print Assumptions C09_ls_step_monotone.
Print Assumptions C09_bookkeeping_iters.
Print Assumptions C09_bookkeeping_stop.
Print Assumptions C09_bookkeeping_state.
Print Assumptions C09_bookkeeping_report.
Print Assumptions C09_bookkeeping_truncation.
Print Assumptions C09_maxiters0.
Print Assumptions C09_run_total.
Print Assumptions C09_bookkeeping_iters_all.
Print Assumptions C09_bookkeeping_state_all.

(* non-vacuity: a concrete non-symmetric 3x2 rank-2 instance over Z, mode 1 *)
Example C09_fit_identity_example :
  let s := [3; 2] in
  let X := den_dense 0%Z (mkDense s [1; -2; 3; 0; 5; 4]%Z) in
  let K := mkK [2; -1]%Z [ [[1; 0]; [2; 1]; [0; 3]]; [[1; 2]; [-1; 1]] ]%Z in
  let iprod := iprod_saved 0%Z Z.add Z.mul 2 2 (kweights K) (nth 1 (kfactors K) [])
                 (mttkrp_den 0%Z 1%Z Z.add Z.mul s X (kfactors K) 1) in
  (iprod = -57 /\ innerprod_den 0%Z Z.add Z.mul s X (den_k 0%Z 1%Z Z.add Z.mul K) = -57 /\ resid_den 0%Z Z.add Z.mul Z.sub s X (den_k 0%Z 1%Z Z.add Z.mul K) = 251)%Z.
Proof. vm_compute. repeat split; reflexivity. Qed.

(* non-vacuity of (2): a concrete 2x2 least-squares step over Z (mode 0, rank 1): the normal equations hold for a' = (1,1)
   and the theorem gives  ||X - M(a')||^2 = 5  <=  ||X - M(a)||^2 = 30 for the competitor a = (3,0) *)
Example C09_ls_step_example :
  let As := [ [[7]; [7]]; [[1]; [2]] ]%Z in
  let X := den_dense 0%Z (mkDense [2; 2]%nat [1; 3; 2; 1]%Z) in
  let a' := fun (_ _ : nat) => 1%Z in
  let a := fun (j _ : nat) => match j with O => 3%Z | _ => 0%Z end in
  normal_eq 0%Z 1%Z Z.add Z.mul [2; 2]%nat X 0%nat As 1%nat a' /\
  (resid_den 0%Z Z.add Z.mul Z.sub [2; 2]%nat X (kmodel 0%Z 1%Z Z.add Z.mul 0%nat As 1%nat a') <=
   resid_den 0%Z Z.add Z.mul Z.sub [2; 2]%nat X (kmodel 0%Z 1%Z Z.add Z.mul 0%nat As 1%nat a))%Z /\
  resid_den 0%Z Z.add Z.mul Z.sub [2; 2]%nat X (kmodel 0%Z 1%Z Z.add Z.mul 0%nat As 1%nat a') = 5%Z /\
  resid_den 0%Z Z.add Z.mul Z.sub [2; 2]%nat X (kmodel 0%Z 1%Z Z.add Z.mul 0%nat As 1%nat a) = 30%Z.
Proof.
  intros As X a' a.
  assert (NE : normal_eq 0%Z 1%Z Z.add Z.mul [2; 2]%nat X 0%nat As 1%nat a').
  { intros j t Hj Ht. cbn in Hj. destruct t as [|t]; [|inversion Ht as [|? H]; inversion H].
    destruct j as [|[|j]]; [vm_compute; reflexivity | vm_compute; reflexivity |].
    exfalso. do 2 apply Nat.succ_lt_mono in Hj. inversion Hj. }
  split; [exact NE|]. split; [|split; vm_compute; reflexivity].
  apply (C09_ls_step_monotone Z 0%Z 1%Z Z.add Z.mul Z.sub Z.opp Zth Z.le Z.le_refl
           (fun x y H => ltac:(lia))
           (fun x y Hx Hy => Z.add_nonneg_nonneg x y Hx Hy) Z.square_nonneg X As 0%nat 1%nat a' a); [cbn; auto|exact NE].
Qed.

(* non-vacuity of (2c)/(2d)/(3): the contracts of the oracles are satisfiable — a concrete 2x2 rank-1 update of mode 0 over Z with an
   exact solve and two different column-scaling oracles (weights 1 and -1); the hypotheses of C09_monotone and C09_scaling_indep
   hold and both runs denote the same model *)
Example C09_contract_example :
  let s := [2; 2]%nat in
  let X := den_dense 0%Z (mkDense s [1; 3; 2; 1]%Z) in
  let mk := fun (U : list (@matrix Z)) (n : nat) => mttkrp_mat 0%Z 1%Z Z.add Z.mul s X U n 1%nat in
  let solve := fun (Y P : @matrix Z) => map (map (fun x => Z.div x (mget 0%Z Y 0%nat 0%nat))) P in
  let scale1 := fun (_ : nat) (A : @matrix Z) => ([1%Z], A) in
  let scale2 := fun (_ : nat) (A : @matrix Z) => ([(-1)%Z], map (map Z.opp) A) in
  let st := mkAls [1%Z] [ [[7]; [7]]; [[1]; [2]] ]%Z [] in
  st_wf Z 1%nat s st /\
  iter_contract Z 0%Z 1%Z Z.add Z.mul mk solve scale1 1%nat X s 1%nat [0%nat] st /\
  iter_hyps Z 0%Z 1%Z Z.add Z.mul 1%nat X X mk mk solve solve scale1 scale2 s 1%nat [0%nat] st st /\
  st_den Z 0%Z 1%Z Z.add Z.mul (als_iter 0%Z 1%Z Z.add Z.mul mk solve scale1 1%nat 1%nat [0%nat] st) [1; 1]%nat = 2%Z /\
  st_den Z 0%Z 1%Z Z.add Z.mul (als_iter 0%Z 1%Z Z.add Z.mul mk solve scale2 1%nat 1%nat [0%nat] st) [1; 1]%nat = 2%Z.
Proof.
  intros s X mk solve scale1 scale2 st.
  assert (NE : forall sc : nat -> @matrix Z -> list Z * @matrix Z,
             normal_eq 0%Z 1%Z Z.add Z.mul s X 0%nat (st_U st) 1%nat
               (fun j r => mget 0%Z (solve (ymat 0%Z 1%Z Z.add Z.mul 0%nat (st_U st) 1%nat) (mk (st_U st) 0%nat)) j r)).
  { intros _ j t Hj Ht. cbn in Hj. destruct t as [|t]; [|inversion Ht as [|? H]; inversion H].
    destruct j as [|[|j]]; [vm_compute; reflexivity | vm_compute; reflexivity |].
    exfalso. do 2 apply Nat.succ_lt_mono in Hj. inversion Hj. }
  assert (C1 : update_contract Z 0%Z 1%Z Z.add Z.mul mk solve scale1 1%nat X s 0%nat st 0%nat).
  { split; [cbn; lia|]. split; [exact (NE scale1)|]. split; [reflexivity|]. split; [reflexivity|].
    intros j r. cbn [fst snd scale1].
    destruct j as [|[|[|j]]]; destruct r as [|[|r]]; vm_compute; try reflexivity;
      repeat (match goal with |- context [match ?x with _ => _ end] => destruct x end); reflexivity. }
  assert (C2 : update_contract Z 0%Z 1%Z Z.add Z.mul mk solve scale2 1%nat X s 0%nat st 0%nat).
  { split; [cbn; lia|]. split; [exact (NE scale2)|]. split; [reflexivity|]. split; [reflexivity|].
    intros j r. cbn [fst snd scale2].
    destruct j as [|[|[|j]]]; destruct r as [|[|r]]; vm_compute; try reflexivity;
      repeat (match goal with |- context [match ?x with _ => _ end] => destruct x end); reflexivity. }
  split; [split; reflexivity|]. split; [exact (conj I (conj C1 I))|]. split.
  - split; [exact I|]. split; [exact C1|]. split; [exact C2|].
    split; [exists (fun _ => 1%Z); intros r Hr; destruct r as [|r]; [reflexivity|lia]|].
    split; [exists (fun _ => (-1)%Z); intros r Hr; destruct r as [|r]; [reflexivity|lia]|].
    split; [|exact I].
    intros b Hb r Hr. destruct r as [|r]; [|lia]. specialize (Hb 0%nat ltac:(lia)). vm_compute in Hb.
    destruct (b 0%nat); try discriminate; reflexivity.
  - split; vm_compute; reflexivity.
Qed.

(* non-vacuity of C09_knorm_gram: a non-symmetric 3x2 rank-2 model over Z: coefMatrix.sum() = sum of squares of the array *)
Example C09_knorm_example :
  let K := mkK [2; -1]%Z [ [[1; 0]; [2; 1]; [0; 3]]; [[1; 2]; [-1; 1]] ]%Z in
  (knormsq_code Z 0%Z Z.add Z.mul K = normsq_den 0%Z Z.add Z.mul [3; 2]%nat (den_k 0%Z 1%Z Z.add Z.mul K) /\
   knormsq_code Z 0%Z Z.add Z.mul K = 82)%Z.
Proof. vm_compute. split; reflexivity. Qed.
