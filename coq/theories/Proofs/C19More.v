(* Proofs/C19More.v — wave 2: mttkrp, collapse, mode arguments, sparse constructor, algorithm options. *)
From Coq Require Import List ZArith Bool Lia Permutation Sorted.
From PV Require Import Np.NpZ Gen.GenUtils Proofs.NpZProofs Proofs.UtilsProofs Model.C19Guards Proofs.C19Proofs Proofs.C19Ttv.
Import ListNotations.
Local Open Scope Z_scope.

(* Python's "mode in range(ndims)" (membership in the enumerated modes) is the two-sided comparison of the precondition *)
Lemma zmem_arange N n : zmem n (np_arange 0 N) = in_range N n.
Proof.
  unfold in_range. destruct (zmem n (np_arange 0 N)) eqn:E.
  - unfold zmem in E. apply existsb_exists in E as (y & Hy & Exy). apply Z.eqb_eq in Exy. subst y.
    apply in_np_arange in Hy. symmetry. apply andb_true_iff. split; [apply Z.leb_le|apply Z.ltb_lt]; lia.
  - symmetry. apply not_true_is_false. intros H. apply andb_true_iff in H as [H0 H1]. apply Z.leb_le in H0. apply Z.ltb_lt in H1.
    assert (Hin : In n (np_arange 0 N)) by (apply in_np_arange; lia).
    assert (Hm : zmem n (np_arange 0 N) = true)
      by (unfold zmem; apply existsb_exists; exists n; split; [assumption|apply Z.eqb_refl]).
    congruence.
Qed.

Theorem mode_decides s n : guard_mode s n = decide (pre_mode s n).
Proof. unfold guard_mode, pre_mode, chk, decide. now rewrite zmem_arange. Qed.

Lemma forallb_and {A} (f g : A -> bool) l : forallb f l && forallb g l = forallb (fun x => f x && g x) l.
Proof.
  induction l as [|x l IH]; [reflexivity|]. cbn. rewrite <- IH.
  destruct (f x), (g x), (forallb f l), (forallb g l); reflexivity.
Qed.

(* the precondition of mttkrp, split into the row and the column requirement *)
Lemma pre_mttkrp_split s us n :
  pre_mttkrp s us n = (2 <=? ndim s) && (zlen us =? ndim s) && in_range (ndim s) n &&
                      (mttkrp_rows_ok s us n && mttkrp_cols_ok (ndim s) us n).
Proof.
  unfold pre_mttkrp, mttkrp_rows_ok, mttkrp_cols_ok, mttkrp_R. cbv zeta. f_equal.
  rewrite forallb_and. apply forallb_ext_in. intros [i u] _. cbn [fst snd].
  destruct (i =? n); reflexivity.
Qed.

Theorem tensor_mttkrp_decides s us n : guard_tensor_mttkrp s us n = decide (pre_mttkrp s us n).
Proof.
  apply decide_by. rewrite pre_mttkrp_split. unfold guard_tensor_mttkrp, guard_mttkrp_factors. cbv zeta. okb.
  rewrite forallb_is_ok_chk. unfold mttkrp_rows_ok.
  destruct (2 <=? ndim s), (zlen us =? ndim s), (in_range (ndim s) n), (forallb _ _), (mttkrp_cols_ok (ndim s) us n); reflexivity.
Qed.

(* collapse: every ill-formed mode list is refused on a tensor that has entries *)
Definition tensor_collapse_stmt : Prop := forall s d, guard_tensor_collapse s d = decide (pre_collapse s d).
Theorem tensor_collapse_refuted : ~ tensor_collapse_stmt.
Proof. intros H. specialize (H [0; 3] [5]). vm_compute in H. discriminate. Qed.
Theorem tensor_collapse_partial s d : zprod s <> 0 -> guard_tensor_collapse s d = decide (pre_collapse s d).
Proof.
  intros Hz. unfold guard_tensor_collapse, pre_collapse. destruct (Z.eqb_spec (zprod s) 0); [contradiction|].
  destruct (modes_ok (ndim s) d) eqn:Hm.
  - apply modes_ok_spec in Hm as [Hr Hn]. rewrite (dimscheck_dims (ndim s) None d); [reflexivity|].
    repeat split; auto; apply Hr; auto.
  - now rewrite dimscheck_rejects_bad_modes.
Qed.

(* sparse constructor (C19-N14 repaired: the lower bound is checked; C19-N16 repaired: an array without rows admits no
   values).  A subscript ARRAY is a list of rows of one length; an array with rows has at least one column (a p x 0 array,
   p > 0, is "an empty array in weird format" to the constructor and is not modelled). *)
Definition rect_array (subs : list vec) : Prop :=
  (forall row, In row subs -> zlen row = zlen (hd [] subs)) /\ (subs <> [] -> hd [] subs <> []).

Lemma sub_ok_split (s row : vec) : zlen row = ndim s ->
  sub_ok s row = forallb (fun x => 0 <=? x) row && forallb (fun p => fst p <? snd p) (combine row s).
Proof.
  intros Hl. unfold sub_ok. rewrite Hl, Z.eqb_refl. cbn [andb]. unfold ndim, zlen in Hl. apply Nat2Z.inj in Hl.
  revert s Hl. induction row as [|x row IH]; intros [|d s] Hl; cbn in Hl; try discriminate; [reflexivity|].
  cbn [combine forallb fst snd]. rewrite IH by congruence. unfold in_range.
  destruct (0 <=? x), (x <? d), (forallb (fun x0 => 0 <=? x0) row); reflexivity.
Qed.

Lemma sptensor_ctor_nonempty s subs nvals :
  subs <> [] -> hd [] subs <> [] ->
  (forall row, In row subs -> zlen row = zlen (hd [] subs)) ->            (* a rectangular array *)
  guard_sptensor_ctor s subs nvals = decide (pre_sptensor_ctor s subs nvals).
Proof.
  intros Hne Hc Hrect. apply decide_by. unfold guard_sptensor_ctor, pre_sptensor_ctor, pre_subs.
  assert (E1 : (zlen subs =? 0) = false) by (apply Z.eqb_neq; destruct subs; [congruence|unfold zlen; cbn; lia]).
  assert (E2 : (zlen (hd [] subs) =? 0) = false) by (apply Z.eqb_neq; destruct (hd [] subs); [congruence|unfold zlen; cbn; lia]).
  unfold vec in *. rewrite E1, E2. cbn [orb]. okb.
  destruct (Z.eqb_spec (zlen (hd [] subs)) (ndim s)) as [E|E]; cbn [andb].
  - rewrite andb_comm. f_equal. rewrite forallb_and. symmetry. apply forallb_ext_in. intros row Hrow.
    apply sub_ok_split. rewrite Hrect by auto. exact E.
  - rewrite !andb_false_r. symmetry. apply andb_false_iff. left.
    destruct subs as [|r0 rest]; [congruence|]. cbn [forallb hd] in *. unfold sub_ok at 1.
    destruct (Z.eqb_spec (zlen r0) (ndim s)); [contradiction|reflexivity].
Qed.

Theorem sptensor_ctor_decides s subs nvals : rect_array subs ->
  guard_sptensor_ctor s subs nvals = decide (pre_sptensor_ctor s subs nvals).
Proof.
  intros [Hrect Hc]. destruct subs as [|r0 rest].
  - apply decide_by. unfold guard_sptensor_ctor, pre_sptensor_ctor. cbn. now rewrite is_ok_chk.
  - apply sptensor_ctor_nonempty; [discriminate|apply Hc; discriminate|exact Hrect].
Qed.

(* algorithm options *)
Lemma guard_dimorder_decides s o : guard_dimorder s o = decide (match o with None => true | Some o => is_permb (ndim s) o end).
Proof. destruct o as [o|]; [apply sorted_perm_decides|reflexivity]. Qed.

Theorem hosvd_decides s ranks dimorder : guard_hosvd s ranks dimorder = decide (pre_hosvd s ranks dimorder).
Proof.
  apply decide_by. unfold guard_hosvd, pre_hosvd. okb. rewrite guard_dimorder_decides, is_ok_decide.
  destruct ranks; okb; reflexivity.
Qed.

(* two lists with one entry per mode that agree on every mode are equal *)
Lemma sz_ext (a b : vec) : zlen a = zlen b -> (forall n, 0 <= n < zlen a -> sz a n = sz b n) -> a = b.
Proof.
  unfold zlen. revert b. induction a as [|x a IH]; intros [|y b] Hl H; cbn in Hl; try lia; [reflexivity|].
  f_equal.
  - specialize (H 0). unfold sz, znth in H. cbn in H. apply H. lia.
  - apply IH; [lia|]. intros n Hn. specialize (H (n + 1)). unfold sz, znth in *.
    destruct (Z.ltb_spec (n + 1) 0); [lia|]. destruct (Z.ltb_spec n 0); [lia|].
    destruct (Z.ltb_spec (n + 1) 0); [lia|]. destruct (Z.ltb_spec n 0); [lia|].
    replace (Z.to_nat (n + 1)) with (S (Z.to_nat n)) in H by lia. cbn [nth] in H. apply H. cbn [length]. lia.
Qed.

Lemma all_modes_agree s ks o : Permutation o (np_arange 0 (ndim s)) -> zlen ks = ndim s ->
  forallb (fun n => sz ks n =? sz s n) o = shape_eqb ks s.
Proof.
  intros Hp Hl. rewrite (forallb_perm _ _ _ Hp). apply eq_iff_eq_true. rewrite forallb_forall, shape_eqb_eq. split.
  - intros H. apply sz_ext; [exact Hl|]. intros n Hn. apply Z.eqb_eq, H, in_np_arange. unfold ndim in *. lia.
  - intros -> n _. apply Z.eqb_refl.
Qed.

Theorem cp_als_decides s rank init dimorder : guard_cp_als s rank init dimorder = decide (pre_cp_als s rank init dimorder).
Proof.
  apply decide_by. unfold guard_cp_als, pre_cp_als. okb. rewrite guard_dimorder_decides, is_ok_decide.
  set (P := match dimorder with None => true | Some o => is_permb (ndim s) o end).
  destruct P eqn:HP; cbn [andb]; [|now rewrite !andb_false_r].
  rewrite andb_true_r. f_equal.
  destruct init as [| | |ks R|ms]; cbn [pre_cp_init is_ok]; try reflexivity.
  okb. rewrite forallb_is_ok_chk.
  destruct (Z.eqb_spec (zlen ks) (ndim s)) as [E|E]; cbn [andb].
  - rewrite all_modes_agree; auto.
    + apply andb_comm.
    + subst P. destruct dimorder as [o|]; [apply is_permb_Permutation; auto; apply ndim_nonneg|reflexivity].
  - symmetry. apply andb_false_iff. left. destruct (shape_eqb ks s) eqn:F; [|reflexivity].
    apply shape_eqb_eq in F. subst. unfold ndim in E. contradiction.
Qed.

(* ---- sptensor.collapse ---- *)
Theorem sptensor_collapse_decides s d : guard_sptensor_collapse s d = decide (pre_collapse s d).
Proof.
  unfold guard_sptensor_collapse, pre_collapse. destruct (modes_ok (ndim s) d) eqn:Hm.
  - apply modes_ok_spec in Hm as [Hr Hn]. rewrite (dimscheck_dims (ndim s) None d); [reflexivity|].
    repeat split; auto; apply Hr; auto.
  - now rewrite dimscheck_rejects_bad_modes.
Qed.

(* ---- ttensor.mttkrp ---- *)
Theorem ttensor_mttkrp_decides s us n : guard_ttensor_mttkrp s us n = decide (pre_mttkrp s us n).
Proof.
  rewrite <- tensor_mttkrp_decides.
  rewrite (res_unit_decide (guard_ttensor_mttkrp s us n)), (res_unit_decide (guard_tensor_mttkrp s us n)). f_equal.
  unfold guard_ttensor_mttkrp, guard_tensor_mttkrp, guard_mttkrp_factors. cbv zeta. okb.
  destruct (2 <=? ndim s), (zlen us =? ndim s), (in_range (ndim s) n), (forallb _ _), (mttkrp_cols_ok (ndim s) us n); reflexivity.
Qed.

(* ---- cp_apr ---- *)
Theorem cp_apr_decides s rank init alg_ok : guard_cp_apr s rank init alg_ok = decide (pre_cp_apr s rank init alg_ok).
Proof.
  apply decide_by. unfold guard_cp_apr, pre_cp_apr. okb. rewrite <- andb_assoc. f_equal. f_equal.
  destruct init as [| | |ks R|ms]; cbn [pre_cp_init is_ok]; try reflexivity.
  okb. rewrite forallb_is_ok_chk.
  destruct (Z.eqb_spec (zlen ks) (ndim s)) as [E|E]; cbn [andb].
  - rewrite all_modes_agree; auto. apply andb_comm.
  - symmetry. apply andb_false_iff. left. destruct (shape_eqb ks s) eqn:F; [|reflexivity].
    apply shape_eqb_eq in F. subst. unfold ndim in E. contradiction.
Qed.

(* ---- tucker_als ---- *)
Lemma tl_perm_filter N o : 0 <= N -> is_permb N o = true ->
  Permutation (tl o) (filter (fun n => negb (n =? match o with f :: _ => f | [] => 0 end)) (np_arange 0 N)).
Proof.
  intros HN H. apply is_permb_Permutation in H; auto.
  destruct o as [|f r]; cbn [tl].
  - apply Permutation_nil in H. rewrite H. constructor.
  - assert (Hnd : NoDup (f :: r)) by (eapply Permutation_NoDup; [apply Permutation_sym; exact H|apply np_arange_NoDup]).
    inversion Hnd as [|? ? Hnotin Hr]; subst.
    apply NoDup_Permutation; auto.
    + apply NoDup_filter, np_arange_NoDup.
    + intros x. rewrite filter_In, negb_true_iff, Z.eqb_neq. split.
      * intros Hx. split; [eapply Permutation_in; [exact H|now right]|]. intros ->. contradiction.
      * intros [Hx Hne]. apply (Permutation_in _ (Permutation_sym H)) in Hx. destruct Hx; [congruence|auto].
Qed.

Lemma arange_hd N : 0 < N -> exists r, np_arange 0 N = 0 :: r.
Proof.
  intros H. unfold np_arange. rewrite Z.sub_0_r. destruct (Z.to_nat N) eqn:E; [lia|]. cbn. eauto.
Qed.

Lemma tl_arange_filter N : 0 <= N -> Permutation (tl (np_arange 0 N)) (filter (fun n => negb (n =? 0)) (np_arange 0 N)).
Proof.
  intros HN. destruct (Z.eq_dec N 0) as [E0|E0]; [subst; cbn; constructor|].
  assert (T := tl_perm_filter N (np_arange 0 N) HN (Permutation_is_permb N _ HN (Permutation_refl _))).
  destruct (arange_hd N) as [r Hr]; [lia|]. rewrite Hr in *. exact T.
Qed.

Theorem tucker_als_decides s ranks init dimorder maxiters :
  guard_tucker_als s ranks init dimorder maxiters = decide (pre_tucker_als s ranks init dimorder maxiters).
Proof.
  pose proof (ndim_nonneg s) as HN.
  apply decide_by. unfold guard_tucker_als, pre_tucker_als, tucker_ranks. okb. rewrite guard_dimorder_decides, is_ok_decide.
  unfold vec in *. set (rk := if zlen ranks =? 1 then np_full (ndim s) (sz ranks 0) else ranks).
  set (P := match dimorder with None => true | Some o => is_permb (ndim s) o end).
  destruct (0 <=? maxiters); cbn [andb]; [|now rewrite andb_false_r].
  rewrite andb_true_r. destruct (zlen rk =? ndim s); cbn [andb]; [|reflexivity].
  destruct P eqn:HP; cbn [andb]; [|reflexivity].
  destruct init as [| | |ks R|ms]; cbn [is_ok]; try reflexivity.
  okb. f_equal. rewrite forallb_is_ok_chk. unfold factors_fit.
  apply forallb_perm. subst P.
  destruct dimorder as [o|].
  - destruct o as [|f r]; apply (tl_perm_filter (ndim s)); auto.
  - apply tl_arange_filter; auto.
Qed.
