(* Model/W4SHarnessPdnr.v — REPLAY instantiation of the generated control-flow skeleton Gen/GenCpAprPdnr.v (wave 7): the Section
   parameters (numeric kernels) are look-ups in the oracle answers RECORDED from a real pyttb run (tools/props/w4s_c11b.py wraps
   calc_partials / tt_linesearch_prowsubprob the way tools/props/c11_trace.py does and notes the position read from the calling frame).
   Tokens: the model is the number of M.normalize(mode=n) calls so far (= iteration * N + n inside a mode), a row is its position
   (that number, row, inner iteration): the KKT violation and the number of function evaluations of the line search are looked up by
   position; empty data rows come from the data; the clock stands still.  Used by the differential stream (vm_compute) + one Example. *)
From Coq Require Import String List Arith Bool ZArith.
From PV Require Import Model.W4SPrelude Gen.GenCpAprPdnr Model.W4SHarnessBase.
Import ListNotations.
Local Open Scope nat_scope.

Definition pdnr_mem (x : nat * nat) (l : list (nat * nat)) : bool :=
  existsb (fun y => (fst x =? fst y) && (snd x =? snd y)) l.

Fixpoint pdnr_look (tab : list ((nat * nat * nat) * (Z * nat))) (k : nat * nat * nat) : Z * nat :=
  match tab with
  | [] => (0%Z, 0)
  | (k', v) :: tab' =>
      let '(a, b, c) := k in let '(a', b', c') := k' in
      if (a =? a') && (b =? b') && (c =? c') then v else pdnr_look tab' k
  end.

Definition zsk_pdnr_gen (stoptime : Z) (tab : list ((nat * nat * nat) * (Z * nat))) (empt : list (nat * nat)) (shape : list nat) (tols : list Z) (sparse : bool)
    (N maxiters maxinner : nat) (stoptol : Z) (precomp inexact : bool) (printitn : nat) :=
  GenCpAprPdnr.cp_apr_pdnr
    nat
    Z
    nat
    bool
    unit
    nat
    (nat * nat)%type
    (nat * nat * nat)%type
    Z.leb
    0%Z
    (-1)%Z
    Z.sub
    (fun m _ => m)
    (fun x : bool => x)
    (fun w : nat => (w, 0%Z))
    (fun _ n => nth n shape 0)
    (fun _ n jj => (n, jj))
    (fun _ => (0, 0, 0))
    (fun m _ => m)
    (fun x : bool => negb x)
    (fun _ _ _ _ _ _ => tt)
    (fun _ n => n)
    (fun ix => pdnr_mem ix empt)
    (fun m _ _ => m)
    (fun _ ix => (fst ix, snd ix, 0))
    (fun _ _ _ _ _ _ _ => tt)
    (fun m _ jj => (m, jj, 0))
    (fun _ _ _ _ m => (m, m))
    (fun _ ph => ph)
    (fun m _ => fst (pdnr_look tab m))
    (fun _ _ _ _ m _ _ => (m, 0%Z))
    (fun _ _ m _ _ _ _ _ => (let '(p, jj, i) := m in (p, jj, S i), 0%Z, 0%Z, snd (pdnr_look tab m)))
    (fun _ _ => 0%Z)
    (fun _ => false)
    (fun m => m)
    (fun _ => false)
    (fun m => m)
    (fun _ => false)
    (fun m => m)
    (fun m _ _ _ => m)
    (fun xm jj => (xm, jj, 0))
    (fun r => negb (pdnr_mem (fst (fst r), snd (fst r)) empt))
    (fun m _ _ => S m)
    (fun _ _ => 0)
    (fun l => fold_right Z.max 0%Z l)
    (fun _ _ it => nth it tols 0%Z)
    (fun it p => (it mod p =? 0))
    (fun _ _ => 0%Z)
    (fun m _ _ => m)
    (fun _ _ => 0%Z)
    0 sparse 1 0 stoptol stoptime maxiters maxinner 0%Z printitn 0 0%Z 0%Z precomp inexact N.

(* the stream's instantiation: the time limit is never reached (every time stamp is 0, stoptime = 1) *)
Definition zsk_pdnr := zsk_pdnr_gen 1%Z.

Definition zsk_pdnr_ok tab empt shape tols sparse N maxiters maxinner stoptol precomp inexact printitn
    (kkt_obs : list Z) (ninner_obs fnev_obs : list nat) : bool :=
  match zsk_pdnr tab empt shape tols sparse N maxiters maxinner stoptol precomp inexact printitn with
  | None => false
  | Some (_, (kkt, _, fnev, fnv, ninner, nz, times, _), _) =>
      list_eqb Z.eqb kkt kkt_obs && list_eqb Nat.eqb ninner ninner_obs && list_eqb Nat.eqb fnev fnev_obs &&
      (length fnv =? length kkt_obs) && (length nz =? length kkt_obs) && (length times =? length kkt_obs)
  end.

(* the source raises (NameError: `iteration` for maxiters = 0, `i` for maxinneriters = 0 on a non-empty row) *)
Definition zsk_pdnr_raises tab empt shape tols sparse N maxiters maxinner stoptol precomp inexact printitn : bool :=
  match zsk_pdnr tab empt shape tols sparse N maxiters maxinner stoptol precomp inexact printitn with None => true | Some _ => false end.

(* non-vacuity: a concrete run of the generated function.  One mode pair of 2 rows each, row (1, 1) empty; iteration 0: row (0,0) needs one
   step (2 evaluations), every other row converges at once; iteration 1: everything converges at once -> exit *)
Example zsk_pdnr_example :
  zsk_pdnr [((0, 0, 0), (5%Z, 2)); ((0, 0, 1), (0%Z, 0))] [(1, 1)] [2; 2] [0; 0]%Z false 2 5 3 1%Z true false 0
  = Some (4, ([5; 0]%Z, 0%Z, [2; 0], [0; 0]%Z, [1; 0], [0; 0], [0; 0]%Z, 0%Z), 0).
Proof. vm_compute. reflexivity. Qed.

(* boundary decisions of the source, pinned over the regenerated text on every run *)
Example zsk_pdnr_kkt_boundary :           (* a row KKT violation EQUAL to stoptol is not converged (`kkt_violation < stoptol`): the line search runs *)
  zsk_pdnr [((0, 0, 0), (1%Z, 2))] [] [1; 1] [0]%Z false 2 1 3 1%Z false false 0
  = Some (2, ([1]%Z, 0%Z, [2], [0]%Z, [1], [0], [0]%Z, 0%Z), 0).
Proof. vm_compute. reflexivity. Qed.

Example zsk_pdnr_inexact_boundary :       (* inexact: a row tolerance EQUAL to stoptol ends the run once converged (`rowsubprobStopTol <= stoptol`) *)
  zsk_pdnr [] [] [1; 1] [1; 1; 1]%Z true 2 3 3 1%Z true true 0
  = Some (2, ([0]%Z, 0%Z, [0], [0]%Z, [0], [0], [0]%Z, 0%Z), 0).
Proof. vm_compute. reflexivity. Qed.

Example zsk_pdnr_inexact_goes_on :        (* inexact: converged, but the row tolerance is still above stoptol: the run goes on to the iteration limit *)
  zsk_pdnr [] [] [1; 1] [2; 2; 2]%Z true 2 3 3 1%Z true true 0
  = Some (6, ([0; 0; 0]%Z, 0%Z, [0; 0; 0], [0; 0; 0]%Z, [0; 0; 0], [0; 0; 0], [0; 0; 0]%Z, 0%Z), 0).
Proof. vm_compute. reflexivity. Qed.

Example zsk_pdnr_time_boundary :          (* a time stamp EQUAL to stoptime does not end the run (`times[iteration] > stoptime`) ... *)
  zsk_pdnr_gen 0%Z [((0, 0, 0), (5%Z, 1)); ((2, 0, 0), (5%Z, 1))] [] [1; 1] [0; 0]%Z false 2 2 1 1%Z false false 0
  = Some (4, ([5; 5]%Z, 0%Z, [1; 1], [0; 0]%Z, [0; 0], [0; 0], [0; 0]%Z, 0%Z), 0).
Proof. vm_compute. reflexivity. Qed.

Example zsk_pdnr_time_limit :             (* ... a later one does, although the sweep has not converged *)
  zsk_pdnr_gen (-1)%Z [((0, 0, 0), (5%Z, 1)); ((2, 0, 0), (5%Z, 1))] [] [1; 1] [0; 0]%Z false 2 2 1 1%Z false false 0
  = Some (2, ([5]%Z, 0%Z, [1], [0]%Z, [0], [0], [0]%Z, 0%Z), 0).
Proof. vm_compute. reflexivity. Qed.

Example zsk_pdnr_inexact_second_iteration :   (* inexact and iteration == 1: two inner iterations whatever maxinneriters says *)
  zsk_pdnr [((0, 0, 0), (5%Z, 1)); ((2, 0, 0), (5%Z, 1)); ((2, 0, 1), (5%Z, 1))] [] [1; 1] [2; 2]%Z false 2 2 1 1%Z false true 0
  = Some (4, ([5; 5]%Z, 0%Z, [1; 2], [0; 0]%Z, [0; 1], [0; 0], [0; 0]%Z, 0%Z), 0).
Proof. vm_compute. reflexivity. Qed.

Example zsk_pdnr_no_iteration : zsk_pdnr [] [] [1; 1] []%Z false 2 0 3 1%Z false false 0 = None.      (* NameError: iteration *)
Proof. vm_compute. reflexivity. Qed.
