(* Model/C01Harness.v — Z instances of the C01 conversions and boolean comparers for the generated cases. *)
From Coq Require Import List ZArith Bool Arith.
From PV Require Import Base.Index Base.Perm Base.Sum Np.Array Model.Sparse Model.Repr Model.Harness Model.C07Ops
  Model.C07Harness Model.C01Conv Model.C01Ttm.
Import ListNotations.

Definition zto_tenmat := to_tenmat_req 0%Z.
Definition zto_sptenmat := @to_sptenmat_req Z.
Definition zden_tm := den_tenmat 0%Z.
Definition zden_stm := den_sptenmat 0%Z.

Definition tm_eqb (A B : tenmat Z) : bool :=
  dense_eqb (tm_data A) (tm_data B) && nvec_eqb (tm_r A) (tm_r B) && nvec_eqb (tm_c A) (tm_c B) &&
  nvec_eqb (tm_tshape A) (tm_tshape B).
(* the observed matrix holds tensor T: entry (sub2ind r-part, sub2ind c-part) = T[i] for every i *)
Definition tm_denotes (M : tenmat Z) (T : dense Z) : bool :=
  nvec_eqb (tm_tshape M) (dshape T) && wf_denseb (tm_data M) &&
  nvec_eqb (dshape (tm_data M)) [size (pick 0 (tm_r M) (dshape T)); size (pick 0 (tm_c M) (dshape T))] &&
  all_subs_ok (dshape T) (zden_tm M) (zden T).
(* model vs observation, plus the spec evaluated on the observation itself, plus the round trip *)
Definition tm_ok (m : option (tenmat Z)) (o : option (tenmat Z)) (T : dense Z) (back : dense Z) : bool :=
  match m, o with
  | Some a, Some b => tm_eqb a b && tm_denotes b T && dense_eqb (tenmat_to_tensor 0%Z a) back && dense_eqb back T
  | None, None => true
  | _, _ => false
  end.

Definition stm_same (A B : sptenmat Z) : bool :=
  sp_same (stm_sp A) (stm_sp B) && nvec_eqb (stm_r A) (stm_r B) && nvec_eqb (stm_c A) (stm_c B) &&
  nvec_eqb (stm_tshape A) (stm_tshape B).
Definition stm_denotes (M : sptenmat Z) (S : sparse Z) : bool :=
  wf_spb zisz (stm_sp M) && Nat.eqb (length (stm_subs M)) (nnz S) &&
  all_subs_ok (sshape S) (zden_stm M) (zden_sp S).
(* oshape / onnz: what the object itself reports *)
Definition stm_ok (m o : option (sptenmat Z)) (S : sparse Z) (oshape : list nat) (onnz : nat) : bool :=
  match m, o with
  | Some a, Some b => stm_same a b && stm_denotes b S && nvec_eqb oshape (stm_shape a) && Nat.eqb onnz (nnz S)
  | None, None => true
  | _, _ => false
  end.
Definition stm_back_ok (m : option (sptenmat Z)) (S : sparse Z) (back : option (sparse Z)) : bool :=
  match m, back with
  | Some a, Some b => sp_same (sptenmat_to_sptensor a) b && sp_same S b
  | None, None => true
  | _, _ => false
  end.
Definition stm_full_ok (m : option (sptenmat Z)) (S : sparse Z) (o : option (tenmat Z)) : bool :=
  match m, o with
  | Some a, Some b => tm_eqb (sptenmat_full 0%Z a) b && tm_denotes b (full 0%Z S)
  | None, None => true
  | _, _ => false
  end.

(* Kruskal / Tucker / sum to dense *)
Definition zk_spec := ktensor_full_spec 0%Z 1%Z Z.add Z.mul.
Definition zk_at := ktensor_full_at 0%Z Z.add Z.mul.
(* kfull_ok: below, over the code with the rank-0 branch (Model/C01W3.v ktensor_full_code) *)
Definition zt_full := ttensor_full 0%Z Z.add Z.mul.
(* pyttb's own route: tensor.ttm (permute / reshape / matmul) mode by mode — Model/C01Ttm.v over Model/C02Dense.v *)
Definition zt_full_impl := C01Ttm.ttensor_full_impl 0%Z Z.add Z.mul.
Definition tfull_ok (T : ttensor Z) (o : option (dense Z)) : bool :=
  match o with
  | Some d => den_matches (tshape T) (zden_t T) d && dense_eqb (zt_full T) d && dense_eqb (zt_full_impl T) d
  | None => false
  end.
Definition zpart_den := part_den 0%Z 1%Z Z.add Z.mul.
Definition zsum_full := sum_full 0%Z 1%Z Z.add Z.mul.
Definition sumfull_ok (parts : list (part Z)) (s : shape) (o : option (dense Z)) : bool :=
  match o, zsum_full parts with
  | Some d, Some m => den_matches s (den_sum 0%Z Z.add (map zpart_den parts)) d && dense_eqb m d
  | None, None => true
  | _, _ => false
  end.

(* ---------------------------------------------------------------- constructors, stored order (Model/C01Unique.v) *)
From PV Require Import Model.C01Unique.
Definition zstm_ctor := stm_ctor Z.add zisz.
Definition ztm_ctor := @tm_ctor Z.
Definition zto_sptenmat_sorted := to_sptenmat_sorted_req Z.add zisz.

(* raw comparison: the triples in the order they are stored *)
Definition stm_raw_eqb (A B : sptenmat Z) : bool :=
  nmat_eqb (stm_subs A) (stm_subs B) && vec_eqb (stm_vals A) (stm_vals B) && nvec_eqb (stm_r A) (stm_r B) &&
  nvec_eqb (stm_c A) (stm_c B) && nvec_eqb (stm_tshape A) (stm_tshape B).

(* sptensor.to_sptenmat: the unsorted model against the observation on denotation / well-formedness / nnz (stm_ok) AND the
   model with the constructor's unique + accumulate step against the observation, triple by triple in stored order *)
Definition stm_sorted_ok (ms o : option (sptenmat Z)) : bool := opt_eqb stm_raw_eqb ms o && 
  match o with Some b => ssortedb (stm_subs b) | None => true end.

(* tenmat(data, rdims, cdims, tshape): accept / reject / empty as the guard model predicts; an accepted object converts back
   (to_tensor) and forth (to_tenmat with its own rindices / cindices) as the model does, with the same data list *)
Definition tm_ctor_ok (m : ctor_res (tenmat Z)) (o : option (tenmat Z)) (back : option (dense Z)) (again : option (tenmat Z)) : bool :=
  match m, o with
  | CtorReject, None => true
  | CtorEmpty, Some b => tm_eqb (mkTM (mkDense [1; 0] []) [] [] []) b
  | CtorOk a, Some b =>
      tm_eqb a b &&
      match back, again with
      | Some T, Some a2 =>
          dense_eqb (tenmat_to_tensor 0%Z a) T &&
          opt_eqb tm_eqb (to_tenmat 0%Z T (tm_r a) (tm_c a)) (Some a2) &&
          vec_eqb (ddata (tm_data a2)) (ddata (tm_data a)) && nvec_eqb (dshape (tm_data a2)) (tm_rc a)
      | _, _ => false
      end
  | _, _ => false
  end.

(* sptenmat(subs, vals, rdims, cdims, tshape): accept / reject as the guard model predicts; stored triples equal to the
   transliterated unique + accumulate + nonzero; to_sptensor and to_sptenmat again give the model's objects *)
Definition stm_ctor_ok (m o : option (sptenmat Z)) (back : option (sparse Z)) (again : option (sptenmat Z)) : bool :=
  match m, o with
  | None, None => true
  | Some a, Some b =>
      stm_raw_eqb a b && ssortedb (stm_subs b) && wf_spb zisz (stm_sp b) &&
      match back, again with
      | Some Sp, Some a2 => sp_raw_eqb (sptenmat_to_sptensor a) Sp && stm_raw_eqb a a2
      | _, _ => false
      end
  | _, _ => false
  end.

(* ---------------------------------------------------------------- scipy views, from_array (Model/C01Coo.v) *)
From PV Require Import Model.C01Coo.
Definition zcoo_toarray := coo_toarray 0%Z Z.add.
Definition coo_raw_eqb (A B : coo Z) : bool :=
  nvec_eqb (coo_shape A) (coo_shape B) && nmat_eqb (coo_subs A) (coo_subs B) && vec_eqb (coo_data A) (coo_data B).
(* spmatrix(): the coo triples as stored and the array scipy makes of them *)
Definition spmatrix_ok (S : sparse Z) (o : option (coo Z)) (arr : dense Z) : bool :=
  match spmatrix S, o with
  | Some C, Some C' => coo_raw_eqb C C' && dense_eqb (zcoo_toarray C) arr && dense_eqb (full 0%Z S) arr
  | None, None => true
  | _, _ => false
  end.
(* sptenmat.double() of the observed sptenmat b *)
Definition stm_double_ok (b : sptenmat Z) (C' : coo Z) (arr : dense Z) : bool :=
  coo_raw_eqb (stm_double b) C' && dense_eqb (zcoo_toarray (stm_double b)) arr && dense_eqb (tm_data (sptenmat_full 0%Z b)) arr.
Definition zfrom_array_dense := from_array_dense 0%Z Z.add zisz.
Definition zfrom_array_coo := from_array_coo Z.add zisz.
(* from_array: stored triples as the model's, and the sptenmat denotes the given matrix *)
Definition from_array_ok (m o : option (sptenmat Z)) (A : dense Z) : bool :=
  match m, o with
  | Some a, Some b => stm_raw_eqb a b && 
      forallb (fun k => (zden_sp (stm_sp b) (ind2sub (dshape A) k) =? nth k (ddata A) 0)%Z) (seq 0 (size (dshape A)))
  | None, None => true
  | _, _ => false
  end.

(* ---------------------------------------------------------------- third wave (Model/C01W3.v) *)
From PV Require Import Model.C01W3.
(* ktensor.full as the code is (rank-0 branch of /repo d9f07bf, single-mode branch, min_split_dims route) *)
Definition zk_impl := ktensor_full_code 0%Z Z.add Z.mul.
(* single behaviour: the transliterated algorithm, the specification and pyttb's result coincide as data lists *)
Definition kfull_ok (K : ktensor Z) (o : option (dense Z)) : bool :=
  match o, zk_impl K with
  | Some d, Some d' => dense_eqb (zk_spec K) d && dense_eqb d' d
  | _, _ => false
  end.
Definition zstm_ctor_nocopy := @stm_ctor_nocopy Z.
(* sptenmat(..., copy=False): accept / reject as the guards predict; the stored triples are the arguments as given;
   to_sptensor and full give the model's objects (raw) *)
Definition stm_nocopy_ok (m o : option (sptenmat Z)) (back : option (sparse Z)) (fl : option (tenmat Z)) : bool :=
  match m, o with
  | None, None => true
  | Some a, Some b =>
      stm_raw_eqb a b &&
      match back, fl with
      | Some Sp, Some F => sp_raw_eqb (sptenmat_to_sptensor a) Sp && tm_eqb (sptenmat_full 0%Z a) F
      | _, _ => false
      end
  | _, _ => false
  end.
(* to_sptenmat of a sparse tensor that may store zeros: stored triples as the transliterated constructor gives them
   (sorted, summed, zeros dropped), well-formed, reported shape, and the same array at every position *)
Definition stm_z_ok (ms : option (sptenmat Z)) (b : sptenmat Z) (S : sparse Z) (oshape : list nat) : bool :=
  opt_eqb stm_raw_eqb ms (Some b) && ssortedb (stm_subs b) && wf_spb zisz (stm_sp b) && nvec_eqb oshape (stm_shape b) &&
  all_subs_ok (sshape S) (zden_stm b) (zden_sp S).
(* the stored entries of A are those of B (subscripts distinct) *)
Definition sp_perm_eqb (A B : sparse Z) : bool :=
  nvec_eqb (sshape A) (sshape B) && Nat.eqb (length (ssubs A)) (length (ssubs B)) &&
  Nat.eqb (length (svals A)) (length (svals B)) &&
  forallb (fun e => existsb (fun f => nvec_eqb (fst e) (fst f) && Z.eqb (snd e) (snd f)) (combine (ssubs B) (svals B)))
          (combine (ssubs A) (svals A)).
(* large extents: no enumeration of positions — the triples against the model in stored order, and the way back *)
Definition stm_big_ok (ms : option (sptenmat Z)) (b : sptenmat Z) (oshape : list nat) (S back : sparse Z) : bool :=
  opt_eqb stm_raw_eqb ms (Some b) && ssortedb (stm_subs b) && nvec_eqb oshape (stm_shape b) &&
  sp_raw_eqb (sptenmat_to_sptensor b) back && sp_perm_eqb S back.
(* ttensor.full with a sparse core as the code runs it *)
Definition zt_full_spcore := ttensor_full_spcore 0%Z Z.add Z.mul zisz.
Definition tfull_sp_ok (G : sparse Z) (Us : list (list (list Z))) (o : option (dense Z)) : bool :=
  opt_eqb dense_eqb (zt_full_spcore G Us) o.
(* ktensor.to_tenmat / double as the code composes them *)
Definition zk_to_tenmat := ktensor_to_tenmat 0%Z Z.add Z.mul.
Definition zk_double := ktensor_double 0%Z Z.add Z.mul.
Definition zt_double := ttensor_double 0%Z Z.add Z.mul.
Definition zsum_double := sum_double 0%Z 1%Z Z.add Z.mul.

(* ---------------------------------------------------------------- fourth wave (Model/C01W4.v) *)
From PV Require Import Model.C01W4.
(* sumtensor.full / double as executed: every part densified by its own code route, shapes compared, data added *)
Definition zsum_full_code := sum_full_code 0%Z Z.add Z.mul zisz.
Definition zsum_double_code := sum_double_code 0%Z Z.add Z.mul zisz.
Definition sumfull_code_ok (parts : list (part4 Z)) (o : option (dense Z)) : bool :=
  opt_eqb dense_eqb (zsum_full_code parts) o && opt_eqb dense_eqb (zsum_double_code parts) o.
