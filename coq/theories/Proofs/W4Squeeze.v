(* Proofs/W4Squeeze.v — bridge Gen.sptensor_squeeze = H_squeeze (Gen/GenSptensor4b.v, regenerated from
   /repo/pyttb/sptensor.py) and laws: the result keeps exactly the sizes > 1; the all-singleton case returns the single
   stored value (0 when nothing is stored). *)
From Coq Require Import List ZArith Arith Bool Lia.
From PV Require Import Np.NpZ Np.NpZ2 Np.NpZ3 Np.NpZ3c Np.NpZ3d Np.NpZ3e Np.NpZ4 Np.NpZ4b Np.NpZ4d Np.NpZ4f Proofs.NpZProofs
  Model.W4Squeeze Proofs.W4Loops Gen.GenSptensor4b.
Import ListNotations.
Local Open Scope Z_scope.

(* l[np.where(mask(l))] = the entries that pass, for a mask computed entry-wise *)
Lemma take_where_from (P : Z -> bool) (pre l : vec) :
  np_take 0 (pre ++ l) (where_from (zlen pre) (map P l)) = filter P l /\
  np_take_ok (pre ++ l) (where_from (zlen pre) (map P l)) = true.
Proof.
  revert pre. induction l as [|x l IH]; intros pre; cbn [map where_from filter]; [split; reflexivity|].
  destruct (IH (pre ++ [x])) as [I1 I2]. rewrite <- app_assoc in I1, I2. cbn [app] in I1, I2.
  replace (zlen (pre ++ [x])) with (zlen pre + 1) in I1, I2 by (unfold zlen; rewrite app_length; cbn [length]; lia).
  destruct (P x).
  - unfold np_take, np_take_ok in *. cbn [map forallb]. split.
    + f_equal; [|exact I1]. unfold zlen. rewrite znth_nat. apply nth_middle.
    + rewrite I2. rewrite andb_true_r. apply w4_idx_ok_range. unfold zlen. rewrite app_length. cbn [length]. lia.
  - split; assumption.
Qed.

Lemma take_where (P : Z -> bool) (l : vec) :
  np_take 0 l (np_where1 (map P l)) = filter P l /\ np_take_ok l (np_where1 (map P l)) = true.
Proof. exact (take_where_from P [] l). Qed.

Lemma np_all_map (P : Z -> bool) (l : vec) : np_all (map P l) = forallb P l.
Proof. unfold np_all. induction l as [|x l IH]; cbn [map forallb]; [reflexivity|]. now rewrite IH. Qed.

(* ---- the bridge, for BOTH source texts (wave 6) -------------------------------------------------------------------
   The generated method tests the sizes entry by entry with `shapeArray > 1` (/repo before f390850) or with
   `shapeArray != 1` (after it).  One proof script serves both: it is run with the test the text uses. *)
Ltac sq_bridge P :=
  let self := fresh "self" in let T1 := fresh "T1" in let T2 := fresh "T2" in
  intros self; unfold sptensor_squeeze, H_squeeze_p, H_keep_p, spt_make; try unfold np_gt_s; try unfold np_ne_s; cbv zeta;
  rewrite (np_all_map P); destruct (forallb _ (spt_shape self)); [reflexivity|];
  destruct (take_where P (spt_shape self)) as [T1 T2]; rewrite T1, T2;
  destruct (zlen (np_where1 _) =? 0);
  [ destruct (spt_vals self) as [|v [|v' vs]]; [reflexivity|reflexivity|];
    unfold zlen; cbn [length]; replace (Z.of_nat (S (S (length vs))) >? 0) with true by (symmetry; apply Z.gtb_lt; lia);
    replace (Z.of_nat (S (S (length vs))) =? 1) with false by (symmetry; apply Z.eqb_neq; lia); reflexivity
  | destruct (zlen (spt_vals self) =? 0); reflexivity ].

(* the generated method IS the reference, instantiated with the test its text uses: exactly one of the two *)
Theorem squeeze_bridge_text :
  (forall self : sptz, sptensor_squeeze self = H_squeeze_p (fun d => d >? 1) self) \/
  (forall self : sptz, sptensor_squeeze self = H_squeeze_p (fun d => negb (d =? 1)) self).
Proof. first [ left; sq_bridge (fun d : Z => d >? 1) | right; sq_bridge (fun d : Z => negb (d =? 1)) ]. Qed.

(* which text?  Observed on the generated method itself: an empty tensor of shape (0, 1).  `> 1` keeps no mode and returns
   the number 0; `!= 1` keeps the mode of size 0 and returns the empty tensor of shape (0,). *)
Definition gen_sq_keeps_zero : bool :=
  match sptensor_squeeze (mkspt [] [] [0; 1]) with Ok (SqTensor _) => true | _ => false end.
(* the entry-wise test of the generated text *)
Definition gen_sq_keep (d : Z) : bool := if gen_sq_keeps_zero then negb (d =? 1) else d >? 1.

Lemma gen_sq_keep_pos (d : Z) : 0 < d -> gen_sq_keep d = (d >? 1).
Proof. intros H. unfold gen_sq_keep. destruct gen_sq_keeps_zero; [exact (sq_keep_agree d H)|reflexivity]. Qed.
Lemma gen_sq_keep_one : gen_sq_keep 1 = false.
Proof. unfold gen_sq_keep. destruct gen_sq_keeps_zero; reflexivity. Qed.
Lemma gen_sq_keep_zero : gen_sq_keep 0 = gen_sq_keeps_zero.
Proof. unfold gen_sq_keep. destruct gen_sq_keeps_zero; reflexivity. Qed.

Lemma squeeze_text_gt : (forall self : sptz, sptensor_squeeze self = H_squeeze_p (fun d => d >? 1) self) -> gen_sq_keeps_zero = false.
Proof. intros H. unfold gen_sq_keeps_zero. rewrite H. reflexivity. Qed.
Lemma squeeze_text_ne : (forall self : sptz, sptensor_squeeze self = H_squeeze_p (fun d => negb (d =? 1)) self) -> gen_sq_keeps_zero = true.
Proof. intros H. unfold gen_sq_keeps_zero. rewrite H. reflexivity. Qed.

(* THE bridge: exact on either text *)
Theorem squeeze_bridge (self : sptz) : sptensor_squeeze self = H_squeeze_p gen_sq_keep self.
Proof.
  destruct squeeze_bridge_text as [H|H]; rewrite H; unfold gen_sq_keep;
    [rewrite (squeeze_text_gt H)|rewrite (squeeze_text_ne H)]; reflexivity.
Qed.
(* the two readings, each under the observation that selects it *)
Theorem squeeze_bridge_gt : gen_sq_keeps_zero = false -> forall self : sptz, sptensor_squeeze self = H_squeeze self.
Proof. intros E self. rewrite squeeze_bridge. unfold gen_sq_keep, H_squeeze. rewrite E. reflexivity. Qed.
Theorem squeeze_bridge_ne : gen_sq_keeps_zero = true -> forall self : sptz, sptensor_squeeze self = H_squeeze_ne self.
Proof. intros E self. rewrite squeeze_bridge. unfold gen_sq_keep, H_squeeze_ne. rewrite E. reflexivity. Qed.
(* on a receiver whose sizes are all positive both texts are the wave-4 reference *)
Theorem squeeze_bridge_pos (self : sptz) : forallb (fun d => 0 <? d) (spt_shape self) = true -> sptensor_squeeze self = H_squeeze self.
Proof.
  intros H. rewrite squeeze_bridge. apply H_squeeze_p_ext. intros d Hd. rewrite forallb_forall in H. specialize (H d Hd).
  apply Z.ltb_lt in H. exact (gen_sq_keep_pos d H).
Qed.

(* ---- laws of the reference, for any entry-wise test ------------------------------------------------------------------ *)
Lemma forallb_filter_id (P : Z -> bool) (l : vec) : forallb P l = true -> filter P l = l.
Proof.
  induction l as [|d s IH]; [reflexivity|]. cbn [forallb filter]. intros E. apply andb_true_iff in E as [E1 E2].
  rewrite E1. f_equal. apply IH. exact E2.
Qed.

(* a returned tensor keeps exactly the mode sizes that pass the test, in their order *)
Theorem H_squeeze_p_shape (keep : Z -> bool) (self t : sptz) : H_squeeze_p keep self = Ok (SqTensor t) ->
  spt_shape t = filter keep (spt_shape self) /\ spt_vals t = spt_vals self.
Proof.
  unfold H_squeeze_p. cbv zeta. destruct (forallb _ (spt_shape self)) eqn:Ea.
  - destruct (spt_make_ok _ _ _); [|discriminate]. intros E. injection E as <-. split; [|reflexivity].
    symmetry. apply forallb_filter_id. exact Ea.
  - destruct (zlen (H_keep_p _ _) =? 0).
    + destruct (spt_vals self) as [|v [|v' vs]]; discriminate.
    + destruct (zlen (spt_vals self) =? 0) eqn:Ev.
      * destruct (spt_make_ok _ _ _); [|discriminate]. intros E. injection E as <-. cbn [spt_shape spt_vals]. split; [reflexivity|].
        apply Z.eqb_eq in Ev. destruct (spt_vals self); [reflexivity|unfold zlen in Ev; cbn in Ev; lia].
      * destruct (_ && _); [|discriminate]. intros E. injection E as <-. split; reflexivity.
Qed.

(* a number is returned exactly when no mode passes the test: the single stored value, or 0 when nothing is stored *)
Theorem H_squeeze_p_scalar (keep : Z -> bool) (self : sptz) (v : Z) : H_squeeze_p keep self = Ok (SqScalar v) ->
  filter keep (spt_shape self) = [] /\ (spt_vals self = [v] \/ (spt_vals self = [] /\ v = 0)).
Proof.
  unfold H_squeeze_p, H_keep_p. cbv zeta. destruct (forallb _ (spt_shape self)).
  - destruct (spt_make_ok _ _ _); discriminate.
  - destruct (take_where keep (spt_shape self)) as [T1 T2].
    destruct (zlen (np_where1 _) =? 0) eqn:Ez.
    + intros E. split.
      * rewrite <- T1. apply Z.eqb_eq in Ez. destruct (np_where1 _); [reflexivity|unfold zlen in Ez; cbn in Ez; lia].
      * destruct (spt_vals self) as [|w [|w' ws]]; [right|left|discriminate]; injection E as <-; auto.
    + destruct (zlen (spt_vals self) =? 0); [destruct (spt_make_ok _ _ _)|destruct (_ && _)]; discriminate.
Qed.

(* ---- the same laws for the generated method (test = the one of its text) --------------------------------------------- *)
Theorem gen_squeeze_shape (self t : sptz) : sptensor_squeeze self = Ok (SqTensor t) ->
  spt_shape t = filter gen_sq_keep (spt_shape self) /\ spt_vals t = spt_vals self.
Proof. rewrite squeeze_bridge. apply H_squeeze_p_shape. Qed.

Theorem gen_squeeze_scalar (self : sptz) (v : Z) : sptensor_squeeze self = Ok (SqScalar v) ->
  filter gen_sq_keep (spt_shape self) = [] /\ (spt_vals self = [v] \/ (spt_vals self = [] /\ v = 0)).
Proof. rewrite squeeze_bridge. apply H_squeeze_p_scalar. Qed.

(* positive sizes (every tensor pyttb itself builds from data): the statements of waves 4/5, on either text *)
Lemma filter_keep_pos (l : vec) : forallb (fun d => 0 <? d) l = true -> filter gen_sq_keep l = filter (fun d => d >? 1) l.
Proof.
  intros H. apply filter_ext_in. intros d Hd. rewrite forallb_forall in H. specialize (H d Hd). apply Z.ltb_lt in H.
  exact (gen_sq_keep_pos d H).
Qed.
Theorem gen_squeeze_shape_pos (self t : sptz) : forallb (fun d => 0 <? d) (spt_shape self) = true ->
  sptensor_squeeze self = Ok (SqTensor t) ->
  spt_shape t = filter (fun d => d >? 1) (spt_shape self) /\ spt_vals t = spt_vals self.
Proof. intros P E. rewrite <- (filter_keep_pos _ P). exact (gen_squeeze_shape self t E). Qed.
Theorem gen_squeeze_scalar_pos (self : sptz) (v : Z) : forallb (fun d => 0 <? d) (spt_shape self) = true ->
  sptensor_squeeze self = Ok (SqScalar v) ->
  filter (fun d => d >? 1) (spt_shape self) = [] /\ (spt_vals self = [v] \/ (spt_vals self = [] /\ v = 0)).
Proof. intros P E. rewrite <- (filter_keep_pos _ P). exact (gen_squeeze_scalar self v E). Qed.

(* a mode of size 0: dropped by the text `> 1`, kept by the text `!= 1` *)
Theorem gen_squeeze_zero_mode (self t : sptz) : sptensor_squeeze self = Ok (SqTensor t) ->
  (gen_sq_keeps_zero = true -> count_occ Z.eq_dec (spt_shape t) 0 = count_occ Z.eq_dec (spt_shape self) 0) /\
  (gen_sq_keeps_zero = false -> count_occ Z.eq_dec (spt_shape t) 0 = 0%nat).
Proof.
  intros E. destruct (gen_squeeze_shape self t E) as [-> _]. rewrite <- gen_sq_keep_zero. clear E.
  induction (spt_shape self) as [|d s [I1 I2]]; [split; reflexivity|]. cbn [filter]. split; intros K.
  - destruct (Z.eq_dec d 0) as [->|N].
    + rewrite K. cbn [count_occ]. destruct (Z.eq_dec 0 0); [|contradiction]. f_equal. exact (I1 K).
    + destruct (gen_sq_keep d); cbn [count_occ]; destruct (Z.eq_dec d 0); try contradiction; exact (I1 K).
  - destruct (gen_sq_keep d) eqn:Ed; [|exact (I2 K)]. cbn [count_occ]. destruct (Z.eq_dec d 0) as [->|N]; [congruence|exact (I2 K)].
Qed.
