(* Model/C01Unique.v — the constructors behind the matricised holders, transliterated:
   * `np.unique(subs, axis=0, return_inverse=True)` + `accumarray(loc, vals, func=sum)` + `np.nonzero(newvals)` of
     sptenmat.__init__ (pyttb/sptenmat.py): rows sorted lexicographically (first column, then second), the values of
     equal rows summed in stored order, zero sums dropped — as insertion into a sorted accumulator;
   * the argument checks of sptenmat.__init__ and tenmat.__init__ (pyttb/tenmat.py 94-177) as guard functions;
   * sptensor.to_sptenmat INCLUDING that constructor (stored order of the triples as pyttb produces it).
   Definitions only; proofs in Proofs/C01Unique.v and Proofs/C01Converse.v. *)
From Coq Require Import List Arith Lia Bool.
From PV Require Import Base.Index Base.Perm Base.Sum Np.Array Model.Sparse Model.Repr Model.C07Ops Model.C01Conv.
Import ListNotations.

(* row order of np.unique(axis=0): lexicographic, first column most significant *)
Fixpoint idx_ltb (i j : idx) : bool :=
  match i, j with
  | x :: i', y :: j' => (x <? y) || ((x =? y) && idx_ltb i' j')
  | _, _ => false
  end.

(* strictly increasing rows *)
Fixpoint ssorted (l : list idx) : Prop :=
  match l with
  | [] => True
  | i :: r => Forall (fun j => idx_ltb i j = true) r /\ ssorted r
  end.
Fixpoint ssortedb (l : list idx) : bool :=
  match l with
  | [] => true
  | i :: r => forallb (idx_ltb i) r && ssortedb r
  end.

(* what the constructor is called with / what it answers: rejected (an exception), the empty object, or an object *)
Inductive ctor_res (X : Type) : Type := CtorReject | CtorEmpty | CtorOk (x : X).
Arguments CtorReject {X}. Arguments CtorEmpty {X}. Arguments CtorOk {X} x.

Definition olist {A} (o : option (list A)) : list A := match o with Some l => l | None => [] end.
Definition oempty {A} (o : option (list A)) : bool := match o with Some (_ :: _) => false | _ => true end.

Section Uniq.
Context {V : Type} (v0 : V) (vadd : V -> V -> V) (isz : V -> bool).

(* insert one (row, value) into the sorted accumulator; an equal row accumulates (old + new: accumarray sums in stored order) *)
Fixpoint ins_acc (e : idx * V) (l : list (idx * V)) : list (idx * V) :=
  match l with
  | [] => [e]
  | f :: r => if idx_eqb (fst e) (fst f) then (fst f, vadd (snd f) (snd e)) :: r
              else if idx_ltb (fst e) (fst f) then e :: f :: r
              else f :: ins_acc e r
  end.
Definition uniq_acc (es : list (idx * V)) : list (idx * V) := fold_left (fun acc e => ins_acc e acc) es [].

(* newsubs[nzidx], newvals[nzidx] *)
Definition norm_triples (subs : list idx) (vals : list V) : list (idx * V) :=
  filter (fun e => negb (isz (snd e))) (uniq_acc (combine subs vals)).

Definition stm_norm (M : sptenmat V) : sptenmat V :=
  let es := norm_triples (stm_subs M) (stm_vals M) in
  mkSTM (map fst es) (map snd es) (stm_r M) (stm_c M) (stm_tshape M).

(* sum of the stored values at one position (what a list of triples with repetitions denotes: scipy / accumarray) *)
Definition vsum_at (i : idx) (es : list (idx * V)) : V :=
  sumv v0 vadd (map snd (filter (fun e => idx_eqb i (fst e)) es)).

(* ---------------------------------------------------------------- sptenmat.__init__(subs, vals, rdims, cdims, tshape)
   None = an exception. The call without rdims and cdims demands subs = vals = None and gives the empty 0-way object;
   otherwise: gather_wrap_dims, `sorted(rdims ++ cdims) == range(n)`, `prod(tshape[rdims]) > max(subs[:,0])`,
   `prod(tshape[cdims]) > max(subs[:,1])`, then unique / accumulate / drop zeros. *)
Definition stm_ctor (subs : option (list idx)) (vals : option (list V)) (rd cd : option (list nat)) (ts : shape)
  : option (sptenmat V) :=
  match rd, cd with
  | None, None => match subs, vals with None, None => Some (mkSTM [] [] [] [] []) | _, _ => None end
  | _, _ =>
      match gather_wrap_dims (length ts) rd cd None with
      | None => None
      | Some (r, c) =>
          if negb (is_permb (r ++ c) (length ts)) then None
          else if negb (forallb (fun rc => nth 0 rc 0 <? size (pick 0 r ts)) (olist subs)) then None
          else if negb (forallb (fun rc => nth 1 rc 0 <? size (pick 0 c ts)) (olist subs)) then None
          else Some (stm_norm (mkSTM (olist subs) (olist vals) r c ts))
      end
  end.

(* sptensor.to_sptenmat as the code is: mode check, per-side sub2ind, then the constructor *)
Definition to_sptenmat_sorted (S : sparse V) (r c : list nat) : option (sptenmat V) :=
  match to_sptenmat S r c with
  | Some M => stm_ctor (Some (stm_subs M)) (Some (stm_vals M)) (Some r) (Some c) (sshape S)
  | None => None
  end.
Definition to_sptenmat_sorted_req (S : sparse V) (rd cd : option (list nat)) (cy : option cyc) : option (sptenmat V) :=
  match gather_wrap_dims (length (sshape S)) rd cd cy with
  | Some (r, c) => to_sptenmat_sorted S r c
  | None => None
  end.

(* ---------------------------------------------------------------- tenmat.__init__(data, rdims, cdims, tshape)
   data: a numpy array of any number of dimensions (dshape = data.shape). *)
Definition tm_ctor (data : option (dense V)) (rd cd : option (list nat)) (ts : option shape) : ctor_res (tenmat V) :=
  let empty_case := if oempty rd && oempty cd && oempty ts then CtorEmpty else CtorReject in
  match data with
  | None => empty_case
  | Some D =>
      if size (dshape D) =? 0 then empty_case
      else
        (* 1-d data needs tshape and becomes a row vector; anything but a matrix is rejected *)
        match (match dshape D with
               | [n] => match ts with None => None | Some _ => Some (mkDense [1; n] (ddata D)) end
               | [_; _] => Some D
               | _ => None
               end) with
        | None => CtorReject
        | Some D2 =>
            let tshape := match ts with Some t => t | None => dshape D2 end in
            if negb (size (dshape D2) =? size tshape) then CtorReject
            else
              let n := length tshape in
              match gather_wrap_dims n rd cd None with
              | None => CtorReject
              | Some (r, c) =>
                  (* np.array(tshape)[rdims] raises IndexError on an index >= n *)
                  if negb (forallb (fun k => k <? n) (r ++ c)) then CtorReject
                  else if negb (size (pick 0 r tshape) * size (pick 0 c tshape) =? size (dshape D2)) then CtorReject
                  else if negb (is_permb (r ++ c) n) then CtorReject
                  else CtorOk (mkTM D2 r c tshape)
              end
        end
  end.

(* the (rows, cols) a tenmat / sptenmat reports for its mode split *)
Definition tm_rc (M : tenmat V) : shape := [size (pick 0 (tm_r M) (tm_tshape M)); size (pick 0 (tm_c M) (tm_tshape M))].

End Uniq.
