(* Proofs/C11LogLik.v — the sparse branch of cp_apr.tt_loglikelihood (Model/C11LogLik.v) computes the Poisson log-likelihood
   sum_s phi(x_s, m_s) - sum_s m_s of the tensor the sparse holder denotes under the Kruskal model, for every stored order,
   every combining function phi with phi 0 m = 0 (the docstring's "0 * log(x) = 0"), any shape / rank / ring. *)
From Coq Require Import List Arith Lia Bool Ring.
From PV Require Import Base.Index Base.Sum Np.Array Model.Sparse Model.Repr Model.C14Nvecs Model.C11LogLik
  Proofs.C14Sums Proofs.C14Split Proofs.C11Mass Proofs.C11Pairing.
Import ListNotations.

Section LogLikSparse.
Variable V : Type.
Variables (v0 v1 : V) (vadd vmul vsub : V -> V -> V) (vopp : V -> V).
Hypothesis Vring : ring_theory v0 v1 vadd vmul vsub vopp (@eq V).
Add Ring VrC11ll : Vring.
Variable isz : V -> bool.
Local Notation "x + y" := (vadd x y).
Local Notation "x * y" := (vmul x y).
Local Notation SO := (sum_over v0 vadd).
Local Notation SN := (sum_n v0 vadd).
Local Notation kp := (kprod v0 v1 vmul).
Local Notation mg := (mget v0).

(* the left-to-right in-place product of gathered rows is the Khatri-Rao entry prod_n A_n[sub_n, r] *)
Lemma ll_fold_kprod (r : nat) : forall (As : list (list (list V))) (sub : idx) (c : V),
  fold_left (fun acc p => acc * mg (fst p) (snd p) r) (combine As sub) c = c * kp As sub r.
Proof.
  induction As as [|A As IH]; intros sub c; [cbn; ring|].
  destruct sub as [|x sub]; [cbn; ring|].
  cbn [combine fold_left fst snd kprod]. rewrite IH. ring.
Qed.

Lemma ll_gather_kprod (As : list (list (list V))) (sub : idx) (r : nat) :
  ll_gather v0 v1 vmul As sub r = kp As sub r.
Proof.
  destruct As as [|A0 As]; [reflexivity|]. destruct sub as [|x0 sub]; [reflexivity|].
  cbn [ll_gather kprod]. apply ll_fold_kprod.
Qed.

(* with unit weights the model value at an in-range subscript is the row sum the code computes *)
Lemma ll_rowsum_den (K : ktensor V) (i : idx) :
  (forall r, r < krank K -> nth r (kweights K) v0 = v1) -> inb (kshape K) i = true ->
  ll_rowsum v0 v1 vadd vmul (kfactors K) (krank K) i = den_k v0 v1 vadd vmul K i.
Proof.
  intros Hw Hin. unfold ll_rowsum, den_k. rewrite Hin. apply sum_n_ext. intros r Hr.
  rewrite ll_gather_kprod, Hw by auto. ring.
Qed.

(* the data terms: a sum over the STORED entries = the sum over ALL subscripts *)
Theorem loglik_sp_terms_correct (phi : V -> V -> V) (S : sparse V) (K : ktensor V) :
  wf_sp isz S -> kshape K = sshape S ->
  (forall r, r < krank K -> nth r (kweights K) v0 = v1) ->
  (forall m, phi v0 m = v0) ->
  loglik_sp_terms v0 v1 vadd vmul phi S K =
  SO (allsubs (sshape S)) (fun i => phi (den_sp v0 S i) (den_k v0 v1 vadd vmul K i)).
Proof.
  intros W Hs Hw Hphi. unfold loglik_sp_terms.
  rewrite <- (sum_sparse_gen V v0 v1 vadd vmul vsub vopp Vring isz S
                (fun v j => phi v (ll_rowsum v0 v1 vadd vmul (kfactors K) (krank K) j)) W)
    by (intros j; apply Hphi).
  apply sum_over_ext. intros i Hi. apply in_allsubs in Hi.
  rewrite ll_rowsum_den; auto. now rewrite Hs.
Qed.

(* np.sum(A) of an I x R matrix = the sum of its column sums *)
Lemma msum_colsums (A : list (list V)) (R : nat) : Forall (fun row => length row = R) A ->
  msum v0 vadd A = SN R (fun r => colsum V v0 vadd A r).
Proof.
  intros HA. unfold msum, colsum.
  transitivity (SO A (fun row => SN R (fun r => nth r row v0))).
  - apply sum_over_ext. intros row Hrow. rewrite Forall_forall in HA.
    rewrite (sum_over_nth V v0 vadd v0 row (fun x => x)). now rewrite (HA row Hrow).
  - unfold sum_n at 1. rewrite (sum_over_swap V v0 v1 vadd vmul vsub vopp Vring).
    unfold sum_n at 1. apply sum_over_ext. intros r _.
    rewrite (sum_over_nth V v0 vadd [] A (fun row => nth r row v0)). reflexivity.
Qed.

(* the whole objective: after Model.normalize(weight_factor=0, normtype=1) — unit weights; every component has unit column sums
   in the modes > 0 or is dead (zero mode-0 column) — the sparse branch returns the log-likelihood by definition *)
Theorem loglik_sp_correct (phi : V -> V -> V) (S : sparse V) (w : list V) (A0 : list (list V)) (rest : list (list (list V))) :
  let K := mkK w (A0 :: rest) in
  wf_sp isz S -> kshape K = sshape S ->
  Forall (fun row => length row = length w) A0 ->
  (forall r, r < length w ->
     nth r w v0 = v1 /\
     ((forall A, In A rest -> colsum V v0 vadd A r = v1) \/ colsum V v0 vadd A0 r = v0)) ->
  (forall m, phi v0 m = v0) ->
  loglik_sp v0 v1 vadd vmul vsub phi S K = loglik_spec v0 v1 vadd vmul vsub phi (den_sp v0 S) (sshape S) K.
Proof.
  intros K W Hs HA0 Hn Hphi. unfold loglik_sp, loglik_spec.
  rewrite (loglik_sp_terms_correct phi S K W Hs) by (auto; intros r Hr; apply (Hn r Hr)).
  f_equal. rewrite <- Hs. subst K.
  rewrite (mass_factor0_dead V v0 v1 vadd vmul vsub vopp Vring w A0 rest Hn).
  cbn [kfactors nth]. now apply msum_colsums.
Qed.
End LogLikSparse.

(* ------------------------------------------------------------------------------------------------ instances over Z *)
From Coq Require Import ZArith.

(* a 2 x 3 x 2 sparse tensor, 4 stored nonzeros in non-sorted order PLUS an explicitly stored zero (isz := fun _ => false makes
   wf_sp accept it); rank-2 model with unit weights; phi x m = x * (m + 7) stands for x * log m (phi 0 m = 0) *)
Example loglik_sp_ex :
  let S := mkSp [2; 3; 2] [[1; 2; 0]; [0; 0; 0]; [1; 1; 1]; [1; 2; 1]; [0; 1; 1]] [18; 8; 0; 27; 6]%Z in
  let K := mkK [1; 1]%Z [[[1; 2]; [3; 1]]; [[1; 1]; [2; 0]; [1; 3]]; [[2; 1]; [1; 2]]]%Z in
  let phi := fun x m : Z => (x * (m + 7))%Z in
  loglik_sp_terms 0%Z 1%Z Z.add Z.mul phi S K = 862%Z /\
  sum_over 0%Z Z.add (allsubs (sshape S)) (fun i => phi (den_sp 0%Z S i) (den_k 0%Z 1%Z Z.add Z.mul K i)) = 862%Z /\
  map (fun e => ll_rowsum 0%Z 1%Z Z.add Z.mul (kfactors K) (krank K) (fst e)) (entries S) = [9; 4; 6; 9; 2]%Z.
Proof. vm_compute. repeat split. Qed.

(* the whole objective on a normalised model: unit weights, columns of modes 1, 2 sum to 1 except for the dead component 1
   (zero column in mode 0, column sums 12 and 3 elsewhere) *)
Example loglik_sp_full_ex :
  let S := mkSp [2; 3; 2] [[1; 2; 0]; [0; 0; 0]; [1; 1; 1]] [5; 2; 0]%Z in
  let w := [1; 1]%Z in
  let A0 := [[4; 0]; [6; 0]]%Z in
  let rest := [[[1; 5]; [0; 7]; [0; 0]]; [[1; 1]; [0; 2]]]%Z in
  let phi := fun x m : Z => (x * (m + 7))%Z in
  loglik_sp 0%Z 1%Z Z.add Z.mul Z.sub phi S (mkK w (A0 :: rest)) = 47%Z /\
  loglik_spec 0%Z 1%Z Z.add Z.mul Z.sub phi (den_sp 0%Z S) (sshape S) (mkK w (A0 :: rest)) = 47%Z.
Proof. vm_compute. split; reflexivity. Qed.
