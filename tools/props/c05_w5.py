"""c05_w5 — wave-5 table sections of property C05 (registered into tools/props/c05.py's TABLE by `register`).

(e) "empty selection" parameter classes: every operation that takes a list of modes (or a list of subscripts / components)
    is asked to work on ZERO of them wherever pyttb admits the request.  No multiply / collapse / permutation step then
    runs, so whatever the operation does *around* its loop decides alone whether the result is a fresh object:
    ttv (all five tensor classes, both spellings of "no mode": dims=[] and exclude_dims=all modes, with no or with all
    vectors supplied), ttm (ttensor; tensor/sptensor reject the request), collapse(dims=[]), to_tenmat / to_sptenmat with
    no row modes or no column modes (copy=True and copy=False), the tenmat constructor / to_tensor with no row modes,
    ttt with empty contraction lists, reconstruct with no sampled mode, update with no mode, symmetrize with no group,
    extract / __getitem__ with no subscript row, tt_dimscheck with no mode.
    (scale / contract / permute with zero selected modes are REJECTED by pyttb for every class: nothing to measure.)
(f) every result-vs-operand pair of the code paths added by the latest `fix:` commits: early returns `self.copy()` for
    a sparse receiver without stored entries (sptensor.scale d89c921, sptensor * / ktensor d4293a0), the zero filter of
    sptensor * ktensor, masks without selected entries (5f8b038), ttensor(copy=False) with a scipy coo factor (9d096f6),
    ktensor.update's two-pass validation (b9311d6: a rejected request leaves receiver and data untouched), cp_apr's
    likelihood evaluation on a copy (c01a61b), fg_est.estimate (dc891f8).
(g) the functions of module pyttb.cp_apr are ENUMERATED (namespace "cpapr": an unlisted public function fails closed)
    instead of an explicit helper list.
"""
try:
    import numpy as np
except ImportError:
    np = None


def register(G):
    reg, TABLE, AD, _M = G["reg"], G["TABLE"], G["AD"], G["_M"]
    sp = G["same_pos"]
    ALG1 = [(2, 3, 4)]
    E = lambda: np.array([], dtype=int)
    MK = (("tensor", "T"), ("sptensor", "S"), ("ktensor", "K"), ("ttensor", "TT"), ("sumtensor", "SUM"))
    SH = [(2, 3, 4), (3, 1, 2), (4,)]

    def rejected(f):
        """the request must be refused; nothing is returned (the row then demands: every operand bit-for-bit unchanged)"""
        def call(o, b):
            try:
                G["_invoke"](f, o, b)
            except (AssertionError, ValueError, IndexError, TypeError):
                return None
            raise RuntimeError("request was expected to be rejected")
        return call

    # ------------------------------------------------------------------------------------------------------------
    # (e) empty selections
    # ------------------------------------------------------------------------------------------------------------
    for cls, mk in MK:
        shapes = SH if cls not in ("sumtensor",) else [(2, 3, 4), (3, 1, 2)]
        g = lambda b, mk=mk: getattr(b, mk)()
        reg(cls, "ttv", "no-mode,dims=empty", lambda b, g=g: dict(X=g(b), v=[], d=E()), lambda o: o.X.ttv(o.v, dims=o.d), shapes=shapes)
        reg(cls, "ttv", "no-mode,exclude=all", lambda b, g=g: dict(X=g(b), v=[], ex=np.arange(b.N)), lambda o: o.X.ttv(o.v, exclude_dims=o.ex), shapes=shapes)
        reg(cls, "ttv", "no-mode,all-vectors-supplied,exclude=all", lambda b, g=g: dict(X=g(b), v=b.vecs(), ex=np.arange(b.N)),
            lambda o: o.X.ttv(o.v, exclude_dims=o.ex), shapes=shapes)
        reg(cls, "ttv", "no-mode,empty-ndarray-of-vectors", lambda b, g=g: dict(X=g(b), v=np.array([]), d=E()), lambda o: o.X.ttv(o.v, dims=o.d), shapes=shapes[:1])
    # ttv that contracts nothing on a receiver built without copying (three owners of one buffer)
    reg("tensor", "ttv", "no-mode,receiver-built-copy=False", lambda b: (lambda d: dict(d=d, X=b.ttb.tensor(d, copy=False), ex=np.arange(b.N)))(b.arr()),
        lambda o: o.X.ttv([], exclude_dims=o.ex), layouts=False)
    for cls, mk in (("tensor", "T"), ("sptensor", "S")):
        g = lambda b, mk=mk: getattr(b, mk)()
        reg(cls, "collapse", "no-mode,dims=empty", lambda b, g=g: dict(X=g(b), d=E()), lambda o: o.X.collapse(o.d), shapes=SH)
        reg(cls, "collapse", "no-mode,dims=empty,max", lambda b, g=g: dict(X=g(b), d=E()), lambda o: o.X.collapse(o.d, np.max), shapes=SH)
    # matricisations with an empty side
    reg("tensor", "to_tenmat", "no-row-mode(rdims=empty)", lambda b: dict(X=b.T(), r=E()), lambda o: o.X.to_tenmat(o.r), shapes=SH)
    reg("tensor", "to_tenmat", "no-column-mode(cdims=empty)", lambda b: dict(X=b.T(), cd=E()), lambda o: o.X.to_tenmat(cdims=o.cd), shapes=SH)
    reg("tensor", "to_tenmat", "copy=False,no-row-mode(rdims=empty)", lambda b: dict(X=b.T(), r=E()), lambda o: o.X.to_tenmat(o.r, copy=False),
        kind="nocopy", allow=sp(data="X.data"), shapes=SH)
    reg("tensor", "to_tenmat", "copy=False,no-column-mode(cdims=empty)", lambda b: dict(X=b.T(), cd=E()), lambda o: o.X.to_tenmat(cdims=o.cd, copy=False),
        kind="nocopy", allow=sp(data="X.data"), shapes=SH)
    reg("sptensor", "to_sptenmat", "no-row-mode(rdims=empty)", lambda b: dict(X=b.S(), r=E()), lambda o: o.X.to_sptenmat(o.r), shapes=SH)
    reg("sptensor", "to_sptenmat", "no-column-mode(cdims=empty)", lambda b: dict(X=b.S(), cd=E()), lambda o: o.X.to_sptenmat(cdims=o.cd), shapes=SH)
    reg("ktensor", "to_tenmat", "no-row-mode(rdims=empty)", lambda b: dict(X=b.K(), r=E()), lambda o: o.X.to_tenmat(o.r), shapes=SH[:2])
    tm0 = lambda b: dict(X=b.T().to_tenmat(E()))
    reg("tenmat", "to_tensor", "copy=True,no-row-mode", tm0, lambda o: o.X.to_tensor(), shapes=SH)
    reg("tenmat", "to_tensor", "copy=False,no-row-mode", tm0, lambda o: o.X.to_tensor(copy=False), kind="nocopy", allow=sp(data="X.data"), shapes=SH)
    reg("tenmat", "copy", "no-row-mode", tm0, lambda o: o.X.copy(), shapes=SH[:1])
    reg("tenmat", "ctranspose", "no-row-mode", tm0, lambda o: o.X.ctranspose(), shapes=SH[:1])
    reg("tenmat", "__init__", "copy=True,no-row-mode", lambda b: dict(d=b.arr().reshape((1, b.n), order="F"), r=E(), cd=np.arange(b.N)),
        lambda o, b: b.ttb.tenmat(o.d, o.r, o.cd, b.shape, copy=True), shapes=SH[:1])
    reg("tenmat", "__init__", "copy=False,no-row-mode", lambda b: dict(d=b.arr().reshape((1, b.n), order="F"), r=E(), cd=np.arange(b.N)),
        lambda o, b: b.ttb.tenmat(o.d, o.r, o.cd, b.shape, copy=False), kind="nocopy", allow=sp(data="d"), shapes=SH[:1])
    reg("sptenmat", "to_sptensor", "no-row-mode", lambda b: dict(X=b.S().to_sptenmat(E())), lambda o: o.X.to_sptensor(), shapes=SH[:2])
    # ttm with no mode: admitted by ttensor only (tensor.ttm / sptensor.ttm raise IndexError for an empty mode list)
    reg("ttensor", "ttm", "no-mode,dims=empty", lambda b: dict(X=b.TT(), M=[], d=E()), lambda o: o.X.ttm(o.M, o.d), shapes=SH[:2])
    reg("ttensor", "ttm", "no-mode,exclude=all", lambda b: dict(X=b.TT(), M=[], ex=np.arange(b.N)), lambda o: o.X.ttm(o.M, exclude_dims=o.ex), shapes=SH[:2])
    reg("ttensor", "ttm", "no-mode,all-matrices-supplied,exclude=all", lambda b: dict(X=b.TT(), M=[b.mat(n) for n in range(b.N)], ex=np.arange(b.N)),
        lambda o: o.X.ttm(o.M, exclude_dims=o.ex), shapes=SH[:2])
    reg("ttensor", "ttm", "no-mode,transpose", lambda b: dict(X=b.TT(), M=[], d=E()), lambda o: o.X.ttm(o.M, o.d, transpose=True), shapes=SH[:1])
    reg("ttensor", "reconstruct", "no-sampled-mode(empty-lists)", lambda b: dict(X=b.TT(), s=[], m=[]), lambda o: o.X.reconstruct(o.s, o.m), shapes=SH[:2])
    for cls in ("tensor", "sptensor"):
        for how in ("dims=empty", "exclude=all"):
            reg(cls, "ttm", f"no-mode,{how}(rejected)", lambda b, cls=cls: dict(X=(b.T() if cls == "tensor" else b.S()), M=[b.mat(n) for n in range(b.N)], d=E(), ex=np.arange(b.N)),
                rejected((lambda o: o.X.ttm([], dims=o.d)) if how == "dims=empty" else (lambda o: o.X.ttm(o.M, exclude_dims=o.ex))), shapes=SH[:1], layouts=False)
    # contractions over no mode pair, symmetrisation over no group
    reg("tensor", "ttt", "outer,empty-dims-arrays", lambda b: dict(X=b.T(), Y=b.T(1), sd=E(), od=E()), lambda o: o.X.ttt(o.Y, o.sd, o.od), shapes=SH[:2])
    reg("tensor", "symmetrize", "no-group", lambda b: dict(X=b.T(), g=np.zeros((0, 2), dtype=int)), lambda o: o.X.symmetrize(o.g), shapes=[(2, 2, 2)])
    # update with no mode: the documented in-place method has nothing to write
    reg("ktensor", "update", "no-mode", lambda b: dict(X=b.K(), m=E(), d=np.array([])), lambda o: o.X.update(o.m, o.d), kind="inplace", recv="X", shapes=SH[:2])
    # no subscript row / no linear index / no component
    reg("tensor", "__getitem__", "subscripts,none", lambda b: dict(X=b.T(), s=np.zeros((0, b.N), dtype=int)), lambda o: o.X[o.s], shapes=SH[:2])
    reg("tensor", "__getitem__", "linear-array,none", lambda b: dict(X=b.T(), i=E()), lambda o: o.X[o.i], shapes=SH[:2])
    reg("sptensor", "__getitem__", "subscripts,none", lambda b: dict(X=b.S(), s=np.zeros((0, b.N), dtype=int)), lambda o: o.X[o.s], shapes=SH[:2])
    reg("sptensor", "extract", "no-query-row", lambda b: dict(X=b.S(), q=np.zeros((0, b.N), dtype=int)), lambda o: o.X.extract(o.q), shapes=SH[:2])
    # "everything selected": the selection that leaves the object as it is (the counterpart of the empty selection)
    reg("ktensor", "extract", "all-components-in-order", lambda b: dict(X=b.K(), i=np.arange(2)), lambda o: o.X.extract(o.i), shapes=SH[:2])
    reg("ktensor", "extract", "all-components,list", lambda b: dict(X=b.K(), i=[0, 1]), lambda o: o.X.extract(o.i), shapes=SH[:1])
    reg("sptensor", "extract", "all-stored-subscripts", lambda b: dict(X=b.S(), q=b.subs()), lambda o: o.X.extract(o.q), shapes=SH[:2])
    reg("sptensor", "__getitem__", "subscripts,all-stored", lambda b: dict(X=b.S(), s=b.subs()), lambda o: o.X[o.s], shapes=SH[:2])
    reg("tensor", "collapse", "all-modes,dims=arange", lambda b: dict(X=b.T(), d=np.arange(b.N)), lambda o: o.X.collapse(o.d), kind="scalar", shapes=SH[:1])
    reg("ktensor", "arrange", "identity-permutation", lambda b: dict(X=b.K(), p=np.arange(2)), lambda o: o.X.arrange(permutation=o.p), kind="inplace", recv="X", shapes=SH[:2])
    # the request resolver itself
    import pyttb.pyttb_utils as PU
    reg("utils", "tt_dimscheck", "no-mode,dims=empty", lambda b: dict(d=E()), lambda o, b: PU.tt_dimscheck(b.N, 0, dims=o.d), shapes=SH[:1])
    reg("utils", "tt_dimscheck", "no-mode,exclude=all", lambda b: dict(ex=np.arange(b.N)), lambda o, b: PU.tt_dimscheck(b.N, b.N, exclude_dims=o.ex), shapes=SH[:1])
    reg("utils", "tt_dimscheck", "all-modes,dims=arange", lambda b: dict(d=np.arange(b.N)), lambda o, b: PU.tt_dimscheck(b.N, b.N, dims=o.d), shapes=SH[:1])
    # scale / contract / permute over zero modes: rejected for every class (the rows pin that, and that nothing is touched)
    for cls, mk in (("tensor", "T"), ("sptensor", "S"), ("ktensor", "K"), ("ttensor", "TT")):
        reg(cls, "permute", "no-mode(rejected)", lambda b, mk=mk: dict(X=getattr(b, mk)(), order=E()), rejected(lambda o: o.X.permute(o.order)), shapes=SH[:1], layouts=False)
    for cls, mk in (("tensor", "T"), ("sptensor", "S")):
        reg(cls, "scale", "no-mode(rejected)", lambda b, mk=mk: dict(X=getattr(b, mk)(), f=np.array([]), d=E()), rejected(lambda o: o.X.scale(o.f, o.d)), shapes=SH[:1], layouts=False)

    # ------------------------------------------------------------------------------------------------------------
    # (f) code paths of the latest fix commits
    # ------------------------------------------------------------------------------------------------------------
    empty = lambda b: b.ttb.sptensor(shape=b.shape)
    import operator as op
    # d4293a0: S * K and S / K with a receiver without stored entries return self.copy(); S * K filters exact zeros
    reg("sptensor", "__mul__", "ktensor,empty-receiver", lambda b: dict(X=empty(b), Y=b.K()), lambda o: o.X * o.Y, kind="scalar")
    reg("sptensor", "__truediv__", "ktensor,empty-receiver", lambda b: dict(X=empty(b), Y=b.K()), lambda o: o.X / o.Y, kind="scalar")
    def kzero(b):      # vanishes on the whole slice (0, :, ...): some stored subscripts of b.S() are filtered, some kept
        f = b.fm()
        f[0][0, :] = 0.0
        return b.ttb.ktensor(f, np.array([2.0, 3.0]))
    reg("sptensor", "__mul__", "ktensor,vanishing-at-stored-subscripts", lambda b: dict(X=b.S(), Y=kzero(b)), lambda o: o.X * o.Y, shapes=[(2, 3, 4), (2, 2, 2)])
    reg("sptensor", "__mul__", "ktensor,vanishing-everywhere", lambda b: dict(X=b.S(), Y=b.ttb.ktensor([np.zeros((s, 2)) for s in b.shape], np.array([2.0, 3.0]))),
        lambda o: o.X * o.Y, shapes=ALG1)
    reg("sptensor", "__truediv__", "ktensor", lambda b: dict(X=b.S(), Y=b.K()), lambda o: o.X / o.Y, shapes=[(2, 3, 4), (2, 2, 2)])
    # every binary operator of sptensor with a receiver WITHOUT stored entries (early returns `self.copy()` / empty results), every operand kind
    for nm, f in (("__add__", op.add), ("__sub__", op.sub), ("__mul__", op.mul), ("__truediv__", op.truediv), ("__eq__", op.eq), ("__ne__", op.ne),
                  ("__lt__", op.lt), ("__le__", op.le), ("__gt__", op.gt), ("__ge__", op.ge)):
        reg("sptensor", nm, "empty-receiver,tensor", lambda b: dict(X=empty(b), Y=b.T(1)), lambda o, f=f: f(o.X, o.Y), shapes=ALG1)
        reg("sptensor", nm, "empty-receiver,scalar", lambda b: dict(X=empty(b)), lambda o, f=f: f(o.X, 2.0), kind="scalar", shapes=ALG1)
        if nm not in ("__add__", "__sub__", "__mul__"):          # (those three: rows "empty-receiver" of the degenerate table)
            reg("sptensor", nm, "empty-receiver,sptensor", lambda b: dict(X=empty(b), Y=b.S()), lambda o, f=f: f(o.X, o.Y), shapes=ALG1)
    # degenerate permutations answered by an early `self.copy()`: the order-0 tensor with the empty order; a 1-way tensor with order [1]
    reg("tensor", "permute", "order-0-receiver,empty-order", lambda b: dict(X=b.ttb.tensor(), order=E()), lambda o: o.X.permute(o.order), kind="scalar", shapes=[(2, 3, 4)], layouts=False)
    reg("tensor", "permute", "1-way,order=[1](accepted-as-no-op)", lambda b: dict(X=b.T(), order=np.array([1])), lambda o: o.X.permute(o.order), shapes=[(4,)])
    reg("tensor", "permute", "1-way,order=[0]", lambda b: dict(X=b.T(), order=np.array([0])), lambda o: o.X.permute(o.order), shapes=[(4,)])
    # d89c921: sptensor.scale on a receiver without stored entries (shape test, then self.copy())
    reg("sptensor", "scale", "empty-receiver,vector", lambda b: dict(X=empty(b), f=b.vec(b.N - 1), d=np.array([b.N - 1])), lambda o: o.X.scale(o.f, o.d), kind="scalar")
    reg("sptensor", "scale", "empty-receiver,tensor", lambda b: dict(X=empty(b), f=b.ttb.tensor(b.vec(b.N - 1)), d=np.array([b.N - 1])), lambda o: o.X.scale(o.f, o.d))
    reg("sptensor", "scale", "empty-receiver,sptensor", lambda b: dict(X=empty(b), f=b.ttb.sptensor(np.array([[0]]), np.array([[2.0]]), (b.shape[-1],)), d=np.array([b.N - 1])),
        lambda o: o.X.scale(o.f, o.d))
    reg("sptensor", "scale", "empty-receiver,ill-sized-tensor(rejected)", lambda b: dict(X=empty(b), f=b.ttb.tensor(np.ones(b.shape[-1] + 1)), d=np.array([b.N - 1])),
        rejected(lambda o: o.X.scale(o.f, o.d)), layouts=False, shapes=ALG1)
    # 5f8b038 / 553ad5e: masks that select nothing; a mask of another order is refused
    for cls, mk in (("tensor", "T"), ("sptensor", "S"), ("ktensor", "K")):
        g = lambda b, mk=mk: getattr(b, mk)()
        reg(cls, "mask", "sparse-mask-without-entries", lambda b, g=g: dict(X=g(b), W=empty(b)), lambda o: o.X.mask(o.W), kind="scalar")
        if cls != "sptensor":
            reg(cls, "mask", "dense-all-zero-mask", lambda b, g=g: dict(X=g(b), W=b.ttb.tenzeros(b.shape)), lambda o: o.X.mask(o.W), kind="scalar")
    reg("tensor", "mask", "sparse-mask", lambda b: dict(X=b.T(), W=b.WS()), lambda o: o.X.mask(o.W))
    reg("tensor", "mask", "mask-of-lower-order(rejected)", lambda b: dict(X=b.T(), W=b.ttb.tensor(np.ones(b.shape[0]))), rejected(lambda o: o.X.mask(o.W)),
        layouts=False, shapes=ALG1)
    # 9d096f6: ttensor(copy=False) with a scipy coo factor matrix (the constructor keeps the caller's coo object)
    def coo_factors(b):
        from scipy import sparse
        T = b.TT()
        f = [np.asfortranarray(x) for x in T.factor_matrices]
        f[0] = sparse.coo_matrix(f[0])
        return dict(core=T.core, f=f)
    reg("ttensor", "__init__", "copy=False,coo-factor", coo_factors, lambda o, b: b.ttb.ttensor(o.core, o.f, copy=False), kind="nocopy",
        allow=sp(core="core", factor_matrices="f"), shapes=ALG1, layouts=False)
    reg("ttensor", "__init__", "copy=True,coo-factor", coo_factors, lambda o, b: b.ttb.ttensor(o.core, o.f, copy=True), shapes=ALG1, layouts=False)
    reg("ttensor", "copy", "coo-factor", lambda b: dict(X=b.ttb.ttensor(**{"core": coo_factors(b)["core"], "factors": coo_factors(b)["f"]})), lambda o: o.X.copy(),
        shapes=ALG1, layouts=False)
    # b9311d6: ktensor.update validates the whole request first: a rejected request leaves receiver and data untouched
    I = dict(kind="inplace", recv="X")
    upd = lambda b, modes, n: dict(X=b.K(), m=modes, d=np.arange(1.0, n + 1))
    reg("ktensor", "update", "weights-only", lambda b: upd(b, [-1], 2), lambda o: o.X.update(o.m, o.d), **I)
    reg("ktensor", "update", "weights+last-mode", lambda b: upd(b, [-1, b.N - 1], 2 + 2 * b.shape[-1]), lambda o: o.X.update(o.m, o.d), **I)
    reg("ktensor", "update", "data-longer-than-needed", lambda b: upd(b, [0], 2 * b.shape[0] + 3), lambda o: o.X.update(o.m, o.d), **I)
    # written blocks are copies of the data: a later write to the data must not reach the receiver — measured as "pure" row over (data -> receiver)
    reg("ktensor", "update", "all-modes+weights,receiver-independent-of-data", lambda b: upd(b, list(range(-1, b.N)), 2 + 2 * sum(b.shape)),
        lambda o: o.X.update(o.m, o.d), only=("d", "m"))
    reg("ktensor", "update", "invalid-later-mode(rejected)", lambda b: upd(b, [0, b.N + 2], 2 * b.shape[0] + 8), rejected(lambda o: o.X.update(o.m, o.d)), layouts=False)
    reg("ktensor", "update", "data-too-short-for-second-block(rejected)", lambda b: upd(b, [0, 1], 2 * b.shape[0] + 1), rejected(lambda o: o.X.update(o.m, o.d)), layouts=False)
    reg("ktensor", "update", "repeated-mode(rejected)", lambda b: upd(b, [0, 0], 4 * b.shape[0]), rejected(lambda o: o.X.update(o.m, o.d)), layouts=False)
    # c01a61b through cp_apr: the model returned has explicit weights; it is not the iterate the likelihood was evaluated on
    akw = dict(maxiters=2, printitn=1, printinneritn=0, maxinneriters=2)       # printitn > 0: the likelihood is evaluated inside the loop
    for alg in ("mu", "pdnr"):
        reg("ttb", "cp_apr", f"{alg},init=ktensor,printitn=1(likelihood-evaluated-each-iteration)", lambda b: dict(X=b.S(), init=b.K()),
            lambda o, b, alg=alg: _M(b.ttb.cp_apr, o.X, 2, algorithm=alg, init=o.init, **akw), shapes=ALG1)

    # ------------------------------------------------------------------------------------------------------------
    # (g) module pyttb.cp_apr enumerated (namespace "cpapr"); the wave-4 rows of the four helpers move here
    # ------------------------------------------------------------------------------------------------------------
    import importlib
    CA = importlib.import_module("pyttb.cp_apr")          # (the attribute pyttb.cp_apr is the FUNCTION of that name)
    c = "cpapr"
    for key in [k for k in TABLE if k[0] == "helpers" and k[1].startswith("cp_apr.")]:
        TABLE[(c, key[1].split(".", 1)[1])] = TABLE.pop(key)
    entry = lambda name, pc: next(x for x in TABLE[("ttb", name)] if x["pclass"] == pc)
    # the three algorithm bodies behind ttb.cp_apr, called directly on a caller-built iterate
    def direct(fn, **kw):
        def call(o, b):
            res = getattr(CA, fn)(o.X, 2, o.init, **kw)
            return (res[0], {k: v for k, v in res[1].items() if k != "params"})
        return call
    common = dict(stoptol=1e-4, stoptime=1e6, maxiters=2, maxinneriters=2, epsDivZero=1e-10, printitn=0, printinneritn=0)
    mu_kw = dict(common, kappa=0.01, kappatol=1e-10, epsActive=1e-8)
    import inspect
    def kwfor(fn, pool):
        ps = inspect.signature(getattr(CA, fn)).parameters
        return {k: v for k, v in pool.items() if k in ps}
    pool = dict(mu_kw, epsActSet=1e-3, mu0=1e-5, precompinds=True, inexact=True, lbfgsMem=3, kappa=0.01, kappatol=1e-10, epsActive=1e-8)
    pos = lambda b: dict(X=b.S(), init=b.K())
    reg(c, "tt_cp_apr_mu", "sparse,init=ktensor", pos, lambda o, b: direct("tt_cp_apr_mu", **kwfor("tt_cp_apr_mu", pool))(o, b), shapes=ALG1)
    reg(c, "tt_cp_apr_mu", "dense,init=ktensor", lambda b: dict(X=b.T(), init=b.K()), lambda o, b: direct("tt_cp_apr_mu", **kwfor("tt_cp_apr_mu", pool))(o, b), shapes=ALG1)
    reg(c, "tt_cp_apr_pdnr", "sparse,init=ktensor", pos, lambda o, b: direct("tt_cp_apr_pdnr", **kwfor("tt_cp_apr_pdnr", pool))(o, b), shapes=ALG1)
    reg(c, "tt_cp_apr_pdnr", "dense,init=ktensor", lambda b: dict(X=b.T(), init=b.K()), lambda o, b: direct("tt_cp_apr_pdnr", **kwfor("tt_cp_apr_pdnr", pool))(o, b), shapes=ALG1)
    def pq(b, sparse):
        Xd = b.ttb.ktensor([np.array([[1.0, 1.0], [3.0, 4.0]]), np.array([[1.0, 6.0], [7.0, 8.0]])], np.array([1.0, 2.0])).full()
        init = b.ttb.ktensor([np.array([[1.0, 2.0], [2.0, 3.0]]), np.array([[2.0, 5.0], [6.0, 7.0]])], np.array([1.0, 1.0]))
        return dict(X=(Xd.to_sptensor() if sparse else Xd), init=init)
    reg(c, "tt_cp_apr_pqnr", "sparse,init=ktensor", lambda b: pq(b, True), lambda o, b: direct("tt_cp_apr_pqnr", **kwfor("tt_cp_apr_pqnr", pool))(o, b), shapes=[(2, 2)])
    reg(c, "tt_cp_apr_pqnr", "dense,init=ktensor", lambda b: pq(b, False), lambda o, b: direct("tt_cp_apr_pqnr", **kwfor("tt_cp_apr_pqnr", pool))(o, b), shapes=[(2, 2)])
    # the row-subproblem helpers, called the way tt_cp_apr_pdnr / tt_cp_apr_pqnr call them (mode 0, row 0), every argument array
    # held by the caller: Pi, the data row, the model row, the partials, the search direction, the L-BFGS memory
    def rowctx(b, sparse):
        X = b.S() if sparse else b.T()
        M = b.K()
        M.normalize(normtype=1)
        R, N = 2, b.N
        if sparse:
            ix = np.where(X.subs[:, 0] == 0)[0]
            Pi = CA.tt_calcpi_prowsubprob(X, M, R, 0, N, True, ix)
            x_row = X.vals[ix].copy()
        else:
            ix = None
            Pi = CA.tt_calcpi_prowsubprob(X, M, R, 0, N, False)
            x_row = X.to_tenmat(np.array([0])).data[0, :].copy()
        m_row = M.factor_matrices[0][0, :].copy()
        phi, ups = CA.calc_partials(sparse, Pi, 1e-10, x_row, m_row)
        gradM = (np.ones((R, 1)) - phi).transpose()
        return dict(X=X, M=M, ix=ix, Pi=Pi, x_row=x_row, m_row=m_row, phi=phi, ups=ups, gradM=gradM)
    pickd = lambda d, *ks: {k: d[k] for k in ks if d[k] is not None}
    for dn, spf in (("dense", False), ("sparse", True)):
        ctx = lambda b, spf=spf: rowctx(b, spf)
        reg(c, "tt_calcpi_prowsubprob", dn, lambda b, ctx=ctx: pickd(ctx(b), "X", "M", "ix"),
            lambda o, b, spf=spf: CA.tt_calcpi_prowsubprob(o.X, o.M, 2, 0, b.N, spf, o.ix) if spf else CA.tt_calcpi_prowsubprob(o.X, o.M, 2, 0, b.N, False), shapes=ALG1)
        reg(c, "calc_partials", dn, lambda b, ctx=ctx: pickd(ctx(b), "Pi", "x_row", "m_row"),
            lambda o, spf=spf: CA.calc_partials(spf, o.Pi, 1e-10, o.x_row, o.m_row), shapes=ALG1)
        reg(c, "calc_grad", dn, lambda b, ctx=ctx: pickd(ctx(b), "Pi", "x_row", "m_row"),
            lambda o, spf=spf: CA.calc_grad(spf, o.Pi, 1e-10, o.x_row, o.m_row), shapes=ALG1)
        reg(c, "tt_loglikelihood_row", dn, lambda b, ctx=ctx: pickd(ctx(b), "Pi", "x_row", "m_row"),
            lambda o, spf=spf: CA.tt_loglikelihood_row(spf, o.x_row, o.m_row, o.Pi), shapes=ALG1, kind="scalar")
        reg(c, "get_search_dir_pdnr", dn, lambda b, ctx=ctx: (lambda d: dict(pickd(d, "Pi", "ups", "m_row"), g=d["gradM"].transpose()[0].copy()))(ctx(b)),
            lambda o: CA.get_search_dir_pdnr(o.Pi, o.ups, 2, o.g, o.m_row, 1e-5, 1e-8), shapes=ALG1)
        reg(c, "get_hessian", dn, lambda b, ctx=ctx: dict(pickd(ctx(b), "Pi", "ups"), free=np.array([0, 1])),
            lambda o: CA.get_hessian(o.ups, o.Pi, o.free), shapes=ALG1)
        reg(c, "get_hessian", dn + ",one-free-index", lambda b, ctx=ctx: dict(pickd(ctx(b), "Pi", "ups"), free=np.array([1])),
            lambda o: CA.get_hessian(o.ups, o.Pi, o.free), shapes=ALG1, layouts=False)
        def ls(o, spf=spf, step=1):
            return CA.tt_linesearch_prowsubprob(o.dir, o.grad, o.m_row, step, 0.5, 10, 1e-4, spf, o.x_row, o.Pi, o.phi, False)
        lsb = lambda b, ctx=ctx, zero=False: (lambda d: dict(pickd(d, "Pi", "x_row", "m_row", "phi"), grad=d["gradM"].transpose().copy(),
                                                              dir=(np.zeros(2) if zero else -d["gradM"].transpose()[:, 0].copy())))(ctx(b))
        reg(c, "tt_linesearch_prowsubprob", dn + ",descent-direction", lsb, ls, shapes=ALG1)
        reg(c, "tt_linesearch_prowsubprob", dn + ",zero-direction(no-progress)", lambda b, lsb=lsb: lsb(b, zero=True), ls, shapes=ALG1)
        reg(c, "tt_linesearch_prowsubprob", dn + ",max_steps-exhausted", lambda b, ctx=ctx: (lambda d: dict(pickd(d, "Pi", "x_row", "m_row", "phi"), grad=d["gradM"].transpose().copy(),
                                                                                                           dir=d["gradM"].transpose()[:, 0].copy()))(ctx(b)), ls, shapes=ALG1, layouts=False)
        qb = lambda b, ctx=ctx, it=0: (lambda d: dict(m_row=d["m_row"], g=d["gradM"].transpose()[0].copy(), dm=np.array([[0.1, 0.0, 0.0], [0.2, 0.0, 0.0]]),
                                                      dg=np.array([[0.3, 0.0, 0.0], [0.1, 0.0, 0.0]]), rho=np.array([1.0 / 0.05, 0.0, 0.0])))(ctx(b))
        reg(c, "get_search_dir_pqnr", dn + ",first-iteration", qb, lambda o: CA.get_search_dir_pqnr(o.m_row, o.g, 1e-8, o.dm, o.dg, o.rho, 0, 0, False), shapes=ALG1)
        reg(c, "get_search_dir_pqnr", dn + ",one-stored-pair", qb, lambda o: CA.get_search_dir_pqnr(o.m_row, o.g, 1e-8, o.dm, o.dg, o.rho, 0, 1, False), shapes=ALG1)
