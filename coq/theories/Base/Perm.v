(* Base/Perm.v — numpy-style gather `a[p]` (pick), permutations of 0..n-1 and their inverse
   (invperm p = np.argsort(p) for a permutation p). Stdlib only. *)
From Coq Require Import List Arith Lia Bool Permutation.
Import ListNotations.

Section Pick.
Context {A : Type} (d : A).

Definition pick (p : list nat) (l : list A) : list A := map (fun k => nth k l d) p.

Lemma pick_length p l : length (pick p l) = length p.
Proof. apply map_length. Qed.

Lemma nth_pick p l j : j < length p -> nth j (pick p l) d = nth (nth j p 0) l d.
Proof.
  intros H. unfold pick.
  rewrite (nth_indep _ d ((fun k => nth k l d) 0)) by (now rewrite map_length).
  now rewrite (map_nth (fun k => nth k l d)).
Qed.

Lemma pick_seq l : pick (seq 0 (length l)) l = l.
Proof.
  apply (nth_ext _ _ d d).
  - now rewrite pick_length, seq_length.
  - intros j Hj. rewrite pick_length, seq_length in Hj.
    rewrite nth_pick by (now rewrite seq_length). now rewrite seq_nth.
Qed.

End Pick.

Lemma pick_pick {A} (d : A) p q (l : list A) : (forall k, In k q -> k < length p) ->
  pick d q (pick d p l) = pick d (pick 0 q p) l.
Proof.
  intros H. unfold pick. rewrite map_map.
  apply map_ext_in. intros k Hk. fold (pick d p l). apply nth_pick. auto.
Qed.

Fixpoint index_of (k : nat) (p : list nat) : nat :=
  match p with
  | [] => 0
  | x :: p' => if Nat.eqb x k then 0 else S (index_of k p')
  end.

Definition invperm (p : list nat) : list nat := map (fun k => index_of k p) (seq 0 (length p)).

Definition is_perm (p : list nat) (n : nat) : Prop := Permutation p (seq 0 n).

(* boolean version used by executable guards *)
Definition is_permb (p : list nat) (n : nat) : bool :=
  Nat.eqb (length p) n && forallb (fun k => existsb (Nat.eqb k) p) (seq 0 n).

Lemma index_of_lt k p : In k p -> index_of k p < length p.
Proof.
  induction p as [|x p IH]; cbn; [tauto|]. intros [->|H].
  - rewrite Nat.eqb_refl. lia.
  - destruct (Nat.eqb x k); [lia|]. specialize (IH H). lia.
Qed.

Lemma nth_index_of k p : In k p -> nth (index_of k p) p 0 = k.
Proof.
  induction p as [|x p IH]; cbn; [tauto|]. intros H.
  destruct (Nat.eqb_spec x k) as [->|Hne]; auto.
  destruct H as [->|H]; [congruence|]. auto.
Qed.

Lemma index_of_nth j p : NoDup p -> j < length p -> index_of (nth j p 0) p = j.
Proof.
  revert j; induction p as [|x p IH]; intros j Hn Hj; cbn in Hj; [lia|].
  inversion Hn as [|? ? Hx Hn']; subst.
  destruct j as [|j]; cbn.
  - now rewrite Nat.eqb_refl.
  - destruct (Nat.eqb_spec x (nth j p 0)) as [E|_].
    + exfalso. apply Hx. rewrite E. apply nth_In. lia.
    + f_equal. apply IH; auto. lia.
Qed.

Lemma is_perm_length p n : is_perm p n -> length p = n.
Proof. intros H. apply Permutation_length in H. now rewrite seq_length in H. Qed.

Lemma is_perm_NoDup p n : is_perm p n -> NoDup p.
Proof. intros H. eapply Permutation_NoDup; [symmetry; exact H|apply seq_NoDup]. Qed.

Lemma is_perm_In p n k : is_perm p n -> (In k p <-> k < n).
Proof.
  intros H. split; intros Hk.
  - eapply Permutation_in in Hk; [|exact H]. apply in_seq in Hk. lia.
  - eapply Permutation_in; [symmetry; exact H|]. apply in_seq. lia.
Qed.

Lemma invperm_length p : length (invperm p) = length p.
Proof. unfold invperm. now rewrite map_length, seq_length. Qed.

Lemma nth_invperm p k : k < length p -> nth k (invperm p) 0 = index_of k p.
Proof.
  intros H. unfold invperm.
  rewrite (nth_indep _ 0 ((fun k => index_of k p) 0)) by (now rewrite map_length, seq_length).
  rewrite (map_nth (fun k => index_of k p)). now rewrite seq_nth.
Qed.

Lemma invperm_is_perm p n : is_perm p n -> is_perm (invperm p) n.
Proof.
  intros H. pose proof (is_perm_length _ _ H) as HL. pose proof (is_perm_NoDup _ _ H) as HN.
  unfold is_perm. apply NoDup_Permutation_bis.
  - (* NoDup (invperm p) *)
    unfold invperm. rewrite HL.
    assert (G : forall l, NoDup l -> (forall k, In k l -> In k p) -> NoDup (map (fun k => index_of k p) l)).
    { induction l as [|a l IH]; intros Hnl Hin; cbn; constructor.
      - inversion Hnl as [|? ? Ha _]; subst. rewrite in_map_iff. intros (b & E & Hb).
        assert (a = b).
        { rewrite <- (nth_index_of a p), <- (nth_index_of b p) by (apply Hin; cbn; auto). now rewrite E. }
        subst. contradiction.
      - inversion Hnl; subst. apply IH; auto. intros; apply Hin; cbn; auto. }
    apply G; [apply seq_NoDup|]. intros k Hk. apply (is_perm_In p n k H). apply in_seq in Hk. lia.
  - rewrite invperm_length, seq_length. lia.
  - intros x Hx. unfold invperm in Hx. rewrite in_map_iff in Hx. destruct Hx as (k & <- & Hk).
    apply in_seq in Hk. apply in_seq. split; [lia|]. cbn. rewrite <- HL.
    apply index_of_lt. apply (is_perm_In p n k H). lia.
Qed.

Section PickPerm.
Context {A : Type} (d : A).

Lemma pick_invperm_pick p n (l : list A) : is_perm p n -> length l = n ->
  pick d (invperm p) (pick d p l) = l.
Proof.
  intros H HL. pose proof (is_perm_length _ _ H) as Hp.
  apply (nth_ext _ _ d d).
  - rewrite pick_length, invperm_length. lia.
  - intros j Hj. rewrite pick_length, invperm_length in Hj.
    rewrite nth_pick by (rewrite invperm_length; lia).
    rewrite nth_invperm by lia.
    assert (Hin : In j p) by (apply (is_perm_In p n j H); lia).
    rewrite nth_pick by (now apply index_of_lt).
    now rewrite nth_index_of.
Qed.

Lemma pick_pick_invperm p n (l : list A) : is_perm p n -> length l = n ->
  pick d p (pick d (invperm p) l) = l.
Proof.
  intros H HL. pose proof (is_perm_length _ _ H) as Hp.
  apply (nth_ext _ _ d d).
  - rewrite pick_length. lia.
  - intros j Hj. rewrite pick_length in Hj.
    rewrite nth_pick by lia.
    assert (Hlt : nth j p 0 < length p).
    { rewrite Hp. apply (is_perm_In p n _ H). apply nth_In. lia. }
    rewrite nth_pick by (rewrite invperm_length; lia).
    rewrite nth_invperm by lia.
    rewrite index_of_nth; auto. eapply is_perm_NoDup; eauto.
Qed.
End PickPerm.

Lemma invperm_invperm p n : is_perm p n -> invperm (invperm p) = p.
Proof.
  intros H. pose proof (is_perm_length _ _ H) as Hp.
  pose proof (invperm_is_perm _ _ H) as Hi.
  apply (nth_ext _ _ 0 0).
  - now rewrite !invperm_length.
  - intros j Hj. rewrite !invperm_length in Hj.
    rewrite nth_invperm by (rewrite invperm_length; lia).
    (* index_of j (invperm p) = nth j p 0 *)
    assert (Hlt : nth j p 0 < length p).
    { rewrite Hp. apply (is_perm_In p n _ H). apply nth_In. lia. }
    rewrite <- (index_of_nth (nth j p 0) (invperm p)).
    + f_equal. rewrite nth_invperm by lia. symmetry. apply index_of_nth; [eapply is_perm_NoDup; eauto|lia].
    + eapply is_perm_NoDup; eauto.
    + rewrite invperm_length. lia.
Qed.

Lemma is_permb_spec p n : is_permb p n = true <-> is_perm p n.
Proof.
  unfold is_permb. rewrite andb_true_iff, Nat.eqb_eq, forallb_forall. split.
  - intros [HL Hall]. unfold is_perm. symmetry. apply NoDup_Permutation_bis.
    + apply seq_NoDup.
    + rewrite seq_length. lia.
    + intros k Hk. specialize (Hall k Hk). apply existsb_exists in Hall as (x & Hx & E).
      apply Nat.eqb_eq in E. now subst.
  - intros H. split; [now apply is_perm_length|]. intros k Hk.
    apply existsb_exists. exists k. split; [|apply Nat.eqb_refl].
    apply (is_perm_In p n k H). apply in_seq in Hk. lia.
Qed.
