(* Model/W4Harness2.v — comparer for the results of the generated sptensor.squeeze (tools/props/w4gen.py). *)
From Coq Require Import List ZArith Bool.
From PV Require Import Np.NpZ Np.NpZ2 Np.NpZ3 Np.NpZ4 Np.NpZ4d Model.Harness Model.W4Harness.
Import ListNotations.
Local Open Scope Z_scope.

Definition w4_sq_eqb (a b : sq_result) : bool :=
  match a, b with
  | SqTensor s, SqTensor t => w4_spt_eqb s t
  | SqScalar x, SqScalar y => x =? y
  | _, _ => false
  end.
