(* Proofs/C06W4.v — wave 4.
   1. squash AS pyttb computes it today (Model/C06Ops.v squash_asis: every mode gets the extent nnz; open finding A-27): the result
      is a well-formed sparse tensor, the same for every stored order, and it IS the specified squash exactly when no mode repeats an
      index among the stored subscripts — the trigger of A-27 is that predicate, proved exact.
   2. sparse / sparse as pyttb computes it after /repo e2beb21 (Model/C03Gen.v impl_div_sparse_gen over the GENERATED row helpers; the
      position-by-position characterisation is C03's impl_div_sparse_gen_char): the quotient stores every position of the shape exactly
      once, denotes the same array for every stored order of both operands (entries equal up to order), and is free of explicit zeros
      EXACTLY when every position stored in the divisor is stored in the dividend — the trigger of open finding C03-N7, proved exact. *)
From Coq Require Import List Arith Lia Bool Permutation Sorting.Sorted.
From PV Require Import Base.Index Np.NpZ Np.Array Gen.GenUtils Model.Sparse Model.Harness Model.C03Ops Model.C03Gen Model.C03More Model.C06Ops
                       Model.C01Unique Model.C06W4
                       Proofs.C03Lemmas Proofs.C03Proofs Proofs.C03GenProofs Proofs.C03More Proofs.C06Proofs Proofs.C06Other Proofs.C06Squash
                       Proofs.C01Unique.
Import ListNotations.
Local Open Scope nat_scope.

(* ------------------------------------------------------------------------------------------------ squash as it is *)
Lemma inb_mono s s' i : Forall2 le s s' -> inb s i = true -> inb s' i = true.
Proof.
  intros H. revert i. induction H as [|d d' s s' Hd _ IH]; intros [|x i] Hi; cbn [inb] in *; auto; try discriminate.
  apply andb_true_iff in Hi as [Hx Hi]. apply Nat.ltb_lt in Hx. rewrite (IH i Hi), andb_true_r. apply Nat.ltb_lt. lia.
Qed.

Lemma ssorted_lt_NoDup l : StronglySorted lt l -> NoDup l.
Proof.
  induction 1 as [|a l _ IH F]; constructor; auto. intros Hin. rewrite Forall_forall in F. specialize (F a Hin). lia.
Qed.

Lemma NoDup_uniq_nat l : NoDup (uniq_nat l).
Proof. apply ssorted_lt_NoDup, sorted_uniq_nat. Qed.

Lemma length_uniq_nat_le l : length (uniq_nat l) <= length l.
Proof. apply NoDup_incl_length; [apply NoDup_uniq_nat|]. intros y Hy. exact (proj1 (in_uniq_nat y l) Hy). Qed.

Lemma length_uniq_nat_eq_iff l : length (uniq_nat l) = length l <-> NoDup l.
Proof.
  split.
  - intros E. apply (@NoDup_incl_NoDup nat (uniq_nat l) l); [apply NoDup_uniq_nat|lia|]. intros y Hy. exact (proj1 (in_uniq_nat y l) Hy).
  - intros Hn. apply Permutation_length. apply NoDup_Permutation; auto using NoDup_uniq_nat. intros y. apply in_uniq_nat.
Qed.

Lemma in_combine_exists_r {A B} (l : list A) (l' : list B) b : length l = length l' -> In b l' -> exists a, In (a, b) (combine l l').
Proof.
  revert l'. induction l as [|x l IH]; intros [|y l'] HL Hin; cbn in *; try discriminate; try contradiction.
  destruct Hin as [->|Hin]; [eauto|]. destruct (IH l' ltac:(lia) Hin) as (a & Ha). eauto.
Qed.

Lemma column_length n (subs : list idx) : length (column n subs) = length subs.
Proof. unfold column. apply map_length. Qed.

Section SquashAsis.
Context {V : Type} (v0 : V) (isz : V -> bool).
Hypothesis isz_spec : forall v, isz v = true <-> v = v0.
Notation wf := (wf_sp isz).

Lemma asis_shape_ge (S : sparse V) :
  Forall2 le (sshape (squash S)) (sshape (squash_asis S)).
Proof.
  unfold squash_asis, squash, squash_maps. cbn [sshape]. rewrite map_map.
  assert (G : forall (s : shape) k, Forall2 le (map (fun n => length (uniq_nat (column n (ssubs S)))) (seq k (length s)))
                                            (map (fun _ : nat => length (ssubs S)) s)).
  { induction s as [|d s IH]; intros k; cbn; constructor; auto. rewrite <- (column_length k (ssubs S)). apply length_uniq_nat_le. }
  apply G.
Qed.

(* pyttb's squash: a well-formed sparse tensor with the stored values of S, every mode of extent nnz *)
Theorem squash_asis_wf (S : sparse V) : wf S ->
  wf (squash_asis S) /\ nnz (squash_asis S) = nnz S /\ svals (squash_asis S) = svals S /\
  ssubs (squash_asis S) = ssubs (squash S) /\ sshape (squash_asis S) = map (fun _ => nnz S) (sshape S).
Proof.
  intros W. destruct (squash_wf isz S W) as ((HL & HN & HB & HZ) & En & Ev & _).
  split; [|split; [exact En|split; [reflexivity|split; reflexivity]]].
  unfold wf_sp. change (ssubs (squash_asis S)) with (ssubs (squash S)). change (svals (squash_asis S)) with (svals (squash S)).
  split; [exact HL|]. split; [exact HN|]. split; [|exact HZ].
  rewrite Forall_forall in *. intros j Hj. apply (inb_mono (sshape (squash S))); [apply asis_shape_ge|auto].
Qed.

(* ... the same for every stored order *)
Theorem squash_asis_indep (S S' : sparse V) : wf S -> wf S' -> sshape S' = sshape S -> Permutation (entries S) (entries S') ->
  same_result v0 isz (squash_asis S) (squash_asis S').
Proof.
  intros W W' Hs P. destruct (indep_squash v0 isz S S' W W' Hs P) as (_ & _ & _ & PE).
  destruct (squash_asis_wf S W) as (W1 & _). destruct (squash_asis_wf S' W') as (W2 & _).
  assert (PE' : Permutation (entries (squash_asis S)) (entries (squash_asis S'))) by exact PE.
  split; [exact W1|]. split; [exact W2|]. split; [|exact PE'].
  assert (EL : length (ssubs S) = length (ssubs S')).
  { destruct W as (L & _), W' as (L' & _). apply Permutation_length in P. unfold entries in P. rewrite !combine_length in P. lia. }
  apply (canon_of_perm v0 isz); auto. unfold squash_asis. cbn [sshape]. now rewrite Hs, EL.
Qed.

(* ... and it is the SPECIFIED squash exactly when no mode repeats an index among the stored subscripts (finding A-27's trigger) *)
Theorem squash_asis_spec_iff (S : sparse V) : wf S ->
  (squash_asis S = squash S <-> forall n, n < length (sshape S) -> NoDup (column n (ssubs S))).
Proof.
  intros W.
  assert (G : forall (s : shape) k,
             map (fun _ : nat => length (ssubs S)) s = map (fun n => length (uniq_nat (column n (ssubs S)))) (seq k (length s)) <->
             forall n, k <= n < k + length s -> NoDup (column n (ssubs S))).
  { induction s as [|d s IH]; intros k; cbn [map seq length].
    - split; auto. intros _ n Hn. lia.
    - split.
      + intros E. inversion E as [[E1 E2]]. intros n Hn. destruct (Nat.eq_dec n k) as [->|Hne].
        * apply length_uniq_nat_eq_iff. now rewrite column_length.
        * apply (proj1 (IH (Datatypes.S k)) E2). lia.
      + intros H. f_equal.
        * rewrite <- (column_length k (ssubs S)). symmetry. apply length_uniq_nat_eq_iff. apply H. lia.
        * apply IH. intros n Hn. apply H. lia. }
  unfold squash_asis. split.
  - intros E. apply (f_equal (@sshape V)) in E. cbn [sshape] in E. unfold squash, squash_maps in E. cbn [sshape] in E.
    rewrite map_map in E. intros n Hn. apply (proj1 (G (sshape S) 0) E). lia.
  - intros H. rewrite (squash_eq S) at 2. cbn [ssubs svals]. f_equal. unfold squash_maps. rewrite map_map.
    apply (proj2 (G (sshape S) 0)). intros n Hn. apply H. lia.
Qed.
End SquashAsis.

(* ------------------------------------------------------------------------------------------------ sparse / sparse *)
Section DivC06.
Context {V X : Type} (v0 : V) (isz : V -> bool) (x0 : X) (xisz : X -> bool).
Hypothesis isz_spec : forall v, isz v = true <-> v = v0.
Hypothesis xisz_spec : forall x, xisz x = true <-> x = x0.
Variables (dv : V -> V -> X) (xnan xzero : X).
Hypothesis xnan_nz : xnan <> x0.
Hypothesis dv_nz : forall a b, a <> v0 -> b <> v0 -> dv a b <> x0.
Hypothesis xzero_z : xzero = x0.                     (* the fill value of 0/x is the zero of the result type: finding C03-N7 *)
Notation wf := (wf_sp isz).
Notation divg := (impl_div_sparse_gen v0 dv xnan xzero).
Notation fill := (div_fill v0 dv xnan xzero).

(* the stored value at a position of the shape is zero exactly where only the divisor stores the subscript *)
Lemma fill_zero_iff (A B : sparse V) i : wf A -> wf B ->
  (fill A B i = x0 <-> In i (ssubs B) /\ ~ In i (ssubs A)).
Proof.
  intros WA WB. unfold div_fill.
  destruct (mem i (ssubs A)) eqn:MA, (mem i (ssubs B)) eqn:MB.
  - apply mem_spec in MA, MB. split.
    + intros E. exfalso. apply (dv_nz (den_sp v0 A i) (den_sp v0 B i)); auto;
        [apply (in_subs_iff v0 isz isz_spec A i WA); auto|apply (in_subs_iff v0 isz isz_spec B i WB); auto].
    + intros [_ H]. contradiction.
  - apply mem_spec in MA. apply mem_false in MB. split; [intros E; contradiction|intros [H _]; contradiction].
  - apply mem_false in MA. apply mem_spec in MB. split; auto.
  - apply mem_false in MA, MB. split; [intros E; contradiction|intros [H _]; contradiction].
Qed.

Lemma mem_perm i l l' : Permutation l l' -> mem i l = mem i l'.
Proof.
  intros P. destruct (mem i l) eqn:E.
  - apply mem_spec in E. symmetry. apply mem_spec. eapply Permutation_in; eauto.
  - apply mem_false in E. symmetry. apply mem_false. intros H. apply E. eapply Permutation_in; [symmetry; exact P|exact H].
Qed.

Lemma subs_perm (A A' : sparse V) : wf A -> wf A' -> Permutation (entries A) (entries A') -> Permutation (ssubs A) (ssubs A').
Proof.
  intros (L & _) (L' & _) P. rewrite <- (map_fst_entries A L), <- (map_fst_entries A' L'). now apply Permutation_map.
Qed.

Lemma fill_perm (A A' B B' : sparse V) i : wf A -> wf A' -> wf B -> wf B' ->
  Permutation (entries A) (entries A') -> Permutation (entries B) (entries B') -> fill A B i = fill A' B' i.
Proof.
  intros WA WA' WB WB' PA PB. unfold div_fill.
  rewrite (mem_perm i _ _ (subs_perm A A' WA WA' PA)), (mem_perm i _ _ (subs_perm B B' WB WB' PB)).
  rewrite (den_perm v0 A A' (wf_sp_struct isz A WA) PA i), (den_perm v0 B B' (wf_sp_struct isz B WB) PB i). reflexivity.
Qed.

(* what the repaired code returns, for C06 *)
Theorem div_sparse_wf_iff (alls : list idx) (A B : sparse V) :
  wf A -> wf B -> sshape B = sshape A -> sshape A <> [] ->
  NoDup alls -> (forall i, In i alls <-> inb (sshape A) i = true) ->
  exists R, divg alls A B = Ok R /\ @wf_struct X R /\ sshape R = sshape A /\ nnz R = length alls /\
            (forall i, In i (ssubs R) <-> inb (sshape A) i = true) /\
            (forall i, inb (sshape A) i = true -> (den_sp x0 R i = x0 <-> In i (ssubs B) /\ ~ In i (ssubs A))) /\
            (wf_sp xisz R <-> forall i, In i (ssubs B) -> In i (ssubs A)).
Proof.
  intros WA WB Hs Hne Hnd Hall.
  destruct (impl_div_sparse_gen_char v0 x0 dv xnan xzero alls A B (wf_sp_struct isz A WA) (wf_sp_struct isz B WB) Hs Hne Hnd Hall)
    as (R & E & Ws & Sh & M & D).
  exists R. split; [exact E|]. split; [exact Ws|]. split; [exact Sh|]. split; [|split; [exact M|split]].
  - unfold nnz. apply Permutation_length. apply NoDup_Permutation; auto; [now destruct Ws as (_ & Hn & _)|].
    intros i. now rewrite M, Hall.
  - intros i Hi. rewrite (D i Hi). now apply fill_zero_iff.
  - pose proof Ws as (L & Hn & Hb). split.
    + intros (_ & _ & _ & Hz) i HiB.
      destruct (in_dec (list_eq_dec Nat.eq_dec) i (ssubs A)) as [HiA|HiA]; auto. exfalso.
      assert (Hi : inb (sshape A) i = true).
      { rewrite <- Hs. destruct WB as (_ & _ & HbB & _). rewrite Forall_forall in HbB. auto. }
      assert (HiR : In i (ssubs R)) by (now apply M).
      pose proof (in_subs_entry x0 R i Ws HiR) as He.
      assert (Hv : den_sp x0 R i = x0) by (rewrite (D i Hi); apply fill_zero_iff; auto).
      rewrite Hv in He. unfold entries in He. apply in_combine_r in He. rewrite Forall_forall in Hz. specialize (Hz x0 He).
      rewrite (proj2 (xisz_spec x0) eq_refl) in Hz. discriminate.
    + intros Hsub. unfold wf_sp. split; [exact L|]. split; [exact Hn|]. split; [exact Hb|].
      rewrite Forall_forall. intros v Hv.
      destruct (in_combine_exists_r (ssubs R) (svals R) v L Hv) as (i & Hiv).
      assert (HiR : In i (ssubs R)) by (now apply in_combine_l in Hiv).
      assert (Hi : inb (sshape A) i = true) by (now apply M).
      pose proof (den_struct_in x0 R i v Ws Hiv) as Ev. rewrite (D i Hi) in Ev.
      destruct (xisz v) eqn:Z; auto. apply xisz_spec in Z. subst v.
      apply (fill_zero_iff A B i WA WB) in Z as [HiB HiA]. exfalso. auto.
Qed.

(* the same array, the same stored entries up to order, and the same verdict on well-formedness for every stored order of
   the dividend and of the divisor *)
Theorem div_sparse_indep (alls : list idx) (A A' B B' : sparse V) :
  wf A -> wf A' -> wf B -> wf B' -> sshape A' = sshape A -> sshape B = sshape A -> sshape B' = sshape A -> sshape A <> [] ->
  Permutation (entries A) (entries A') -> Permutation (entries B) (entries B') ->
  NoDup alls -> (forall i, In i alls <-> inb (sshape A) i = true) ->
  exists R R', divg alls A B = Ok R /\ divg alls A' B' = Ok R' /\ sshape R = sshape R' /\
               (forall i, den_sp x0 R i = den_sp x0 R' i) /\ Permutation (entries R) (entries R') /\
               (wf_sp xisz R <-> wf_sp xisz R').
Proof.
  intros WA WA' WB WB' SA SB SB' Hne PA PB Hnd Hall.
  destruct (impl_div_sparse_gen_char v0 x0 dv xnan xzero alls A B (wf_sp_struct isz A WA) (wf_sp_struct isz B WB) SB Hne Hnd Hall)
    as (R & E & Ws & Sh & M & D).
  assert (Hall' : forall i, In i alls <-> inb (sshape A') i = true) by (intros i; now rewrite SA).
  destruct (impl_div_sparse_gen_char v0 x0 dv xnan xzero alls A' B' (wf_sp_struct isz A' WA') (wf_sp_struct isz B' WB')
              ltac:(congruence) ltac:(congruence) Hnd Hall') as (R' & E' & Ws' & Sh' & M' & D').
  assert (Dq : forall i, den_sp x0 R i = den_sp x0 R' i).
  { intros i. destruct (inb (sshape A) i) eqn:Hi.
    - rewrite (D i Hi), (D' i ltac:(now rewrite SA)). now apply fill_perm.
    - rewrite (den_out x0 R i Ws ltac:(now rewrite Sh)). symmetry. apply (den_out x0 R' i Ws'). now rewrite Sh', SA. }
  assert (PE : Permutation (entries R) (entries R')).
  { apply NoDup_Permutation; [now apply NoDup_entries|now apply NoDup_entries|]. intros [i v]. split; intros H.
    - assert (HiR : In i (ssubs R)) by (unfold entries in H; now apply in_combine_l in H).
      assert (HiR' : In i (ssubs R')) by (apply M'; rewrite SA; now apply M).
      rewrite <- (den_struct_in x0 R i v Ws H), Dq. now apply in_subs_entry.
    - assert (HiR' : In i (ssubs R')) by (unfold entries in H; now apply in_combine_l in H).
      assert (HiR : In i (ssubs R)) by (apply M; rewrite <- SA; now apply M').
      rewrite <- (den_struct_in x0 R' i v Ws' H), <- Dq. now apply in_subs_entry. }
  exists R, R'. split; [exact E|]. split; [exact E'|]. split; [congruence|]. split; [exact Dq|]. split; [exact PE|].
  assert (PV : Permutation (svals R) (svals R')).
  { destruct Ws as (L & _), Ws' as (L' & _).
    replace (svals R) with (map snd (entries R)); [replace (svals R') with (map snd (entries R'))|].
    - now apply Permutation_map.
    - unfold entries. clear - L'. revert L'. generalize (svals R'). induction (ssubs R') as [|j l IH]; intros [|v vs] H; cbn in *; try lia; auto.
      f_equal. apply IH. lia.
    - unfold entries. clear - L. revert L. generalize (svals R). induction (ssubs R) as [|j l IH]; intros [|v vs] H; cbn in *; try lia; auto.
      f_equal. apply IH. lia. }
  unfold wf_sp. split; intros (_ & _ & _ & Hz); (split; [now destruct Ws, Ws'|]); (split; [now destruct Ws as (_ & ? & _), Ws' as (_ & ? & _)|]);
    (split; [now destruct Ws as (_ & _ & ?), Ws' as (_ & _ & ?)|]); rewrite Forall_forall in *; intros v Hv; apply Hz;
    (eapply Permutation_in; [|exact Hv]); [now symmetry|exact PV].
Qed.
End DivC06.

(* ------------------------------------------------------------------------------------------------ the IEEE instance *)
From Coq Require Import ZArith QArith Qcanon.

Lemma xisz_spec_ieee x : xisz x = true <-> x = x0.
Proof.
  destruct x as [q| | |]; cbn [xisz]; split; intros H; try discriminate.
  - unfold qisz in H. apply Qc_eq_bool_correct in H. unfold x0, q0. now f_equal.
  - inversion H. reflexivity.
Qed.

Lemma qisz_false_neq q : qisz q = false -> q <> q0.
Proof. intros H E. subst q. discriminate H. Qed.

Lemma xdivz_nz a b : (a <> 0)%Z -> (b <> 0)%Z -> xdivz a b <> x0.
Proof.
  intros Ha Hb E. unfold xdivz, xdiv in E. rewrite (z2q_nz b Hb) in E. unfold x0 in E.
  assert (E1 : (z2q a / z2q b)%Qc = q0).
  { exact (f_equal (fun x => match x with XFin q => q | _ => q0 end) E). }
  apply (qisz_false_neq (z2q a) (z2q_nz a Ha)).
  rewrite <- (Qcmult_div_r (z2q a) (z2q b)) by (apply (qisz_false_neq _ (z2q_nz b Hb))).
  rewrite E1. unfold q0. ring.
Qed.

(* integer operands, IEEE quotient (0/0 and x/0 filled with NaN by the code, 0/x stored as 0.0), pyttb's own enumeration of the shape *)
Theorem div_sparse_ieee_c06 (A B : sparse Z) : wf_sp zisz A -> wf_sp zisz B -> sshape B = sshape A -> sshape A <> [] ->
  exists R, impl_div_sparse_gen 0%Z xdivz XNaN x0 (allsubsC (sshape A)) A B = Ok R /\ wf_struct R /\ sshape R = sshape A /\
            nnz R = length (allsubsC (sshape A)) /\
            (forall i, In i (ssubs R) <-> inb (sshape A) i = true) /\
            (forall i, inb (sshape A) i = true -> (den_sp x0 R i = x0 <-> In i (ssubs B) /\ ~ In i (ssubs A))) /\
            (wf_sp xisz R <-> forall i, In i (ssubs B) -> In i (ssubs A)).
Proof.
  intros WA WB Hs Hne.
  apply (div_sparse_wf_iff 0%Z zisz x0 xisz zisz_spec xisz_spec_ieee xdivz XNaN x0); auto.
  - discriminate.
  - exact xdivz_nz.
  - apply allsubsC_NoDup.
  - apply in_allsubsC.
Qed.

(* ------------------------------------------------------------------------------------------------ the linear-time checker of the huge cases *)
Lemma adj_ltb_ssorted l : adj_ltb l = true -> ssorted l.
Proof.
  induction l as [|i r IH]; cbn [adj_ltb ssorted]; auto. intros H. apply andb_true_iff in H as [H1 H2].
  specialize (IH H2). split; auto. destruct r as [|j r']; [constructor|].
  cbn [ssorted] in IH. destruct IH as [F _]. constructor; auto.
  rewrite Forall_forall in *. intros k Hk. eapply idx_ltb_trans; [exact H1|auto].
Qed.

(* a sorted observation that passes the linear check is a well-formed sparse tensor *)
Theorem sorted_wfb_sound (X : sparse Z) : sorted_wfb X = true -> wf_sp zisz X.
Proof.
  unfold sorted_wfb. intros H. apply andb_true_iff in H as [H Hz]. apply andb_true_iff in H as [H Hb]. apply andb_true_iff in H as [HL Hs].
  split; [now apply Nat.eqb_eq|]. split; [apply ssorted_NoDup; now apply adj_ltb_ssorted|]. split.
  - rewrite Forall_forall. rewrite forallb_forall in Hb. exact Hb.
  - rewrite Forall_forall. rewrite forallb_forall in Hz. intros v Hv. specialize (Hz v Hv). now apply negb_true_iff in Hz.
Qed.
