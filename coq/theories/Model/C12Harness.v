(* Model/C12Harness.v — Z instances of the GCP evaluation model and the polynomial (loss, derivative) pairs
   used by the generated correspondence cases (integer data stay exact in float64). *)
From Coq Require Import List ZArith Bool Arith.
From PV Require Import Base.Index Base.Sum Np.Array Model.Sparse Model.Repr Model.Harness Model.C12Gcp.
Import ListNotations.
Local Open Scope Z_scope.

(* polynomial loss / derivative pairs, by number (the same table is in tools/props/c12.py) *)
Definition zf (id : nat) (x m : Z) : Z :=
  match id with
  | 0%nat => (m - x) * (m - x)
  | 1%nat => m * m * m - 3 * x * m
  | 2%nat => x * m * m + m
  | _ => m
  end.
Definition zg (id : nat) (x m : Z) : Z :=
  match id with
  | 0%nat => 2 * (m - x)
  | 1%nat => 3 * m * m - 3 * x
  | 2%nat => 2 * x * m + 1
  | _ => 1
  end.

Definition zeval_F (id : nat) := eval_F 0 1 Z.add Z.mul (zf id).
Definition zeval_G (id : nat) := eval_G 0 1 Z.add Z.mul (zg id).
Definition zest_F (id : nat) := est_F 0 1 Z.add Z.mul Z.sub (zf id).
Definition zest_G (id : nat) := est_G 0 1 Z.add Z.mul Z.sub (zg id).
Definition zmttkrp := mttkrp_den (V:=Z) 0 1 Z.add Z.mul.
Definition zmttkrps (T : dense Z) (As : list (list (list Z))) (R : nat) : list (list (list Z)) :=
  map (zmttkrp (dshape T) (den_dense 0 T) As R) (seq 0 (length (dshape T))).
Definition mats_eqb := list_eqb mat_eqb.

(* ---- fg_est.estimate with lambda_check: `if lambda_check and any(model.weights != 1.0): model = model.normalize(0)` ----
   normalize(0) rescales every column to unit 2-norm and absorbs weight * (product of the norms) into mode 0.  In exact
   arithmetic the normalised factors are  A'_0[:,r] = A_0[:,r] * w_r * prod_{l>=1} n_{l,r},  A'_l[:,r] = A_l[:,r] / n_{l,r},
   so: the model values are those of the weighted model (= the factor-only values after absorbing w into mode 0, integers),
   and the gradients differ from the ones for the absorbed factors by the column factors c_{0,r} = 1 / prod_{l>=1} n_{l,r},
   c_{k,r} = n_{k,r} (k >= 1).  The norms (square roots) are supplied by the harness as rationals; everything else is
   computed here in Z. *)
From Coq Require Import QArith Qcanon.
Local Open Scope Z_scope.
Fixpoint zmul_row (row lam : list Z) : list Z :=
  match row, lam with x :: row', w :: lam' => x * w :: zmul_row row' lam' | _, _ => [] end.
Definition absorb0 (lam : list Z) (As : list (list (list Z))) : list (list (list Z)) :=
  match As with [] => [] | A :: As' => map (fun row => zmul_row row lam) A :: As' end.
Definition lam_used (lcheck : bool) (lam : list Z) : bool := lcheck && existsb (fun w => negb (w =? 1)) lam.
Definition lam_factors (lcheck : bool) (lam : list Z) (As : list (list (list Z))) :=
  if lam_used lcheck lam then absorb0 lam As else As.
(* the exact partial derivatives for a model WITH component weights: column r of every matrix times weights[r]
   (Proofs/C12Weighted.v eval_gradient_weighted); fg.evaluate returns zeval_G — finding C12-W1 *)
Definition zeval_Gw (id : nat) (K : ktensor Z) (X : dense Z) (w : option (dense Z)) : list (list (list Z)) :=
  map (fun G => map (fun row => zmul_row row (kweights K)) G) (zeval_G id K X w).
Definition zest_lam_F (id : nat) (lcheck : bool) (lam : list Z) As := zest_F id (lam_factors lcheck lam As).
Definition zest_lam_G (id : nat) (lcheck : bool) (lam : list Z) As := zest_G id (lam_factors lcheck lam As).

Definition z2q (z : Z) : Qc := Q2Qc (inject_Z z).
Fixpoint all2 {A B} (p : A -> B -> bool) (l1 : list A) (l2 : list B) : bool :=
  match l1, l2 with
  | [], [] => true
  | a :: l1', b :: l2' => p a b && all2 p l1' l2'
  | _, _ => false
  end.
(* observed (rational) gradient matrices against c_{k,r} * G_k[j,r] *)
Definition scaled_close (cs : list (list Qc)) (G : list (list (list Z))) (obs : list (list (list Qc))) : bool :=
  all2 (fun cG ok => all2 (fun row orow => all2 (fun cg o => qclose tol9 o (fst cg * z2q (snd cg))%Qc) (combine (fst cG) row) orow)
                          (snd cG) ok) (combine cs G) obs
  && Nat.eqb (length cs) (length G).
Definition zq_close (obs : Qc) (z : Z) : bool := qclose tol9 obs (z2q z).
