(* Proofs/C01W8Tenmat.v — wave 8: C01's nat-valued guard model of tenmat.__init__ (Model/C01Unique.v tm_ctor) tied to the
   constructor the translator GENERATES from pyttb/tenmat.py (Gen/GenTenmat7.v tenmat_init, through Proofs/W7Tenmat.v
   tenmat_init_bridge): on the embedded request (mode lists and shapes as integer vectors, tshape as a tuple of Python ints,
   data = shape + F-order entries, numeric data) the generated constructor answers exactly the embedded answer of tm_ctor —
   rejected / the empty object / the object with the same stored fields.  Proof-only; nothing existing is changed. *)
From Coq Require Import List ZArith Arith Lia Bool Permutation.
From PV Require Import Base.Index Base.Perm Np.Array Np.NpZ Np.NpZ2 Np.NpZ3 Np.NpZ3b Np.NpZ7 Proofs.NpZProofs
  Gen.GenUtils Gen.GenUtils2 Gen.GenUtils3b Model.C01Conv Model.C01Unique Proofs.C01GenBridge Model.C02Modes
  Proofs.W4Loops Proofs.W4KtensorLaws Proofs.W3ShapeArgs Gen.GenTenmat7 Model.W7Tenmat Proofs.W7Tenmat.
From PV Require Model.C19Guards Proofs.C19Proofs.
Import ListNotations.

(* ------------------------------------------------------------------ embedding of the nat-valued request / answer *)
Definition emb_dense (D : dense Z) : ndz := mk_ndz (zv (dshape D)) (ddata D).
Definition emb_oshape (ts : option shape) : option pyshp := option_map (fun t => shp_of_ints (zv t)) ts.
Definition emb_tm (M : tenmat Z) : tmz :=
  mk_tmz (zv (tm_tshape M)) (zv (tm_r M)) (zv (tm_c M)) (emb_dense (tm_data M)).
Definition emb_tm_res (r : ctor_res (tenmat Z)) : res tmz :=
  match r with CtorReject => Err | CtorEmpty => Ok H_tm_empty | CtorOk M => Ok (emb_tm M) end.

(* ------------------------------------------------------------------ nat <-> Z plumbing *)
Lemma w8_of_nat_eqb a b : (Z.of_nat a =? Z.of_nat b)%Z = (a =? b).
Proof. destruct (Nat.eqb_spec a b) as [->|H]; [apply Z.eqb_refl|]. apply Z.eqb_neq. lia. Qed.

Lemma w8_zprod_zv s : zprod (zv s) = Z.of_nat (size s).
Proof. exact (zprod_zs s). Qed.

Lemma w8_zlen_zv l : zlen (zv l) = Z.of_nat (length l).
Proof. unfold zlen, zv. now rewrite map_length. Qed.

Lemma w8_nats_zv l : nats (zv l) = l.
Proof. unfold nats, zv. rewrite map_map. rewrite <- (map_id l) at 2. apply map_ext. intros k. apply Nat2Z.id. Qed.

Lemma w8_take_ok ts r : np_take_ok (zv ts) (zv r) = forallb (fun k => k <? length ts) r.
Proof.
  unfold np_take_ok. induction r as [|k r IH]; [reflexivity|]. cbn [zv map forallb]. fold (zv r). rewrite IH. f_equal.
  unfold idx_ok. rewrite w8_zlen_zv.
  destruct (Nat.ltb_spec k (length ts)) as [H|H].
  - apply andb_true_iff. split; [apply Z.leb_le|apply Z.ltb_lt]; lia.
  - apply andb_false_iff. right. apply Z.ltb_ge. lia.
Qed.

Lemma w8_take_pick ts r : np_take 0%Z (zv ts) (zv r) = zv (pick 0 r ts).
Proof.
  unfold np_take, pick, zv. rewrite !map_map. apply map_ext. intros k.
  rewrite znth_nonneg by lia. rewrite Nat2Z.id. change 0%Z with (Z.of_nat 0). apply map_nth.
Qed.

(* "len(dims) == n and sorted(dims) == range(n)" over the embedded lists is Base/Perm.v's is_permb *)
Lemma w8_dims_perm n r c : H_dims_perm (Z.of_nat n) (zv r) (zv c) = Perm.is_permb (r ++ c) n.
Proof.
  unfold H_dims_perm. rewrite <- zv_app. set (l := r ++ c).
  apply eq_true_iff_eq. rewrite andb_true_iff. rewrite Perm.is_permb_spec. split.
  - intros [_ H]. apply vec_eqb_eq in H. rewrite <- (w8_nats_zv l). apply sorted_range_is_perm. now symmetry.
  - intros P. assert (Hlen : length l = n) by (rewrite (Permutation_length P); apply seq_length).
    split; [rewrite w8_zlen_zv; apply Z.eqb_eq; now rewrite Hlen|].
    pose proof (C19Proofs.sorted_perm_bool (Z.of_nat n) (zv l) (Nat2Z.is_nonneg n)) as E.
    assert (G : C19Guards.is_permb (Z.of_nat n) (zv l) = true).
    { unfold C19Guards.is_permb, C19Guards.modes_ok. rewrite w8_zlen_zv, Hlen, Z.eqb_refl. cbn [andb].
      apply andb_true_iff. split.
      - apply forallb_forall. intros x Hx. unfold zv in Hx. apply in_map_iff in Hx as (k & <- & Hk).
        apply (Permutation_in _ P) in Hk. apply in_seq in Hk. unfold C19Guards.in_range.
        apply andb_true_iff. split; [apply Z.leb_le|apply Z.ltb_lt]; lia.
      - apply C19Proofs.nodupb_spec. unfold zv. apply FinFun.Injective_map_NoDup; [intros a b; apply Nat2Z.inj|].
        apply (Permutation_NoDup (Permutation_sym P)). apply seq_NoDup. }
    rewrite G in E. apply C19Proofs.shape_eqb_eq in E. rewrite E. apply vec_eqb_refl.
Qed.

(* ------------------------------------------------------------------ the empty case *)
Lemma w8_empty_case rd cd ts :
  H_empty_case (option_map zv rd) (option_map zv cd) (emb_oshape ts)
  = emb_tm_res (if oempty rd && oempty cd && oempty ts then CtorEmpty else CtorReject).
Proof.
  unfold H_empty_case.
  assert (E0 : H_oshp_cmp_ok (emb_oshape ts) = true) by (destruct ts; reflexivity).
  assert (E1 : forall o, H_ovec_empty (option_map zv o) = oempty o) by (intros [[|x l]|]; reflexivity).
  assert (E2 : H_oshp_empty (emb_oshape ts) = oempty ts) by (destruct ts as [[|x l]|]; reflexivity).
  rewrite E0, !E1, E2. destruct (oempty rd && oempty cd && oempty ts); reflexivity.
Qed.

(* ------------------------------------------------------------------ the checks after the data became a matrix *)
Lemma w8_tail (D2 : dense Z) rd cd (ts : option shape) :
  bind (parse_shape (match emb_oshape ts with None => shp_of_ints (nd7_shape (emb_dense D2)) | Some t => t end)) (fun t =>
    if negb (zprod (nd7_shape (emb_dense D2)) =? zprod t)%Z then Err else
    bind (GenUtils2.gather_wrap_dims (zlen t) (option_map zv rd) (option_map zv cd) None) (fun '(r, c) =>
    if negb (np_take_ok t r && np_take_ok t c) then Err else
    if negb (zprod (np_take 0%Z t r) * zprod (np_take 0%Z t c) =? zprod (nd7_shape (emb_dense D2)))%Z then Err else
    if H_dims_perm (zlen t) r c then Ok (mk_tmz t r c (emb_dense D2)) else Err))
  = emb_tm_res
      (let tshape := match ts with Some t => t | None => dshape D2 end in
       if negb (size (dshape D2) =? size tshape) then CtorReject
       else
         let n := length tshape in
         match C01Conv.gather_wrap_dims n rd cd None with
         | None => CtorReject
         | Some (r, c) =>
             if negb (forallb (fun k => k <? n) (r ++ c)) then CtorReject
             else if negb (size (pick 0 r tshape) * size (pick 0 c tshape) =? size (dshape D2)) then CtorReject
             else if negb (Perm.is_permb (r ++ c) n) then CtorReject
             else CtorOk (mkTM D2 r c tshape)
         end).
Proof.
  cbv zeta. set (tshape := match ts with Some t => t | None => dshape D2 end).
  assert (Ep : match emb_oshape ts with None => shp_of_ints (nd7_shape (emb_dense D2)) | Some t => t end = STuple (ints (zv tshape))).
  { destruct ts; reflexivity. }
  rewrite Ep, (proj1 (parse_shape_ints (zv tshape))). cbn [bind].
  cbn [emb_dense nd7_shape]. rewrite !w8_zprod_zv, w8_of_nat_eqb.
  destruct (negb (size (dshape D2) =? size tshape)); [reflexivity|].
  rewrite w8_zlen_zv.
  pose proof (gather_wrap_dims_generated (length tshape) rd cd None) as G. cbn [option_map] in G. rewrite G. clear G.
  destruct (C01Conv.gather_wrap_dims (length tshape) rd cd None) as [[r c]|]; cbn [bind]; [|reflexivity].
  rewrite !w8_take_ok, <- forallb_app.
  destruct (negb (forallb (fun k => k <? length tshape) (r ++ c))); [reflexivity|].
  rewrite !w8_take_pick, !w8_zprod_zv, <- Nat2Z.inj_mul, w8_of_nat_eqb.
  destruct (negb (size (pick 0 r tshape) * size (pick 0 c tshape) =? size (dshape D2))); [reflexivity|].
  rewrite w8_dims_perm. destruct (Perm.is_permb (r ++ c) (length tshape)); reflexivity.
Qed.

(* ------------------------------------------------------------------ the reference, then the generated constructor *)
Theorem H_tenmat_init_is_tm_ctor data rd cd ts :
  H_tenmat_init (option_map emb_dense data) true (option_map zv rd) (option_map zv cd) (emb_oshape ts)
  = emb_tm_res (tm_ctor data rd cd ts).
Proof.
  unfold H_tenmat_init, tm_ctor. destruct data as [D|]; cbn [option_map]; [|apply w8_empty_case].
  unfold nd7_size. cbn [emb_dense nd7_shape]. rewrite w8_zprod_zv. change 0%Z with (Z.of_nat 0). rewrite w8_of_nat_eqb.
  destruct (size (dshape D) =? 0); [apply w8_empty_case|]. cbn [negb]. cbv iota.
  destruct D as [sh dd]. cbn [dshape ddata].
  destruct sh as [|a [|b [|c sh]]].
  - reflexivity.
  - unfold H_as_matrix. cbn [emb_dense nd7_shape nd7_data dshape ddata zv map].
    destruct ts as [t|]; [|reflexivity]. cbn [emb_oshape option_map bind].
    exact (w8_tail (mkDense [1; a] dd) rd cd (Some t)).
  - unfold H_as_matrix. cbn [emb_dense nd7_shape nd7_data dshape ddata zv map bind].
    exact (w8_tail (mkDense [a; b] dd) rd cd ts).
  - reflexivity.
Qed.

Theorem tenmat_init_is_tm_ctor mo data rd cd ts copy :
  tenmat_init mo (option_map emb_dense data) true (option_map zv rd) (option_map zv cd) (emb_oshape ts) copy
  = emb_tm_res (tm_ctor data rd cd ts).
Proof. rewrite tenmat_init_bridge. apply H_tenmat_init_is_tm_ctor. Qed.
