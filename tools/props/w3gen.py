"""W3GEN — differential stream for the third translator batch (Gen/GenUtils3.v, GenUtils3b.v, GenMethods.v; Np/NpZ3.v, NpZ3b.v): the generated Gallina functions
and the new Np primitives are run against pyttb / numpy / Python on the same explicit inputs (same shape as c17.py).

Ops: renumberdim, renumber, irenumber, index_variant, mttkrp_factors, sizecheck, subscheck, valscheck, isrow, isvector,
islogical, parse_shape, parse_one_d (generated functions vs pyttb_utils), methods (sptensor.nnz / ndims, ktensor.ndims / ncomponents)
and prim3_* / prim3b_* (Np/NpZ3.v, NpZ3b.v primitives vs the Python / numpy construct they stand for)."""
import itertools
from vcheck import Case, gz, gzlist, gzmat, gopt, gbool

PROP = "W3GEN"
LEVEL = "proof"
GEN_UNITS = ["GenUtils3", "GenUtils3b", "GenMethods", "GenMethods2", "GenMethods3", "GenKernels3", "GenKernels"]
COQ_TARGETS = ["Props/W3C04.vo", "Props/W3C02.vo", "Props/W3C02b.vo", "Props/W3C19.vo", "Props/W3C19b.vo", "Props/W3Methods.vo",
               "Props/W3Methods2.vo", "Props/W3Methods3.vo", "Model/W3Harness.vo", "Model/Harness.vo"]
THEOREM_FILES = ["Props/W3C04.v", "Props/W3C02.v", "Props/W3C02b.v", "Props/W3C19.v", "Props/W3C19b.v", "Props/W3Methods.v", "Props/W3Methods2.v", "Props/W3Methods3.v"]
COQ_IMPORTS = ("From Coq Require Import List ZArith Bool.\n"
               "From PV Require Import Np.NpZ Np.NpZ2 Np.NpZ3 Np.NpZ3b Np.NpZ3c Np.NpZ3d Np.NpZ3e Gen.GenMethods3 Gen.GenUtils3 Gen.GenUtils3b Gen.GenMethods Gen.GenMethods2 Gen.GenKernels3 Model.Harness "
               "Model.W3Harness.\n")
RULE = ("exhaustive over small key / slice / shape families + seeded random stream incl. malformed keys (out-of-range, negative, "
        "None, wrong length, zero step); a case is non-trivial unless the operand is empty; distinct = distinct (op, arguments)")
EXPLANATION = ("Theorems (Props/W3C04.v, W3C02.v, W3C19.v) are stated over Gen/GenUtils3.v, regenerated from pyttb_utils.py on this run; "
               "the correspondence stream runs the same generated functions and every Np/NpZ3.v primitive against pyttb / numpy.")
SHARD = 300
# method_allsubs: the general enumeration statement allsubs_enumerates_stmt (Proofs/W3Methods2.v) is proved since wave 5 by w5-C17
# (Proofs/C17Allsubs.v allsubs_enumerates; stated and checked in Props/C17w5.v C17_gen_allsubs_all_shapes by ./check C17)
CORRESPONDENCE_ONLY = []


# ------------------------------------------------------------------------------------------------- literals
def gslice(s):
    return f"(mkslice {gopt(s[0], gz)} {gopt(s[1], gz)} {gopt(s[2], gz)})"


def gix(x):
    k = x[0]
    if k == "int":
        return f"(IxInt {gz(x[1])})"
    if k == "slice":
        return f"(IxSlice {gslice(x[1:4])})"
    if k == "list":
        return f"(IxSeq {gzlist(x[1])})"
    if k == "arr":
        return f"(IxArr {gzlist(x[1])})"
    return "IxNone"


def gixlist(l):
    return "(@nil pyidx)" if not l else "[" + "; ".join(gix(x) for x in l) + "]"


def gnum(v):
    if v == "inf":
        return "NPosInf"
    if v == "-inf":
        return "NNegInf"
    if v == "nan":
        return "NNan"
    import math
    f = float(v)
    z = int(f) if f == int(f) else (math.ceil(f) if f > 0 else math.floor(f))      # rounded away from zero
    return f"(NFin {gz(z)})"


def gnda(a):
    kind = {"int": "DInt", "float": "DFloat", "bool": "DBool"}[a["kind"]]
    data = "(@nil npnum)" if not a["data"] else "[" + "; ".join(gnum(v) for v in a["data"]) + "]"
    return f"(mknd {gzlist(a['shape'])} {kind} {data})"


def gelems(l):
    if not l:
        return "(@nil pyelem)"
    return "[" + "; ".join(f"(EInt {gz(e)})" if isinstance(e, int) else f"(EList {gzlist(e)})" for e in l) + "]"


def gkey(x):
    k = x[0]
    if k == "int":
        return f"(KInt {gz(x[1])})"
    if k == "slice":
        return f"(KSlice {gslice(x[1:4])})"
    if k == "arr":
        return f"(KArr {gnda(x[1])})"
    if k == "tuple":
        return f"(KTuple {gelems(x[1])})"
    if k == "list":
        return f"(KList {gelems(x[1])})"
    return "KNone"


def gshp(x):
    k = x[0]
    if k == "int":
        return f"(SInt {gz(x[1])})"
    if k == "arr":
        return f"(SArr {gnda(x[1])})"
    return f"({'STuple' if k == 'tuple' else 'SList'} {gelems(x[1])})"


def gmatlist(ms):
    return "(@nil (list (list Z)))" if not ms else "[" + "; ".join(gzmat(m) for m in ms) + "]"


def gkt(k):
    return f"(mkkt {gzlist(k['w'])} {gmatlist(k['f'])})"


# ------------------------------------------------------------------------------------------------- python values
def py_ix(np, x):
    k = x[0]
    if k == "int":
        return np.int64(x[1]) if (len(x) > 2 and x[2]) else int(x[1])
    if k == "slice":
        return slice(x[1], x[2], x[3])
    if k == "list":
        return list(x[1])
    if k == "arr":
        return np.array(x[1], dtype=int)
    return None


def py_nda(np, a):
    conv = {"inf": np.inf, "-inf": -np.inf, "nan": np.nan}
    data = [conv.get(v, v) if isinstance(v, str) else v for v in a["data"]]
    dt = {"int": int, "float": float, "bool": bool}[a["kind"]]
    return np.array(data, dtype=dt).reshape(tuple(a["shape"]))


def py_key(np, x):
    k = x[0]
    if k in ("int", "slice"):
        return py_ix(np, x)
    if k == "arr":
        return py_nda(np, x[1])
    if k == "tuple":
        return tuple(e if isinstance(e, int) else list(e) for e in x[1])
    if k == "list":
        return [e if isinstance(e, int) else list(e) for e in x[1]]
    return None


def py_shp(np, x):
    if x[0] == "int":
        return np.int64(x[1]) if x[2] else int(x[1])
    if x[0] == "arr":
        return py_nda(np, x[1])
    l = [e if isinstance(e, int) else list(e) for e in x[1]]
    return tuple(l) if x[0] == "tuple" else l


def obs_nda(np, r):
    """shape, dtype kind and C-order entries of a numeric array result"""
    r = np.asarray(r)
    kind = "int" if issubclass(r.dtype.type, np.integer) else ("bool" if r.dtype == bool else ("float" if issubclass(r.dtype.type, np.floating) else "other"))
    data = []
    for v in r.ravel(order="C").tolist():
        if isinstance(v, float) and v != v:
            data.append("nan")
        elif v in (float("inf"), float("-inf")):
            data.append("inf" if v > 0 else "-inf")
        else:
            data.append(int(v) if kind != "float" else float(v))
    return {"shape": [int(d) for d in r.shape], "kind": kind, "data": data}


def _mat(np, m, k, layout=0):
    a = np.array(m, dtype=int).reshape((len(m), k))
    if layout == 1:
        a = np.asfortranarray(a)
    elif layout == 2:
        a = a.astype(np.int32)
    elif layout == 3:      # non-contiguous view
        big = np.zeros((len(m), 2 * k), dtype=int)
        big[:, ::2] = a
        a = big[:, ::2]
    return a


def _ints(np, a):
    """integer-valued array -> nested lists of Python ints (None when an entry is not integer-valued)"""
    a = np.asarray(a)
    if a.size and not np.all(a == np.round(a)):
        return None
    return a.astype(int).tolist()


# ------------------------------------------------------------------------------------------------- generators
def rand_slice(rng, n):
    def b():
        return rng.choice([None, None] + list(range(-n - 2, n + 3)))
    return ["slice", b(), b(), rng.choice([None, None, 1, 1, 2, -1, -2, 3, 0])]


def rand_ix(rng, n, good=0.7):
    """one key entry for a mode of size n"""
    r = rng.random()
    if r < 0.2:
        return ["slice", None, None, None] if rng.random() < 0.5 else rand_slice(rng, n)
    if r < 0.35:
        return rand_slice(rng, n)
    if r < 0.5:
        return ["int", rng.randrange(n) if (n and rng.random() < good) else rng.randint(-n - 1, n + 1), rng.random() < 0.3]
    if r < 0.95:
        if n and rng.random() < good:
            l = rng.sample(range(n), rng.randint(1, n))
        else:
            l = [rng.randint(-n - 1, n + 1) for _ in range(rng.randint(0, n + 1))]
        return ["list" if rng.random() < 0.6 else "arr", l]
    return ["none"]


def nda_cases(rng, big):
    out = []
    shapes = [[], [0], [1], [3], [2, 2], [2, 1], [1, 3], [1, 1], [0, 2], [2, 0], [3, 1], [2, 1, 1], [1, 1, 1], [0, 0]]
    for shp in shapes:
        n = 1
        for d in shp:
            n *= d
        for kind in ("int", "float", "bool"):
            for rep in range(6 if big else 3):
                if kind == "int":
                    data = [rng.choice([-2, -1, 0, 1, 2, 3, 7]) if rng.random() < 0.5 else rng.randint(1, 5) for _ in range(n)]
                elif kind == "bool":
                    data = [rng.randint(0, 1) for _ in range(n)]
                else:
                    data = [rng.choice([1.0, 2.0, 0.0, -1.0, 1.5, -0.5, "inf", "-inf", "nan", 3.0]) if rng.random() < 0.5
                            else float(rng.randint(1, 4)) for _ in range(n)]
                out.append({"shape": shp, "kind": kind, "data": data})
    return out


def gen_cases(rng, tier):
    big = tier == "thorough"
    cases = []
    # --- tt_renumberdim: mode sizes 0..4, every key family
    for n in range(0, 5):
        keys = [["int", k, False] for k in range(-n - 1, n + 2)] + [["none"]]
        bounds = [None] + list(range(-n - 1, n + 2))
        for a in bounds:
            for b in bounds:
                for st in (None, 1, 2, -1, -2, 0):
                    if big or rng.random() < 0.25:
                        keys.append(["slice", a, b, st])
        for r in range(0, n + 1):
            for p in itertools.permutations(range(n), r):
                if big or r <= 2 or rng.random() < 0.3:
                    keys.append(["list" if rng.random() < 0.5 else "arr", list(p)])
        for _ in range(20 if big else 8):      # repeated / negative / out-of-range entries
            keys.append(["list" if rng.random() < 0.5 else "arr", [rng.randint(-n - 1, n + 1) for _ in range(rng.randint(1, n + 2))]])
        for key in keys:
            idx = [rng.randrange(n) for _ in range(rng.randint(0, 4))] if n else []
            if rng.random() < 0.15:
                idx = idx + [rng.choice([-1, -n, n, n + 1, -n - 1])]
            cases.append(Case("renumberdim", {"idx": idx, "shape": n, "nr": key}, bool(idx)))
    cases.append(Case("renumberdim", {"idx": [0], "shape": -1, "nr": ["list", [0]]}, True))
    # --- tt_renumber / tt_irenumber
    for _ in range(1500 if big else 300):
        shp = [rng.randint(1, 4) for _ in range(rng.randint(1, 3))]
        rows = rng.choice([0, 0, 1, 2, 3, 4])
        subs = [[rng.randrange(d) for d in shp] for _ in range(rows)]
        nrs = [rand_ix(rng, d) for d in shp]
        if rng.random() < 0.08:
            nrs = nrs[:-1]                       # key shorter than the shape
        elif rng.random() < 0.08:
            nrs = nrs + [rand_ix(rng, 2)]
        if rng.random() < 0.5:                   # well-formed: every stored subscript lies inside the selected range
            nrs = []
            for j, d in enumerate(shp):
                r = rng.random()
                present = sorted({row[j] for row in subs})
                if r < 0.3:
                    nrs.append(["slice", None, None, None])
                elif r < 0.5 and present:
                    lo, hi = min(present), max(present) + 1
                    nrs.append(["slice", rng.choice([None, lo]) if lo == 0 else lo, rng.choice([None, hi]) if hi == d else hi, rng.choice([None, 1])])
                elif r < 0.6 and len(present) == 1:
                    nrs.append(["int", present[0], rng.random() < 0.3])
                else:
                    extra = [x for x in range(d) if x not in present and rng.random() < 0.5]
                    l = present + extra
                    rng.shuffle(l)
                    nrs.append(["list" if rng.random() < 0.6 else "arr", l])
        cases.append(Case("renumber", {"subs": subs, "shape": shp, "nrs": nrs, "layout": rng.randrange(4)}, rows > 0))
    for _ in range(1200 if big else 220):
        k = rng.randint(1, 3)
        rows = rng.choice([0, 1, 2, 3])
        tshape = [rng.randint(1, 3) for _ in range(k)]
        subs = [list(x) for x in dict.fromkeys(tuple(rng.randrange(d) for d in tshape) for _ in range(rows))]
        # destination key: one entry per destination mode; ints insert a column
        nrs, shp, j = [], [], 0
        while j < k:
            if rng.random() < 0.25:
                d = rng.randint(1, 4)
                nrs.append(["int", rng.randrange(d), rng.random() < 0.3])
                shp.append(d)
                continue
            d = tshape[j] + rng.randint(0, 2)
            r = rng.random()
            if r < 0.45:
                lo = rng.randint(0, d - tshape[j])
                nrs.append(["slice", rng.choice([None, lo]) if lo == 0 else lo, rng.choice([None, lo + tshape[j]]), rng.choice([None, 1, 2])])
            elif r < 0.9:
                l = rng.sample(range(d), tshape[j]) if rng.random() < 0.8 else [rng.randint(-1, d) for _ in range(rng.randint(0, tshape[j]))]
                nrs.append(["list" if rng.random() < 0.6 else "arr", l])
            else:
                nrs.append(rand_ix(rng, d))
            shp.append(d)
            j += 1
        if rng.random() < 0.1 and nrs:
            nrs = nrs[:-1]
        cases.append(Case("irenumber", {"subs": subs, "tshape": tshape, "shape": shp, "nrs": nrs}, bool(subs)))
    # --- get_index_variant: every key family
    keys = [["int", 3, False], ["int", 0, True], ["slice", None, None, None], ["slice", 1, 3, 2], ["none"],
            ["tuple", []], ["tuple", [1, 2]], ["tuple", [[1, 2], 3]], ["list", []], ["list", [1]], ["list", [1, 2, 3]],
            ["list", [[1, 2], [3, 4]]], ["list", [[1], [2]]], ["list", [1, [2]]], ["list", [[1], 2]], ["list", [[1, 2], [3]]],
            ["list", [[], []]], ["list", [0, [1, 2], 3]]]
    for a in nda_cases(rng, False):
        if a["kind"] == "int" or rng.random() < 0.3:
            keys.append(["arr", a])
    for _ in range(200 if big else 60):
        l = [rng.randint(0, 4) if rng.random() < 0.6 else [rng.randint(0, 3) for _ in range(rng.randint(0, 2))] for _ in range(rng.randint(0, 4))]
        keys.append([rng.choice(["list", "list", "tuple"]), l])
    for key in keys:
        cases.append(Case("index_variant", {"key": key}, True))
    # --- get_mttkrp_factors: ktensor / list of matrices, every n around the valid range, right and wrong ndims
    for _ in range(500 if big else 150):
        nd = rng.choice([1, 2, 2, 3, 3, 4])
        R = rng.randint(1, 3)
        fs = [[[rng.randint(-3, 4) for _ in range(R)] for _ in range(rng.randint(1, 3))] for _ in range(nd)]
        w = [rng.randint(-2, 3) for _ in range(R)]
        n = rng.randrange(nd) if rng.random() < 0.75 else rng.randint(-1, nd)
        ndims = nd if rng.random() < 0.85 else rng.randint(0, 5)
        if rng.random() < 0.6:
            cases.append(Case("mttkrp_factors", {"kt": {"w": w, "f": fs}, "seq": None, "n": n, "ndims": ndims}, True))
        else:
            fs2 = fs
            if rng.random() < 0.4:           # one factor with another column count (admissible only at the skipped mode)
                j = rng.randrange(nd)
                fs2 = [f if i != j else [row + [1] for row in f] for i, f in enumerate(fs)]
            cases.append(Case("mttkrp_factors", {"kt": None, "seq": fs2, "n": n, "ndims": ndims, "as_tuple": rng.random() < 0.3}, True))
        cases.append(Case("prim3_redistribute", {"kt": {"w": w, "f": fs}, "mode": rng.randint(-nd - 1, nd)}, True))
    # --- shape / subscript / value checks and the small predicates
    for a in nda_cases(rng, big):
        for nargout in (True, False):
            cases.append(Case("sizecheck", {"a": a, "nargout": nargout, "as_tuple": a["kind"] != "bool" and len(a["shape"]) == 1 and rng.random() < 0.5}, True))
            cases.append(Case("subscheck", {"a": a, "nargout": nargout}, True))
            cases.append(Case("valscheck", {"a": a, "nargout": nargout}, True))
        for op in ("isrow", "isvector", "islogical", "prim3_nd"):
            cases.append(Case(op, {"a": a}, True))
    # --- Np/NpZ3.v primitives
    for n in range(0, 6):
        bounds = [None] + list(range(-n - 2, n + 3))
        for a in bounds:
            for b in bounds:
                for st in (None, 1, 2, 3, -1, -2, -3, 0):
                    if big or rng.random() < 0.15:
                        cases.append(Case("prim3_slice", {"n": n, "s": [a, b, st]}, n > 0))
    for _ in range(400 if big else 120):
        k = rng.randint(1, 3)
        m = [[rng.randint(0, 5) for _ in range(k)] for _ in range(rng.randint(1, 4))]
        i = rng.randint(-k - 1, k + 1)
        cases.append(Case("prim3_col", {"m": m, "k": k, "i": i}, True))
        cases.append(Case("prim3_insert_col", {"m": m, "k": k, "i": i, "v": rng.randint(-3, 9)}, True))
        v = [rng.randint(10, 19) for _ in range(rng.choice([len(m), len(m), 1, len(m) + 1, 0]))]
        cases.append(Case("prim3_setcol", {"m": m, "k": k, "i": i, "v": v}, True))
        vec = [rng.randint(0, 5) for _ in range(rng.randint(0, 4))]
        j = rng.randint(-len(vec) - 1, len(vec) + 1)
        cases.append(Case("prim3_set", {"v": vec, "i": j, "x": rng.randint(20, 29)}, bool(vec)))
        idx = [rng.randint(-len(vec) - 1, len(vec)) for _ in range(rng.randint(0, 3))]
        cases.append(Case("prim3_take", {"v": vec, "idx": idx}, bool(vec)))
        x = rand_ix(rng, 3, good=0.5)
        cases.append(Case("prim3_ix", {"x": x, "i": rng.randint(-3, 3), "v": [rng.randint(-3, 3) for _ in range(rng.randint(0, 3))]}, True))
        cases.append(Case("prim3_opt_or", {"o": rng.choice([None, 0, 0, 1, -2, 5]), "d": rng.randint(-3, 7)}, True))
        rows = rng.choice([0, 1, 3])
        cases.append(Case("prim3_nnz", {"subs": [[rng.randrange(3) for _ in range(k)] for _ in range(rows)], "k": k}, True))
    # --- parse_shape / parse_one_d: ints, arrays of every layout and dtype kind, lists / tuples (ints, nested, ragged)
    shp_args = [["int", k, np_] for k in (-1, 0, 1, 4) for np_ in (False, True)]
    for a in nda_cases(rng, big):
        shp_args.append(["arr", a])
    for a in ([4, 1, 1], [1, 4], [1, 1, 3, 1], [2, 1, 2], [1], [1, 1]):
        n = 1
        for d in a:
            n *= d
        shp_args.append(["arr", {"shape": a, "kind": "int", "data": [rng.randint(1, 5) for _ in range(n)]}])
    for _ in range(120 if big else 40):
        r = rng.random()
        if r < 0.5:
            l = [rng.randint(0, 5) for _ in range(rng.randint(0, 4))]
        elif r < 0.75:
            w = rng.randint(0, 2)
            l = [[rng.randint(0, 5) for _ in range(w)] for _ in range(rng.randint(1, 3))]
        else:
            l = [rng.randint(0, 5) if rng.random() < 0.5 else [rng.randint(0, 5) for _ in range(rng.randint(0, 2))] for _ in range(rng.randint(1, 4))]
        shp_args.append([rng.choice(["list", "tuple"]), l])
    for x in shp_args:
        cases.append(Case("parse_shape", {"x": x}, True))
        cases.append(Case("parse_one_d", {"x": x}, True))
        if x[0] == "arr":
            cases.append(Case("prim3b_nd", {"a": x[1]}, True))
    # --- mttv_left / mttv_mid (Gen/GenKernels3.v): partial MTTKRP contractions; well-formed sizes and mismatches
    for _ in range(400 if big else 100):
        r = rng.randint(1, 3)
        n1, n2 = rng.randint(1, 3), rng.randint(1, 4)
        W = [[rng.randint(-3, 4) for _ in range(r)] for _ in range(n1 * n2)]
        U1 = [[rng.randint(-3, 4) for _ in range(r)] for _ in range(n1 if rng.random() < 0.85 else rng.randint(1, 4))]
        cases.append(Case("mttv_left", {"W": W, "U1": U1, "r": r, "layout": rng.randrange(3)}, True))
        k = rng.randint(0, 2)
        dims = [rng.randint(1, 3) for _ in range(k)]
        Us = [[[rng.randint(-2, 3) for _ in range(r)] for _ in range(d)] for d in dims]
        m = 1
        for d in dims:
            m *= d
        rows = m * rng.randint(1, 3) if rng.random() < 0.85 else rng.randint(1, 7)
        W2 = [[rng.randint(-3, 4) for _ in range(r)] for _ in range(rows)]
        cases.append(Case("mttv_mid", {"W": W2, "Us": Us, "r": r, "layout": rng.randrange(3)}, k > 0))
        j = rng.randint(-1, r)
        v1 = [rng.randint(-3, 4) for _ in range(n1 if rng.random() < 0.8 else n1 + 1)]
        v2 = [rng.randint(-3, 4) for _ in range(n2 if rng.random() < 0.8 else n2 + 1)]
        cases.append(Case("prim3c_dot", {"W": W, "r": r, "n1": n1, "n2": n2, "j": j, "v1": v1, "v2": v2}, True))
        cases.append(Case("prim3c_reshape", {"rows": rng.randint(0, 6), "r": rng.randint(0, 2), "n": rng.randint(-1, 4)}, True))
    # --- sptensor.allsubs (Gen/GenMethods2.v): every shape with <= 4 modes of sizes 1..3 (2 quick) and the empty shape
    #     (a mode of size 0 is outside the model: a 0 x 1 factor is not representable as a row list)
    cases.append(Case("method_allsubs", {"tshape": []}, False))
    for nd in range(1, 5):
        for shp in itertools.product(range(1, 4 if (big or nd <= 2) else 3), repeat=nd):
            cases.append(Case("method_allsubs", {"tshape": list(shp)}, len(shp) > 1))
    # --- methods with `self` as a record (Gen/GenMethods.v)
    for _ in range(150 if big else 50):
        k = rng.randint(1, 3)
        rows = rng.choice([0, 0, 1, 2, 4])
        tshape = [rng.randint(1, 3) for _ in range(k)]
        subs = [list(x) for x in dict.fromkeys(tuple(rng.randrange(d) for d in tshape) for _ in range(rows))]
        cases.append(Case("method_spt", {"subs": subs, "tshape": tshape}, bool(subs)))
        nd = rng.randint(1, 4)
        R = rng.randint(1, 3)
        fs = [[[rng.randint(-3, 4) for _ in range(R)] for _ in range(rng.randint(1, 3))] for _ in range(nd)]
        cases.append(Case("method_kt", {"kt": {"w": [rng.randint(1, 3) for _ in range(R)], "f": fs}}, True))
    return cases


# ------------------------------------------------------------------------------------------------- pyttb side
def run_impl(c):
    import numpy as np
    import pyttb as ttb
    import pyttb.pyttb_utils as U
    a = c.args
    try:
        if c.op == "renumberdim":
            idx = np.array(a["idx"], dtype=int)
            keep = idx.copy()
            nr = py_ix(np, a["nr"])
            newidx, newshape = U.tt_renumberdim(idx, a["shape"], nr)
            li = _ints(np, newidx)
            if li is None or not np.array_equal(idx, keep):
                return {"bad": "non-integer result or mutated input"}
            return {"ok": [li, int(newshape)]}
        if c.op == "renumber":
            k = len(a["shape"])
            subs = _mat(np, a["subs"], k, a.get("layout", 0))
            keep = subs.copy()
            nrs = [py_ix(np, x) for x in a["nrs"]]
            newsubs, newshape = U.tt_renumber(subs, tuple(a["shape"]), nrs)
            if not np.array_equal(subs, keep):
                return {"bad": "input subscripts mutated"}
            ns = np.asarray(newsubs)
            return {"ok": [[] if ns.size == 0 and ns.shape[0] == 0 else _ints(np, ns), [int(x) for x in newshape]]}
        if c.op == "irenumber":
            k = len(a["tshape"])
            if a["subs"]:
                t = ttb.sptensor(_mat(np, a["subs"], k), np.arange(1.0, len(a["subs"]) + 1)[:, None], tuple(a["tshape"]))
            else:
                t = ttb.sptensor(shape=tuple(a["tshape"]))
            keep = t.subs.copy()
            nrs = [py_ix(np, x) for x in a["nrs"]]
            r = np.asarray(U.tt_irenumber(t, tuple(a["shape"]), nrs))
            if not np.array_equal(t.subs, keep):
                return {"bad": "subscripts of the source tensor mutated"}
            return {"ok": [] if r.size == 0 and r.ndim == 1 else _ints(np, r)}
        if c.op == "index_variant":
            return {"ok": U.get_index_variant(py_key(np, a["key"])).name}
        if c.op == "mttkrp_factors":
            if a["kt"] is not None:
                Uarg = ttb.ktensor([np.array(m, dtype=float) for m in a["kt"]["f"]], np.array(a["kt"]["w"], dtype=float))
                before = (Uarg.weights.copy(), [f.copy() for f in Uarg.factor_matrices])
            else:
                Uarg = [np.array(m, dtype=float) for m in a["seq"]]
                if a.get("as_tuple"):
                    Uarg = tuple(Uarg)
            r = U.get_mttkrp_factors(Uarg, a["n"], a["ndims"])
            if a["kt"] is not None and not (np.array_equal(Uarg.weights, before[0])
                                            and all(np.array_equal(x, y) for x, y in zip(Uarg.factor_matrices, before[1]))):
                return {"bad": "the caller's ktensor was modified"}
            return {"ok": [_ints(np, m) for m in r]}
        if c.op in ("sizecheck", "subscheck", "valscheck"):
            arr = py_nda(np, a["a"])
            if c.op == "sizecheck":
                arg = tuple(arr.tolist()) if a.get("as_tuple") else arr
                return {"ok": bool(U.tt_sizecheck(arg, a["nargout"]))}
            fn = U.tt_subscheck if c.op == "subscheck" else U.tt_valscheck
            return {"ok": bool(fn(arr, a["nargout"]))}
        if c.op in ("isrow", "isvector", "islogical"):
            return {"ok": bool(getattr(U, c.op)(py_nda(np, a["a"])))}
        if c.op == "parse_shape":
            arg = py_shp(np, a["x"])
            r = U.parse_shape(arg)
            if not isinstance(r, tuple) or not all(isinstance(v, (int, np.integer)) for v in r):
                return {"bad": f"not a tuple of ints: {r!r}"}
            return {"ok": [int(v) for v in r]}
        if c.op == "parse_one_d":
            arg = py_shp(np, a["x"])
            keep = arg.copy() if isinstance(arg, np.ndarray) else None
            r = U.parse_one_d(arg)
            if keep is not None and not np.array_equal(arg, keep, equal_nan=True):
                return {"bad": "argument mutated"}
            return {"ok": obs_nda(np, r)}
        if c.op == "prim3b_nd":
            arr = py_nda(np, a["a"])
            sq = arr.squeeze()
            return {"ok": {"squeeze": obs_nda(np, sq), "expand": obs_nda(np, arr[None]),
                           "int0": int(arr) if (arr.size == 1 and a["a"]["kind"] == "int") else None,
                           "ints": [int(v) for v in arr] if (arr.ndim == 1 and a["a"]["kind"] == "int") else None}}
        if c.op in ("mttv_left", "mttv_mid"):
            from pyttb.tensor import mttv_left, mttv_mid

            def arr(m, cols):
                x = np.array(m, dtype=float).reshape((len(m), cols))
                return np.asfortranarray(x) if a["layout"] == 1 else (x[:, ::-1][:, ::-1] if a["layout"] == 2 else x)
            W = arr(a["W"], a["r"])
            keep = W.copy()
            if c.op == "mttv_left":
                out = mttv_left(W, arr(a["U1"], a["r"]))
            else:
                out = mttv_mid(W, [arr(u, a["r"]) for u in a["Us"]])
            if not np.array_equal(W, keep):
                return {"bad": "input mutated"}
            out = np.asarray(out)
            if out.ndim != 2:
                return {"bad": f"result has {out.ndim} axes"}
            return {"ok": _ints(np, out)}
        if c.op == "prim3c_dot":
            W = np.array(a["W"], dtype=float).reshape((len(a["W"]), a["r"]))
            X = np.reshape(W, (a["n1"], a["n2"], a["r"]), order="F")

            def t(f):
                try:
                    return ["ok", _ints(np, f())]
                except Exception:
                    return ["exc"]
            return {"ok": {"lead": t(lambda: X[:, :, a["j"]].transpose().dot(np.array(a["v1"], dtype=float))) if a["j"] >= 0 else ["exc"],
                           "mid": t(lambda: X[:, :, a["j"]].dot(np.array(a["v2"], dtype=float))) if a["j"] >= 0 else ["exc"],
                           "zeros": _ints(np, np.zeros_like(X, shape=(a["n2"], a["r"])))}}
        if c.op == "prim3c_reshape":
            W = np.zeros((a["rows"], a["r"]))

            def t(shape):
                try:
                    return [int(d) for d in np.reshape(W, shape, order="F").shape]
                except Exception:
                    return None
            return {"ok": {"lead": t((a["n"], -1, a["r"])), "mid": t((-1, a["n"], a["r"]))}}
        if c.op == "method_allsubs":
            t = ttb.sptensor(shape=tuple(a["tshape"]))
            r = np.asarray(t.allsubs())
            if r.ndim != 2 or not issubclass(r.dtype.type, np.integer):
                return {"bad": f"allsubs returned shape {r.shape} dtype {r.dtype}"}
            return {"ok": r.tolist()}
        if c.op == "method_spt":
            k = len(a["tshape"])
            t = ttb.sptensor(_mat(np, a["subs"], k), np.arange(1.0, len(a["subs"]) + 1)[:, None], tuple(a["tshape"])) if a["subs"] \
                else ttb.sptensor(shape=tuple(a["tshape"]))
            return {"ok": [int(t.nnz), int(t.ndims)]}
        if c.op == "method_kt":
            K = ttb.ktensor([np.array(m, dtype=float) for m in a["kt"]["f"]], np.array(a["kt"]["w"], dtype=float))
            return {"ok": [int(K.ndims), int(K.ncomponents)]}
        if c.op == "prim3_nd":
            arr = py_nda(np, a["a"])

            def t(f):
                try:
                    return bool(f())
                except Exception:
                    return None
            return {"ok": {"ndim": int(arr.ndim), "size": int(arr.size), "isint": bool(issubclass(arr.dtype.type, np.integer)),
                           "fin_all": t(lambda: np.isfinite(arr).all()), "gt_all": t(lambda: (arr > 0).all()), "ge_all": t(lambda: (arr >= 0).all()),
                           "fin_iter": t(lambda: all(np.isfinite(arr))), "gt_iter": t(lambda: all(arr > 0))}}
        if c.op == "prim3_slice":
            return {"ok": list(range(0, a["n"]))[slice(*a["s"])], "len": len(range(0, a["n"])[slice(*a["s"])])}
        if c.op == "prim3_col":
            return {"ok": [int(x) for x in _mat(np, a["m"], a["k"])[:, a["i"]]]}
        if c.op == "prim3_insert_col":
            return {"ok": _ints(np, np.insert(_mat(np, a["m"], a["k"]), obj=a["i"], values=a["v"], axis=1))}
        if c.op == "prim3_setcol":
            m = _mat(np, a["m"], a["k"])
            m[:, a["i"]] = np.array(a["v"], dtype=float)
            return {"ok": _ints(np, m)}
        if c.op == "prim3_set":
            v = np.array(a["v"], dtype=float)
            v[a["i"]] = a["x"]
            return {"ok": _ints(np, v)}
        if c.op == "prim3_take":
            return {"ok": _ints(np, np.array(a["v"], dtype=float)[np.array(a["idx"], dtype=int)])}
        if c.op == "prim3_opt_or":
            return {"ok": a["o"] or a["d"]}
        if c.op == "prim3_nnz":
            t = ttb.sptensor(_mat(np, a["subs"], a["k"]), np.ones((len(a["subs"]), 1)), tuple([3] * a["k"])) if a["subs"] \
                else ttb.sptensor(shape=tuple([3] * a["k"]))
            return {"ok": int(t.nnz)}
        if c.op == "prim3_redistribute":
            K = ttb.ktensor([np.array(m, dtype=float) for m in a["kt"]["f"]], np.array(a["kt"]["w"], dtype=float))
            K.redistribute(a["mode"])
            return {"ok": {"w": _ints(np, K.weights), "f": [_ints(np, m) for m in K.factor_matrices]}}
        if c.op == "prim3_ix":
            from collections.abc import Sequence
            x = py_ix(np, a["x"])

            def t(f):
                try:
                    r = f()
                    if isinstance(r, np.ndarray):
                        return ["ok", _ints(np, r)]
                    return ["ok", (bool(r) if isinstance(r, (bool, np.bool_)) else int(r))]
                except Exception:
                    return ["exc"]
            idxv = np.array(a["v"], dtype=int)
            return {"ok": {"is_int": isinstance(x, (int, np.integer)), "is_slice": isinstance(x, slice),
                           "is_list": isinstance(x, Sequence), "is_arr": isinstance(x, np.ndarray),
                           "noteq": t(lambda: not x == slice(None, None, None)), "len": t(lambda: len(x)),
                           "nth": t(lambda: x[a["i"]]) if not isinstance(x, slice) else ["exc"],
                           "take": t(lambda: np.array(x)[idxv]) if a["x"][0] != "none" and not isinstance(x, slice) else ["exc"]}}
    except Exception as ex:
        return {"exc": type(ex).__name__}
    raise ValueError(c.op)


# ------------------------------------------------------------------------------------------------- model side
def _res(eqb, call, o, lit):
    if "bad" in o:
        return "false"
    exp = "Err" if "exc" in o else f"(Ok {lit(o['ok'])})"
    return f"res_eqb {eqb} ({call}) {exp}"


def coq_check(c, o):
    a = c.args
    if c.op == "renumberdim":
        return _res("(pair_eqb vec_eqb Z.eqb)", f"tt_renumberdim {gzlist(a['idx'])} {gz(a['shape'])} {gix(a['nr'])}", o,
                    lambda r: f"({gzlist(r[0])}, {gz(r[1])})")
    if c.op == "renumber":
        return _res("(pair_eqb mat_eqb vec_eqb)", f"tt_renumber {gzmat(a['subs'])} {gzlist(a['shape'])} {gixlist(a['nrs'])}", o,
                    lambda r: f"({gzmat(r[0])}, {gzlist(r[1])})")
    if c.op == "irenumber":
        t = f"(mkspt {gzmat(a['subs'])} {gzlist(list(range(1, len(a['subs']) + 1)))} {gzlist(a['tshape'])})"
        return _res("mat_eqb", f"tt_irenumber {t} {gzlist(a['shape'])} {gixlist(a['nrs'])}", o, gzmat)
    if c.op == "index_variant":
        return _res("ivar_eqb", f"get_index_variant {gkey(a['key'])}", o, lambda r: r)
    if c.op == "mttkrp_factors":
        u = f"(UKt {gkt(a['kt'])})" if a["kt"] is not None else f"(USeq {gmatlist(a['seq'])})"
        return _res("matlist_eqb", f"get_mttkrp_factors {u} {gz(a['n'])} {gz(a['ndims'])}", o, gmatlist)
    if c.op in ("sizecheck", "subscheck", "valscheck"):
        return _res("Bool.eqb", f"tt_{c.op} {gnda(a['a'])} {gbool(a['nargout'])}", o, gbool)
    if c.op in ("isrow", "isvector", "islogical"):
        return _res("Bool.eqb", f"{c.op} {gnda(a['a'])}", o, gbool)
    if c.op == "parse_shape":
        return _res("vec_eqb", f"parse_shape {gshp(a['x'])}", o, gzlist)
    if c.op == "parse_one_d":
        if "bad" in o:
            return "false"
        if "exc" in o:
            return f"match parse_one_d {gshp(a['x'])} with Err => true | Ok _ => false end"
        r = o["ok"]
        if r["kind"] == "other":
            return "false"
        # lists: only shape and kind of np.array(list) are modelled; arrays / ints: the entries too
        full = "nd_eqb" if a["x"][0] != "arr" or True else "nd_eqb"
        return f"match parse_one_d {gshp(a['x'])} with Ok r_ => {full} r_ {gnda(r)} | Err => false end"
    if c.op == "prim3b_nd":
        x, r = gnda(a["a"]), o["ok"]
        parts = [f"nd_eqb (nd_squeeze {x}) {gnda(r['squeeze'])}", f"nd_eqb (nd_expand0 {x}) {gnda(r['expand'])}"]
        if r["int0"] is not None:
            parts.append(f"((nd_size {x} =? 1) && (nd_int0 {x} =? {gz(r['int0'])}))%Z")
        if r["ints"] is not None:
            parts.append(f"vec_eqb (nd_ints {x}) {gzlist(r['ints'])}")
        return " && ".join(parts)
    if c.op == "mttv_left":
        return _res("mat_eqb", f"mttv_left {gzmat(a['W'])} {gzmat(a['U1'])}", o, gzmat)
    if c.op == "mttv_mid":
        return _res("mat_eqb", f"mttv_mid {gzmat(a['W'])} {gmatlist(a['Us'])}", o, gzmat)
    if c.op == "prim3c_dot":
        if "ok" not in o:
            return "false"
        x = f"(mkt3 {gz(a['n1'])} {gz(a['n2'])} {gz(a['r'])} {gzmat(a['W'])})"
        parts = [f"mat_eqb (np_zeros2 {gz(a['n2'])} {gz(a['r'])}) {gzmat(o['ok']['zeros'])}"]
        for key, fn, v in (("lead", "t3_dot_lead", a["v1"]), ("mid", "t3_dot_mid", a["v2"])):
            call = f"{x} {gz(a['j'])} {gzlist(v)}"
            if o["ok"][key][0] == "exc":
                parts.append(f"negb ({fn}_ok {call})")
            else:
                parts.append(f"({fn}_ok {call} && vec_eqb ({fn} {call}) {gzlist(o['ok'][key][1])})")
        return " && ".join(parts)
    if c.op == "prim3c_reshape":
        if "ok" not in o:
            return "false"
        w = gzmat([[0] * a["r"] for _ in range(a["rows"])])
        parts = []
        for key, fn in (("lead", "np_reshape3_lead"), ("mid", "np_reshape3_mid")):
            call = f"{w} {gz(a['n'])} {gz(a['r'])}"
            shp = o["ok"][key]
            if a["r"] == 0 and a["rows"] > 0:
                continue                 # rows of length 0: a (rows x 0) array is not distinguishable from other widths in the model
            if shp is None:
                parts.append(f"negb ({fn}_ok {call})")
            else:
                parts.append(f"({fn}_ok {call} && vec_eqb [t3_n1 ({fn} {call}); t3_n2 ({fn} {call}); t3_r ({fn} {call})]%list {gzlist(shp)})")
        return " && ".join(parts) if parts else "true"
    if c.op == "method_allsubs":
        return _res("mat_eqb", f"sptensor_allsubs (mkspt (@nil (list Z)) (@nil Z) {gzlist(a['tshape'])})", o, gzmat)
    if c.op == "method_spt":
        t = f"(mkspt {gzmat(a['subs'])} {gzlist(list(range(1, len(a['subs']) + 1)))} {gzlist(a['tshape'])})"
        return (f"res_eqb Z.eqb (sptensor_nnz {t}) (Ok {gz(o['ok'][0])}) && res_eqb Z.eqb (sptensor_ndims {t}) (Ok {gz(o['ok'][1])})"
                if "ok" in o else "false")
    if c.op == "method_kt":
        return (f"res_eqb Z.eqb (ktensor_ndims {gkt(a['kt'])}) (Ok {gz(o['ok'][0])}) && "
                f"res_eqb Z.eqb (ktensor_ncomponents {gkt(a['kt'])}) (Ok {gz(o['ok'][1])})" if "ok" in o else "false")
    if c.op.startswith("prim3_") and ("exc" in o or "bad" in o) and c.op not in ("prim3_col", "prim3_insert_col", "prim3_setcol", "prim3_set",
                                                                                 "prim3_take", "prim3_slice", "prim3_redistribute"):
        return "false"
    if c.op == "prim3_nd":
        x, r = gnda(a["a"]), o["ok"]

        def guarded(ok, val, obs):      # Python raised <-> guard false; otherwise the values agree
            if obs is None:
                return f"negb ({ok})"
            return f"({ok}) && Bool.eqb ({val}) {gbool(obs)}"
        return " && ".join([f"(nd_ndim {x} =? {gz(r['ndim'])})%Z", f"(nd_size {x} =? {gz(r['size'])})%Z",
                            f"Bool.eqb (nd_is_integer {x}) {gbool(r['isint'])}",
                            f"Bool.eqb (ndb_all (nd_isfinite {x})) {gbool(r['fin_all'])}",
                            f"Bool.eqb (ndb_all (nd_gt_s {x} 0%Z)) {gbool(r['gt_all'])}",
                            f"Bool.eqb (ndb_all (nd_ge_s {x} 0%Z)) {gbool(r['ge_all'])}"]
                           + ([guarded(f"ndb_iter_ok (nd_isfinite {x})", f"ndb_all (nd_isfinite {x})", r["fin_iter"]),
                               guarded(f"ndb_iter_ok (nd_gt_s {x} 0%Z)", f"ndb_all (nd_gt_s {x} 0%Z)", r["gt_iter"])]
                              if len(a["a"]["shape"]) == 1 else []))
    if c.op == "prim3_slice":
        s = gslice(a["s"])
        if "exc" in o:
            return f"negb (slice_ok {s})"
        l = f"(np_arange 0%Z {gz(a['n'])})"
        return f"slice_ok {s} && vec_eqb (py_slice 0%Z {l} {s}) {gzlist(o['ok'])} && (zlen (py_slice 0%Z {l} {s}) =? {gz(o['len'])})%Z"
    if c.op == "prim3_col":
        call = f"{gzmat(a['m'])} {gz(a['i'])}"
        return f"negb (np_col_ok {call})" if "exc" in o else f"np_col_ok {call} && vec_eqb (np_col {call}) {gzlist(o['ok'])}"
    if c.op == "prim3_insert_col":
        ok = f"np_insert_col_ok {gzmat(a['m'])} {gz(a['i'])}"
        return f"negb ({ok})" if "exc" in o else f"{ok} && mat_eqb (np_insert_col {gzmat(a['m'])} {gz(a['i'])} {gz(a['v'])}) {gzmat(o['ok'])}"
    if c.op == "prim3_setcol":
        call = f"{gzmat(a['m'])} {gz(a['i'])} {gzlist(a['v'])}"
        return f"negb (np_setcol_ok {call})" if "exc" in o else f"np_setcol_ok {call} && mat_eqb (np_setcol {call}) {gzmat(o['ok'])}"
    if c.op == "prim3_set":
        ok = f"idx_ok {gzlist(a['v'])} {gz(a['i'])}"
        return f"negb ({ok})" if "exc" in o else f"{ok} && vec_eqb (np_set {gzlist(a['v'])} {gz(a['i'])} {gz(a['x'])}) {gzlist(o['ok'])}"
    if c.op == "prim3_take":
        call = f"{gzlist(a['v'])} {gzlist(a['idx'])}"
        return f"negb (np_take_ok {call})" if "exc" in o else f"np_take_ok {call} && vec_eqb (np_take 0%Z {call}) {gzlist(o['ok'])}"
    if c.op == "prim3_opt_or":
        return f"(opt_or {gopt(a['o'], gz)} {gz(a['d'])} =? {gz(o['ok'])})%Z && Bool.eqb (opt_truthy {gopt(a['o'], gz)}) {gbool(bool(a['o']))}"
    if c.op == "prim3_nnz":
        return f"(spt_nnz (mkspt {gzmat(a['subs'])} (@nil Z) (@nil Z)) =? {gz(o['ok'])})%Z"
    if c.op == "prim3_redistribute":
        ok = f"kt_redistribute_ok {gkt(a['kt'])} {gz(a['mode'])}"
        gen = f"ktensor_redistribute {gkt(a['kt'])} {gz(a['mode'])}"       # the generated method (Gen/GenMethods3.v)
        if "exc" in o:
            return f"negb ({ok}) && match {gen} with Err => true | Ok _ => false end"
        return (f"{ok} && kt_eqb (kt_redistribute {gkt(a['kt'])} {gz(a['mode'])}) {gkt(o['ok'])} && "
                f"match {gen} with Ok k_ => kt_eqb k_ {gkt(o['ok'])} | Err => false end")
    if c.op == "prim3_ix":
        x, r = gix(a["x"]), o["ok"]
        parts = [f"Bool.eqb (ix_is_int {x}) {gbool(r['is_int'])}", f"Bool.eqb (ix_is_slice {x}) {gbool(r['is_slice'])}",
                 f"Bool.eqb (ix_is_list {x}) {gbool(r['is_list'])}", f"Bool.eqb (ix_is_arr {x}) {gbool(r['is_arr'])}"]
        if r["noteq"][0] == "exc":
            parts.append(f"negb (ix_eq_ok {x})")
        else:
            parts.append(f"ix_eq_ok {x} && Bool.eqb (negb (ix_is_fullslice {x})) {gbool(r['noteq'][1])}")
        if r["len"][0] == "exc":
            parts.append(f"negb (ix_len_ok {x})")
        else:
            parts.append(f"ix_len_ok {x} && (ix_len {x} =? {gz(r['len'][1])})%Z")
        if r["nth"][0] == "exc":
            parts.append(f"negb (ix_idx_ok {x} {gz(a['i'])})")
        else:
            parts.append(f"ix_idx_ok {x} {gz(a['i'])} && (ix_nth {x} {gz(a['i'])} =? {gz(r['nth'][1])})%Z")
        ax = f"(ix_asarray {x})"
        if r["take"][0] == "exc":
            parts.append(f"negb (ix_take_ok {ax} {gzlist(a['v'])})")
        else:
            parts.append(f"ix_take_ok {ax} {gzlist(a['v'])} && vec_eqb (ix_take {ax} {gzlist(a['v'])}) {gzlist(r['take'][1])}")
        return " && ".join(f"({p})" for p in parts)
    raise ValueError(c.op)


# ------------------------------------------------------------------------------------------------- oracle
def _selection(x, d):
    """the list of source indices a key entry selects in a mode of size d (None: not a well-formed selection)"""
    k = x[0]
    if k == "slice":
        if x[3] == 0:
            return None
        return list(range(d))[slice(x[1], x[2], x[3])]
    if k in ("list", "arr"):
        l = x[1]
        if len(set(l)) != len(l) or any(not (0 <= v < d) for v in l):
            return None
        return list(l)
    return None


def oracle(c, o):
    """independent brute-force reading of what the properties demand of pyttb's own output (pure Python, no numpy)"""
    a = c.args
    if c.op == "renumberdim":
        if a["nr"][0] == "int" and a["shape"] >= 0 and all(-a["shape"] <= v < a["shape"] for v in a["idx"]):
            want = [[0] * len(a["idx"]), 0]
            return None if o.get("ok") == want else f"integer key: tt_renumberdim returned {o}, expected {want}"
        sel = _selection(a["nr"], a["shape"]) if a["shape"] >= 0 else None
        if sel is None or any(v not in sel for v in a["idx"]):
            return None          # ints, None, repeated / out-of-range keys, subscripts outside the selection: not judged
        if "ok" not in o:
            return f"well-formed renumbering request rejected ({o})"
        want = [[sel.index(v) for v in a["idx"]], len(sel)]
        return None if o["ok"] == want else f"tt_renumberdim returned {o['ok']}, positions within the selection are {want}"
    if c.op == "renumber":
        shp, nrs, subs = a["shape"], a["nrs"], a["subs"]
        if len(nrs) != len(shp) or not subs:
            return None
        sels = [_selection(x, d) for x, d in zip(nrs, shp)]
        if any(x[0] == "arr" and len(x[1]) != 1 for x in nrs):
            return None          # ndarray entries: `not (array == slice)` is ambiguous for size != 1 (recorded, not judged)
        if any(s is None for s in sels) or any(row[j] not in sels[j] for row in subs for j in range(len(shp))):
            return None
        if "ok" not in o:
            return f"well-formed renumbering request rejected ({o})"
        want = [[[sels[j].index(row[j]) for j in range(len(shp))] for row in subs], [len(s) for s in sels]]
        return None if o["ok"] == want else f"tt_renumber returned {o['ok']}, expected {want}"
    if c.op == "mttkrp_factors" and a["kt"] is None:
        fs, n = a["seq"], a["n"]
        adm = a["ndims"] == len(fs) and 0 <= n < len(fs) and len({len(f[0]) for i, f in enumerate(fs) if i != n}) <= 1
        if not adm:
            return None if "exc" in o else f"inadmissible factor list (mode, count or column counts) was answered: {o}"
        return None if o.get("ok") == fs else f"admissible factor list answered with {o}"
    if c.op == "mttkrp_factors":
        nd = len(a["kt"]["f"])
        if a["ndims"] != nd or not (0 <= a["n"] < nd) or nd < 2:
            return None if ("exc" in o or nd < 2) else "inadmissible mode / factor count accepted"
        if "ok" not in o:
            return f"admissible request rejected ({o})"
        j = 1 if a["n"] == 0 else 0
        want = [[[x * (w if m == j else 1) for x, w in zip(row, a["kt"]["w"])] for row in f] for m, f in enumerate(a["kt"]["f"])]
        if o["ok"][a["n"]] != a["kt"]["f"][a["n"]]:
            return f"the skipped factor {a['n']} was changed (weights must go into another factor)"
        return None if o["ok"] == want else f"factors {o['ok']} are not the factors with the weights absorbed into mode {j}: {want}"
    if c.op == "irenumber":
        # judged only for keys made of in-range duplicate-free lists / arrays and ints (slices: known finding C04-N04)
        subs, nrs = a["subs"], a["nrs"]
        if not subs:
            return None if o.get("ok") == [] else f"nothing stored but subscripts {o} were produced"
        if any(x[0] not in ("list", "arr", "int") for x in nrs):
            return None
        cols = [x for x in nrs if x[0] != "int"]
        if len(cols) != len(a["tshape"]):
            return None
        for j, x in enumerate(cols):
            if any(not (0 <= row[j] < len(x[1])) for row in subs) or any(v < 0 for v in x[1]):
                return None
        if "ok" not in o:
            return f"well-formed assignment key rejected ({o})"
        want = []
        for row in subs:
            j, out = 0, []
            for x in nrs:
                if x[0] == "int":
                    out.append(x[1])
                else:
                    out.append(x[1][row[j]])
                    j += 1
            want.append(out)
        return None if o["ok"] == want else f"tt_irenumber returned {o['ok']}, destination subscripts are {want}"
    if c.op == "mttv_left":
        W, U1, r = a["W"], a["U1"], a["r"]
        n1 = len(U1)
        if len(W) % n1 != 0:
            return None if "exc" in o else "row count not divisible by the factor's rows, but answered"
        n2 = len(W) // n1
        want = [[sum(W[x + n1 * b][j] * U1[x][j] for x in range(n1)) for j in range(r)] for b in range(n2)]
        return None if o.get("ok") == want else f"mttv_left gave {o}, the contraction of the leading mode is {want}"
    if c.op == "mttv_mid":
        W, Us, r = a["W"], a["Us"], a["r"]
        if not Us:
            return None if o.get("ok") == W else f"no middle factor but the partial result changed: {o}"
        K = [[1] * r]
        for U in Us[::-1]:         # khatrirao(*U_mid, reverse=True): the LAST factor is slowest
            K = [[p[j] * q[j] for j in range(r)] for p in K for q in U]
        n2 = len(K)
        if len(W) % n2 != 0:
            return None if "exc" in o else "row count not divisible by the Khatri-Rao rows, but answered"
        n1 = len(W) // n2
        want = [[sum(W[x + n1 * b][j] * K[b][j] for b in range(n2)) for j in range(r)] for x in range(n1)]
        return None if o.get("ok") == want else f"mttv_mid gave {o}, the contraction of the trailing modes is {want}"
    if c.op == "method_allsubs":
        import itertools as it
        want = [list(x) for x in it.product(*[range(d) for d in a["tshape"]])]     # last index fastest
        return None if o.get("ok") == want else f"allsubs of shape {a['tshape']} is {o}, every subscript once (last index fastest) is {want}"
    if c.op == "parse_one_d":
        x = a["x"]
        if x[0] == "int":
            want = {"shape": [1], "kind": "int", "data": [x[1]]}
        elif x[0] == "arr":
            big_axes = [d for d in x[1]["shape"] if d != 1]
            if len(big_axes) > 1:
                return None if "exc" in o else f"array with two non-trivial axes was answered with {o}"
            want = {"shape": big_axes or [1], "kind": x[1]["kind"], "data": x[1]["data"]}
            if x[1]["kind"] == "float":
                return None if ("ok" in o and o["ok"]["shape"] == want["shape"]) else f"parse_one_d gave {o}, expected shape {want['shape']}"
        elif all(isinstance(e, int) for e in x[1]) and x[1]:
            want = {"shape": [len(x[1])], "kind": "int", "data": list(x[1])}
        else:
            return None
        return None if o.get("ok") == want else f"parse_one_d({x}) gave {o}, expected {want}"
    if c.op == "parse_shape":
        x = a["x"]
        if x[0] == "int":
            want = [x[1]]
        elif x[0] in ("list", "tuple"):
            want = list(x[1]) if all(isinstance(e, int) for e in x[1]) else None
        else:
            big_axes = [d for d in x[1]["shape"] if d != 1]
            want = [int(v) for v in x[1]["data"]] if (x[1]["kind"] == "int" and len(big_axes) <= 1) else None
        if want is None:
            return None if "exc" in o else f"malformed shape argument {x} was answered with {o}"
        return None if o.get("ok") == want else f"parse_shape({x}) gave {o}, expected {want}"
    if c.op == "index_variant":
        k = a["key"]
        if k[0] in ("int", "slice"):
            want = "LINEAR"
        elif k[0] == "arr":
            want = "LINEAR" if len(k[1]["shape"]) == 1 else "SUBSCRIPTS"
        elif k[0] == "tuple":
            want = "SUBTENSOR"
        elif k[0] == "list" and k[1] and all(isinstance(e, int) for e in k[1]):
            want = "LINEAR"
        else:
            return None
        return None if o.get("ok") == want else f"key {k} classified as {o}, expected {want}"
    if c.op in ("valscheck", "isrow", "isvector", "islogical"):
        shp = a["a"]["shape"]
        n = 1
        for d in shp:
            n *= d
        if c.op == "valscheck":
            good = n == 0 or (len(shp) == 2 and shp[1] == 1)
            if "exc" in o:
                return None if (not good and not a["nargout"]) else f"valscheck raised {o['exc']}"
            if o.get("ok") != good:
                return f"valscheck answered {o} for an array of shape {shp}"
            return "assert-mode check returned instead of raising" if (not good and not a["nargout"]) else None
        want = {"isrow": len(shp) == 2 and shp[0] == 1 and shp[1] >= 1,
                "isvector": len(shp) == 1 or (len(shp) == 2 and (shp[0] == 1 or shp[1] == 1)), "islogical": False}[c.op]
        return None if o.get("ok") == want else f"{c.op} answered {o} for an array of shape {shp}"
    if c.op in ("sizecheck", "subscheck"):
        arr = a["a"]
        n = 1
        for d in arr["shape"]:
            n *= d
        need = 1 if c.op == "sizecheck" else 2
        lo = 1 if c.op == "sizecheck" else 0
        good = n == 0 or (len(arr["shape"]) == need and arr["kind"] == "int" and all(v >= lo for v in arr["data"]))
        if "exc" in o:
            return None if (not good and not a["nargout"]) else f"{c.op} raised {o['exc']}"
        if "ok" not in o:
            return str(o)
        if o["ok"] != good:
            return f"{c.op} answered {o['ok']} for {arr}"
        if not good and not a["nargout"]:
            return "assert-mode check returned instead of raising"
        return None
    return None


# ---- known findings -----------------------------------------------------------------------------------------

def _ndarray_key_witness():
    """W3-N01: an ndarray entry with != 1 elements in a subtensor key of sptensor.__getitem__ (through tt_renumber)"""
    import numpy as np
    import pyttb as ttb
    S = ttb.sptensor(np.array([[0, 1], [1, 2], [2, 0]]), np.array([[3.0], [4.0], [5.0]]), (3, 3))
    try:
        r = S[np.array([0, 1]), :]
    except ValueError as ex:
        return f"S[np.array([0, 1]), :] raises ValueError ({str(ex)[:60]}...) while S[[0, 1], :] answers"
    want = S[[0, 1], :]
    if sorted(map(tuple, r.subs.tolist())) != sorted(map(tuple, want.subs.tolist())):
        return f"S[np.array([0, 1]), :] stores {r.subs.tolist()}, the list key gives {want.subs.tolist()}"
    return None


def _renumber_ndarray_entry(c):
    return c.op == "renumber" and any(x[0] == "arr" and len(x[1]) != 1 for x in c.args["nrs"])


TRIGGERS = {"renumber_ndarray_entry": _renumber_ndarray_entry}
WITNESSES = {"W3-N01": _ndarray_key_witness}
