(* Model/C01W5H.v — Z instances and boolean comparers of Model/C01W5.v for the generated cases (fifth wave). *)
From Coq Require Import List Arith Bool ZArith.
From PV Require Import Base.Index Base.Perm Base.Sum Np.Array Model.Sparse Model.Repr Model.Harness Model.C07Ops Model.C01Conv
  Model.C01Unique Model.C01Coo Model.C01Ttm Model.C01W3 Model.C01W5.
Import ListNotations.

Definition zspdot := spdot_ref 0%Z Z.add Z.mul zisz.
Definition zholder_full := holder_full (V:=Z) 0%Z.
Definition zfac_matrix := fac_matrix (V:=Z) 0%Z Z.add.
Definition zttm_chain := ttm_chain 0%Z Z.add Z.mul zisz zspdot.
Definition zttm_pairs := ttm_pairs 0%Z Z.add Z.mul.
Definition ztfull_fac := ttensor_full_fac 0%Z Z.add Z.mul zisz zspdot.

(* ttensor.full() of (core, ndarray / coo factors): the route as executed, the subscript-level Tucker array of the densified
   operands and the Tucker denotation all equal what pyttb returned *)
Definition tfull_fac_ok (core : holder Z) (Fs : list (factor Z)) (o : option (dense Z)) : bool :=
  match o with
  | Some d =>
      let T := mkT (zholder_full core) (map zfac_matrix Fs) in
      opt_eqb dense_eqb (ztfull_fac core Fs) (Some d) && den_matches (tshape T) (zden_t T) d
  | None => match ztfull_fac core Fs with None => true | Some _ => false end
  end.

(* a stored sparse tensor is well-formed: one value per subscript row, rows distinct and inside the shape, no stored zero *)
Definition zwf_spb (G : sparse Z) : bool := wf_spb zisz G.
Definition holder_okb (h : holder Z) : bool := match h with HD _ => true | HS G => zwf_spb G end.

(* X.ttm(list, dims): the returned object (either container) densifies to the model's chain result and to the sequence of
   subscript-level mode products *)
Definition ttm_list_ok (recv : holder Z) (ps : list (nat * factor Z)) (o : option (holder Z)) : bool :=
  match o with
  | Some h =>
      holder_okb h &&
      opt_eqb dense_eqb (option_map zholder_full (zttm_chain recv ps)) (Some (zholder_full h)) &&
      dense_eqb (zttm_pairs (zholder_full recv) ps) (zholder_full h)
  | None => match zttm_chain recv ps with None => true | Some _ => false end
  end.

(* ---------------------------------------------------------------- sumtensor histories (Model/C01W5Sum.v) *)
From PV Require Import Model.C01W4 Model.C01W5Sum.
Definition zsum_history_full := sum_history_full 0%Z Z.add Z.mul Z.opp zisz.
Definition zhist_val := hist_val 0%Z 1%Z Z.add Z.mul Z.opp.
Definition zpart4_den := part4_den 0%Z 1%Z Z.add Z.mul.
(* sumtensor(parts).<history>.full(): the route as executed equals pyttb's result, which holds at every subscript the value
   the history prescribes; a refused history (shape assertion of a constructor on the way) must be refused by pyttb as well *)
Definition sum_hist_ok (s : shape) (parts : list (part4 Z)) (ops : list (sop Z)) (o : option (dense Z)) : bool :=
  match o with
  | Some d =>
      opt_eqb dense_eqb (zsum_history_full parts ops) (Some d) &&
      den_matches s (fun i => zhist_val (den_sum 0%Z Z.add (map zpart4_den parts) i) ops i) d
  | None => match zsum_history_full parts ops with None => true | Some _ => false end
  end.
